(* DocLevel - the per-segment link theorems of C03, C04, C05 and C10 composed over a whole generated
   document (multi-segment mode).  Only statements, each closed by [exact]; see Proofs/DocLevel.v.
   Hypotheses: the generator succeeds ([gen_normal d rt = Ok w]) and the document meets the boolean
   condition [doc_link_wf d rt] (Spec/DocLevel.v; see ex_doc_link_wf).  Conclusions are about
   [exec_script env senv ext final (wo_script w) (init_state u)] for EVERY previous-pass environment
   [env]/[senv], every set of object symbols [ext], both kinds of pass [final] and every object
   universe [u] without negative sizes - hence about every pass of [layout], stated as the
   [..._layout] corollaries. *)
From Slinky Require Import Model.Types Model.Runtime Model.Style Model.Script Model.Writer Model.LdSem.
From Slinky Require Import Spec.C17 Spec.C04 Spec.C03 Spec.C05 Spec.C10 Spec.DocLevel.
From Slinky Require Import Proofs.C18 Proofs.C17 Proofs.C04 Proofs.C03 Proofs.C10 Proofs.DocLevel.
From Coq Require Import ZArith.
Local Open Scope string_scope.
Local Open Scope Z_scope.

(* ====================================================================== *)
(* 1. the script and what LdSem executes                                   *)
(* ====================================================================== *)

(* the script is "version comment; SECTIONS { begin; the statements of each INCLUDED segment in
   document order (seg_chain: each produced by add_segment from the writer state the previous one
   left); end }; tail", and executing it is executing the SECTIONS body and then the tail with
   exec_top_stmt *)
Theorem DocLevel_script_shape : forall d rt w,
  gen_normal d rt = Ok w -> single_segment_mode (doc_settings d) = false ->
  let stg := doc_settings d in
  let classes := doc_vram_classes d in
  exists parts ws',
    seg_chain rt stg classes (included rt (doc_segments d)) ws0 parts ws' /\
    fold_out (add_segment rt stg cfg_normal classes) (doc_segments d) ws0 = Ok (List.concat parts, ws') /\
    wo_script w = (version_stmts rt ++
                   [SSections (begin_sections_body stg ++ List.concat parts ++ end_sections_body stg classes ws')] ++
                   tail_stmts rt d)%list /\
    forall env senv ext final st,
      exec_script env senv ext final (wo_script w) st =
      run env senv ext final (tail_stmts rt d)
          (run env senv ext final
               (begin_sections_body stg ++ List.concat parts ++ end_sections_body stg classes ws') st).
Proof. exact script_shape. Qed.

(* for any script: exec_script executes the script with the SECTIONS bodies spliced in *)
Theorem DocLevel_exec_flat : forall env senv ext final script st,
  exec_script env senv ext final script st = run env senv ext final (flat_stmts script) st.
Proof. exact exec_script_flat. Qed.

(* a well-formed document: the statements executed, and the facts packed in doc_link_wf *)
Theorem DocLevel_wf_facts : forall d rt w,
  gen_normal d rt = Ok w -> doc_link_wf d rt = true ->
  let stg := doc_settings d in
  let sty := linker_symbols_style stg in
  let classes := doc_vram_classes d in
  let segs := included rt (doc_segments d) in
  exists body ws',
    fold_out (add_segment rt stg cfg_normal classes) (doc_segments d) ws0 = Ok (body, ws') /\
    NoDup (out_names segs) /\
    (forall seg, In seg segs ->
       seg_link_wf sty (begin_sections_body stg ++ body ++
                        end_sections_body stg classes ws' ++ tail_stmts rt d) seg = true) /\
    (forall cn, In cn (used_classes rt (doc_segments d)) ->
       class_link_wf sty body (end_sections_body stg classes ws' ++ tail_stmts rt d) cn = true) /\
    no_assign "__romPos" (tail_stmts rt d) = true /\
    forall env senv ext final st,
      exec_script env senv ext final (wo_script w) st =
      run env senv ext final
          (begin_sections_body stg ++ body ++ end_sections_body stg classes ws' ++ tail_stmts rt d) st.
Proof. exact doc_exec. Qed.

(* ====================================================================== *)
(* 2. C04 over the document                                                *)
(* ====================================================================== *)

(* In the state at the END of the pass, for the included segments s_1..s_n in document order
   (RomChain, Spec/C04.v, started at 0): ROM_START(s_1) = align_up 0 sa_1;
   ROM_START(s_k+1) = align_up (ROM_END(s_k)) sa_k+1; ROM_END(s_k) = align_up (ROM_START(s_k) + size of
   the output section .s_k) ea_k; ROM_SIZE = ROM_END - ROM_START; the section .s_k is loadable with
   load address ROM_START(s_k); after the last segment __romPos = ROM_END(s_n).  The section .s_k.noload
   is NOLOAD and has no file contents.  Precise error condition: no LForwardRef for the allocatable
   section of an included segment (its address expression could be evaluated in this pass). *)
Theorem C04_document_rom_chain : forall env senv ext final d rt w u,
  gen_normal d rt = Ok w -> doc_link_wf d rt = true ->
  Forall (fun x => 0 <= u_size x) u ->
  let sty := linker_symbols_style (doc_settings d) in
  let segs := included rt (doc_segments d) in
  let st' := exec_script env senv ext final (wo_script w) (init_state u) in
  (forall seg, In seg segs -> ~ In (LForwardRef (alloc_name seg)) (l_errors st')) ->
  RomChain sty st' 0 segs /\ NoloadSections st' segs.
Proof. exact document_rom_chain. Qed.

Theorem C04_document_rom_chain_layout : forall d rt w u ext0,
  gen_normal d rt = Ok w -> doc_link_wf d rt = true ->
  Forall (fun x => 0 <= u_size x) u ->
  let sty := linker_symbols_style (doc_settings d) in
  let segs := included rt (doc_segments d) in
  let st' := layout (wo_script w) u ext0 in
  (forall seg, In seg segs -> ~ In (LForwardRef (alloc_name seg)) (l_errors st')) ->
  RomChain sty st' 0 segs /\ NoloadSections st' segs.
Proof. exact document_rom_chain_layout. Qed.

(* ====================================================================== *)
(* 3. C03 over the document                                                *)
(* ====================================================================== *)

(* In the state at the end of the pass (VramChain, Spec/DocLevel.v, started at "." = 0): for each
   included segment the sections .s_k and .s_k.noload are in l_secs, the noload one starts at or after
   the end of the allocatable one, VRAM_END(s_k) = align_up (noload vma + noload size) ea_k,
   VRAM_SIZE = VRAM_END - VRAM for the value VRAM has in this pass (ADDR(.s_k) read from the previous
   pass [senv]), and a segment without address field starts at
   align_up (align_up dot sa_k) A where dot = VRAM_END(s_k-1) (0 for the first).
   Moreover l_secs begins with exactly two sections per included segment, in order. *)
Theorem C03_document_vram : forall env senv ext final d rt w u,
  gen_normal d rt = Ok w -> doc_link_wf d rt = true ->
  Forall (fun x => 0 <= u_size x) u ->
  let sty := linker_symbols_style (doc_settings d) in
  let segs := included rt (doc_segments d) in
  let st' := exec_script env senv ext final (wo_script w) (init_state u) in
  (forall seg, In seg segs -> ~ In (LForwardRef (alloc_name seg)) (l_errors st')) ->
  VramChain sty senv st' 0 segs /\
  exists secs rest, l_secs st' = (secs ++ rest)%list /\ map os_name secs = out_names segs.
Proof. exact document_vram. Qed.

(* the last pass of layout: the previous pass is the second one *)
Theorem C03_document_vram_layout : forall d rt w u ext0,
  gen_normal d rt = Ok w -> doc_link_wf d rt = true ->
  Forall (fun x => 0 <= u_size x) u ->
  let sty := linker_symbols_style (doc_settings d) in
  let segs := included rt (doc_segments d) in
  let p1 := exec_script [] [] ext0 false (wo_script w) (init_state u) in
  let p2 := exec_script (l_syms p1) (l_secs p1) (ext0 ++ markers_of p1)%list false (wo_script w) (init_state u) in
  let st' := layout (wo_script w) u ext0 in
  (forall seg, In seg segs -> ~ In (LForwardRef (alloc_name seg)) (l_errors st')) ->
  VramChain sty (l_secs p2) st' 0 segs /\
  exists secs rest, l_secs st' = (secs ++ rest)%list /\ map os_name secs = out_names segs.
Proof. exact document_vram_layout. Qed.

(* ====================================================================== *)
(* 4. C05 over the document                                                *)
(* ====================================================================== *)

(* for each included segment, in the state at the end of the pass (SegmentGroups / GroupChain,
   Spec/DocLevel.v): the output section .s (resp. .s.noload) is found in l_secs and, going up from its start
   address, each section group of alloc_sections (resp. noload_sections), in list order, has
   START <= END, SIZE = END - START, starts at or after the END of the previous group and ends at or
   below the end of the output section; the placements of the final state contain a block - what the
   group placed - of placements in that output section at addresses within [START, END].
   Error condition: no LForwardRef for the allocatable section of THIS segment. *)
Theorem C05_document_groups : forall env senv ext final d rt w u seg,
  gen_normal d rt = Ok w -> doc_link_wf d rt = true ->
  Forall (fun x => 0 <= u_size x) u ->
  In seg (included rt (doc_segments d)) ->
  let sty := linker_symbols_style (doc_settings d) in
  let st' := exec_script env senv ext final (wo_script w) (init_state u) in
  ~ In (LForwardRef (alloc_name seg)) (l_errors st') ->
  SegmentGroups sty st' seg.
Proof. exact document_groups. Qed.

Theorem C05_document_groups_layout : forall d rt w u ext0 seg,
  gen_normal d rt = Ok w -> doc_link_wf d rt = true ->
  Forall (fun x => 0 <= u_size x) u ->
  In seg (included rt (doc_segments d)) ->
  let sty := linker_symbols_style (doc_settings d) in
  let st' := layout (wo_script w) u ext0 in
  ~ In (LForwardRef (alloc_name seg)) (l_errors st') ->
  SegmentGroups sty st' seg.
Proof. exact document_groups_layout. Qed.

(* the counting used by doc_link_wf for the group symbols agrees with [assigns] *)
Theorem DocLevel_count_assigns : forall x l, existsb (assigns x) l = false <-> count_assigns x l = 0%nat.
Proof. exact existsb_count. Qed.

(* ====================================================================== *)
(* 5. C10 over the document                                                *)
(* ====================================================================== *)

(* for each class named by an included segment, in the state at the end of the pass (from ANY starting
   state, with no condition on errors): END = MAX(0, the VRAM_END of its included members - the values
   these symbols have at the end of the pass); SIZE = END - START for the value START has there *)
Theorem C10_document_classes : forall env senv ext final d rt w st cn,
  gen_normal d rt = Ok w -> doc_link_wf d rt = true ->
  In cn (used_classes rt (doc_segments d)) ->
  let sty := linker_symbols_style (doc_settings d) in
  let st' := exec_script env senv ext final (wo_script w) st in
  ClassSummary sty env ext st' rt (doc_segments d) cn.
Proof. exact document_classes. Qed.

Theorem C10_document_classes_layout : forall d rt w u ext0 cn,
  gen_normal d rt = Ok w -> doc_link_wf d rt = true ->
  In cn (used_classes rt (doc_segments d)) ->
  let sty := linker_symbols_style (doc_settings d) in
  let p1 := exec_script [] [] ext0 false (wo_script w) (init_state u) in
  let p2 := exec_script (l_syms p1) (l_secs p1) (ext0 ++ markers_of p1)%list false (wo_script w) (init_state u) in
  ClassSummary sty (l_syms p2) (ext0 ++ markers_of p2)%list (layout (wo_script w) u ext0) rt (doc_segments d) cn.
Proof. exact document_classes_layout. Qed.

(* ====================================================================== *)
(* examples: a document with three included segments, two of them in one   *)
(* class, meets the hypotheses                                             *)
(* ====================================================================== *)

Example ex_doc_link_wf :
  doc_link_wf dl_doc ex_rt = true /\
  (exists w, gen_normal dl_doc ex_rt = Ok w) /\
  map sg_name (included ex_rt (doc_segments dl_doc)) = ["boot"; "ovl_a"; "ovl_b"] /\
  used_classes ex_rt (doc_segments dl_doc) = ["overlay"; "overlay"] /\
  Forall (fun x => 0 <= u_size x) dl_universe.
Proof.
  split; [vm_compute; reflexivity|]. split; [eexists; vm_compute; reflexivity|].
  split; [vm_compute; reflexivity|]. split; [vm_compute; reflexivity|].
  repeat constructor; vm_compute; discriminate.
Qed.

(* a full link of that document ends without error (so the error hypothesis holds); the values are the
   chained ones: boot occupies ROM [0, 68), ovl_a starts at align_up 68 16 = 80 and ends at 104, ovl_b
   starts at align_up 104 16 = 112; both overlays are placed at the class start; the class ends at the
   larger VRAM end *)
Example ex_doc_link :
  let st := layout dl_script dl_universe [("main", 5)] in
  l_errors st = [] /\
  map (fun o => (os_name o, os_vma o, os_size o, os_lma o, os_noload o)) (firstn 6 (l_secs st)) =
  [(".boot", 0, 68, Some 0, false); (".boot.noload", 72, 100, None, true);
   (".ovl_a", 2148532224, 24, Some 80, false); (".ovl_a.noload", 2148532248, 8, None, true);
   (".ovl_b", 2148532224, 64, Some 112, false); (".ovl_b.noload", 2148532288, 4, None, true)] /\
  val st "boot_ROM_END" = Some 68 /\ val st "ovl_a_ROM_START" = Some 80 /\ val st "ovl_a_ROM_END" = Some 104 /\
  val st "ovl_b_ROM_START" = Some 112 /\ val st "ovl_b_ROM_END" = Some 176 /\ val st "__romPos" = Some 176 /\
  val st "boot_VRAM_END" = Some 172 /\ val st "ovl_a_VRAM_END" = Some 2148532256 /\
  val st "ovl_b_VRAM_END" = Some 2148532292 /\ val st "overlay_VRAM_CLASS_END" = Some 2148532292 /\
  val st "overlay_VRAM_CLASS_SIZE" = Some 68 /\
  (* the groups of .ovl_b [2148532224, 2148532288): .text, .data, .sdata in order *)
  val st "ovl_b_TEXT_START" = Some 2148532224 /\ val st "ovl_b_TEXT_END" = Some 2148532272 /\
  val st "ovl_b_DATA_START" = Some 2148532272 /\ val st "ovl_b_DATA_END" = Some 2148532288 /\
  val st "ovl_b_DATA_SIZE" = Some 16 /\
  val st "ovl_b_SDATA_START" = Some 2148532288 /\ val st "ovl_b_SDATA_END" = Some 2148532288 /\
  map (fun p => (pl_marker p, pl_addr p, pl_outsec p)) (l_placed st) =
  [("boot_text", 0, ".boot"); ("boot_data", 40, ".boot"); ("boot_bss", 72, ".boot.noload");
   ("a_text", 2148532224, ".ovl_a"); ("a_bss", 2148532248, ".ovl_a.noload");
   ("b_text", 2148532224, ".ovl_b"); ("b_data", 2148532272, ".ovl_b"); ("b_bss", 2148532288, ".ovl_b.noload")].
Proof. vm_compute. repeat split; reflexivity. Qed.

Print Assumptions DocLevel_script_shape.
Print Assumptions DocLevel_exec_flat.
Print Assumptions DocLevel_wf_facts.
Print Assumptions C04_document_rom_chain.
Print Assumptions C04_document_rom_chain_layout.
Print Assumptions C03_document_vram.
Print Assumptions C03_document_vram_layout.
Print Assumptions C05_document_groups.
Print Assumptions C05_document_groups_layout.
Print Assumptions DocLevel_count_assigns.
Print Assumptions C10_document_classes.
Print Assumptions C10_document_classes_layout.
