(* C01ListedModes - the bridge theorems of Properties/C01Listed.v ("an input section that a listed statement
   selects IS placed where the document says, provided no earlier statement takes it first") for the modes
   that file does not cover:
     - single-segment mode (gen_normal with single_segment_mode = true, one segment),
     - the per-segment scripts of a partial build (po_subs of gen_partial: the same add_single_segment, under
       cfg_sub_partial),
     - the main script of a partial build (po_main: the multi-segment writer under cfg_main_partial over
       clones whose only file is the partial object <folder>/<segment>.o).
   Only statements, each closed by [exact]; see Proofs/ModesListed.v, definitions in Spec/ModesListed.v.

   Single-segment mode and per-segment scripts: every configured section [section] of
   alloc_sections ++ noload_sections is an output section of its own, named after the section, WITHOUT an
   address expression - so no output section can fail and the theorems carry no error condition.  The
   statement of a leaf for a section [k] it reaches from [section] is in the body of the output section
   [section]: [leaf_reaches_from] is [leaf_reaches] of Spec/C01Listed.v with that configured section (and the
   writer configuration) made explicit. *)
From Slinky Require Import Model.Types Model.Runtime Model.Style Model.Script Model.Writer Model.LdSem.
From Slinky Require Import Spec.C18 Spec.C04 Spec.C09 Spec.C01 Spec.C11 Spec.DocLevel Spec.C01Doc Spec.C01Listed
                           Spec.DocSingle Spec.DocPartial Spec.ModesListed.
From Slinky Require Import Proofs.ModesListed.
From Coq Require Import ZArith.
Local Open Scope string_scope.
Local Open Scope Z_scope.

(* ====================================================================== *)
(* 1. any script                                                           *)
(* ====================================================================== *)

(* a script all of whose output sections are written without address expression ([addr_free], on the
   statements LdSem executes): the first statement that matches a waiting input section ALWAYS captures it
   (C01_script_first_match without the [claim_failed] alternative) *)
Theorem C01_script_first_match_noaddr : forall env senv ext final script st x,
  Forall addr_free (flat_stmts script) -> In x (l_remaining st) ->
  let st' := exec_script env senv ext final script st in
  match first_claim (script_claims script) x with
  | None => In x (l_remaining st')
  | Some c => captured st' x c
  end.
Proof. exact script_first_match_noaddr. Qed.

(* any script, any universe: some claim [c0] of the script matches [x]; the first claim that matches [x] is
   in an output section of [P] ([first_goes]); no output section of [P] failed.  Then [x] is placed in an
   output section of [P] and is no longer waiting *)
Theorem C01_script_listed_placed : forall env senv ext final script u x c0 (P : string -> Prop),
  In c0 (script_claims script) -> claim_matches c0 x = true -> In x u ->
  first_goes script x P ->
  let st' := exec_script env senv ext final script (init_state u) in
  (forall o, P o -> ~ In (LForwardRef o) (l_errors st')) ->
  exists o, P o /\ placed_at st' x o /\ ~ In x (l_remaining st').
Proof. exact claim_listed_placed. Qed.

Theorem C01_script_listed_placed_noaddr : forall env senv ext final script u x c0 (P : string -> Prop),
  Forall addr_free (flat_stmts script) ->
  In c0 (script_claims script) -> claim_matches c0 x = true -> In x u ->
  first_goes script x P ->
  let st' := exec_script env senv ext final script (init_state u) in
  exists o, P o /\ placed_at st' x o /\ ~ In x (l_remaining st').
Proof. exact claim_listed_placed_noaddr. Qed.

(* ====================================================================== *)
(* 2. what the document lists, per configured section                      *)
(* ====================================================================== *)

(* [leaf_reaches] is [leaf_reaches_from] for some configured section of the half *)
Theorem C01_leaf_reaches_split : forall rt d seg nl lf bc p k,
  leaf_reaches rt d seg nl lf bc p k <->
  exists section, leaf_reaches_from rt cfg_normal d seg nl section lf bc p k.
Proof. exact leaf_reaches_split. Qed.

(* the configuration of the per-segment scripts lists the same things as the ordinary one (neither
   references partial objects: same directory, same sub-group expansion) *)
Theorem C01_leaf_reaches_from_sub : forall rt d seg nl section lf bc p k,
  leaf_reaches_from rt cfg_sub_partial d seg nl section lf bc p k <->
  leaf_reaches_from rt cfg_normal d seg nl section lf bc p k.
Proof. exact leaf_reaches_from_sub. Qed.

(* ====================================================================== *)
(* 3. single-segment mode: the claims of the script                        *)
(* ====================================================================== *)

(* [SingleClaims rt cfg_normal d seg script]: script_claims script = A ++ tail_claims (allow-list entries,
   then the /DISCARD/ block); every element of [A] is the statement of a leaf of the file list of [seg] for
   a section [k] it reaches from a configured section [section] of a half, written in the output section
   [section] ([single_listed] / [single_leaf_claim]); conversely each such statement is in [A].
   And the script has no output section with an address expression. *)
Theorem C01_single_document_claims : forall rt d w seg,
  gen_normal d rt = Ok w -> single_segment_mode (doc_settings d) = true -> doc_segments d = [seg] ->
  SingleClaims rt cfg_normal d seg (wo_script w) /\ Forall addr_free (flat_stmts (wo_script w)).
Proof. exact single_document_claims. Qed.

(* the same for ANY add_single_segment (any configuration, any writer state): the SECTIONS block *)
Theorem C01_single_segment_claims : forall rt d cfg seg ws s ws',
  add_single_segment rt (doc_settings d) cfg (doc_vram_classes d) seg ws = Ok (s, ws') ->
  (exists A, flat_map top_claims (flat_stmts s) = (A ++ tail_claims (doc_settings d))%list /\
     (forall c, In c A -> single_listed rt cfg d seg c) /\
     (forall nl section lf bc p k, leaf_reaches_from rt cfg d seg nl section lf bc p k ->
                                   In (single_leaf_claim seg section lf bc p k) A)) /\
  Forall addr_free (flat_stmts s).
Proof. exact single_segment_claims. Qed.

(* ====================================================================== *)
(* 4. single-segment mode: a listed input section is placed                *)
(* ====================================================================== *)

(* single-segment mode; [seg] the only segment (its conditions are not consulted in this mode); (lf, bc) a
   leaf of its file list with escaped path [p]; [k] a section it reaches from the configured section
   [section] of half [nl]; [x] an input section of the universe that the statement of the leaf for [k]
   selects.  If the first statement of the script that matches [x] is in the output section [section]
   ([first_goes]; e.g. it is the statement itself), then at the end of the pass [x] is placed in the
   output section [section] and is no longer waiting.  No error condition. *)
Theorem C01_single_document_listed_placed : forall env senv ext final d rt w u seg nl section lf bc p k x,
  gen_normal d rt = Ok w -> single_segment_mode (doc_settings d) = true -> doc_segments d = [seg] ->
  leaf_reaches_from rt cfg_normal d seg nl section lf bc p k ->
  In x u -> input_matches (display (push bc p)) (member_of lf) k (wildcard_sections seg) x ->
  first_goes (wo_script w) x (eq section) ->
  let st' := exec_script env senv ext final (wo_script w) (init_state u) in
  placed_at st' x section /\ ~ In x (l_remaining st').
Proof. exact single_document_listed_placed. Qed.

Theorem C01_single_document_listed_placed_layout : forall d rt w u ext0 seg nl section lf bc p k x,
  gen_normal d rt = Ok w -> single_segment_mode (doc_settings d) = true -> doc_segments d = [seg] ->
  leaf_reaches_from rt cfg_normal d seg nl section lf bc p k ->
  In x u -> input_matches (display (push bc p)) (member_of lf) k (wildcard_sections seg) x ->
  first_goes (wo_script w) x (eq section) ->
  let st' := layout (wo_script w) u ext0 in
  placed_at st' x section /\ ~ In x (l_remaining st').
Proof. exact single_document_listed_placed_layout. Qed.

(* any script with the claims of one segment and no address expression (gen_normal in single-segment mode
   and the per-segment scripts are instances), any set [P] of acceptable output sections *)
Theorem C01_single_claims_listed_placed : forall env senv ext final rt cfg d seg script u nl section lf bc p k x
                                                 (P : string -> Prop),
  SingleClaims rt cfg d seg script -> Forall addr_free (flat_stmts script) ->
  leaf_reaches_from rt cfg d seg nl section lf bc p k ->
  In x u -> input_matches (display (push bc p)) (member_of lf) k (wildcard_sections seg) x ->
  first_goes script x P ->
  let st' := exec_script env senv ext final script (init_state u) in
  exists o, P o /\ placed_at st' x o /\ ~ In x (l_remaining st').
Proof. exact single_claims_placed_gen. Qed.

(* "ends up inside": a well-formed single-segment document (doc_single_wf, Spec/DocSingle.v: distinct
   section names, none an allow-list name, the section symbols assigned once), sizes >= 0, pairwise
   different markers.  Then [InsideSection]: the placement of [x] is labelled [section], lies with its whole
   size inside the output section found under that name, which lies between section_START and section_END
   (C05_single_document_symbols); [x] is neither waiting nor discarded *)
Theorem C01_single_document_listed_in_section : forall env senv ext final d rt w u seg nl section lf bc p k x,
  gen_normal d rt = Ok w -> doc_single_wf d rt = true -> doc_segments d = [seg] ->
  Forall (fun y => 0 <= u_size y) u -> NoDup (map u_marker u) ->
  leaf_reaches_from rt cfg_normal d seg nl section lf bc p k ->
  In x u -> input_matches (display (push bc p)) (member_of lf) k (wildcard_sections seg) x ->
  first_goes (wo_script w) x (eq section) ->
  let sty := linker_symbols_style (doc_settings d) in
  let st' := exec_script env senv ext final (wo_script w) (init_state u) in
  InsideSection sty st' seg section x /\
  ~ In x (l_remaining st') /\ ~ In (u_marker x) (map u_marker (l_remaining st')) /\
  ~ In (u_marker x) (l_discarded st').
Proof. exact single_document_listed_in_section. Qed.

Theorem C01_single_document_listed_in_section_layout : forall d rt w u ext0 seg nl section lf bc p k x,
  gen_normal d rt = Ok w -> doc_single_wf d rt = true -> doc_segments d = [seg] ->
  Forall (fun y => 0 <= u_size y) u -> NoDup (map u_marker u) ->
  leaf_reaches_from rt cfg_normal d seg nl section lf bc p k ->
  In x u -> input_matches (display (push bc p)) (member_of lf) k (wildcard_sections seg) x ->
  first_goes (wo_script w) x (eq section) ->
  let sty := linker_symbols_style (doc_settings d) in
  let st' := layout (wo_script w) u ext0 in
  InsideSection sty st' seg section x /\
  ~ In x (l_remaining st') /\ ~ In (u_marker x) (map u_marker (l_remaining st')) /\
  ~ In (u_marker x) (l_discarded st').
Proof. exact single_document_listed_in_section_layout. Qed.

(* ---------- document-side conditions for "no earlier statement takes it" ---------- *)

(* [single_matching_in rt cfg d seg x P]: every (half, configured section, leaf, reached section) of the
   segment whose statement would select [x] has its configured section in [P].  When at least one does
   select [x], the first statement of the script that matches [x] is in an output section of [P] (in
   particular not an allow-list entry or the /DISCARD/ block: those come after all sections).  There is
   one segment: the analogue of [path_only_in] holds trivially *)
Theorem C01_single_first_goes_of_leaves : forall rt cfg d seg script x (P : string -> Prop),
  SingleClaims rt cfg d seg script -> single_matching_in rt cfg d seg x P ->
  (exists nl section lf bc p k, leaf_reaches_from rt cfg d seg nl section lf bc p k /\
                                input_matches (display (push bc p)) (member_of lf) k (wildcard_sections seg) x) ->
  first_goes script x P.
Proof. exact single_first_goes. Qed.

(* the analogue of [half_silent]: a leaf with the file of [x] reaches a section that selects the name of
   [x] from the configured section [section] only *)
Theorem C01_single_matching_of_silent : forall rt cfg d seg x section,
  others_silent rt cfg d seg x section -> single_matching_in rt cfg d seg x (eq section).
Proof. exact single_matching_of_silent. Qed.

(* put together *)
Theorem C01_single_document_silent_placed : forall env senv ext final d rt w u seg nl section lf bc p k x,
  gen_normal d rt = Ok w -> single_segment_mode (doc_settings d) = true -> doc_segments d = [seg] ->
  leaf_reaches_from rt cfg_normal d seg nl section lf bc p k ->
  In x u -> input_matches (display (push bc p)) (member_of lf) k (wildcard_sections seg) x ->
  others_silent rt cfg_normal d seg x section ->
  let st' := exec_script env senv ext final (wo_script w) (init_state u) in
  placed_at st' x section /\ ~ In x (l_remaining st').
Proof. exact single_document_silent_placed. Qed.

(* the single-segment sample document (Spec/DocSingle.v): segment main, its object boot.o, the section .data
   of the allocatable half; boot_data of the universe meets the hypotheses *)
Example C01_single_listed_hypotheses_example :
  let x := USec "build/src/boot.o" None ".data" 12 8 false "boot_data" in
  doc_single_wf ds_doc ex_rt = true /\ single_segment_mode (doc_settings ds_doc) = true /\
  doc_segments ds_doc = [ds_segment] /\
  leaf_reaches_from ex_rt cfg_normal ds_doc ds_segment false ".data" (ex_obj "boot.o") "build/src" "boot.o" ".data" /\
  In x ds_universe /\
  input_matches (display (push "build/src" "boot.o")) (member_of (ex_obj "boot.o")) ".data" (wildcard_sections ds_segment) x /\
  exists w, gen_normal ds_doc ex_rt = Ok w /\ first_goes (wo_script w) x (eq ".data").
Proof.
  split; [vm_compute; reflexivity|]. split; [reflexivity|]. split; [reflexivity|].
  split.
  { exists "build/src", (ex_obj "boot.o"), [ex_obj "boot.o"].
    split; [exists "build"; split; [vm_compute; reflexivity|]; exists "src"; split; vm_compute; reflexivity|].
    split; [left; reflexivity|]. split; [left; reflexivity|]. split; [right; left; reflexivity|].
    split; [|vm_compute; reflexivity]. exists ".data". split; [|reflexivity]. apply Reach_here. left. reflexivity. }
  split; [vm_compute; tauto|]. split; [apply Proofs.C01Listed.input_matches_sel; reflexivity|].
  eexists. split; [vm_compute; reflexivity|].
  intros c Hc. vm_compute in Hc. inversion Hc; subst c. eexists. split; reflexivity.
Qed.

(* ... and the outcome of a full link: which statement gets each input section, where it is placed; .data is
   [2147484736, +28) between main_DATA_START and main_DATA_END *)
Example C01_single_listed_link_example :
  map (fun x => (u_marker x, first_claim (script_claims ds_script) x)) ds_universe =
  [("boot_text", Some (CInput ".text" "build/src/boot.o" None ".text" true));
   ("boot_data", Some (CInput ".data" "build/src/boot.o" None ".data" true));
   ("boot_bss", Some (CInput ".bss" "build/src/boot.o" None ".bss" true));
   ("util_text", Some (CInput ".text" "build/src/lib/util.o" None ".text" true));
   ("util_bss", Some (CInput ".bss" "build/src/lib/util.o" None ".bss" true))] /\
  let st := layout ds_script ds_universe [("main", 5)] in
  filter (fun p => String.eqb (pl_marker p) "boot_data") (l_placed st) = [Placement "boot_data" 2147484736 ".data"] /\
  option_map (fun o => (os_vma o, os_size o)) (find_sec ".data" (l_secs st)) = Some (2147484736, 28) /\
  val st "main_DATA_START" = Some 2147484736 /\ val st "main_DATA_END" = Some 2147484764 /\
  l_remaining st = []%list /\ l_discarded st = []%list.
Proof. vm_compute. repeat split; reflexivity. Qed.

(* ====================================================================== *)
(* 5. the per-segment scripts of a partial build                           *)
(* ====================================================================== *)

(* every (name, w) of po_subs is the script of an included segment [seg] called name, and for that segment:
   its claims are what the document lists for it under cfg_sub_partial, followed by the SAME tail claims
   (the per-segment scripts end with the allow-list entries and the /DISCARD/ block too); it has no address
   expression; and ([SubListedPlaced], Spec/ModesListed.v) an input section that a listed statement selects
   and whose first matching statement is in the output section [section] of that statement is placed in
   [section] and is no longer waiting - with distinct section names that are not allow-list names, sizes
   >= 0 and distinct markers, inside the output section found under that name *)
Theorem C01_partial_sub_listed : forall env senv ext final d rt p name w u,
  gen_partial d rt = Ok p -> In (name, w) (po_subs p) ->
  exists seg, In seg (doc_segments d) /\ should_emit rt (sg_conds seg) = true /\ name = sg_name seg /\
    SingleClaims rt cfg_sub_partial d seg (wo_script w) /\ Forall addr_free (flat_stmts (wo_script w)) /\
    SubListedPlaced env senv ext final d rt seg w u.
Proof. exact partial_sub_listed. Qed.

Theorem C01_partial_sub_listed_layout : forall d rt p name w u ext0,
  gen_partial d rt = Ok p -> In (name, w) (po_subs p) ->
  let p1 := exec_script [] [] ext0 false (wo_script w) (init_state u) in
  let p2 := exec_script (l_syms p1) (l_secs p1) (ext0 ++ markers_of p1)%list false (wo_script w) (init_state u) in
  exists seg, In seg (doc_segments d) /\ should_emit rt (sg_conds seg) = true /\ name = sg_name seg /\
    SingleClaims rt cfg_sub_partial d seg (wo_script w) /\ Forall addr_free (flat_stmts (wo_script w)) /\
    SubListedPlaced (l_syms p2) (l_secs p2) (ext0 ++ markers_of p2)%list true d rt seg w u.
Proof. exact partial_sub_listed_layout. Qed.

(* the first per-segment script of gen_partial ex_doc (segment boot): it is in po_subs, the statement that
   gets each input section, and a link of it *)
Example C01_partial_sub_example :
  (exists p w, gen_partial ex_doc ex_rt = Ok p /\ In ("boot", w) (po_subs p) /\ wo_script w = ml_sub_boot) /\
  leaf_reaches_from ex_rt cfg_sub_partial ex_doc ml_boot_seg true ".bss" (ex_obj "util.o") "build/src/lib" "util.o" ".bss" /\
  map (fun x => (u_marker x, first_claim (script_claims ml_sub_boot) x)) ds_universe =
  [("boot_text", Some (CInput ".text" "build/src/boot.o" None ".text" true));
   ("boot_data", Some (CInput ".data" "build/src/boot.o" None ".data" true));
   ("boot_bss", Some (CInput ".bss" "build/src/boot.o" None ".bss" true));
   ("util_text", Some (CInput ".text" "build/src/lib/util.o" None ".text" true));
   ("util_bss", Some (CInput ".bss" "build/src/lib/util.o" None ".bss" true))] /\
  let st := layout ml_sub_boot ds_universe [] in
  l_errors st = []%list /\
  map (fun p => (pl_marker p, pl_addr p, pl_outsec p)) (l_placed st) =
  [("boot_text", 0, ".text"); ("util_text", 40, ".text"); ("boot_data", 64, ".data");
   ("boot_bss", 96, ".bss"); ("util_bss", 196, ".bss")].
Proof.
  split.
  { eexists. eexists. split; [vm_compute; reflexivity|]. split; [left; reflexivity | vm_compute; reflexivity]. }
  split.
  { exists "build/src", ml_lib, [ml_lib; ex_obj "util.o"].
    split; [exists "build"; split; [vm_compute; reflexivity|]; exists "src"; split; vm_compute; reflexivity|].
    split; [right; left; reflexivity|]. split; [vm_compute; right; left; reflexivity|]. split; [left; reflexivity|].
    split; [|vm_compute; reflexivity].
    exists ".bss". split; [apply Reach_here; left; reflexivity|].
    exists ".bss". split; [apply Reach_here; left; reflexivity | reflexivity]. }
  vm_compute. repeat split; reflexivity.
Qed.

(* ====================================================================== *)
(* 6. the main script of a partial build                                   *)
(* ====================================================================== *)

(* the claims of the main script: for each included segment, in document order, one statement per section of
   alloc_sections in .seg and one per section of noload_sections in .seg.noload, each naming the partial
   object of the segment ([partial_obj_path]: escaped base_path / escaped <folder>/<segment>.o, no archive
   member) and the section (C11_main_places_partial); then the tail claims *)
Theorem C01_partial_main_claims : forall d rt p folder,
  gen_partial d rt = Ok p -> partial_build_segments_folder (doc_settings d) = Some folder ->
  script_claims (wo_script (po_main p)) =
  (flat_map (main_seg_claims rt (doc_settings d) folder) (included rt (doc_segments d)) ++
   tail_claims (doc_settings d))%list.
Proof. exact partial_main_claims. Qed.

(* LForwardRef can only be recorded for "." and for the allocatable output section of an included segment *)
Theorem C01_partial_main_forward_refs : forall env senv ext final d rt p st n,
  gen_partial d rt = Ok p ->
  In (LForwardRef n) (l_errors (exec_script env senv ext final (wo_script (po_main p)) st)) ->
  In (LForwardRef n) (l_errors st) \/ n = "." \/
  exists seg, In seg (included rt (doc_segments d)) /\ n = alloc_name seg.
Proof. exact partial_main_forward_refs. Qed.

Theorem C01_partial_noload_never_fails : forall env senv ext final d rt p u seg,
  gen_partial d rt = Ok p -> doc_link_wf_partial d rt = true -> In seg (included rt (doc_segments d)) ->
  ~ In (LForwardRef (noload_name seg))
       (l_errors (exec_script env senv ext final (wo_script (po_main p)) (init_state u))).
Proof. exact partial_noload_never_fails. Qed.

(* [seg] an included segment, [section] a configured section of its half [nl], [path] the path of its partial
   object, [x] an input section of the universe (of the partial objects) that the statement
   "path(section)" selects: same path, an object (no archive member), name [section] - or, with
   wildcard_sections, a name that starts with [section].  If the first statement of the main script that
   matches [x] is in the output section of that half and that output section did not fail, [x] is placed in
   .seg (nl = false) / .seg.noload (nl = true) and is no longer waiting *)
Theorem C01_partial_main_listed_placed : forall env senv ext final d rt p folder u seg nl section path x,
  gen_partial d rt = Ok p -> partial_build_segments_folder (doc_settings d) = Some folder ->
  In seg (included rt (doc_segments d)) -> In section (part_sections seg nl) ->
  partial_obj_path rt (doc_settings d) folder seg = Some path ->
  In x u -> input_matches path None section (wildcard_sections seg) x ->
  first_goes (wo_script (po_main p)) x (eq (part_name seg nl)) ->
  let st' := exec_script env senv ext final (wo_script (po_main p)) (init_state u) in
  ~ In (LForwardRef (part_name seg nl)) (l_errors st') ->
  placed_at st' x (part_name seg nl) /\ ~ In x (l_remaining st').
Proof. exact partial_main_listed_placed. Qed.

Theorem C01_partial_main_listed_placed_layout : forall d rt p folder u ext0 seg nl section path x,
  gen_partial d rt = Ok p -> partial_build_segments_folder (doc_settings d) = Some folder ->
  In seg (included rt (doc_segments d)) -> In section (part_sections seg nl) ->
  partial_obj_path rt (doc_settings d) folder seg = Some path ->
  In x u -> input_matches path None section (wildcard_sections seg) x ->
  first_goes (wo_script (po_main p)) x (eq (part_name seg nl)) ->
  let st' := layout (wo_script (po_main p)) u ext0 in
  ~ In (LForwardRef (part_name seg nl)) (l_errors st') ->
  placed_at st' x (part_name seg nl) /\ ~ In x (l_remaining st').
Proof. exact partial_main_listed_placed_layout. Qed.

Theorem C01_partial_main_listed_placed_gen : forall env senv ext final d rt p folder u seg nl section path x
                                                    (P : string -> Prop),
  gen_partial d rt = Ok p -> partial_build_segments_folder (doc_settings d) = Some folder ->
  In seg (included rt (doc_segments d)) -> In section (part_sections seg nl) ->
  partial_obj_path rt (doc_settings d) folder seg = Some path ->
  In x u -> input_matches path None section (wildcard_sections seg) x ->
  first_goes (wo_script (po_main p)) x P ->
  let st' := exec_script env senv ext final (wo_script (po_main p)) (init_state u) in
  (forall o, P o -> ~ In (LForwardRef o) (l_errors st')) ->
  exists o, P o /\ placed_at st' x o /\ ~ In x (l_remaining st').
Proof. exact partial_main_listed_placed_gen. Qed.

(* "ends up inside its segment's address range" for the main script: hypotheses of
   C01_partial_document_in_segment_range (doc_link_wf_partial, doc_outsecs_fresh, sizes >= 0, no LForwardRef
   for the allocatable sections), pairwise different markers; it is enough that the first statement matching
   [x] is in ONE OF the two output sections of [seg] *)
Theorem C01_partial_main_listed_in_segment : forall env senv ext final d rt p folder u seg nl section path x,
  gen_partial d rt = Ok p -> partial_build_segments_folder (doc_settings d) = Some folder ->
  doc_link_wf_partial d rt = true -> doc_outsecs_fresh d rt = true ->
  Forall (fun y => 0 <= u_size y) u -> NoDup (map u_marker u) ->
  In seg (included rt (doc_segments d)) -> In section (part_sections seg nl) ->
  partial_obj_path rt (doc_settings d) folder seg = Some path ->
  In x u -> input_matches path None section (wildcard_sections seg) x ->
  first_goes (wo_script (po_main p)) x (seg_outsec seg) ->
  let sty := linker_symbols_style (doc_settings d) in
  let st' := exec_script env senv ext final (wo_script (po_main p)) (init_state u) in
  (forall s, In s (included rt (doc_segments d)) -> ~ In (LForwardRef (alloc_name s)) (l_errors st')) ->
  InsideSegment sty st' seg x /\
  ~ In x (l_remaining st') /\ ~ In (u_marker x) (map u_marker (l_remaining st')) /\
  ~ In (u_marker x) (l_discarded st').
Proof. exact partial_main_listed_in_segment. Qed.

(* ---------- document-side conditions ---------- *)

Theorem C01_partial_main_first_goes : forall d rt p folder x (P : string -> Prop),
  gen_partial d rt = Ok p -> partial_build_segments_folder (doc_settings d) = Some folder ->
  main_matching_in rt d folder x P ->
  (exists s nl section path, In s (included rt (doc_segments d)) /\ In section (part_sections s nl) /\
                             partial_obj_path rt (doc_settings d) folder s = Some path /\
                             input_matches path None section (wildcard_sections s) x) ->
  first_goes (wo_script (po_main p)) x P.
Proof. exact partial_main_first_goes. Qed.

(* the partial object of [x] is the one of [seg] only (distinct segment names give distinct objects) ... *)
Theorem C01_partial_main_matching_of_object : forall rt d folder x seg,
  object_only_of rt d folder x seg -> main_matching_in rt d folder x (seg_outsec seg).
Proof. exact main_matching_of_object. Qed.

(* ... and no configured section of the OTHER half selects the name of [x] *)
Theorem C01_partial_main_matching_of_half : forall rt d folder x seg nl,
  object_only_of rt d folder x seg -> main_half_silent seg (negb nl) x ->
  main_matching_in rt d folder x (eq (part_name seg nl)).
Proof. exact main_matching_of_half. Qed.

Theorem C01_partial_main_object_placed : forall env senv ext final d rt p folder u seg nl section path x,
  gen_partial d rt = Ok p -> partial_build_segments_folder (doc_settings d) = Some folder ->
  In seg (included rt (doc_segments d)) -> In section (part_sections seg nl) ->
  partial_obj_path rt (doc_settings d) folder seg = Some path ->
  In x u -> input_matches path None section (wildcard_sections seg) x ->
  object_only_of rt d folder x seg -> main_half_silent seg (negb nl) x ->
  let st' := exec_script env senv ext final (wo_script (po_main p)) (init_state u) in
  ~ In (LForwardRef (part_name seg nl)) (l_errors st') ->
  placed_at st' x (part_name seg nl) /\ ~ In x (l_remaining st').
Proof. exact partial_main_object_placed. Qed.

(* the main script of dl_doc (Spec/DocLevel.v; partial objects: Spec/DocPartial.v): the path of the partial
   object of ovl_b, its claims, the statement that gets b_data, and (ex_partial_doc_link,
   Properties/C11DocPartial.v) b_data at 2148532272 in .ovl_b *)
Example C01_partial_main_example :
  let seg := ex_segment "ovl_b" [ex_obj "b.o"; ex_offset ".data" "b_mid"] (Some "overlay") None no_conds in
  let x := USec "build/segments/ovl_b.o" None ".data" 16 4 false "b_data" in
  partial_build_segments_folder (doc_settings dl_doc) = Some "segments" /\
  In seg (included ex_rt (doc_segments dl_doc)) /\ In ".data" (part_sections seg false) /\
  partial_obj_path ex_rt (doc_settings dl_doc) "segments" seg = Some "build/segments/ovl_b.o" /\
  main_seg_claims ex_rt (doc_settings dl_doc) "segments" seg =
    [CInput ".ovl_b" "build/segments/ovl_b.o" None ".text" true;
     CInput ".ovl_b" "build/segments/ovl_b.o" None ".data" true;
     CInput ".ovl_b" "build/segments/ovl_b.o" None ".sdata" true;
     CInput ".ovl_b.noload" "build/segments/ovl_b.o" None ".bss" true] /\
  In x dl_universe_partial /\
  input_matches "build/segments/ovl_b.o" None ".data" (wildcard_sections seg) x /\
  first_claim (script_claims dl_main_script) x = Some (CInput ".ovl_b" "build/segments/ovl_b.o" None ".data" true) /\
  filter (fun p => String.eqb (pl_marker p) "b_data") (l_placed (layout dl_main_script dl_universe_partial [("main", 5)])) =
    [Placement "b_data" 2148532272 ".ovl_b"].
Proof.
  split; [reflexivity|]. split; [right; right; left; reflexivity|]. split; [right; left; reflexivity|].
  split; [vm_compute; reflexivity|]. split; [vm_compute; reflexivity|]. split; [vm_compute; tauto|].
  split; [apply Proofs.C01Listed.input_matches_sel; reflexivity|]. split; vm_compute; reflexivity.
Qed.

Print Assumptions C01_script_first_match_noaddr.
Print Assumptions C01_script_listed_placed.
Print Assumptions C01_script_listed_placed_noaddr.
Print Assumptions C01_leaf_reaches_split.
Print Assumptions C01_leaf_reaches_from_sub.
Print Assumptions C01_single_document_claims.
Print Assumptions C01_single_segment_claims.
Print Assumptions C01_single_document_listed_placed.
Print Assumptions C01_single_document_listed_placed_layout.
Print Assumptions C01_single_claims_listed_placed.
Print Assumptions C01_single_document_listed_in_section.
Print Assumptions C01_single_document_listed_in_section_layout.
Print Assumptions C01_single_first_goes_of_leaves.
Print Assumptions C01_single_matching_of_silent.
Print Assumptions C01_single_document_silent_placed.
Print Assumptions C01_partial_sub_listed.
Print Assumptions C01_partial_sub_listed_layout.
Print Assumptions C01_partial_main_claims.
Print Assumptions C01_partial_main_forward_refs.
Print Assumptions C01_partial_noload_never_fails.
Print Assumptions C01_partial_main_listed_placed.
Print Assumptions C01_partial_main_listed_placed_layout.
Print Assumptions C01_partial_main_listed_placed_gen.
Print Assumptions C01_partial_main_listed_in_segment.
Print Assumptions C01_partial_main_first_goes.
Print Assumptions C01_partial_main_matching_of_object.
Print Assumptions C01_partial_main_matching_of_half.
Print Assumptions C01_partial_main_object_placed.
Print Assumptions C01_single_listed_hypotheses_example.
Print Assumptions C01_single_listed_link_example.
Print Assumptions C01_partial_sub_example.
Print Assumptions C01_partial_main_example.
