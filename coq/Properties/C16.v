(* C16 - Structurally invalid documents are rejected; valid ones are accepted.
   Only statements, each closed by [exact]; see Spec/C16.v ([valid], the documented rules as a conjunction of
   independent rules per record kind; [Known_C16_null_plain_string] and [Known_C16_null_forbidden_field], the two
   known deviations of the implementation) and Proofs/C16.v. *)
From Slinky Require Import Model.Types Model.Generated Model.Parse Spec.C08 Spec.C16 Proofs.C16.

(* ---------- the equivalence ---------- *)

(* a document is accepted exactly when it satisfies the documented rules - for every document that has neither
   a YAML null in a plain String field nor a null on a file-entry field that the entry's kind forbids (the two
   deviations below) *)
Theorem C16_accept_iff_valid : forall sd,
  Known_C16_null_plain_string sd = false -> Known_C16_null_forbidden_field sd = false ->
  is_ok (parse sd) = valid sd.
Proof. exact doc_ok. Qed.

(* the complete picture outside the first class only: a document is accepted exactly when it satisfies the
   documented rules once the nulls on forbidden file-entry fields are left out ... *)
Theorem C16_accept_iff_valid_without_forbidden_nulls : forall sd,
  Known_C16_null_plain_string sd = false -> is_ok (parse sd) = valid (without_forbidden_nulls sd).
Proof. exact doc_ok_stripped. Qed.

(* ... and those nulls are the only difference between that and [valid] *)
Theorem C16_valid_iff_stripped_valid_and_not_known : forall sd,
  valid sd = valid (without_forbidden_nulls sd) && negb (Known_C16_null_forbidden_field sd).
Proof. exact valid_split_doc. Qed.

(* "Every document that satisfies the documented rules is accepted" - unconditionally: a valid document is in
   neither class *)
Theorem C16_valid_is_accepted : forall sd, valid sd = true -> exists doc, parse sd = Ok doc.
Proof. exact valid_is_accepted. Qed.

Theorem C16_valid_has_no_null_plain_string : forall sd, valid sd = true -> Known_C16_null_plain_string sd = false.
Proof. exact valid_no_known. Qed.

Theorem C16_valid_has_no_null_forbidden_field : forall sd, valid sd = true -> Known_C16_null_forbidden_field sd = false.
Proof. exact valid_no_known_forbidden. Qed.

(* "rejected with an error - never accepted with the offending field silently ignored": needs both exclusions
   (each class contains invalid documents that are accepted, see the two refutations) *)
Theorem C16_invalid_is_error : forall sd,
  valid sd = false -> Known_C16_null_plain_string sd = false -> Known_C16_null_forbidden_field sd = false ->
  exists e, parse sd = Err e.
Proof. exact invalid_is_error. Qed.

Theorem C16_accepted_is_valid : forall sd doc,
  parse sd = Ok doc -> Known_C16_null_plain_string sd = false -> Known_C16_null_forbidden_field sd = false ->
  valid sd = true.
Proof. exact accepted_is_valid. Qed.

(* KNOWN DEVIATION 1, kept visible: `name: null` (and likewise value / check / error_message) is read by serde_yaml
   as the string "null" and accepted, although null on a non-nullable field must be rejected *)
Theorem C16_refuted_null_plain_string :
  exists sd, Known_C16_null_plain_string sd = true /\ valid sd = false /\ is_ok (parse sd) = true.
Proof. exact refuted_null_plain_string. Qed.

(* KNOWN DEVIATION 2, kept visible: an explicit null on a file-entry field that the entry's kind forbids, e.g.
   `{ path: a.o, kind: object, pad_amount: null, subfile: null }`, is accepted (the code only asks `has_value()`),
   although the field is not nullable and the kind forbids it *)
Theorem C16_refuted_null_forbidden_field :
  exists sd, Known_C16_null_forbidden_field sd = true /\ valid sd = false /\ is_ok (parse sd) = true.
Proof. exact refuted_null_forbidden_field. Qed.

(* what the code does with such a document: exactly what it does with the same document without those nulls -
   the same parsed document or the same error.  (True of every document; outside the class
   [without_forbidden_nulls] changes nothing, see the next theorem.) *)
Theorem C16_known_forbidden_is_accepted_like_absent : forall sd,
  parse sd = parse (without_forbidden_nulls sd).
Proof. exact parse_like_absent. Qed.

Theorem C16_without_forbidden_nulls_outside_class : forall sd,
  Known_C16_null_forbidden_field sd = false -> without_forbidden_nulls sd = sd.
Proof. exact doc_strip_id. Qed.

Theorem C16_without_forbidden_nulls_leaves_class : forall sd,
  Known_C16_null_forbidden_field (without_forbidden_nulls sd) = false /\
  Known_C16_null_plain_string (without_forbidden_nulls sd) = Known_C16_null_plain_string sd.
Proof. exact strip_leaves_class. Qed.

(* ---------- the same, record kind by record kind ---------- *)
(* serde's structural checks followed by `unserialize` succeed exactly on the valid records *)

Theorem C16_conds : forall c, is_ok (parse_conds c) = valid_conds c.
Proof. exact conds_ok. Qed.

(* outside the second class; for every entry: with the forbidden nulls left out *)
Theorem C16_file : forall f, file_null_forbidden f = false ->
  serde_ok_file f && is_ok (parse_file f) = valid_file f.
Proof. exact file_ok. Qed.

Theorem C16_file_without_forbidden_nulls : forall f,
  serde_ok_file f && is_ok (parse_file f) = valid_file (file_without_forbidden_nulls f).
Proof. exact file_ok_stripped. Qed.

Theorem C16_gp_info : forall g, serde_ok_gp g && is_ok (parse_gp g) = valid_gp g.
Proof. exact gp_ok. Qed.

Theorem C16_settings : forall s, serde_ok_settings s && is_ok (parse_settings s) = valid_settings s.
Proof. exact settings_ok. Qed.

(* [settings_link gs st]: [st] is what the document's `settings:` entry [gs] parses to (the defaults if absent) *)
Theorem C16_segment : forall gs st s, settings_link gs st -> is_null (ss_name s) = false ->
  segment_null_forbidden s = false ->
  serde_ok_segment s && is_ok (parse_segment st s) = valid_segment gs s.
Proof. exact segment_ok. Qed.

Theorem C16_class : forall c, is_null (vs_name c) = false ->
  serde_ok_class c && is_ok (parse_class c) = valid_class c.
Proof. exact class_ok. Qed.

Theorem C16_assignment : forall a, is_null (as_name a) = false -> is_null (as_value a) = false ->
  serde_ok_assign a && is_ok (parse_assign a) = valid_assign a.
Proof. exact assign_ok. Qed.

Theorem C16_required : forall r, is_null (rs_name r) = false ->
  serde_ok_required r && is_ok (parse_required r) = valid_required r.
Proof. exact required_ok. Qed.

Theorem C16_assert : forall a, is_null (ats_check a) = false -> is_null (ats_error_message a) = false ->
  serde_ok_assert a && is_ok (parse_assert a) = valid_assert a.
Proof. exact assert_ok. Qed.

(* ---------- which error (single-fault cases) ---------- *)

(* an unknown key at any of the nine record levels (document, settings, vram class, segment, file entry at any
   depth, gp_info, symbol assignment, required symbol, assert) is serde's error *)
Theorem C16_first_error_unknown_key : forall sd, has_unknown_key sd = true -> parse sd = Err EYaml.
Proof. exact unknown_key_is_yaml_error. Qed.

(* d_path without target_path, the settings being valid once d_path is removed *)
Theorem C16_first_error_d_path : forall s,
  valid_settings (sts_with_d_path s Absent) = true ->
  has_value (sts_d_path s) = true -> has_value (sts_target_path s) = false ->
  parse_settings s = Err (EMissingRequiredFieldCombo "target_path" "d_path").
Proof. exact d_path_without_target. Qed.

(* two address fields on a segment that is valid once the second one is removed: the six pairs *)
Theorem C16_first_error_fixed_vram_fixed_symbol : forall st gs s,
  valid_segment gs (ss_with_address s (ss_fixed_vram s) Absent (ss_follows_segment s) (ss_vram_class s)) = true ->
  has_value (ss_fixed_vram s) = true -> has_value (ss_fixed_symbol s) = true ->
  parse_segment st s = Err (EInvalidFieldCombo "fixed_vram" "fixed_symbol").
Proof. exact two_addresses_vram_symbol. Qed.

Theorem C16_first_error_fixed_vram_follows_segment : forall st gs s,
  valid_segment gs (ss_with_address s (ss_fixed_vram s) (ss_fixed_symbol s) Absent (ss_vram_class s)) = true ->
  has_value (ss_fixed_vram s) = true -> has_value (ss_follows_segment s) = true ->
  parse_segment st s = Err (EInvalidFieldCombo "fixed_vram" "follows_segment").
Proof. exact two_addresses_vram_follows. Qed.

Theorem C16_first_error_fixed_vram_vram_class : forall st gs s,
  valid_segment gs (ss_with_address s (ss_fixed_vram s) (ss_fixed_symbol s) (ss_follows_segment s) Absent) = true ->
  has_value (ss_fixed_vram s) = true -> has_value (ss_vram_class s) = true ->
  parse_segment st s = Err (EInvalidFieldCombo "fixed_vram" "vram_class").
Proof. exact two_addresses_vram_class. Qed.

Theorem C16_first_error_fixed_symbol_follows_segment : forall st gs s,
  valid_segment gs (ss_with_address s (ss_fixed_vram s) (ss_fixed_symbol s) Absent (ss_vram_class s)) = true ->
  has_value (ss_fixed_symbol s) = true -> has_value (ss_follows_segment s) = true ->
  parse_segment st s = Err (EInvalidFieldCombo "fixed_symbol" "follows_segment").
Proof. exact two_addresses_symbol_follows. Qed.

Theorem C16_first_error_fixed_symbol_vram_class : forall st gs s,
  valid_segment gs (ss_with_address s (ss_fixed_vram s) (ss_fixed_symbol s) (ss_follows_segment s) Absent) = true ->
  has_value (ss_fixed_symbol s) = true -> has_value (ss_vram_class s) = true ->
  parse_segment st s = Err (EInvalidFieldCombo "fixed_symbol" "vram_class").
Proof. exact two_addresses_symbol_class. Qed.

Theorem C16_first_error_follows_segment_vram_class : forall st gs s,
  valid_segment gs (ss_with_address s (ss_fixed_vram s) (ss_fixed_symbol s) (ss_follows_segment s) Absent) = true ->
  has_value (ss_follows_segment s) = true -> has_value (ss_vram_class s) = true ->
  parse_segment st s = Err (EInvalidFieldCombo "follows_segment" "vram_class").
Proof. exact two_addresses_follows_class. Qed.

(* gp_info on a segment (valid without it) while the settings hardcode _gp *)
Theorem C16_first_error_gp_info_hardcoded : forall st gs s g,
  valid_segment gs (ss_with_gp_info s Absent) = true -> ss_gp_info s = Value g -> valid_gp g = true ->
  is_some (hardcoded_gp_value st) = true ->
  parse_segment st s = Err (EInvalidFieldCombo "segment.gp_info" "settings.hardcoded_gp_value").
Proof. exact gp_info_with_hardcoded. Qed.

(* a vram class with a name and no placement field *)
Theorem C16_first_error_class_without_placement : forall c,
  required_str (vs_name c) = true ->
  not_null (vs_fixed_vram c) = true -> not_null (vs_fixed_symbol c) = true -> not_null (vs_follows_classes c) = true ->
  count_true [has_value (vs_fixed_vram c); has_value (vs_fixed_symbol c); nonempty_list (an_list (vs_follows_classes c))] = 0 ->
  parse_class c = Err (EMissingAnyOfOptionalFields "'fixed_vram', 'fixed_symbol', 'follows_classes'").
Proof. exact class_without_placement. Qed.

(* empty name, empty files, empty segments *)
Theorem C16_first_error_empty_segment_name : forall st s,
  ss_name s = Value "" -> parse_segment st s = Err (EEmptyValue "name").
Proof. exact segment_empty_name. Qed.

Theorem C16_first_error_empty_files : forall st s,
  required_str (ss_name s) = true -> ss_files s = Some [] -> parse_segment st s = Err (EEmptyValue "files").
Proof. exact segment_empty_files. Qed.

Theorem C16_first_error_empty_segments : forall sd,
  serde_ok sd = true -> not_null (ds_settings sd) = true -> if_given valid_settings (ds_settings sd) = true ->
  ds_segments sd = Some [] -> parse sd = Err (EEmptyValue "segments").
Proof. exact empty_segments. Qed.

(* ---------- examples ---------- *)
(* [ex_doc] (Proofs/C16.v) is a rich document - settings, a vram class, two segments, a pad, a linker offset, an
   archive with subfile and section_order, a group with dir and keep_sections, gp_info, conditions, entry, a symbol
   assignment, a required symbol, an assert - with ten places where one fault can be injected *)

Example ex_valid : valid ex_doc_ok = true /\ is_ok (parse ex_doc_ok) = true /\
  Known_C16_null_plain_string ex_doc_ok = false /\ Known_C16_null_forbidden_field ex_doc_ok = false /\
  has_unknown_key ex_doc_ok = false.
Proof. vm_compute. repeat split. Qed.

(* an ordinary document is in neither class, and the two classes are independent *)
Example ex_ordinary_in_neither_class :
  Known_C16_null_plain_string ex_doc_ok = false /\ Known_C16_null_forbidden_field ex_doc_ok = false /\
  Known_C16_null_plain_string wit_null_forbidden = false /\ Known_C16_null_forbidden_field wit_null_name = false.
Proof. vm_compute. repeat split. Qed.

(* the second class two levels down and on the other kinds (`path: null` on a group and on a pad, `dir: null` on a
   pad, `pad_amount: null` / `files: null` on an archive whose kind is guessed from the path): in the class, invalid,
   accepted, and parsed to the same result as the document without the nulls, which is valid and outside the class *)
Example ex_nested_null_forbidden :
  Known_C16_null_forbidden_field wit_nested_null_forbidden = true /\ valid wit_nested_null_forbidden = false /\
  is_ok (parse wit_nested_null_forbidden) = true /\
  parse wit_nested_null_forbidden = parse (without_forbidden_nulls wit_nested_null_forbidden) /\
  valid (without_forbidden_nulls wit_nested_null_forbidden) = true /\
  Known_C16_null_forbidden_field (without_forbidden_nulls wit_nested_null_forbidden) = false.
Proof. vm_compute. repeat split. Qed.

(* a null on a field that the kind REQUIRES or merely allows is an ordinary error, not part of the class:
   `pad_amount: null` on the pad of [ex_doc] *)
Example ex_null_on_required_is_not_known :
  is_mutant_rejected (ex_doc [] Null Absent Absent Absent Absent (Value ".sdata") (Value "build/game.elf")
                             (Value [("version", "us")]) Absent true) (EMissingRequiredField "pad_amount") /\
  Known_C16_null_forbidden_field (ex_doc [] Null Absent Absent Absent Absent (Value ".sdata") (Value "build/game.elf")
                             (Value [("version", "us")]) Absent true) = false.
Proof. vm_compute. repeat split. Qed.

(* single-fault mutants: each is invalid, and rejected with the expected error ([is_mutant_rejected sd e] is
   [valid sd = false /\ parse sd = Err e]) *)
Example ex_unknown_key_in_nested_file :
  is_mutant_rejected (ex_doc ["pth"] (Value 16%N) Absent Absent Absent Absent (Value ".sdata") (Value "build/game.elf")
                             (Value [("version", "us")]) Absent true) EYaml /\
  has_unknown_key (ex_doc ["pth"] (Value 16%N) Absent Absent Absent Absent (Value ".sdata") (Value "build/game.elf")
                             (Value [("version", "us")]) Absent true) = true.
Proof. vm_compute. repeat split. Qed.

Example ex_pad_without_amount :
  is_mutant_rejected (ex_doc [] Absent Absent Absent Absent Absent (Value ".sdata") (Value "build/game.elf")
                             (Value [("version", "us")]) Absent true) (EMissingRequiredField "pad_amount").
Proof. vm_compute. repeat split. Qed.

Example ex_object_with_section :
  is_mutant_rejected (ex_doc [] (Value 16%N) (Value ".text") Absent Absent Absent (Value ".sdata") (Value "build/game.elf")
                             (Value [("version", "us")]) Absent true)
                     (EInvalidFieldCombo "section" "non `kind: pad or kind: linker_offset`").
Proof. vm_compute. repeat split. Qed.

Example ex_two_segment_addresses :
  is_mutant_rejected (ex_doc [] (Value 16%N) Absent (Value "boot_start") Absent Absent (Value ".sdata") (Value "build/game.elf")
                             (Value [("version", "us")]) Absent true) (EInvalidFieldCombo "fixed_vram" "fixed_symbol").
Proof. vm_compute. repeat split. Qed.

Example ex_two_class_placements :
  is_mutant_rejected (ex_doc [] (Value 16%N) Absent Absent (Value "ovl_start") Absent (Value ".sdata") (Value "build/game.elf")
                             (Value [("version", "us")]) Absent true) (EInvalidFieldCombo "fixed_vram" "fixed_symbol").
Proof. vm_compute. repeat split. Qed.

Example ex_gp_info_and_hardcoded_gp :
  is_mutant_rejected (ex_doc [] (Value 16%N) Absent Absent Absent (Value 2148417680%N) (Value ".sdata") (Value "build/game.elf")
                             (Value [("version", "us")]) Absent true)
                     (EInvalidFieldCombo "segment.gp_info" "settings.hardcoded_gp_value").
Proof. vm_compute. repeat split. Qed.

Example ex_gp_section_not_in_segment :
  is_mutant_rejected (ex_doc [] (Value 16%N) Absent Absent Absent Absent (Value ".got") (Value "build/game.elf")
                             (Value [("version", "us")]) Absent true)
                     (EMissingSectionForSegment "gp_info" ".got" "boot").
Proof. vm_compute. repeat split. Qed.

(* ... also when the section is lost because the global alloc_sections replaces the default list *)
Example ex_gp_section_lost_by_global_override :
  is_mutant_rejected (ex_doc [] (Value 16%N) Absent Absent Absent Absent (Value ".sdata") (Value "build/game.elf")
                             (Value [("version", "us")]) (Value [".text"; ".data"]) true)
                     (EMissingSectionForSegment "gp_info" ".sdata" "boot").
Proof. vm_compute. repeat split. Qed.

Example ex_d_path_without_target_path :
  is_mutant_rejected (ex_doc [] (Value 16%N) Absent Absent Absent Absent (Value ".sdata") Absent
                             (Value [("version", "us")]) Absent true)
                     (EMissingRequiredFieldCombo "target_path" "d_path").
Proof. vm_compute. repeat split. Qed.

Example ex_empty_condition_list :
  is_mutant_rejected (ex_doc [] (Value 16%N) Absent Absent Absent Absent (Value ".sdata") (Value "build/game.elf")
                             (Value []) Absent true) (EEmptyValue "include_if_any").
Proof. vm_compute. repeat split. Qed.

Example ex_null_on_non_nullable :
  is_mutant_rejected (ex_doc [] (Value 16%N) Absent Absent Absent Absent (Value ".sdata") (Value "build/game.elf")
                             (Value [("version", "us")]) Null true) (ENullOnNonNull "alloc_sections").
Proof. vm_compute. repeat split. Qed.

Example ex_empty_segments :
  is_mutant_rejected (ex_doc [] (Value 16%N) Absent Absent Absent Absent (Value ".sdata") (Value "build/game.elf")
                             (Value [("version", "us")]) Absent false) (EEmptyValue "segments").
Proof. vm_compute. repeat split. Qed.

(* the hypotheses of the single-fault theorems are satisfiable: the boot segment of the two-address mutant *)
Example ex_first_error_hyp :
  let s := SegmentSerial [] (Value "boot") (Some [ex_pad (Value 16%N)]) (Value 1024%N) (Value "sym") Absent Absent Absent
             Absent (ex_conds Absent) Absent Absent Absent Absent Absent Absent Absent Absent Absent Absent Absent Absent SKAbsent in
  valid_segment Absent (ss_with_address s (ss_fixed_vram s) Absent (ss_follows_segment s) (ss_vram_class s)) = true /\
  has_value (ss_fixed_vram s) = true /\ has_value (ss_fixed_symbol s) = true.
Proof. vm_compute. repeat split. Qed.

Print Assumptions C16_accept_iff_valid.
Print Assumptions C16_valid_is_accepted.
Print Assumptions C16_valid_has_no_null_plain_string.
Print Assumptions C16_invalid_is_error.
Print Assumptions C16_accepted_is_valid.
Print Assumptions C16_refuted_null_plain_string.
Print Assumptions C16_accept_iff_valid_without_forbidden_nulls.
Print Assumptions C16_valid_iff_stripped_valid_and_not_known.
Print Assumptions C16_valid_has_no_null_forbidden_field.
Print Assumptions C16_refuted_null_forbidden_field.
Print Assumptions C16_known_forbidden_is_accepted_like_absent.
Print Assumptions C16_without_forbidden_nulls_outside_class.
Print Assumptions C16_without_forbidden_nulls_leaves_class.
Print Assumptions C16_file_without_forbidden_nulls.
Print Assumptions C16_conds.
Print Assumptions C16_file.
Print Assumptions C16_gp_info.
Print Assumptions C16_settings.
Print Assumptions C16_segment.
Print Assumptions C16_class.
Print Assumptions C16_assignment.
Print Assumptions C16_required.
Print Assumptions C16_assert.
Print Assumptions C16_first_error_unknown_key.
Print Assumptions C16_first_error_d_path.
Print Assumptions C16_first_error_fixed_vram_fixed_symbol.
Print Assumptions C16_first_error_fixed_vram_follows_segment.
Print Assumptions C16_first_error_fixed_vram_vram_class.
Print Assumptions C16_first_error_fixed_symbol_follows_segment.
Print Assumptions C16_first_error_fixed_symbol_vram_class.
Print Assumptions C16_first_error_follows_segment_vram_class.
Print Assumptions C16_first_error_gp_info_hardcoded.
Print Assumptions C16_first_error_class_without_placement.
Print Assumptions C16_first_error_empty_segment_name.
Print Assumptions C16_first_error_empty_files.
Print Assumptions C16_first_error_empty_segments.
