(* C06Equal - C06 "the outputs equal those of the document with that entry deleted", as an EQUALITY.

   C06_no_trace_file* (Properties/C06More.v) are one-directional: gen d = Ok o -> gen (pruned d) = Ok o.
   The converse needs a condition: an excluded object still walks the chain of sections_subgroups
   (emit_section_for_file consults the table before looking at the entry's conditions), so with a cyclic
   table the document WITH the excluded entry fails with ESubgroupCycle and the document without it
   generates (C06_no_trace_cycle_witness).  That is the only obstruction: when the walk of every DELETED
   entry is acyclic ([walk_acyclic], Spec/Strengthen.v: a rank decreasing along every edge of the entry's
   expansion, the predicate of C19_acyclic_no_cycle_error; vacuous for a deleted group, which consults no
   table and whose subtree is never visited) both documents give the same result - statements, recorded
   paths AND errors.  Also: deleting an excluded SEGMENT, at document level.
   Only statements, each closed by [exact]; proofs in Proofs/Strengthen.v (part C). *)
From Slinky Require Import Model.Types Model.Parse Model.Runtime Model.Style Model.Script Model.Writer
  Model.Exports.
From Slinky Require Import Spec.C06 Spec.C15 Spec.C19 Spec.Strengthen Proofs.C06More Proofs.Strengthen.
Local Open Scope string_scope.

(* ---------- an excluded entry with an acyclic walk ---------- *)

(* nothing emitted, no path recorded, and NO error: as the writer calls it *)
Theorem C06_file_excluded_acyclic_top : forall rt sty cfg seg sections f section base ws,
  should_emit rt (fi_conds f) = false -> walk_acyclic seg f ->
  emit_sff rt sty cfg seg sections f (chain_fuel seg) [] section base ws = Ok ([], ws).
Proof. exact excluded_acyclic_top. Qed.

(* without section_order the walk follows the table itself: a rank on the segment's table is enough *)
Theorem C06_walk_acyclic_plain : forall seg sections rank f,
  fi_section_order f = [] ->
  (forall k others other, lookup k (sections_subgroups seg) = Some others -> In other others ->
                          rank other < rank k) ->
  chain_decreasing seg sections rank f.
Proof. exact chain_decreasing_plain. Qed.

(* ---------- deleting excluded entries at any depth: equality ---------- *)

(* one list of entries, every section, base path and writer state: [prune_acyclic] is [prune] of
   Proofs/C06More.v where every deleted entry has an acyclic walk *)
Theorem C06_no_trace_file_list_equal : forall rt sty cfg seg sections l l',
  prune_acyclic rt seg l l' ->
  forall section base ws,
    fold_out (fun f ws => emit_sff rt sty cfg seg sections f (chain_fuel seg) [] section base ws) l ws =
    fold_out (fun f ws => emit_sff rt sty cfg seg sections f (chain_fuel seg) [] section base ws) l' ws.
Proof. exact no_trace_file_list_iff. Qed.

Theorem C06_no_trace_file_section_equal : forall rt sty cfg seg fl sections base_path section ws,
  prune_acyclic rt seg (sg_files seg) fl ->
  emit_section rt sty cfg seg sections base_path section ws =
  emit_section rt sty cfg (clone_with_new_files seg fl) sections base_path section ws.
Proof. exact emit_section_prune_eq. Qed.

Theorem C06_no_trace_file_segment_equal : forall rt st cfg classes seg fl ws,
  prune_acyclic rt seg (sg_files seg) fl ->
  add_segment rt st cfg classes seg ws = add_segment rt st cfg classes (clone_with_new_files seg fl) ws.
Proof. exact add_segment_prune_eq. Qed.

Theorem C06_no_trace_file_single_segment_equal : forall rt st cfg classes seg fl ws,
  prune_acyclic rt seg (sg_files seg) fl ->
  add_single_segment rt st cfg classes seg ws =
  add_single_segment rt st cfg classes (clone_with_new_files seg fl) ws.
Proof. exact add_single_segment_prune_eq. Qed.

(* whole documents, the weakest condition found: only the DELETED entries need an acyclic walk.  The two
   documents give the same result, errors included; dependency files and header are functions of it *)
Theorem C06_no_trace_file_equal : forall rt d segs2,
  Forall2 (seg_prune_acyclic rt) (doc_segments d) segs2 ->
  gen_normal d rt = gen_normal (with_segments d segs2) rt /\
  gen_partial d rt = gen_partial (with_segments d segs2) rt.
Proof. exact no_trace_file_equal. Qed.

(* the plain deletion relation gives the refined one when every entry below the list is acyclic *)
Theorem C06_prune_acyclic_of_deep : forall rt seg l l',
  prune rt l l' -> Forall (walk_acyclic_deep seg) l -> prune_acyclic rt seg l l'.
Proof. exact prune_acyclic_of_deep. Qed.

(* for documents whose sub-group maps are acyclic ([doc_acyclic]: every entry of every segment, at any
   depth) and the deletion relation of C06_no_trace_file_normal / _partial: both directions *)
Theorem C06_no_trace_file_iff : forall rt d segs2,
  doc_acyclic d -> Forall2 (seg_prune rt) (doc_segments d) segs2 ->
  (forall w, gen_normal d rt = Ok w <-> gen_normal (with_segments d segs2) rt = Ok w) /\
  (forall p, gen_partial d rt = Ok p <-> gen_partial (with_segments d segs2) rt = Ok p).
Proof. exact no_trace_file_iff. Qed.

(* ---------- the condition cannot be dropped ---------- *)

(* sections_subgroups {.text: [.text]} and ONE entry, excluded: with the entry generation fails with the
   cycle error (ordinary and partial), with the entry deleted it succeeds; the document is not acyclic *)
Theorem C06_no_trace_cycle_witness :
  exists d rt segs2,
    Forall2 (seg_prune rt) (doc_segments d) segs2 /\
    gen_normal d rt = Err (ESubgroupCycle "s" ".text") /\
    is_ok (gen_normal (with_segments d segs2) rt) = true /\
    gen_partial d rt = Err (ESubgroupCycle "s" ".text") /\
    is_ok (gen_partial (with_segments d segs2) rt) = true /\
    ~ doc_acyclic d.
Proof. exact cyc_witness. Qed.

(* ---------- deleting an excluded SEGMENT, whole documents ---------- *)

(* multi-segment mode (in single-segment mode the conditions of the only segment are not consulted:
   C06_refuted_single_segment, Properties/C06Known.v) *)
Theorem C06_no_trace_segment_document : forall rt d l1 seg l2,
  single_segment_mode (doc_settings d) = false ->
  doc_segments d = (l1 ++ seg :: l2)%list -> should_emit rt (sg_conds seg) = false ->
  gen_normal d rt = gen_normal (with_segments d (l1 ++ l2)) rt.
Proof. exact no_trace_segment_document. Qed.

(* a partial build: main script, per-segment scripts (none for the deleted segment) and recorded paths *)
Theorem C06_no_trace_segment_document_partial : forall rt d l1 seg l2,
  doc_segments d = (l1 ++ seg :: l2)%list -> should_emit rt (sg_conds seg) = false ->
  gen_partial d rt = gen_partial (with_segments d (l1 ++ l2)) rt.
Proof. exact no_trace_segment_document_partial. Qed.

(* ---------- examples ---------- *)

(* the sample of Properties/C06More.v (sub-group .text -> .text.hot, an excluded group and an excluded
   object inside a kept group) meets the hypotheses of C06_no_trace_file_iff ... *)
Example C06_ex_iff_hyps :
  doc_acyclic (ex06_doc ex06_files) /\
  Forall2 (seg_prune ex06_rt) (doc_segments (ex06_doc ex06_files)) [ex06_seg ex06_files_pruned].
Proof. split; [exact ex06_acyclic | exact ex06_seg_prune]. Qed.

(* ... and both documents generate the same *)
Example C06_ex_iff :
  is_ok (gen_normal (ex06_doc ex06_files) ex06_rt) = true /\
  gen_normal (ex06_doc ex06_files) ex06_rt =
  gen_normal (with_segments (ex06_doc ex06_files) [ex06_seg ex06_files_pruned]) ex06_rt /\
  gen_partial (ex06_doc ex06_files) ex06_rt =
  gen_partial (with_segments (ex06_doc ex06_files) [ex06_seg ex06_files_pruned]) ex06_rt.
Proof. vm_compute. repeat split; reflexivity. Qed.

(* the two documents of the witness *)
Example C06_ex_cycle :
  gen_normal (cyc_doc [cyc_obj]) cyc_rt = Err (ESubgroupCycle "s" ".text") /\
  should_emit cyc_rt (fi_conds cyc_obj) = false /\
  is_ok (gen_normal (cyc_doc []) cyc_rt) = true.
Proof. vm_compute. repeat split; reflexivity. Qed.

(* an excluded segment (whose file needs an option that is not given) in front of the sample segment *)
Example C06_ex_segment_hyps :
  single_segment_mode (doc_settings ex06_doc2) = false /\
  doc_segments ex06_doc2 = ([] ++ ex06_dbg_seg :: [ex06_seg ex06_files])%list /\
  should_emit ex06_rt (sg_conds ex06_dbg_seg) = false.
Proof. vm_compute. repeat split; reflexivity. Qed.

Example C06_ex_segment :
  is_ok (gen_normal ex06_doc2 ex06_rt) = true /\
  gen_normal ex06_doc2 ex06_rt = gen_normal (with_segments ex06_doc2 [ex06_seg ex06_files]) ex06_rt /\
  is_ok (gen_partial ex06_doc2 ex06_rt) = true /\
  gen_partial ex06_doc2 ex06_rt = gen_partial (with_segments ex06_doc2 [ex06_seg ex06_files]) ex06_rt.
Proof. vm_compute. repeat split; reflexivity. Qed.

Print Assumptions C06_file_excluded_acyclic_top.
Print Assumptions C06_walk_acyclic_plain.
Print Assumptions C06_no_trace_file_list_equal.
Print Assumptions C06_no_trace_file_section_equal.
Print Assumptions C06_no_trace_file_segment_equal.
Print Assumptions C06_no_trace_file_single_segment_equal.
Print Assumptions C06_no_trace_file_equal.
Print Assumptions C06_prune_acyclic_of_deep.
Print Assumptions C06_no_trace_file_iff.
Print Assumptions C06_no_trace_cycle_witness.
Print Assumptions C06_no_trace_segment_document.
Print Assumptions C06_no_trace_segment_document_partial.
