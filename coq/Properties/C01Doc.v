(* C01Doc - the link-level half of C01 over a whole generated document:
   "When the script is linked with GNU ld, every such input section ends up inside its segment's
   address range and none is discarded or left as an orphan."
   Only statements, each closed by [exact]; see Proofs/C01Doc.v, definitions in Spec/C01Doc.v.
   (Which input sections the script names - "every such input section" - is the generator half:
   Properties/C01.v.  That a PLACED section is never also discarded or waiting: C01_placed_not_discarded
   there, for any script.) *)
From Slinky Require Import Model.Types Model.Runtime Model.Style Model.Script Model.Writer Model.LdSem.
From Slinky Require Import Spec.C18 Spec.C04 Spec.C09 Spec.C01 Spec.DocLevel Spec.C01Doc.
From Slinky Require Import Proofs.C01Doc.
From Coq Require Import ZArith Permutation.
Local Open Scope string_scope.
Local Open Scope Z_scope.

(* ====================================================================== *)
(* 1. every placement of a segment lies inside the segment                 *)
(* ====================================================================== *)

(* multi-segment mode, hypotheses of Properties/DocLevel.v plus doc_outsecs_fresh (no included segment
   is called like an entry of sections_allowlist / sections_allowlist_extra; C01_refuted_allowlist_name).
   For every included segment, in the state at the end of the pass (InSegmentRange): the output sections
   .seg (o1) and .seg.noload (o2) exist, end(o1) <= start(o2), end(o2) <= VRAM_END(seg); every placement
   whose output section is .seg is the placement of an input section x of the universe (same marker)
   with [addr, addr + size x) inside [start(o1), end(o1)]; likewise .seg.noload inside o2; hence all of
   them inside [start of .seg, VRAM_END(seg)].  (X_VRAM = ADDR(.seg) is read from the previous pass; that
   it equals start(o1) in the last pass of layout is C03Fixpoint.) *)
Theorem C01_document_in_segment_range : forall env senv ext final d rt w u seg,
  gen_normal d rt = Ok w -> doc_link_wf d rt = true -> doc_outsecs_fresh d rt = true ->
  Forall (fun x => 0 <= u_size x) u ->
  In seg (included rt (doc_segments d)) ->
  let sty := linker_symbols_style (doc_settings d) in
  let st' := exec_script env senv ext final (wo_script w) (init_state u) in
  (forall s, In s (included rt (doc_segments d)) -> ~ In (LForwardRef (alloc_name s)) (l_errors st')) ->
  InSegmentRange sty u st' seg.
Proof. exact document_in_segment_range. Qed.

Theorem C01_document_in_segment_range_layout : forall d rt w u ext0 seg,
  gen_normal d rt = Ok w -> doc_link_wf d rt = true -> doc_outsecs_fresh d rt = true ->
  Forall (fun x => 0 <= u_size x) u ->
  In seg (included rt (doc_segments d)) ->
  let sty := linker_symbols_style (doc_settings d) in
  let st' := layout (wo_script w) u ext0 in
  (forall s, In s (included rt (doc_segments d)) -> ~ In (LForwardRef (alloc_name s)) (l_errors st')) ->
  InSegmentRange sty u st' seg.
Proof. exact document_in_segment_range_layout. Qed.

(* each output section on its own, with the error condition for THIS segment only: it exists, and its
   placements - all in that section, each the placement of an input section of the universe with its
   whole range inside the section - have non-decreasing addresses *)
Theorem C01_document_section_blocks : forall env senv ext final d rt w u seg,
  gen_normal d rt = Ok w -> doc_link_wf d rt = true -> doc_outsecs_fresh d rt = true ->
  Forall (fun x => 0 <= u_size x) u ->
  In seg (included rt (doc_segments d)) ->
  let st' := exec_script env senv ext final (wo_script w) (init_state u) in
  ~ In (LForwardRef (alloc_name seg)) (l_errors st') ->
  (exists o, find_sec (alloc_name seg) (l_secs st') = Some o /\ os_noload o = false /\ 0 <= os_size o /\
     Forall (in_range u (os_vma o) (os_vma o + os_size o) (alloc_name seg)) (placed_in (alloc_name seg) st') /\
     nondecreasing (map pl_addr (placed_in (alloc_name seg) st'))) /\
  (exists o, find_sec (noload_name seg) (l_secs st') = Some o /\ os_noload o = true /\ 0 <= os_size o /\
     Forall (in_range u (os_vma o) (os_vma o + os_size o) (noload_name seg)) (placed_in (noload_name seg) st') /\
     nondecreasing (map pl_addr (placed_in (noload_name seg) st'))).
Proof. exact document_blocks. Qed.

(* ====================================================================== *)
(* 2. nothing is lost, nothing is left as an orphan                        *)
(* ====================================================================== *)

(* ANY script: the markers placed, discarded and still waiting in the final state of layout are, as a
   multiset, the markers of the universe *)
Theorem C01_document_conservation : forall script u ext0,
  Permutation (all_markers (layout script u ext0)) (map u_marker u).
Proof. exact layout_conservation. Qed.

(* ... so when the markers of the universe are pairwise different every input section is, in the final
   state, exactly one of: placed, discarded, still waiting (what ld would treat as an orphan) *)
Theorem C01_document_exactly_one : forall script u ext0 x,
  NoDup (map u_marker u) -> In x u ->
  let st' := layout script u ext0 in
  ExactlyOne (is_placed st' (u_marker x)) (is_discarded st' (u_marker x)) (is_orphan st' (u_marker x)).
Proof. exact layout_exactly_one. Qed.

(* the writer ends SECTIONS with "/DISCARD/ : { denylist... *(*) }" exactly when
   discard_wildcard_section or a non-empty denylist asks for it (end_sections_body; C18_discard_iff),
   in multi-segment AND single-segment mode; with discard_wildcard_section the wildcard is there and
   nothing is left waiting at the end of any pass, from any state *)
Theorem C01_document_no_orphan : forall env senv ext final d rt w st,
  gen_normal d rt = Ok w -> discard_wildcard_section (doc_settings d) = true ->
  l_remaining (exec_script env senv ext final (wo_script w) st) = [].
Proof. exact document_no_orphan. Qed.

Theorem C01_document_no_orphan_layout : forall d rt w u ext0,
  gen_normal d rt = Ok w -> discard_wildcard_section (doc_settings d) = true ->
  l_remaining (layout (wo_script w) u ext0) = [].
Proof. exact document_no_orphan_layout. Qed.

(* hence every input section of the universe is placed or discarded *)
Theorem C01_document_placed_or_discarded : forall d rt w u ext0 x,
  gen_normal d rt = Ok w -> discard_wildcard_section (doc_settings d) = true -> In x u ->
  let st' := layout (wo_script w) u ext0 in
  is_placed st' (u_marker x) \/ is_discarded st' (u_marker x).
Proof. exact document_placed_or_discarded. Qed.

(* ====================================================================== *)
(* examples                                                                *)
(* ====================================================================== *)

(* the document of Spec/DocLevel.v meets the hypotheses *)
Example ex_c01doc_hypotheses :
  doc_link_wf dl_doc ex_rt = true /\ doc_outsecs_fresh dl_doc ex_rt = true /\
  (exists w, gen_normal dl_doc ex_rt = Ok w) /\
  discard_wildcard_section (doc_settings dl_doc) = true /\
  Forall (fun x => 0 <= u_size x) dl_universe /\ NoDup (map u_marker dl_universe) /\
  l_errors (layout dl_script dl_universe [("main", 5)]) = [].
Proof.
  split; [vm_compute; reflexivity|]. split; [vm_compute; reflexivity|].
  split; [eexists; vm_compute; reflexivity|]. split; [reflexivity|].
  split; [repeat constructor; vm_compute; discriminate|].
  split; [|vm_compute; reflexivity].
  apply (Proofs.DocLevel.nodup_str_NoDup (map u_marker dl_universe)). vm_compute. reflexivity.
Qed.

(* ... and the result for the segment ovl_b: .ovl_b = [2148532224, +64), .ovl_b.noload =
   [2148532288, +4), VRAM_END = 2148532292; b_text (48 bytes) and b_data (16) inside the first, b_bss
   (4) inside the second; every input section of the universe is placed *)
Example ex_c01doc_link :
  let st := layout dl_script dl_universe [("main", 5)] in
  map (fun o => (os_name o, os_vma o, os_size o))
      (filter (fun o => String.prefix ".ovl_b" (os_name o)) (l_secs st)) =
    [(".ovl_b", 2148532224, 64); (".ovl_b.noload", 2148532288, 4)] /\
  val st "ovl_b_VRAM_END" = Some 2148532292 /\
  map (fun p => (pl_marker p, pl_addr p)) (placed_in ".ovl_b" st) =
    [("b_text", 2148532224); ("b_data", 2148532272)] /\
  map (fun p => (pl_marker p, pl_addr p)) (placed_in ".ovl_b.noload" st) = [("b_bss", 2148532288)] /\
  map pl_marker (l_placed st) = map u_marker dl_universe /\
  l_remaining st = []%list /\ l_discarded st = []%list.
Proof. vm_compute. repeat split; reflexivity. Qed.

(* the wildcard is needed: with discard_wildcard_section = false (and .reginfo on the denylist) a
   section that no statement names stays waiting - an orphan for ld *)
Example ex_c01doc_orphan :
  discard_wildcard_section (doc_settings keep_doc) = false /\
  exists w, gen_normal keep_doc ex_rt = Ok w /\
    let st := layout (wo_script w) keep_universe [] in
    l_errors st = [] /\ map pl_marker (l_placed st) = ["boot_text"] /\
    map u_marker (l_remaining st) = ["boot_comment"] /\ l_discarded st = ["boot_reginfo"].
Proof. split; [reflexivity|]. eexists. split; [vm_compute; reflexivity|]. vm_compute. repeat split; reflexivity. Qed.

(* ====================================================================== *)
(* KNOWN FINDING                                                           *)
(* ====================================================================== *)

(* without doc_outsecs_fresh the range statement is FALSE of the model (same document as
   C02_refuted_allowlist_name): the segment "mdebug" and the allowlist entry ".mdebug" give two output
   sections of one name; find_sec returns the segment's, [2148532224, +24), and the placement z_mdebug,
   whose output section is also called .mdebug, is at 0 *)
Theorem C01_refuted_allowlist_name :
  doc_link_wf clash_doc ex_rt = true /\ doc_outsecs_fresh clash_doc ex_rt = false /\
  exists w, gen_normal clash_doc ex_rt = Ok w /\
    let st := layout (wo_script w) clash_universe [] in
    l_errors st = [] /\
    option_map (fun o => (os_vma o, os_size o)) (find_sec ".mdebug" (l_secs st)) = Some (2148532224, 24) /\
    map (fun p => (pl_marker p, pl_addr p)) (placed_in ".mdebug" st) =
      [("a_text", 2148532224); ("z_mdebug", 0)].
Proof. exact refuted_allowlist_name_range. Qed.

Print Assumptions C01_document_in_segment_range.
Print Assumptions C01_document_in_segment_range_layout.
Print Assumptions C01_document_section_blocks.
Print Assumptions C01_document_conservation.
Print Assumptions C01_document_exactly_one.
Print Assumptions C01_document_no_orphan.
Print Assumptions C01_document_no_orphan_layout.
Print Assumptions C01_document_placed_or_discarded.
Print Assumptions C01_refuted_allowlist_name.
