(* C05 - Linker symbols are complete, named as documented, and mutually consistent.
   Only statements, each closed by [exact]; see Proofs/C05.v. *)
From Slinky Require Import Model.Types Model.Runtime Model.Style Model.Script Model.Writer Model.LdSem.
From Slinky Require Import Spec.C13 Spec.C09 Spec.C05 Proofs.C09 Proofs.C05.
From Coq Require Import ZArith.

(* ---------- the names (table obligation) ---------- *)

(* every name function of Model/Style.v (driven by the templates regenerated from the Rust source)
   spells what the documentation says, for both styles and all arguments *)
Theorem C05_names :
  (forall sty seg, segment_rom_start sty seg = doc_rom_start sty seg) /\
  (forall sty seg, segment_rom_end sty seg = doc_rom_end sty seg) /\
  (forall sty seg, segment_rom_size sty seg = doc_rom_size sty seg) /\
  (forall sty seg, segment_vram_start sty seg = doc_vram_start sty seg) /\
  (forall sty seg, segment_vram_end sty seg = doc_vram_end sty seg) /\
  (forall sty seg, segment_vram_size sty seg = doc_vram_size sty seg) /\
  (forall sty seg sec, segment_section_start sty seg sec = doc_section_start sty seg sec) /\
  (forall sty seg sec, segment_section_end sty seg sec = doc_section_end sty seg sec) /\
  (forall sty seg sec, segment_section_size sty seg sec = doc_section_size sty seg sec) /\
  (forall sty name, linker_offset sty name = doc_linker_offset sty name) /\
  (forall sty name, vram_class_start sty name = doc_class_start sty name) /\
  (forall sty name, vram_class_end sty name = doc_class_end sty name) /\
  (forall sty name, vram_class_size sty name = doc_class_size sty name) /\
  (forall seg noload, kind_name seg noload = doc_kind_name (sg_name seg) noload).
Proof. exact names_table. Qed.

Example C05_names_example :
  doc_section_start Splat "boot" ".text" = "boot_TEXT_START" /\
  doc_section_end Makerom "boot" ".rodata" = "_bootSegmentRoDataEnd" /\
  doc_section_size Makerom "boot" ".bss" = "_bootSegmentBssSize" /\
  doc_vram_start Splat (doc_kind_name "boot" true) = "boot_noload_VRAM" /\
  doc_linker_offset Makerom "mid" = "_midOffset" /\
  doc_class_size Splat "overlay" = "overlay_VRAM_CLASS_SIZE".
Proof. vm_compute. repeat split; reflexivity. Qed.

(* ---------- the symbols of an emitted segment (script level) ---------- *)

(* the recorded symbols of an included segment are, in order, exactly the documented families; the
   symbols inside a group are linker offsets of the segment's included linker-offset entries (C02
   says which ones: those whose section is the one being emitted) *)
Theorem C05_segment_symbols : forall rt st cfg classes seg ws s ws',
  add_segment rt st cfg classes seg ws = Ok (s, ws') ->
  should_emit rt (sg_conds seg) = true ->
  exists alloc noload,
    map fst alloc = alloc_sections seg /\ map fst noload = noload_sections seg /\
    Forall (fun so => Forall (doc_offset_of rt (linker_symbols_style st) seg) (snd so)) (alloc ++ noload) /\
    recorded_syms s =
    expected_segment_symbols (linker_symbols_style st) cfg seg
      (match sg_vram_class seg with Some cn => negb (mem_str cn (ws_emitted ws)) | None => false end)
      alloc noload.
Proof. exact segment_symbols. Qed.

Example C05_segment_symbols_example :
  exists s ws', add_segment ex_rt ex_settings cfg_normal (doc_vram_classes ex_doc)
                            (ex_segment "ovl_a" [ex_obj "a.o"; ex_offset ".data" "mid"] (Some "overlay") None no_conds)
                            ws0 = Ok (s, ws') /\
    recorded_syms s =
    ["overlay_VRAM_CLASS_START"; "overlay_VRAM_CLASS_END"; "ovl_a_ROM_START"; "ovl_a_VRAM"; "ovl_a_alloc_VRAM";
     "ovl_a_TEXT_START"; "ovl_a_TEXT_END"; "ovl_a_TEXT_SIZE";
     "ovl_a_DATA_START"; "mid_OFFSET"; "ovl_a_DATA_END"; "ovl_a_DATA_SIZE";
     "ovl_a_SDATA_START"; "ovl_a_SDATA_END"; "ovl_a_SDATA_SIZE";
     "ovl_a_alloc_VRAM_END"; "ovl_a_alloc_VRAM_SIZE"; "ovl_a_noload_VRAM";
     "ovl_a_BSS_START"; "ovl_a_BSS_END"; "ovl_a_BSS_SIZE"; "ovl_a_noload_VRAM_END"; "ovl_a_noload_VRAM_SIZE";
     "ovl_a_VRAM_END"; "ovl_a_VRAM_SIZE"; "ovl_a_ROM_END"; "ovl_a_ROM_SIZE"].
Proof. eexists. eexists. split; [vm_compute; reflexivity|]. vm_compute. reflexivity. Qed.

Local Open Scope Z_scope.

(* ---------- size = end - start (link level) ---------- *)

(* `end_ = value; size = ABSOLUTE(end_ - start)` inside an output section, from any state in which
   [start] has a value (this pass, the previous pass or an object) and [value] can be computed.
   Side condition: the size symbol is not the end symbol.  s' is the value of [start] afterwards. *)
Theorem C05_size_is_end_minus_start : forall env senv ext final vma sub outsec start end_ size value ss s v,
  eval_expr env senv ext (s_st ss) (vma + s_off ss) value = Ok v ->
  sym_lookup start (s_st ss) env ext = Some s ->
  size <> end_ ->
  let ss' := fold_left (exec_sec_stmt env senv ext final vma sub outsec) (sym_end_size start end_ size value) ss in
  exists s',
    lookup end_ (l_syms (s_st ss')) = Some v /\
    lookup size (l_syms (s_st ss')) = Some (v - s') /\
    (start <> size -> sym_lookup start (s_st ss') env ext = Some s') /\
    (start <> end_ -> s' = s) /\
    s_off ss' = s_off ss.
Proof. exact size_is_end_minus_start_sec. Qed.

(* the same at the top level; there an assignment to "." would move the location counter instead *)
Theorem C05_size_is_end_minus_start_top : forall env senv ext final start end_ size value st s v,
  String.eqb end_ "." = false -> String.eqb size "." = false ->
  eval_expr env senv ext st (l_dot st) value = Ok v ->
  sym_lookup start st env ext = Some s ->
  size <> end_ ->
  let st' := fold_left (exec_top_stmt env senv ext final) (sym_end_size start end_ size value) st in
  exists s',
    lookup end_ (l_syms st') = Some v /\
    lookup size (l_syms st') = Some (v - s') /\
    (start <> size -> sym_lookup start st' env ext = Some s') /\
    (start <> end_ -> s' = s) /\
    l_dot st' = l_dot st.
Proof. exact size_is_end_minus_start_top. Qed.

(* the generated names meet the side conditions *)
Theorem C05_names_distinct : forall sty n s,
  segment_section_start sty n s <> segment_section_end sty n s /\
  segment_section_start sty n s <> segment_section_size sty n s /\
  segment_section_end sty n s <> segment_section_size sty n s /\
  segment_vram_start sty n <> segment_vram_end sty n /\
  segment_vram_start sty n <> segment_vram_size sty n /\
  segment_vram_end sty n <> segment_vram_size sty n /\
  segment_rom_start sty n <> segment_rom_end sty n /\
  segment_rom_start sty n <> segment_rom_size sty n /\
  segment_rom_end sty n <> segment_rom_size sty n /\
  String.eqb (segment_section_end sty n s) "." = false /\ String.eqb (segment_section_size sty n s) "." = false /\
  String.eqb (segment_vram_end sty n) "." = false /\ String.eqb (segment_vram_size sty n) "." = false /\
  String.eqb (segment_rom_end sty n) "." = false /\ String.eqb (segment_rom_size sty n) "." = false.
Proof. exact names_distinct. Qed.

Theorem C05_class_size : forall env senv ext final sty cn st a b,
  sym_lookup (vram_class_end sty cn) st env ext = Some a ->
  sym_lookup (vram_class_start sty cn) st env ext = Some b ->
  lookup (vram_class_size sty cn)
         (l_syms (exec_top_stmt env senv ext final st
                    (linker_symbol (vram_class_size sty cn) (ESub (vram_class_end sty cn) (vram_class_start sty cn))))) =
  Some (a - b).
Proof. exact class_size_top. Qed.

Example C05_size_example :
  let ss' := fold_left (exec_sec_stmt [] [] [] true 1000 None ".boot")
                       (sym_end_size "boot_TEXT_START" "boot_TEXT_END" "boot_TEXT_SIZE" EDot)
                       (SState 40 false (set_sym "boot_TEXT_START" 1008 false c09_state)) in
  lookup "boot_TEXT_END" (l_syms (s_st ss')) = Some 1040 /\ lookup "boot_TEXT_SIZE" (l_syms (s_st ss')) = Some 32.
Proof. vm_compute. split; reflexivity. Qed.

(* ---------- a group brackets exactly what it places (link level) ---------- *)

(* one group executed inside an output section: START <= END, SIZE = END - START, everything the group
   places lies in [START, END] in non-decreasing order, and every symbol its files define is a linker
   offset of the segment with a value in [START, END] *)
Theorem C05_group_bracket :
  forall env senv ext final vma sub outsec rt sty cfg seg sections base section ws files ws' ss,
  section_syms cfg = true ->
  emit_section rt sty cfg seg sections base section ws = Ok (files, ws') ->
  nonneg_sizes (l_remaining (s_st ss)) ->
  let ss' := fold_left (exec_sec_stmt env senv ext final vma sub outsec)
                       (section_symbol_start rt sty cfg seg section ++ files ++
                        section_symbol_end sty cfg seg section) ss in
  exists S E new news rest,
    lookup (segment_section_start sty (sg_name seg) section) (l_syms (s_st ss')) = Some S /\
    lookup (segment_section_end sty (sg_name seg) section) (l_syms (s_st ss')) = Some E /\
    lookup (segment_section_size sty (sg_name seg) section) (l_syms (s_st ss')) = Some (E - S) /\
    vma + s_off ss <= S /\ S <= E /\ E = vma + s_off ss' /\
    l_placed (s_st ss') = (l_placed (s_st ss) ++ new)%list /\
    Forall (placed_between S E outsec) new /\
    nondecreasing (map pl_addr new) /\
    l_syms (s_st ss') =
      ((segment_section_size sty (sg_name seg) section, E - S) ::
       (segment_section_end sty (sg_name seg) section, E) :: news ++
       (segment_section_start sty (sg_name seg) section, S) :: rest)%list /\
    Forall (offset_def sty (fun name => In name (segment_offset_names rt seg)) S E) news /\
    nonneg_sizes (l_remaining (s_st ss')).
Proof. exact group_bracket. Qed.

(* a linker offset lies between its neighbours *)
Theorem C05_offset_between_neighbours : forall env senv ext final vma sub outsec pre h r name post ss,
  nonneg_sizes (l_remaining (s_st ss)) ->
  let ss1 := fold_left (exec_sec_stmt env senv ext final vma sub outsec) pre ss in
  let ss2 := exec_sec_stmt env senv ext final vma sub outsec ss1 (SAssign false h r name EDot) in
  let ss' := fold_left (exec_sec_stmt env senv ext final vma sub outsec) post ss2 in
  ss' = fold_left (exec_sec_stmt env senv ext final vma sub outsec)
                  (pre ++ [SAssign false h r name EDot] ++ post)%list ss /\
  exists v new1 new2,
    lookup name (l_syms (s_st ss2)) = Some v /\
    l_placed (s_st ss') = (l_placed (s_st ss) ++ new1 ++ new2)%list /\
    Forall (fun p => pl_addr p <= v) new1 /\ Forall (fun p => v <= pl_addr p) new2 /\
    vma + s_off ss <= v /\ v <= vma + s_off ss'.
Proof. exact offset_between_neighbours. Qed.

Example C05_group_bracket_example :
  let ss' := fold_left (exec_sec_stmt [] [] [] true 1000 None ".boot")
                       (section_symbol_start (Runtime [] false) Splat cfg_normal c09_segment ".text" ++
                        [SInput false "a.o" None ".text" true; SAssign false false true "mid_OFFSET" EDot;
                         SInput false "b.o" None ".text" true] ++
                        section_symbol_end Splat cfg_normal c09_segment ".text")%list
                       (SState 0 false c09_state) in
  map pl_addr (l_placed (s_st ss')) = [1000; 1010] /\
  l_syms (s_st ss') = [("boot_TEXT_SIZE", 16); ("boot_TEXT_END", 1016); ("mid_OFFSET", 1010);
                       ("boot_TEXT_START", 1000); ("__romPos", 7)].
Proof. vm_compute. split; reflexivity. Qed.

(* ---------- the segment brackets its groups (link level) ---------- *)

(* an output section whose start address can be computed: afterwards "." = vma + size, size >= 0, and
   everything it placed lies in [vma, vma + size], in order, under its name *)
Theorem C05_outsec_bracket : forall env senv ext final name addr at_ noload sub body st vma,
  nonneg_sizes (l_remaining st) ->
  outsec_vma env senv ext addr sub body st = Ok vma ->
  let st' := exec_outsec env senv ext final name addr at_ noload sub body st in
  exists size new lma c,
    0 <= size /\ l_dot st' = vma + size /\
    l_secs st' = (l_secs st ++ [OSec name vma size lma noload c])%list /\
    l_placed st' = (l_placed st ++ new)%list /\
    Forall (placed_between vma (vma + size) name) new /\
    nondecreasing (map pl_addr new) /\
    nonneg_sizes (l_remaining st') /\ l_discarded st' = l_discarded st.
Proof. exact outsec_post. Qed.

(* the two halves of a segment, executed at the top level: the noload half is laid after the
   allocatable one (its start is the aligned location counter the allocatable half left), each half
   contains what it placed, and "." ends at the end of the noload half - which X_VRAM_END then takes,
   aligned upwards (C09_segment_rom_vram_end: l_dot <= vend).  When the address expression of the
   allocatable half cannot be evaluated in this pass ld reports it and nothing is placed there. *)
Theorem C05_segment_bracket : forall env senv ext final rt st cfg seg ws s1 ws1 s2 ws2 lst,
  write_segment rt st cfg seg (alloc_sections seg) false ws = Ok (s1, ws1) ->
  write_segment rt st cfg seg (noload_sections seg) true ws1 = Ok (s2, ws2) ->
  nonneg_sizes (l_remaining lst) ->
  let lst' := fold_left (exec_top_stmt env senv ext final) (s1 ++ [SBlank] ++ s2)%list lst in
  exists new1 new2 o2,
    l_placed lst' = (l_placed lst ++ new1 ++ new2)%list /\
    os_name o2 = ("." ++ sg_name seg ++ ".noload")%string /\ 0 <= os_size o2 /\
    l_dot lst' = os_vma o2 + os_size o2 /\
    Forall (placed_between (os_vma o2) (os_vma o2 + os_size o2) (os_name o2)) new2 /\
    nondecreasing (map pl_addr new2) /\
    ((new1 = [] /\ l_secs lst' = (l_secs lst ++ [o2])%list /\ l_dot lst <= os_vma o2) \/
     (exists o1, l_secs lst' = (l_secs lst ++ [o1; o2])%list /\
                 os_name o1 = ("." ++ sg_name seg)%string /\ 0 <= os_size o1 /\
                 Forall (placed_between (os_vma o1) (os_vma o1 + os_size o1) (os_name o1)) new1 /\
                 nondecreasing (map pl_addr new1) /\
                 os_vma o1 + os_size o1 <= os_vma o2)) /\
    nonneg_sizes (l_remaining lst').
Proof. exact halves_bracket. Qed.

(* ---------- KNOWN FINDING: the allocatable start symbol can exceed the allocatable end ---------- *)

(* `X_alloc_VRAM = .` is written BEFORE the header of the output section.  For a segment with an
   explicit address "." is still the location counter left by the previous segment: here segment b
   (fixed_vram 0x200, after segment a at 0x1000) gets b_alloc_VRAM = 0x1100 > b_alloc_VRAM_END = 0x210
   and a negative b_alloc_VRAM_SIZE, while b_VRAM = 0x200.  "start never exceeds end" does not hold
   for the allocatable-kind symbols. *)
Theorem C05_refuted_alloc_start :
  exists w, gen_normal c05_doc (Runtime [] false) = Ok w /\
    let st := layout (wo_script w) c05_universe [] in
    l_errors st = [] /\
    lookup (segment_vram_start Splat (kind_name (c05_seg "b" 512%N [c05_obj "b.o"]) false)) (l_syms st) = Some 4352 /\
    lookup (segment_vram_end Splat (kind_name (c05_seg "b" 512%N [c05_obj "b.o"]) false)) (l_syms st) = Some 528 /\
    lookup (segment_vram_size Splat (kind_name (c05_seg "b" 512%N [c05_obj "b.o"]) false)) (l_syms st) = Some (-3824) /\
    lookup (segment_vram_start Splat "b") (l_syms st) = Some 512.
Proof. exact refuted_alloc_start. Qed.

Print Assumptions C05_names.
Print Assumptions C05_segment_symbols.
Print Assumptions C05_size_is_end_minus_start.
Print Assumptions C05_size_is_end_minus_start_top.
Print Assumptions C05_names_distinct.
Print Assumptions C05_class_size.
Print Assumptions C05_group_bracket.
Print Assumptions C05_offset_between_neighbours.
Print Assumptions C05_outsec_bracket.
Print Assumptions C05_segment_bracket.
Print Assumptions C05_refuted_alloc_start.
