(* C11 - Partial linking produces the same layout as one-step linking (script-level part).
   Only statements, each closed by [exact]; see Proofs/C11.v. *)
From Slinky Require Import Model.Types Model.Runtime Model.Style Model.Script Model.Writer Model.Exports.
From Slinky Require Import Spec.C11 Spec.C12 Proofs.C11.

(* exactly one sub-script per emitted segment, in document order, named after it *)
Theorem C11_one_per_segment : forall d rt p,
  gen_partial d rt = Ok p ->
  map fst (po_subs p) = map sg_name (filter (fun seg => should_emit rt (sg_conds seg)) (doc_segments d)).
Proof. exact one_per_segment. Qed.

(* and each is the single-segment script of that segment, from a fresh writer, without symbols *)
Theorem C11_subs_are_single_scripts : forall d rt p,
  gen_partial d rt = Ok p -> Forall (SubOf d rt) (po_subs p).
Proof. exact subs_are_single_scripts. Qed.

Example C11_one_per_segment_ex :
  match gen_partial ex_doc ex_rt with Ok p => map fst (po_subs p) = ["boot"; "ovl_a"]%string | Err _ => False end.
Proof. vm_compute. reflexivity. Qed.

(* the file statements of a section group are the same function of the segment in the ordinary
   writer and in a sub-script writer: the configuration of the sub-script changes nothing ... *)
Theorem C11_emit_section_same_cfg : forall rt sty,
  emit_section rt sty cfg_sub_partial = emit_section rt sty cfg_normal.
Proof. exact emit_section_sub. Qed.

(* ... and they do not depend on the writer's state (files already recorded, classes already emitted) *)
Theorem C11_statements_state_independent : forall rt sty cfg seg sections base section ws s ws',
  emit_section rt sty cfg seg sections base section ws = Ok (s, ws') ->
  forall ws2, exists ws2', emit_section rt sty cfg seg sections base section ws2 = Ok (s, ws2').
Proof. exact emit_section_state_indep. Qed.

(* one half (alloc / noload) of a segment: the ordinary script wraps the per-group file statements
   [files] in one output section with the section symbols; the sub-script puts the same [files], group
   by group, in one output section per group *)
Theorem C11_same_statements_half : forall rt st seg sections noload ws s ws' ws2 s2 ws2',
  write_segment rt st cfg_normal seg sections noload ws = Ok (s, ws') ->
  write_single_segment rt st cfg_sub_partial seg sections noload ws2 = Ok (s2, ws2') ->
  exists files, FilesOf rt st seg sections sections files /\
                s = half_segment rt st cfg_normal seg sections noload files /\
                s2 = sub_body seg noload sections files.
Proof. exact same_statements_half. Qed.

(* a whole emitted segment of the ordinary script against its sub-script *)
Theorem C11_same_statements : forall rt st classes seg ws s ws' sub wsub,
  should_emit rt (sg_conds seg) = true ->
  add_segment rt st cfg_normal classes seg ws = Ok (s, ws') ->
  add_single_segment rt st cfg_sub_partial classes seg ws0 = Ok (sub, wsub) ->
  exists fa fn pre post,
    FilesOf rt st seg (alloc_sections seg) (alloc_sections seg) fa /\
    FilesOf rt st seg (noload_sections seg) (noload_sections seg) fn /\
    s = pre ++ half_segment rt st cfg_normal seg (alloc_sections seg) false fa ++ [SBlank] ++
        half_segment rt st cfg_normal seg (noload_sections seg) true fn ++ post /\
    sub = [SSections
             (match sg_fixed_vram seg with
              | Some v => [SAssign false false false "." (EHex8 v); SBlank] | None => [] end ++
              sub_body seg false (alloc_sections seg) fa ++ [SBlank] ++
              sub_body seg true (noload_sections seg) fn ++ [SBlank] ++
              end_sections_body st classes wsub)].
Proof. exact same_statements_segment. Qed.

Example C11_same_statements_ex :
  let seg := ex_segment "boot" ex_files_boot None (Some ex_gp) no_conds in
  should_emit ex_rt (sg_conds seg) = true /\
  is_ok (add_segment ex_rt ex_settings cfg_normal [] seg ws0) = true /\
  is_ok (add_single_segment ex_rt ex_settings cfg_sub_partial [] seg ws0) = true /\
  is_ok (write_segment ex_rt ex_settings cfg_normal seg (alloc_sections seg) false ws0) = true /\
  is_ok (write_single_segment ex_rt ex_settings cfg_sub_partial seg (alloc_sections seg) false ws0) = true.
Proof. vm_compute. repeat split. Qed.

(* the main script: in every section group of the cloned segment exactly one statement, the partial
   object under the base path - no segment dir, no sub-groups, never KEEP *)
Theorem C11_main_places_partial : forall rt sty seg p sections base section ws,
  emit_section rt sty cfg_main_partial (clone_with_new_files seg [new_object p]) sections base section ws =
  (do b0 <- escape_path rt base;
   do pe <- escape_path rt p;
   Ok (partial_input b0 pe seg section, add_path (push b0 pe) ws)).
Proof. exact main_emit_section. Qed.

(* every path the main script shows is the partial object of an emitted segment (so, with
   C12_exactly_partial, the main dependency file lists partial objects only) *)
Theorem C11_main_only_partial_objects : forall d rt p folder,
  partial_build_segments_folder (doc_settings d) = Some folder ->
  gen_partial d rt = Ok p ->
  Forall (IsPartialObject rt (doc_settings d) folder (doc_segments d)) (input_paths (wo_script (po_main p))).
Proof. exact main_only_partial_objects. Qed.

Example C11_main_only_partial_objects_ex :
  partial_build_segments_folder (doc_settings ex_doc) = Some "segments"%string /\
  match gen_partial ex_doc ex_rt with
  | Ok p => keep_first String.eqb (input_paths (wo_script (po_main p))) =
            ["build/segments/boot.o"; "build/segments/ovl_a.o"]%string
  | Err _ => False
  end.
Proof. vm_compute. split; reflexivity. Qed.

(* the main script's segment has the same statements as the ordinary script's segment around the
   file statements: same class symbols, alignments, address request, symbols, FILL; only [files] differ *)
Theorem C11_main_skeleton : forall rt st classes seg p ws s ws' wsm sm wsm' b0 pe,
  should_emit rt (sg_conds seg) = true ->
  ws_emitted wsm = ws_emitted ws ->
  escape_path rt (base_path st) = Ok b0 -> escape_path rt p = Ok pe ->
  add_segment rt st cfg_normal classes seg ws = Ok (s, ws') ->
  add_segment rt st cfg_main_partial classes (clone_with_new_files seg [new_object p]) wsm = Ok (sm, wsm') ->
  exists fa fn pre post,
    FilesOf rt st seg (alloc_sections seg) (alloc_sections seg) fa /\
    FilesOf rt st seg (noload_sections seg) (noload_sections seg) fn /\
    s = pre ++ half_segment rt st cfg_normal seg (alloc_sections seg) false fa ++ [SBlank] ++
        half_segment rt st cfg_normal seg (noload_sections seg) true fn ++ post /\
    sm = pre ++ half_segment rt st cfg_normal seg (alloc_sections seg) false
                  (map (partial_input b0 pe seg) (alloc_sections seg)) ++ [SBlank] ++
         half_segment rt st cfg_normal seg (noload_sections seg) true
                  (map (partial_input b0 pe seg) (noload_sections seg)) ++ post /\
    ws_emitted wsm' = ws_emitted ws'.
Proof. exact main_skeleton. Qed.

Example C11_main_skeleton_ex :
  let seg := ex_segment "ovl_a" [ex_obj "a.o"] (Some "overlay") None no_conds in
  let p := partial_object "segments" seg in
  should_emit ex_rt (sg_conds seg) = true /\
  escape_path ex_rt (base_path ex_settings) = Ok "build"%string /\
  escape_path ex_rt p = Ok "segments/ovl_a.o"%string /\
  is_ok (add_segment ex_rt ex_settings cfg_normal (doc_vram_classes ex_doc) seg ws0) = true /\
  is_ok (add_segment ex_rt ex_settings cfg_main_partial (doc_vram_classes ex_doc)
                     (clone_with_new_files seg [new_object p]) ws0) = true.
Proof. vm_compute. repeat split. Qed.

(* missing folders are reported *)
Theorem C11_missing_build_folder : forall d rt,
  partial_build_segments_folder (doc_settings d) = None ->
  gen_partial d rt = Err (EMissingRequiredField "partial_build_segments_folder").
Proof. exact gen_partial_missing. Qed.

Theorem C11_missing_scripts_folder : forall rt st p path,
  partial_scripts_folder st = None ->
  export_script_partial rt st p path = Err (EMissingRequiredField "partial_scripts_folder").
Proof. exact export_partial_missing. Qed.

Theorem C11_missing_build_folder_save : forall rt st p base,
  escape_path rt (base_path st) = Ok base ->
  partial_build_segments_folder st = None ->
  save_other_files_partial rt st p = Err (EMissingRequiredField "partial_build_segments_folder").
Proof. exact save_partial_missing_build. Qed.

Theorem C11_missing_scripts_folder_save : forall rt st p base pb pbsf,
  escape_path rt (base_path st) = Ok base ->
  partial_build_segments_folder st = Some pb -> escape_path rt pb = Ok pbsf ->
  partial_scripts_folder st = None ->
  save_other_files_partial rt st p = Err (EMissingRequiredField "partial_scripts_folder").
Proof. exact save_partial_missing_scripts. Qed.

Example C11_missing_ex :
  partial_build_segments_folder (doc_settings ex_doc_single) = None /\
  partial_scripts_folder ex_settings_single = None /\
  escape_path ex_rt (base_path ex_settings_single) = Ok "build"%string.
Proof. vm_compute. repeat split. Qed.

(* with the folder set, the scripts written: the main one at [path], each sub-script at
   <partial_scripts_folder>/<segment>.ld *)
Theorem C11_export_files : forall rt st p path ps psf,
  partial_scripts_folder st = Some ps -> escape_path rt ps = Ok psf ->
  export_script_partial rt st p path =
  Ok ((path, script_text (po_main p)) ::
      map (fun s => (push psf (fst s ++ ".ld")%string, script_text (snd s))) (po_subs p)).
Proof. exact export_partial_ok. Qed.

Example C11_export_ex :
  partial_scripts_folder ex_settings = Some "ld/partial"%string /\
  escape_path ex_rt "ld/partial" = Ok "ld/partial"%string.
Proof. vm_compute. split; reflexivity. Qed.

Print Assumptions C11_one_per_segment.
Print Assumptions C11_subs_are_single_scripts.
Print Assumptions C11_emit_section_same_cfg.
Print Assumptions C11_statements_state_independent.
Print Assumptions C11_same_statements_half.
Print Assumptions C11_same_statements.
Print Assumptions C11_main_places_partial.
Print Assumptions C11_main_only_partial_objects.
Print Assumptions C11_main_skeleton.
Print Assumptions C11_missing_build_folder.
Print Assumptions C11_missing_scripts_folder.
Print Assumptions C11_missing_build_folder_save.
Print Assumptions C11_missing_scripts_folder_save.
Print Assumptions C11_export_files.
