(* Strengthen: lemmas for the four strengthened statements (Properties/C14Exact.v, C13Modes.v,
   C06Equal.v, C09Known.v).  Definitions are in Spec/Strengthen.v. *)
From Slinky Require Import Model.Types Model.Generated Model.Parse Model.Runtime Model.Style Model.Script
  Model.Writer Model.Exports Model.LdSem.
From Slinky Require Import Spec.C18 Spec.C04 Spec.C11 Spec.C13 Spec.DocLevel Spec.DocPartial Spec.DocSingle
  Spec.DocWf Spec.C13Doc.
From Slinky Require Import Spec.C01 Spec.C14 Spec.C15 Spec.C19 Spec.Strengthen.
From Slinky Require Import Proofs.C17 Proofs.C04 Proofs.C13 Proofs.C13Doc.
From Slinky Require Import Proofs.C06 Proofs.C18 Proofs.C14 Proofs.C15 Proofs.C02 Proofs.C01 Proofs.C19 Proofs.C06More Proofs.C11
  Proofs.C01Listed.
From Coq Require Import Lia ZArith.

(* ====================================================================== *)
(* B. the header in single-segment mode and for the main partial script    *)
(* ====================================================================== *)

Lemma single_header_text d rt w :
  gen_normal d rt = Ok w -> single_segment_mode (doc_settings d) = true ->
  header_text rt (doc_settings d) w =
  header_spec rt (doc_settings d) (keep_first String.eqb (doc_header_symbols_single d rt)).
Proof. intros Hg Hm. rewrite header_text_spec, (single_header d rt w Hg Hm). reflexivity. Qed.

Lemma single_header_nodup d rt w :
  gen_normal d rt = Ok w -> single_segment_mode (doc_settings d) = true ->
  nodup_str (doc_header_symbols_single d rt) = true ->
  linker_symbols w = doc_header_symbols_single d rt.
Proof. intros Hg Hm Hn. rewrite (single_header d rt w Hg Hm). apply keep_first_nodup_id. exact Hn. Qed.

Lemma single_header_text_nodup d rt w :
  gen_normal d rt = Ok w -> single_segment_mode (doc_settings d) = true ->
  nodup_str (doc_header_symbols_single d rt) = true ->
  header_text rt (doc_settings d) w = header_spec rt (doc_settings d) (doc_header_symbols_single d rt).
Proof. intros Hg Hm Hn. rewrite header_text_spec, (single_header_nodup d rt w Hg Hm Hn). reflexivity. Qed.

Lemma single_declared_iff d rt w x :
  gen_normal d rt = Ok w -> single_segment_mode (doc_settings d) = true ->
  (In x (linker_symbols w) <-> In x (doc_header_symbols_single d rt)).
Proof. intros Hg Hm. rewrite linker_symbols_in, (single_recorded d rt w Hg Hm). reflexivity. Qed.

Lemma doc_header_single_not_special d rt :
  ~ In "_gp"%string (doc_header_symbols_single d rt) /\ ~ In "__romPos"%string (doc_header_symbols_single d rt) /\
  ~ In "."%string (doc_header_symbols_single d rt).
Proof. eapply style_list_not_special. apply doc_header_single_style. Qed.

Lemma single_excludes d rt w :
  gen_normal d rt = Ok w -> single_segment_mode (doc_settings d) = true ->
  ~ In "_gp"%string (linker_symbols w) /\ ~ In "__romPos"%string (linker_symbols w) /\
  ~ In "."%string (linker_symbols w) /\
  (forall a, In a (doc_symbol_assignments d) -> In (sa_name a) (linker_symbols w) ->
             In (sa_name a) (doc_header_symbols_single d rt)) /\
  (forall x, In x (linker_symbols w) -> style_name (linker_symbols_style (doc_settings d)) x).
Proof.
  intros Hg Hm. destruct (doc_header_single_not_special d rt) as [H1 [H2 H3]].
  pose proof (fun x => single_declared_iff d rt w x Hg Hm) as Hiff.
  split; [rewrite Hiff; exact H1|]. split; [rewrite Hiff; exact H2|]. split; [rewrite Hiff; exact H3|].
  split.
  - intros a _ Hin. apply Hiff. exact Hin.
  - intros x Hin. apply Hiff in Hin. pose proof (doc_header_single_style d rt) as Hs.
    rewrite Forall_forall in Hs. apply Hs. exact Hin.
Qed.

Lemma main_header_text d rt p :
  gen_partial d rt = Ok p ->
  header_text rt (doc_settings d) (po_main p) =
  header_spec rt (doc_settings d) (keep_first String.eqb (doc_header_symbols_main d rt)).
Proof. intro Hp. rewrite header_text_spec, (main_header d rt p Hp). reflexivity. Qed.

Lemma main_header_text_nodup d rt p :
  gen_partial d rt = Ok p -> nodup_str (doc_header_symbols_main d rt) = true ->
  header_text rt (doc_settings d) (po_main p) = header_spec rt (doc_settings d) (doc_header_symbols_main d rt).
Proof. intros Hp Hn. rewrite header_text_spec, (main_header_nodup d rt p Hp Hn). reflexivity. Qed.

Lemma main_declared_iff d rt p x :
  gen_partial d rt = Ok p ->
  (In x (linker_symbols (po_main p)) <-> In x (doc_header_symbols_main d rt)).
Proof. intro Hp. rewrite linker_symbols_in, (main_recorded d rt p Hp). reflexivity. Qed.

Lemma doc_header_main_not_special d rt :
  ~ In "_gp"%string (doc_header_symbols_main d rt) /\ ~ In "__romPos"%string (doc_header_symbols_main d rt) /\
  ~ In "."%string (doc_header_symbols_main d rt).
Proof. eapply style_list_not_special. apply doc_header_main_style. Qed.

Lemma main_excludes d rt p :
  gen_partial d rt = Ok p ->
  ~ In "_gp"%string (linker_symbols (po_main p)) /\ ~ In "__romPos"%string (linker_symbols (po_main p)) /\
  ~ In "."%string (linker_symbols (po_main p)) /\
  (forall a, In a (doc_symbol_assignments d) -> In (sa_name a) (linker_symbols (po_main p)) ->
             In (sa_name a) (doc_header_symbols_main d rt)) /\
  (forall x, In x (linker_symbols (po_main p)) -> style_name (linker_symbols_style (doc_settings d)) x).
Proof.
  intro Hp. destruct (doc_header_main_not_special d rt) as [H1 [H2 H3]].
  pose proof (fun x => main_declared_iff d rt p x Hp) as Hiff.
  split; [rewrite Hiff; exact H1|]. split; [rewrite Hiff; exact H2|]. split; [rewrite Hiff; exact H3|].
  split.
  - intros a _ Hin. apply Hiff. exact Hin.
  - intros x Hin. apply Hiff in Hin. pose proof (doc_header_main_style d rt) as Hs.
    rewrite Forall_forall in Hs. apply Hs. exact Hin.
Qed.

(* ====================================================================== *)
(* A. C14: the KEEP flag of a statement is the flag of its own entry        *)
(* ====================================================================== *)

Lemma keeps_says k sect : keeps k sect = true <-> keep_says k sect.
Proof.
  unfold keep_says. destruct k as [|b|l]; cbn [keeps].
  - split; [discriminate|]. intros [H|[l [H _]]]; discriminate.
  - split.
    + intro H. subst b. left. reflexivity.
    + intros [H|[l [H _]]]; [inversion H; reflexivity | discriminate].
  - rewrite Proofs.C19.mem_str_In. split.
    + intro H. right. exists l. auto.
    + intros [H|[l' [H Hin]]]; [discriminate | inversion H; subst; exact Hin].
Qed.

(* a leaf is an included object / archive entry at or below the entry it is a leaf of *)
Lemma leaves_below rt f : forall base g bg chain,
  In (g, bg, chain) (leaves rt base f) ->
  below g f /\ objlike g /\ should_emit rt (fi_conds g) = true.
Proof.
  induction f as [f IHf] using file_info_nested_ind. intros base g bg chain Hin.
  destruct (should_emit rt (fi_conds f)) eqn:He; [|rewrite (leaves_excluded rt base f He) in Hin; destruct Hin].
  destruct (fi_kind f) eqn:Ek.
  - rewrite (leaves_one rt base f He (or_introl Ek)) in Hin. destruct Hin as [E|[]]. inversion E; subst.
    split; [apply below_self|]. split; [left; exact Ek | exact He].
  - rewrite (leaves_one rt base f He (or_intror Ek)) in Hin. destruct Hin as [E|[]]. inversion E; subst.
    split; [apply below_self|]. split; [right; exact Ek | exact He].
  - rewrite (leaves_other rt base f He (or_introl Ek)) in Hin. destruct Hin.
  - rewrite (leaves_other rt base f He (or_intror Ek)) in Hin. destruct Hin.
  - destruct (escape_path rt (fi_dir f)) as [dd|e] eqn:Hd;
      [|rewrite (leaves_group_err rt base f e He Ek Hd) in Hin; destruct Hin].
    rewrite (leaves_group_ok rt base f dd He Ek Hd) in Hin. apply in_map_iff in Hin.
    destruct Hin as [[[g' bg'] chain'] [E Hin]]. cbn [fst snd] in E. inversion E; subst g' bg' chain. clear E.
    apply in_flat_map in Hin. destruct Hin as [c [Hc Hin]].
    rewrite Forall_forall in IHf. destruct (IHf c Hc _ _ _ _ Hin) as [Hb [Ho Hg]].
    split; [eapply below_child; eassumption|]. auto.
Qed.

(* a leaf sits at some position of the tree *)
Lemma leaves_entry_at rt f : forall base g bg chain,
  In (g, bg, chain) (leaves rt base f) -> exists pos, entry_at f pos = Some g.
Proof.
  induction f as [f IHf] using file_info_nested_ind. intros base g bg chain Hin.
  destruct (should_emit rt (fi_conds f)) eqn:He; [|rewrite (leaves_excluded rt base f He) in Hin; destruct Hin].
  destruct (fi_kind f) eqn:Ek.
  - rewrite (leaves_one rt base f He (or_introl Ek)) in Hin. destruct Hin as [E|[]]. inversion E; subst.
    exists []. reflexivity.
  - rewrite (leaves_one rt base f He (or_intror Ek)) in Hin. destruct Hin as [E|[]]. inversion E; subst.
    exists []. reflexivity.
  - rewrite (leaves_other rt base f He (or_introl Ek)) in Hin. destruct Hin.
  - rewrite (leaves_other rt base f He (or_intror Ek)) in Hin. destruct Hin.
  - destruct (escape_path rt (fi_dir f)) as [dd|e] eqn:Hd;
      [|rewrite (leaves_group_err rt base f e He Ek Hd) in Hin; destruct Hin].
    rewrite (leaves_group_ok rt base f dd He Ek Hd) in Hin. apply in_map_iff in Hin.
    destruct Hin as [[[g' bg'] chain'] [E Hin]]. cbn [fst snd] in E. inversion E; subst g' bg' chain. clear E.
    apply in_flat_map in Hin. destruct Hin as [c [Hc Hin]].
    rewrite Forall_forall in IHf. destruct (IHf c Hc _ _ _ _ Hin) as [pos Hpos].
    apply In_nth_error in Hc. destruct Hc as [i Hi]. exists (i :: pos). cbn [entry_at]. rewrite Hi. exact Hpos.
Qed.

(* ---------- emission: every input statement is the statement of a specific leaf ---------- *)

Lemma names_leaf_statement rt seg g bg keep path member sect wild :
  names_leaf rt seg g bg (input_section (SInput keep path member sect wild)) (SInput keep path member sect wild) ->
  statement_of_leaf rt seg g bg keep path member sect wild.
Proof.
  cbn [input_section]. intros [p [Hp E]]. inversion E; subst. exists p. repeat split; auto.
Qed.

Lemma keep_flag_exact rt sty cfg seg sections f n stack section base ws o keep path member sect wild :
  emit_sff rt sty cfg seg sections f n stack section base ws = Ok o ->
  In (SInput keep path member sect wild) (fst o) ->
  exists g bg chain,
    In (g, bg, chain) (leaves rt base f) /\ below g f /\ objlike g /\
    statement_of_leaf rt seg g bg keep path member sect wild /\
    reach_via cfg seg sections chain section sect.
Proof.
  intros H Hin. destruct o as [s ws']. cbn [fst] in Hin.
  apply (emit_sff_sound rt sty cfg seg sections) in H.
  destruct (unlisted_all rt sty cfg seg sections) as [Hentry _].
  destruct (Hentry _ _ _ _ H _ Hin eq_refl) as [g [bg [chain [Hl [Hn Hr]]]]].
  exists g, bg, chain. destruct (leaves_below rt f _ _ _ _ Hl) as [Hb [Ho _]].
  split; [exact Hl|]. split; [exact Hb|]. split; [exact Ho|].
  split; [apply names_leaf_statement; exact Hn | exact Hr].
Qed.

(* what emit_sff returns: input statements, pads, offsets - nothing that contains statements *)
Lemma emit_sff_simple rt sty cfg seg sections f n stack section base ws s ws' :
  emit_sff rt sty cfg seg sections f n stack section base ws = Ok (s, ws') -> Forall simple s.
Proof.
  apply (emitter_rel sty (wildcard_sections seg) (offs_of rt f) (fun _ s _ => Forall simple s));
    intros; try (repeat constructor).
  - apply Forall_app; split; assumption.
  - apply emit_sff_emitter.
Qed.

(* the converse: every leaf, every section reached through the chain above it *)
Lemma keep_flag_exact_conv rt sty cfg seg sections f n stack section base ws o g bg chain sect :
  emit_sff rt sty cfg seg sections f n stack section base ws = Ok o ->
  In (g, bg, chain) (leaves rt base f) -> reach_via cfg seg sections chain section sect ->
  exists p, escape_path rt (fi_path g) = Ok p /\
            In (SInput (keeps (fi_keep g) sect) (display (push bg p)) (member_of g) sect (wildcard_sections seg))
               (fst o).
Proof.
  intros H Hl Hr. destruct o as [s ws']. cbn [fst].
  destruct (emit_sff_leaf_traced rt sty cfg seg sections f _ _ _ _ _ _ _ H _ _ _ _ Hl Hr) as [p [Hp [Hin _]]].
  exists p. split; [exact Hp|]. apply deep_in_simple; [eapply emit_sff_simple; exact H | exact Hin].
Qed.

(* the same for the group of one section of a segment *)
Lemma section_keep_exact rt sty cfg seg sections bp section ws o keep path member sect wild :
  emit_section rt sty cfg seg sections bp section ws = Ok o ->
  In (SInput keep path member sect wild) (fst o) ->
  exists b c0 g bg chain,
    segment_base rt cfg seg bp b /\ In c0 (sg_files seg) /\ In (g, bg, chain) (leaves rt b c0) /\
    statement_of_leaf rt seg g bg keep path member sect wild /\
    reach_via cfg seg sections chain section sect.
Proof.
  intros H Hin. destruct o as [s ws']. cbn [fst] in Hin.
  apply emit_section_sound in H. destruct H as [b [Hb HK]].
  destruct (unlisted_all rt sty cfg seg sections) as [_ [_ [_ Hkids]]].
  destruct (Hkids _ _ _ _ HK _ Hin eq_refl) as [c0 [Hc0 [g [bg [chain [Hl [Hn Hr]]]]]]].
  exists b, c0, g, bg, chain. split; [exact Hb|]. split; [exact Hc0|]. split; [exact Hl|].
  split; [apply names_leaf_statement; exact Hn | exact Hr].
Qed.

(* ---------- positions: the parsed tree against the written values ---------- *)

Fixpoint kt_at (t : ktree) (pos : list nat) : option keep :=
  match pos with
  | [] => match t with KT k _ => Some k end
  | i :: r => match t with
              | KT _ ch => match nth_error ch i with Some c => kt_at c r | None => None end
              end
  end.

Lemma nth_error_map' {A B} (f : A -> B) l : forall i, nth_error (map f l) i = option_map f (nth_error l i).
Proof. induction l as [|x l IH]; intros [|i]; cbn [map nth_error option_map]; auto. Qed.

Lemma kt_at_of pos : forall f g, entry_at f pos = Some g -> kt_at (kt_of f) pos = Some (fi_keep g).
Proof.
  induction pos as [|i r IH]; intros f g H; rewrite kt_of_eq.
  - cbn [entry_at] in H. inversion H; subst. reflexivity.
  - cbn [entry_at] in H. cbn [kt_at]. rewrite nth_error_map'.
    destruct (nth_error (fi_files f) i) as [c|]; [|discriminate]. cbn [option_map]. apply IH. exact H.
Qed.

Lemma kt_at_nearest pos : forall fs anc,
  kt_at (nearest_kt anc fs) pos = option_map nearest (written_chain fs pos anc).
Proof.
  induction pos as [|i r IH]; intros fs anc; destruct fs as [u p k sf pa s lon so files d c kp].
  - reflexivity.
  - cbn [nearest_kt kt_at written_chain fs_keep fs_kind fs_files].
    destruct k as [| |[]]; try (destruct i; reflexivity).
    destruct files as [| |l]; try (destruct i; reflexivity).
    rewrite nth_error_map'. destruct (nth_error l i) as [c0|]; [|reflexivity]. cbn [option_map]. apply IH.
Qed.

Lemma Forall2_nth_r {A B} (R : A -> B -> Prop) l1 l2 : Forall2 R l1 l2 ->
  forall i y, nth_error l2 i = Some y -> exists x, nth_error l1 i = Some x /\ R x y.
Proof.
  induction 1 as [|x y l1 l2 Hxy _ IH]; intros [|i] z H; cbn [nth_error] in *; try discriminate.
  - inversion H; subst. exists x. auto.
  - apply IH. exact H.
Qed.

Lemma segment_inherited_written sd ss : segment_inherited sd ss = nearest (written_above sd ss).
Proof. reflexivity. Qed.

(* the flag of an entry of a parsed document is the nearest explicit value written on it, its groups,
   its segment and the segment's class *)
Lemma effective_keep_intro sd ss seg c0 pos g :
  segment_rule sd ss seg -> In c0 (sg_files seg) -> entry_at c0 pos = Some g ->
  effective_keep_of sd ss seg c0 g.
Proof.
  intros [_ Hmap] Hc0 Hpos. apply In_nth_error in Hc0. destruct Hc0 as [j Hj].
  assert (Hk : nth_error (map kt_of (sg_files seg)) j = Some (kt_of c0))
    by (rewrite nth_error_map', Hj; reflexivity).
  rewrite Hmap, nth_error_map' in Hk.
  destruct (nth_error (serial_files ss) j) as [fs0|] eqn:Efs; [|discriminate]. cbn [option_map] in Hk.
  inversion Hk as [Hkt]. clear Hk.
  rewrite segment_inherited_written, spec_is_nearest in Hkt.
  pose proof (kt_at_of pos c0 g Hpos) as Hat. rewrite <- Hkt, kt_at_nearest in Hat.
  destruct (written_chain fs0 pos (written_above sd ss)) as [written|] eqn:Ew; [|discriminate].
  cbn [option_map] in Hat. inversion Hat as [Hn].
  exists j, fs0, pos, written. repeat split; auto.
Qed.

(* ---------- a property of every input statement of a whole script ---------- *)

Definition plainq (s : stmt) : Prop :=
  match s with SInput _ _ _ _ _ | SOutSec _ _ _ _ _ _ | SSections _ => False | _ => True end.

Lemma plainq_none l : Forall plainq l -> flat_map deep_inputs l = [].
Proof.
  induction 1 as [|s l Hs _ IH]; [reflexivity|]. cbn [flat_map]. rewrite IH.
  destruct s; try contradiction; reflexivity.
Qed.

Ltac pq_leaf :=
  repeat match goal with
         | |- Forall _ (_ ++ _) => apply Forall_app; split
         | |- Forall _ (map _ _) => apply Forall_map_intro; intro
         | |- Forall _ (flat_map _ _) => apply Forall_flat_map_intro; intro
         | |- Forall _ (match ?x with _ => _ end) => destruct x
         | |- Forall _ (if ?x then _ else _) => destruct x
         | |- Forall _ (_ :: _) => constructor
         | |- Forall _ [] => constructor
         | |- plainq _ => exact I
         end.

Lemma pq_version rt : Forall plainq (version_stmts rt).
Proof. unfold version_stmts. pq_leaf. Qed.

Lemma pq_begin st : Forall plainq (begin_sections_body st).
Proof. unfold begin_sections_body, hardcoded_gp_stmts. pq_leaf. Qed.

Lemma pq_tail_stmts rt d : Forall plainq (tail_stmts rt d).
Proof.
  unfold tail_stmts, entry_stmts, assignment_stmts, required_stmts, assert_stmts. pq_leaf.
Qed.

Lemma pq_class_start st c cn : Forall plainq (class_start_stmts st c cn).
Proof. unfold class_start_stmts, linker_symbol. pq_leaf. Qed.

Lemma pq_class_part st classes seg ws cls ws1 : class_part st classes seg ws = Ok (cls, ws1) -> Forall plainq cls.
Proof.
  intro Ec. apply class_part_inv in Ec. destruct Ec as [[E _] | [cn [c [_ [_ [_ [E _]]]]]]]; subst;
    [constructor | apply pq_class_start].
Qed.

Lemma pq_seg_head st seg : Forall plainq (seg_head st seg).
Proof. unfold seg_head, linker_symbol. pq_leaf. Qed.

Lemma pq_seg_foot st seg : Forall plainq (seg_foot st seg).
Proof. unfold seg_foot, sym_end_size, linker_symbol. cbv zeta. pq_leaf. Qed.

Lemma pq_kind_start sty cfg seg noload : Forall plainq (sections_kind_start sty cfg seg noload).
Proof. unfold sections_kind_start, linker_symbol. pq_leaf. Qed.

Lemma pq_kind_end sty cfg seg noload : Forall plainq (sections_kind_end sty cfg seg noload).
Proof. unfold sections_kind_end, sym_end_size, linker_symbol. pq_leaf. Qed.

Lemma pq_section_symbol_start rt sty cfg seg section :
  Forall plainq (section_symbol_start rt sty cfg seg section).
Proof. unfold section_symbol_start, opt_align, gp_stmt, linker_symbol. pq_leaf. Qed.

Lemma pq_section_symbol_end sty cfg seg section : Forall plainq (section_symbol_end sty cfg seg section).
Proof. unfold section_symbol_end, opt_align, sym_end_size, linker_symbol. pq_leaf. Qed.

Lemma pq_opt_fill seg : Forall plainq (opt_fill seg).
Proof. unfold opt_fill. pq_leaf. Qed.

Lemma pq_end_sections st classes ws : Forall plainq (end_sections_body st classes ws).
Proof. unfold end_sections_body, blank_if, linker_symbol. cbv zeta. pq_leaf. Qed.

Lemma pq_single_head st cfg seg : Forall plainq (single_head st cfg seg).
Proof. unfold single_head, hardcoded_gp_stmts. destruct (hardcoded_gp_value st); cbn [app]; pq_leaf. Qed.

Lemma pq_blank_sep (rest : list string) : Forall plainq (match rest with [] => [] | _ => [SBlank] end).
Proof. pq_leaf. Qed.

Definition deep_all (P : stmt -> Prop) (l : list stmt) : Prop :=
  forall x, In x (flat_map deep_inputs l) -> P x.

Lemma deep_all_app P a b : deep_all P a -> deep_all P b -> deep_all P (a ++ b).
Proof.
  intros Ha Hb x Hx. rewrite flat_map_app in Hx. apply in_app_or in Hx. destruct Hx; [apply Ha | apply Hb]; assumption.
Qed.

Lemma deep_all_plain P l : Forall plainq l -> deep_all P l.
Proof. intros H x Hx. rewrite (plainq_none l H) in Hx. destruct Hx. Qed.

Lemma deep_all_outsec P name addr at_ noload sub body :
  deep_all P body -> deep_all P [SOutSec name addr at_ noload sub body].
Proof. intros H x Hx. cbn [flat_map deep_inputs] in Hx. rewrite app_nil_r in Hx. apply H. exact Hx. Qed.

Lemma deep_all_sections P body : deep_all P body -> deep_all P [SSections body].
Proof. intros H x Hx. cbn [flat_map deep_inputs] in Hx. rewrite app_nil_r in Hx. apply H. exact Hx. Qed.

Lemma deep_all_impl (P Q : stmt -> Prop) l : (forall x, P x -> Q x) -> deep_all P l -> deep_all Q l.
Proof. intros H Hl x Hx. apply H, Hl, Hx. Qed.

Section AllSeg.
  Variables (rt : runtime) (st : settings) (cfg : wcfg) (seg : segment).
  Variable P : stmt -> Prop.
  Hypothesis HP : forall sections section ws s ws',
      emit_section rt (linker_symbols_style st) cfg seg sections (base_path st) section ws = Ok (s, ws') ->
      deep_all P s.

  Lemma part_groups_all sections rest : forall ws s ws',
    part_groups rt st cfg seg sections rest ws = Ok (s, ws') -> deep_all P s.
  Proof.
    induction rest as [|section rest IH]; intros ws s ws' H.
    - apply ok_inj in H. inversion H; subst. intros x [].
    - apply part_groups_cons in H. destruct H as [s1 [ws1 [s2 [E1 [E2 E]]]]]. subst s.
      apply deep_all_app; [apply deep_all_plain, pq_section_symbol_start|].
      apply deep_all_app; [eapply HP; exact E1|].
      apply deep_all_app; [apply deep_all_plain, pq_section_symbol_end|].
      apply deep_all_app; [apply deep_all_plain, pq_blank_sep|]. eapply IH; exact E2.
  Qed.

  Lemma write_segment_all sections noload ws s ws' :
    write_segment rt st cfg seg sections noload ws = Ok (s, ws') -> deep_all P s.
  Proof.
    intro H. apply write_segment_inv in H. destruct H as [body [E Es]]. subst s.
    apply deep_all_app; [apply deep_all_plain, pq_kind_start|].
    apply deep_all_app; [|apply deep_all_plain, pq_kind_end].
    unfold outsec_of. apply deep_all_outsec. apply deep_all_app; [apply deep_all_plain, pq_opt_fill|].
    eapply part_groups_all; exact E.
  Qed.

  Lemma add_segment_all classes ws s ws' :
    add_segment rt st cfg classes seg ws = Ok (s, ws') -> deep_all P s.
  Proof.
    intro H. apply add_segment_inv in H.
    destruct H as [[_ [E _]] | [_ [cls [ws1 [s1 [ws2 [s2 [Ec [E1 [E2 E]]]]]]]]]]; subst s; [intros x []|].
    apply deep_all_app; [apply deep_all_plain; eapply pq_class_part; exact Ec|].
    apply deep_all_app; [apply deep_all_plain, pq_seg_head|].
    apply deep_all_app; [eapply write_segment_all; exact E1|].
    apply deep_all_app; [apply deep_all_plain; pq_leaf|].
    apply deep_all_app; [eapply write_segment_all; exact E2|].
    apply deep_all_app; [apply deep_all_plain; pq_leaf|]. apply deep_all_plain, pq_seg_foot.
  Qed.

  Lemma single_groups_all sections noload rest : forall ws s ws',
    single_groups rt st cfg seg sections noload rest ws = Ok (s, ws') -> deep_all P s.
  Proof.
    induction rest as [|section rest IH]; intros ws s ws' H.
    - apply ok_inj in H. inversion H; subst. intros x [].
    - apply single_groups_cons in H. destruct H as [s1 [ws1 [s2 [E1 [E2 E]]]]]. subst s.
      apply deep_all_app; [apply deep_all_plain, pq_section_symbol_start|].
      apply deep_all_app.
      { apply deep_all_outsec. apply deep_all_app; [apply deep_all_plain, pq_opt_fill|]. eapply HP; exact E1. }
      apply deep_all_app; [apply deep_all_plain, pq_section_symbol_end|].
      apply deep_all_app; [apply deep_all_plain, pq_blank_sep|]. eapply IH; exact E2.
  Qed.

  Lemma write_single_segment_all sections noload ws s ws' :
    write_single_segment rt st cfg seg sections noload ws = Ok (s, ws') -> deep_all P s.
  Proof.
    intro H. apply write_single_segment_inv in H. destruct H as [body [E Es]]. subst s.
    apply deep_all_app; [apply deep_all_plain, pq_kind_start|].
    apply deep_all_app; [|apply deep_all_plain, pq_kind_end]. eapply single_groups_all; exact E.
  Qed.

  Lemma add_single_segment_all classes ws s ws' :
    add_single_segment rt st cfg classes seg ws = Ok (s, ws') -> deep_all P s.
  Proof.
    intro H. apply add_single_segment_inv in H. destruct H as [s1 [ws1 [s2 [E1 [E2 E]]]]]. subst s.
    apply deep_all_sections.
    apply deep_all_app; [apply deep_all_plain, pq_single_head|].
    apply deep_all_app; [eapply write_single_segment_all; exact E1|].
    apply deep_all_app; [apply deep_all_plain; pq_leaf|].
    apply deep_all_app; [eapply write_single_segment_all; exact E2|].
    apply deep_all_app; [apply deep_all_plain; pq_leaf|]. apply deep_all_plain, pq_end_sections.
  Qed.
End AllSeg.

Section AllDoc.
  Variables (rt : runtime) (d : document).
  Variable P : segment -> stmt -> Prop.

  Definition emit_all (cfg : wcfg) (seg : segment) : Prop :=
    forall sections section ws s ws',
      emit_section rt (linker_symbols_style (doc_settings d)) cfg seg sections (base_path (doc_settings d))
                   section ws = Ok (s, ws') -> deep_all (P seg) s.

  Lemma fold_add_segment_all cfg classes segs :
    (forall seg, In seg segs -> emit_all cfg seg) ->
    forall ws s ws', fold_out (add_segment rt (doc_settings d) cfg classes) segs ws = Ok (s, ws') ->
    deep_all (fun x => exists seg, In seg segs /\ P seg x) s.
  Proof.
    induction segs as [|seg r IH]; intros Hall ws s ws' H.
    - apply fold_out_nil in H. destruct H; subst. intros x [].
    - apply fold_out_cons in H. destruct H as [s1 [ws1 [s2 [E1 [E2 E]]]]]. subst s.
      apply deep_all_app.
      + eapply deep_all_impl; [|eapply add_segment_all; [apply (Hall seg); left; reflexivity | exact E1]].
        intros x Hx. exists seg. split; [left; reflexivity | exact Hx].
      + eapply deep_all_impl; [|eapply IH; [|exact E2]].
        * intros x [sg [Hin Hx]]. exists sg. split; [right; exact Hin | exact Hx].
        * intros sg Hin. apply Hall. right. exact Hin.
  Qed.

  Lemma gen_normal_all w :
    (forall seg, In seg (doc_segments d) -> emit_all cfg_normal seg) ->
    gen_normal d rt = Ok w ->
    deep_all (fun x => exists seg, In seg (doc_segments d) /\ P seg x) (wo_script w).
  Proof.
    intros Hall H. apply gen_normal_inv in H. destruct H as [s [ws' [E H]]]. subst w. cbn [wo_script].
    apply deep_all_app; [apply deep_all_plain, pq_version|].
    apply deep_all_app; [|apply deep_all_plain, pq_tail_stmts].
    apply add_all_segments_inv in E. destruct E as [[Hm [sg [Esegs E]]] | [Hm [body [E Es]]]].
    - eapply deep_all_impl; [|eapply add_single_segment_all; [|exact E]].
      + intros x Hx. exists sg. split; [rewrite Esegs; left; reflexivity | exact Hx].
      + apply (Hall sg). rewrite Esegs. left. reflexivity.
    - subst s. apply deep_all_sections.
      apply deep_all_app; [apply deep_all_plain, pq_begin|].
      apply deep_all_app; [|apply deep_all_plain, pq_end_sections].
      eapply fold_add_segment_all; [exact Hall | exact E].
  Qed.

  (* a per-segment script of a partial build *)
  Lemma sub_script_all p name w :
    (forall seg, In seg (doc_segments d) -> emit_all cfg_sub_partial seg) ->
    gen_partial d rt = Ok p -> In (name, w) (po_subs p) ->
    exists seg, In seg (doc_segments d) /\ should_emit rt (sg_conds seg) = true /\ name = sg_name seg /\
                deep_all (P seg) (wo_script w).
  Proof.
    intros Hall Hp Hin. pose proof (subs_are_single_scripts d rt p Hp) as Hs. rewrite Forall_forall in Hs.
    destruct (Hs _ Hin) as [seg [stmts [wsub [Hseg [Hc [Hn [Ha Hw]]]]]]]. cbn [fst snd] in Hn, Hw.
    exists seg. split; [exact Hseg|]. split; [exact Hc|]. split; [exact Hn|]. subst w. cbn [wo_script].
    apply deep_all_app; [apply deep_all_plain, pq_version|].
    eapply add_single_segment_all; [apply (Hall seg Hseg) | exact Ha].
  Qed.
End AllDoc.

(* ---------- C14 at document level ---------- *)

(* an input statement of the group of a section of [seg] is the statement of a leaf of [seg] *)
Definition leaf_stmt (rt : runtime) (d : document) (cfg : wcfg) (seg : segment) (x : stmt) : Prop :=
  forall keep path member sect wild, x = SInput keep path member sect wild ->
    exists b c0 g bg chain,
      segment_base rt cfg seg (base_path (doc_settings d)) b /\ In c0 (sg_files seg) /\
      In (g, bg, chain) (leaves rt b c0) /\ statement_of_leaf rt seg g bg keep path member sect wild.

Lemma emit_all_leaf rt d cfg seg : emit_all rt d (leaf_stmt rt d cfg) cfg seg.
Proof.
  intros sections section ws s ws' H x Hx keep path member sect wild E. subst x.
  apply deep_in_simple in Hx; [|eapply emit_section_simple; exact H].
  destruct (section_keep_exact _ _ _ _ _ _ _ _ (s, ws') _ _ _ _ _ H Hx) as [b [c0 [g [bg [chain [Hb [Hc0 [Hl [Hs _]]]]]]]]].
  exists b, c0, g, bg, chain. auto.
Qed.

Lemma doc_exact_of_leaf sd d rt cfg seg b c0 g bg chain keep path member sect wild :
  parse sd = Ok d -> In seg (doc_segments d) ->
  segment_base rt cfg seg (base_path (doc_settings d)) b -> In c0 (sg_files seg) ->
  In (g, bg, chain) (leaves rt b c0) -> statement_of_leaf rt seg g bg keep path member sect wild ->
  doc_statement_exact sd d rt cfg seg keep path member sect wild.
Proof.
  intros Hparse Hseg Hb Hc0 Hl Hs. apply In_nth_error in Hseg. destruct Hseg as [i Hi].
  destruct (Forall2_nth_r _ _ _ (document_tree_parse sd d Hparse) i seg Hi) as [ss [Hss Hrule]].
  destruct (leaves_entry_at rt c0 _ _ _ _ Hl) as [pos Hpos].
  exists i, ss, b, c0, g, bg, chain. repeat (split; [assumption|]).
  eapply effective_keep_intro; eassumption.
Qed.

Lemma document_exact sd d rt w keep path member sect wild :
  parse sd = Ok d -> gen_normal d rt = Ok w ->
  In (SInput keep path member sect wild) (flat_map deep_inputs (wo_script w)) ->
  exists seg, In seg (doc_segments d) /\ doc_statement_exact sd d rt cfg_normal seg keep path member sect wild.
Proof.
  intros Hparse Hg Hin.
  destruct (gen_normal_all rt d (leaf_stmt rt d cfg_normal) w
              (fun seg _ => emit_all_leaf rt d cfg_normal seg) Hg _ Hin) as [seg [Hseg HP]].
  destruct (HP _ _ _ _ _ eq_refl) as [b [c0 [g [bg [chain [Hb [Hc0 [Hl Hs]]]]]]]].
  exists seg. split; [exact Hseg|]. eapply doc_exact_of_leaf; eassumption.
Qed.

Lemma document_exact_sub sd d rt p name w keep path member sect wild :
  parse sd = Ok d -> gen_partial d rt = Ok p -> In (name, w) (po_subs p) ->
  In (SInput keep path member sect wild) (flat_map deep_inputs (wo_script w)) ->
  exists seg, In seg (doc_segments d) /\ should_emit rt (sg_conds seg) = true /\ name = sg_name seg /\
              doc_statement_exact sd d rt cfg_sub_partial seg keep path member sect wild.
Proof.
  intros Hparse Hp Hsub Hin.
  destruct (sub_script_all rt d (leaf_stmt rt d cfg_sub_partial) p name w
              (fun seg _ => emit_all_leaf rt d cfg_sub_partial seg) Hp Hsub) as [seg [Hseg [Hc [Hn HP]]]].
  destruct (HP _ Hin _ _ _ _ _ eq_refl) as [b [c0 [g [bg [chain [Hb [Hc0 [Hl Hs]]]]]]]].
  exists seg. repeat (split; [assumption|]). eapply doc_exact_of_leaf; eassumption.
Qed.

(* the main script of a partial build: no statement is wrapped *)
Lemma partial_segments_unkept d rt folder segs : forall acc s acc',
  partial_segments d rt folder segs acc = Ok (s, acc') -> deep_all unkept_input s.
Proof.
  induction segs as [|seg r IH]; intros acc s acc' H.
  - apply ok_inj in H. inversion H; subst. intros x [].
  - apply partial_segments_cons in H. destruct H as [s1 [acc1 [s2 [E1 [E2 E]]]]]. subst s.
    apply deep_all_app; [|eapply IH; exact E2].
    destruct acc as [ws subs], acc1 as [ws1 subs1]. apply partial_segment_inv in E1.
    destruct E1 as [[_ [E _]] | [_ [sub [wsub [_ [Eb _]]]]]]; [subst s1; intros x []|].
    eapply add_segment_all; [|exact Eb].
    intros sections section w0 t w0' Hcall x Hx.
    apply deep_in_simple in Hx; [|eapply emit_section_simple; exact Hcall].
    pose proof (main_partial_unkept _ _ _ _ _ _ _ _ _ _ Hcall) as Hf. cbn [fst] in Hf.
    rewrite Forall_forall in Hf. apply Hf. exact Hx.
Qed.

Lemma document_main_unkept d rt p :
  gen_partial d rt = Ok p -> deep_all unkept_input (wo_script (po_main p)).
Proof.
  intro H. apply gen_partial_inv in H. destruct H as [folder [body [ws [subs [Ef [E H]]]]]]. subst p.
  cbn [po_main wo_script].
  apply deep_all_app; [apply deep_all_plain, pq_version|].
  apply deep_all_app; [|apply deep_all_plain, pq_tail_stmts].
  apply deep_all_sections.
  apply deep_all_app; [apply deep_all_plain, pq_begin|].
  apply deep_all_app; [|apply deep_all_plain, pq_end_sections].
  eapply partial_segments_unkept; exact E.
Qed.

(* the converse at document level (from C06_included_leaf_normal / _partial): every leaf of a written
   segment, every section it reaches *)
Lemma document_exact_conv d rt w seg b c0 g bg chain sect section sections :
  gen_normal d rt = Ok w -> In seg (doc_segments d) ->
  (single_segment_mode (doc_settings d) = true \/ should_emit rt (sg_conds seg) = true) ->
  segment_base rt cfg_normal seg (base_path (doc_settings d)) b ->
  In c0 (sg_files seg) -> In (g, bg, chain) (leaves rt b c0) ->
  In section (alloc_sections seg ++ noload_sections seg) ->
  reach_via cfg_normal seg sections chain section sect ->
  exists p, escape_path rt (fi_path g) = Ok p /\
            In (SInput (keeps (fi_keep g) sect) (display (push bg p)) (member_of g) sect (wildcard_sections seg))
               (flat_map deep_inputs (wo_script w)).
Proof.
  intros Hg Hseg Hc Hb Hc0 Hl Hs Hr.
  destruct (included_leaf_normal d rt w seg b c0 g bg chain sect section sections Hg Hseg Hc Hb Hc0 Hl Hs Hr)
    as [p [Hp [Hin _]]].
  exists p. split; [exact Hp | exact Hin].
Qed.

Lemma document_exact_conv_sub d rt po seg b c0 g bg chain sect section sections :
  gen_partial d rt = Ok po -> In seg (doc_segments d) -> should_emit rt (sg_conds seg) = true ->
  segment_base rt cfg_sub_partial seg (base_path (doc_settings d)) b ->
  In c0 (sg_files seg) -> In (g, bg, chain) (leaves rt b c0) ->
  In section (alloc_sections seg ++ noload_sections seg) ->
  reach_via cfg_sub_partial seg sections chain section sect ->
  exists w p, In (sg_name seg, w) (po_subs po) /\ escape_path rt (fi_path g) = Ok p /\
            In (SInput (keeps (fi_keep g) sect) (display (push bg p)) (member_of g) sect (wildcard_sections seg))
               (flat_map deep_inputs (wo_script w)).
Proof.
  intros Hg Hseg Hc Hb Hc0 Hl Hs Hr.
  destruct (included_leaf_partial d rt po seg b c0 g bg chain sect section sections Hg Hseg Hc Hb Hc0 Hl Hs Hr)
    as [w [Hw [p [Hp [Hin _]]]]].
  exists w, p. auto.
Qed.

(* ====================================================================== *)
(* C. C06: deleting excluded entries changes nothing, in both directions    *)
(* ====================================================================== *)

Definition is_crash (e : err) : Prop := exists w, e = ECrash w.

(* an excluded entry whose walk is acyclic emits nothing, and the walk itself cannot fail *)
Lemma excluded_acyclic_chain rt sty cfg seg sections rank f :
  should_emit rt (fi_conds f) = false -> chain_decreasing seg sections rank f ->
  forall n stack section base ws,
    (forall x, In x stack -> rank section < rank x) ->
    nothing_or is_crash (emit_sff rt sty cfg seg sections f n stack section base ws) ws.
Proof.
  intros Hex Hdec. induction n as [|n IHn]; intros stack section base ws Hrank.
  - rewrite Proofs.C14.emit_sff_O. right. eexists. split; [reflexivity|]. eexists. reflexivity.
  - rewrite Proofs.C14.emit_sff_S. destruct (mem_str section stack) eqn:Hmem.
    { exfalso. apply Proofs.C19.mem_str_In in Hmem. apply Hrank in Hmem. lia. }
    apply fold_out_nothing. intros k ws0 Hk.
    rewrite (emit_file_of_excluded _ _ _ _ _ _ _ _ _ Hex). cbn [bind fst snd].
    destruct (reference_partial cfg); [left; reflexivity|].
    destruct (lookup k (subgroups_for seg f)) as [others|] eqn:Hl; [|left; reflexivity].
    assert (Hothers : forall other ws', In other others ->
              nothing_or is_crash (emit_sff rt sty cfg seg sections f n (section :: stack) other base ws') ws').
    { intros other ws' Hin. apply IHn. pose proof (Hdec section k others other Hk Hl Hin) as Hlt.
      intros x [Hx|Hx]; [subst; exact Hlt | apply Hrank in Hx; lia]. }
    destruct (fold_out_nothing is_crash
                (fun other ws => emit_sff rt sty cfg seg sections f n (section :: stack) other base ws)
                others Hothers ws0) as [E|[e [E He]]]; rewrite E; cbn [bind fst snd].
    + left; reflexivity.
    + right. exists e. auto.
Qed.

Lemma excluded_acyclic_top rt sty cfg seg sections f section base ws :
  should_emit rt (fi_conds f) = false -> walk_acyclic seg f ->
  emit_sff rt sty cfg seg sections f (chain_fuel seg) [] section base ws = Ok ([], ws).
Proof.
  intros Hex [rank Hdec].
  destruct (excluded_acyclic_chain rt sty cfg seg sections rank f Hex (Hdec sections)
              (chain_fuel seg) [] section base ws) as [E|[e [E [w He]]]].
  - intros x [].
  - exact E.
  - exfalso. subst e. exact (fuel_sufficient rt sty cfg seg sections f section base ws w E).
Qed.

Lemma bind_eq {A B} (r1 r2 : res A) (f1 f2 : A -> res B) :
  r1 = r2 -> (forall a, f1 a = f2 a) -> bind r1 f1 = bind r2 f2.
Proof. intros E H. subst r2. destruct r1 as [a|e]; cbn [bind]; [apply H | reflexivity]. Qed.

Lemma fold_out_eq2 {A} (F : A -> wstate -> res out) l1 l2 :
  Forall2 (fun x y => forall ws, F x ws = F y ws) l1 l2 ->
  forall ws, fold_out F l1 ws = fold_out F l2 ws.
Proof.
  induction 1 as [|x y r1 r2 Hxy _ IH]; intro ws; cbn [fold_out]; [reflexivity|].
  apply bind_eq; [apply Hxy|]. intro o1. apply bind_eq; [apply IH|]. reflexivity.
Qed.

Section PruneEq.
  Variable rt : runtime.
  Variable sty : style.
  Variable cfg : wcfg.
  Variable seg : segment.
  Variable sections : list string.

  Local Notation top := (emit_top rt sty cfg seg sections).

  Lemma emit_sff_with_files_eq f kids' :
    (forall section base ws, fold_out (top section base) (fi_files f) ws = fold_out (top section base) kids' ws) ->
    forall n stack section base ws,
      emit_sff rt sty cfg seg sections f n stack section base ws =
      emit_sff rt sty cfg seg sections (with_files f kids') n stack section base ws.
  Proof.
    intro Hkids. induction n as [|n IHn]; intros stack section base ws.
    - rewrite !Proofs.C14.emit_sff_O. reflexivity.
    - rewrite !Proofs.C14.emit_sff_S. destruct (mem_str section stack); [reflexivity|].
      assert (Hh : sections_here (with_files f kids') section sections = sections_here f section sections)
        by (destruct f; reflexivity).
      rewrite Hh. apply Proofs.C14.fold_out_ext. intros k ws0 _.
      apply bind_eq.
      + unfold Spec.C14.emit_file_of.
        change (fi_conds (with_files f kids')) with (fi_conds f).
        change (fi_kind (with_files f kids')) with (fi_kind f).
        change (fi_path (with_files f kids')) with (fi_path f).
        change (fi_keep (with_files f kids')) with (fi_keep f).
        change (fi_subfile (with_files f kids')) with (fi_subfile f).
        change (fi_section (with_files f kids')) with (fi_section f).
        change (fi_pad_amount (with_files f kids')) with (fi_pad_amount f).
        change (fi_linker_offset_name (with_files f kids')) with (fi_linker_offset_name f).
        change (fi_dir (with_files f kids')) with (fi_dir f).
        change (fi_files (with_files f kids')) with kids'.
        destruct (negb (should_emit rt (fi_conds f))); [reflexivity|].
        destruct (fi_kind f); try reflexivity.
        apply bind_eq; [reflexivity|]. intro d. apply Hkids.
      + intro o1. apply bind_eq; [|reflexivity].
        destruct (reference_partial cfg); [reflexivity|].
        change (subgroups_for seg (with_files f kids')) with (subgroups_for seg f).
        destruct (lookup k (subgroups_for seg f)) as [others|]; [|reflexivity].
        apply Proofs.C14.fold_out_ext. intros other ws1 _. apply IHn.
  Qed.

  Lemma prune_acyclic_fold l l' :
    prune_acyclic rt seg l l' ->
    forall section base ws, fold_out (top section base) l ws = fold_out (top section base) l' ws.
  Proof.
    induction 1 as [| f l l' Hex Hac Hp IH | f l l' Hp IH | f kids' l l' Hk Hpk IHk Hp IH];
      intros section base ws.
    - reflexivity.
    - cbn [fold_out]. unfold emit_top at 1.
      rewrite (excluded_acyclic_top rt sty cfg seg sections f section base ws Hex Hac). cbn [bind fst snd app].
      rewrite IH. destruct (fold_out (top section base) l' ws) as [[s w]|e]; reflexivity.
    - cbn [fold_out]. apply bind_eq; [reflexivity|]. intro o1. apply bind_eq; [apply IH|]. reflexivity.
    - cbn [fold_out]. apply bind_eq.
      + unfold emit_top. apply (emit_sff_with_files_eq f kids' IHk).
      + intro o1. apply bind_eq; [apply IH|]. reflexivity.
  Qed.
End PruneEq.

Section PruneSegmentsEq.
  Variable rt : runtime.

  Lemma emit_section_prune_eq sty cfg seg fl sections base_path section ws :
    prune_acyclic rt seg (sg_files seg) fl ->
    emit_section rt sty cfg seg sections base_path section ws =
    emit_section rt sty cfg (clone_with_new_files seg fl) sections base_path section ws.
  Proof.
    intro Hp. unfold emit_section.
    change (sg_dir (clone_with_new_files seg fl)) with (sg_dir seg).
    change (sg_files (clone_with_new_files seg fl)) with fl.
    apply bind_eq; [reflexivity|]. intro b0. apply bind_eq; [reflexivity|]. intro b.
    etransitivity; [apply (prune_acyclic_fold rt sty cfg seg sections _ _ Hp section b ws)|].
    apply Proofs.C14.fold_out_ext. intros f ws1 _. unfold emit_top.
    rewrite emit_sff_clone.
    change (chain_fuel (clone_with_new_files seg fl)) with (chain_fuel seg). reflexivity.
  Qed.

  Section Segs.
    Variable st : settings.
    Variable cfg : wcfg.

    Lemma part_groups_prune_eq seg fl sections rest :
      prune_acyclic rt seg (sg_files seg) fl ->
      forall ws, part_groups rt st cfg seg sections rest ws =
                 part_groups rt st cfg (clone_with_new_files seg fl) sections rest ws.
    Proof.
      intro Hp. induction rest as [|section rest' IH]; intro ws; cbn [part_groups]; [reflexivity|].
      apply bind_eq; [apply emit_section_prune_eq; exact Hp|]. intro o1.
      apply bind_eq; [apply IH|]. intro o2. destruct seg. reflexivity.
    Qed.

    Lemma write_segment_prune_eq seg fl sections noload ws :
      prune_acyclic rt seg (sg_files seg) fl ->
      write_segment rt st cfg seg sections noload ws =
      write_segment rt st cfg (clone_with_new_files seg fl) sections noload ws.
    Proof.
      intro Hp. unfold write_segment. apply bind_eq; [apply part_groups_prune_eq; exact Hp|].
      intro o. destruct seg. reflexivity.
    Qed.

    Lemma single_groups_prune_eq seg fl sections noload rest :
      prune_acyclic rt seg (sg_files seg) fl ->
      forall ws, single_groups rt st cfg seg sections noload rest ws =
                 single_groups rt st cfg (clone_with_new_files seg fl) sections noload rest ws.
    Proof.
      intro Hp. induction rest as [|section rest' IH]; intro ws; cbn [single_groups]; [reflexivity|].
      apply bind_eq; [apply emit_section_prune_eq; exact Hp|]. intro o1.
      apply bind_eq; [apply IH|]. intro o2. destruct seg. reflexivity.
    Qed.

    Lemma write_single_segment_prune_eq seg fl sections noload ws :
      prune_acyclic rt seg (sg_files seg) fl ->
      write_single_segment rt st cfg seg sections noload ws =
      write_single_segment rt st cfg (clone_with_new_files seg fl) sections noload ws.
    Proof.
      intro Hp. unfold write_single_segment. apply bind_eq; [apply single_groups_prune_eq; exact Hp|].
      intro o. destruct seg. reflexivity.
    Qed.

    Variable classes : list vram_class.

    Lemma add_segment_prune_eq seg fl ws :
      prune_acyclic rt seg (sg_files seg) fl ->
      add_segment rt st cfg classes seg ws = add_segment rt st cfg classes (clone_with_new_files seg fl) ws.
    Proof.
      intro Hp. unfold add_segment.
      change (sg_conds (clone_with_new_files seg fl)) with (sg_conds seg).
      destruct (negb (should_emit rt (sg_conds seg))); [reflexivity|].
      change (sg_vram_class (clone_with_new_files seg fl)) with (sg_vram_class seg).
      change (sg_name (clone_with_new_files seg fl)) with (sg_name seg).
      change (alloc_sections (clone_with_new_files seg fl)) with (alloc_sections seg).
      change (noload_sections (clone_with_new_files seg fl)) with (noload_sections seg).
      apply bind_eq; [reflexivity|]. intro cls.
      apply bind_eq; [apply write_segment_prune_eq; exact Hp|]. intro o1.
      apply bind_eq; [apply write_segment_prune_eq; exact Hp|]. intro o2.
      destruct seg. reflexivity.
    Qed.

    Lemma add_single_segment_prune_eq seg fl ws :
      prune_acyclic rt seg (sg_files seg) fl ->
      add_single_segment rt st cfg classes seg ws =
      add_single_segment rt st cfg classes (clone_with_new_files seg fl) ws.
    Proof.
      intro Hp. unfold add_single_segment.
      change (alloc_sections (clone_with_new_files seg fl)) with (alloc_sections seg).
      change (noload_sections (clone_with_new_files seg fl)) with (noload_sections seg).
      apply bind_eq; [apply write_single_segment_prune_eq; exact Hp|]. intro o1.
      apply bind_eq; [apply write_single_segment_prune_eq; exact Hp|]. intro o2.
      destruct seg. reflexivity.
    Qed.

    Lemma add_all_segments_prune_eq segs1 segs2 ws :
      Forall2 (seg_prune_acyclic rt) segs1 segs2 ->
      add_all_segments rt st cfg classes segs1 ws = add_all_segments rt st cfg classes segs2 ws.
    Proof.
      intro H. unfold add_all_segments. rewrite <- (Forall2_len _ _ _ H).
      destruct (single_segment_mode st).
      - destruct H as [|s1 s2 r1 r2 [fl [Hp Hs]] Hr]; [reflexivity|].
        destruct Hr; [|reflexivity]. subst s2. apply add_single_segment_prune_eq. exact Hp.
      - apply bind_eq; [|reflexivity].
        apply fold_out_eq2. eapply Proofs.C14.Forall2_impl; [|exact H].
        intros s1 s2 [fl [Hp Hs]] ws1. subst s2. apply add_segment_prune_eq. exact Hp.
    Qed.
  End Segs.

  Lemma gen_normal_prune_eq d segs2 :
    Forall2 (seg_prune_acyclic rt) (doc_segments d) segs2 ->
    gen_normal d rt = gen_normal (with_segments d segs2) rt.
  Proof.
    intro H. unfold gen_normal, with_segments. cbn [doc_settings doc_vram_classes doc_segments].
    apply bind_eq; [apply add_all_segments_prune_eq; exact H|]. intro o. reflexivity.
  Qed.

  Lemma partial_segment_prune_eq d d' folder seg fl acc :
    doc_settings d' = doc_settings d -> doc_vram_classes d' = doc_vram_classes d ->
    prune_acyclic rt seg (sg_files seg) fl ->
    partial_segment d rt folder seg acc = partial_segment d' rt folder (clone_with_new_files seg fl) acc.
  Proof.
    intros Hst Hcl Hp. unfold partial_segment. cbv zeta. rewrite Hst, Hcl.
    change (sg_conds (clone_with_new_files seg fl)) with (sg_conds seg).
    destruct (negb (should_emit rt (sg_conds seg))); [reflexivity|].
    apply bind_eq; [apply add_single_segment_prune_eq; exact Hp|]. intro sub.
    change (sg_name (clone_with_new_files seg fl)) with (sg_name seg).
    assert (Hc : forall l, clone_with_new_files (clone_with_new_files seg fl) l = clone_with_new_files seg l)
      by (intro l; destruct seg; reflexivity).
    rewrite Hc. reflexivity.
  Qed.

  Lemma partial_segments_prune_eq d d' folder segs1 segs2 :
    doc_settings d' = doc_settings d -> doc_vram_classes d' = doc_vram_classes d ->
    Forall2 (seg_prune_acyclic rt) segs1 segs2 ->
    forall acc, partial_segments d rt folder segs1 acc = partial_segments d' rt folder segs2 acc.
  Proof.
    intros Hst Hcl H. induction H as [|s1 s2 r1 r2 [fl [Hp Hs]] _ IH]; intro acc; cbn [partial_segments];
      [reflexivity|].
    subst s2. apply bind_eq; [apply partial_segment_prune_eq; assumption|]. intro o1.
    apply bind_eq; [apply IH|]. reflexivity.
  Qed.

  Lemma gen_partial_prune_eq d segs2 :
    Forall2 (seg_prune_acyclic rt) (doc_segments d) segs2 ->
    gen_partial d rt = gen_partial (with_segments d segs2) rt.
  Proof.
    intro H. unfold gen_partial. cbv zeta.
    change (doc_settings (with_segments d segs2)) with (doc_settings d).
    destruct (partial_build_segments_folder (doc_settings d)) as [folder|]; [|reflexivity].
    change (doc_segments (with_segments d segs2)) with segs2.
    apply bind_eq;
      [apply (partial_segments_prune_eq d (with_segments d segs2) folder _ _ eq_refl eq_refl H)|].
    intro o. reflexivity.
  Qed.
End PruneSegmentsEq.

(* from the plain deletion relation of Proofs/C06More.v when every entry is acyclic *)
Lemma walk_acyclic_of_deep seg f : walk_acyclic_deep seg f -> walk_acyclic seg f.
Proof.
  intros [rank H]. exists rank. intro sections. exact (proj1 (proj1 (chain_decreasing_deep_eq _ _ _ _) (H sections))).
Qed.

Lemma walk_acyclic_deep_kids seg f : walk_acyclic_deep seg f -> Forall (walk_acyclic_deep seg) (fi_files f).
Proof.
  intros [rank H]. apply Forall_forall. intros c Hc. exists rank. intro sections.
  destruct (proj1 (chain_decreasing_deep_eq _ _ _ _) (H sections)) as [_ Hk].
  rewrite Forall_forall in Hk. apply Hk. exact Hc.
Qed.

Lemma prune_acyclic_of_deep rt seg l l' :
  prune rt l l' -> Forall (walk_acyclic_deep seg) l -> prune_acyclic rt seg l l'.
Proof.
  induction 1 as [| f l l' Hex Hp IH | f l l' Hp IH | f kids' l l' Hk Hpk IHk Hp IH]; intro Hall.
  - constructor.
  - inversion Hall; subst. apply pa_skip; [exact Hex | apply walk_acyclic_of_deep; assumption | auto].
  - inversion Hall; subst. apply pa_keep. auto.
  - inversion Hall; subst. unfold with_files. apply pa_group; [exact Hk | | auto].
    apply IHk. apply walk_acyclic_deep_kids. assumption.
Qed.

Lemma seg_prune_acyclic_of_doc rt segs segs2 :
  Forall2 (seg_prune rt) segs segs2 ->
  Forall (fun seg => Forall (walk_acyclic_deep seg) (sg_files seg)) segs ->
  Forall2 (seg_prune_acyclic rt) segs segs2.
Proof.
  induction 1 as [|s1 s2 r1 r2 [fl [Hp Hs]] _ IH]; intro Hall; [constructor|].
  inversion Hall; subst. constructor; [|auto].
  exists fl. split; [apply prune_acyclic_of_deep; assumption | reflexivity].
Qed.

Lemma no_trace_file_equal rt d segs2 :
  Forall2 (seg_prune_acyclic rt) (doc_segments d) segs2 ->
  gen_normal d rt = gen_normal (with_segments d segs2) rt /\
  gen_partial d rt = gen_partial (with_segments d segs2) rt.
Proof. intro H. split; [apply gen_normal_prune_eq | apply gen_partial_prune_eq]; exact H. Qed.

Lemma no_trace_file_iff rt d segs2 :
  doc_acyclic d -> Forall2 (seg_prune rt) (doc_segments d) segs2 ->
  (forall w, gen_normal d rt = Ok w <-> gen_normal (with_segments d segs2) rt = Ok w) /\
  (forall p, gen_partial d rt = Ok p <-> gen_partial (with_segments d segs2) rt = Ok p).
Proof.
  intros Hac H. pose proof (seg_prune_acyclic_of_doc rt _ _ H Hac) as H'.
  destruct (no_trace_file_equal rt d segs2 H') as [E1 E2]. rewrite E1, E2. split; intro; reflexivity.
Qed.

Lemma no_trace_file_list_iff rt sty cfg seg sections l l' :
  prune_acyclic rt seg l l' ->
  forall section base ws,
    fold_out (fun f ws => emit_sff rt sty cfg seg sections f (chain_fuel seg) [] section base ws) l ws =
    fold_out (fun f ws => emit_sff rt sty cfg seg sections f (chain_fuel seg) [] section base ws) l' ws.
Proof. intros Hp section base ws. exact (prune_acyclic_fold rt sty cfg seg sections l l' Hp section base ws). Qed.

(* ---------- deleting an excluded SEGMENT, at document level ---------- *)

Lemma partial_segments_doc_eq d d' rt folder segs :
  doc_settings d' = doc_settings d -> doc_vram_classes d' = doc_vram_classes d ->
  forall acc, partial_segments d rt folder segs acc = partial_segments d' rt folder segs acc.
Proof.
  intros Hst Hcl. induction segs as [|s r IH]; intro acc; cbn [partial_segments]; [reflexivity|].
  apply bind_eq; [unfold partial_segment; cbv zeta; rewrite Hst, Hcl; reflexivity|].
  intro o1. apply bind_eq; [apply IH|]. reflexivity.
Qed.

Lemma no_trace_segment_document rt d l1 seg l2 :
  single_segment_mode (doc_settings d) = false ->
  doc_segments d = (l1 ++ seg :: l2)%list -> should_emit rt (sg_conds seg) = false ->
  gen_normal d rt = gen_normal (with_segments d (l1 ++ l2)) rt.
Proof.
  intros Hm Hs Hex. unfold gen_normal, with_segments, add_all_segments.
  cbn [doc_settings doc_vram_classes doc_segments]. rewrite Hm, Hs.
  rewrite (segments_no_trace rt _ cfg_normal _ l1 seg l2 ws0 Hex). reflexivity.
Qed.

Lemma no_trace_segment_document_partial rt d l1 seg l2 :
  doc_segments d = (l1 ++ seg :: l2)%list -> should_emit rt (sg_conds seg) = false ->
  gen_partial d rt = gen_partial (with_segments d (l1 ++ l2)) rt.
Proof.
  intros Hs Hex. unfold gen_partial. cbv zeta.
  change (doc_settings (with_segments d (l1 ++ l2))) with (doc_settings d).
  destruct (partial_build_segments_folder (doc_settings d)) as [folder|]; [|reflexivity].
  change (doc_segments (with_segments d (l1 ++ l2))) with (l1 ++ l2)%list. rewrite Hs.
  rewrite (partial_segments_no_trace d rt folder l1 seg l2 _ Hex).
  rewrite (partial_segments_doc_eq d (with_segments d (l1 ++ l2)) rt folder (l1 ++ l2) eq_refl eq_refl).
  reflexivity.
Qed.

(* ====================================================================== *)
(* example data                                                            *)
(* ====================================================================== *)
Local Open Scope string_scope.

(* ---------- A: the audit's counterexample to the old statement ---------- *)

Definition kx_plain : file_info := FileInfo "plain.o" KObject "" 0%N "" "" [] [] "" no_conds KAbsent.
Definition kx_kept : file_info := FileInfo "kept.o" KObject "" 0%N "" "" [] [] "" no_conds (KAll true).
Definition kx_group : file_info :=
  FileInfo "" KGroup "" 0%N "" "" [] [kx_plain; kx_kept] "lib" no_conds KAbsent.
Definition kx_seg : segment :=
  Segment "s" [kx_group] None None None None "" None no_conds [".text"] [] None None None None None [] []
          false None [] KAbsent.
Definition kx_rt : runtime := Runtime [] false.

(* a WRONG line: plain.o wrapped in KEEP, the flag being the one of the other entry *)
Definition kx_wrong : stmt := SInput true "build/lib/plain.o" None ".text" false.

Lemma kx_emitted :
  emit_sff kx_rt Splat cfg_normal kx_seg [".text"] kx_group (chain_fuel kx_seg) [] ".text" "build" ws0 =
  Ok ([SInput false "build/lib/plain.o" None ".text" false; SInput true "build/lib/kept.o" None ".text" false],
      WState [["build"; "lib"; "plain.o"]; ["build"; "lib"; "kept.o"]] []).
Proof. vm_compute. reflexivity. Qed.

Lemma kx_old_shape : old_keep_flag_shape kx_group kx_wrong.
Proof.
  exists kx_kept. split; [|split].
  - eapply below_child; [reflexivity | right; left; reflexivity | apply below_self].
  - left. reflexivity.
  - exists "build/lib/plain.o", None, ".text", false. reflexivity.
Qed.

Lemma kx_not_exact : ~ exact_keep_flag_shape kx_rt kx_seg "build" kx_group kx_wrong.
Proof.
  intros (keep & path & member & sect & wild & g & bg & chain & E & Hin & p & Hp & Hpath & Hm & Hw & Hk).
  unfold kx_wrong in E. injection E as <- <- <- <- <-.
  vm_compute in Hin. destruct Hin as [H|[H|[]]]; injection H as <- <- <-.
  - vm_compute in Hk. discriminate.
  - vm_compute in Hp. injection Hp as <-. vm_compute in Hpath. discriminate.
Qed.

(* the right lines do have the new shape *)
Lemma kx_right_exact :
  exact_keep_flag_shape kx_rt kx_seg "build" kx_group (SInput false "build/lib/plain.o" None ".text" false) /\
  exact_keep_flag_shape kx_rt kx_seg "build" kx_group (SInput true "build/lib/kept.o" None ".text" false).
Proof.
  split.
  - exists false, "build/lib/plain.o", None, ".text", false, kx_plain, "build/lib", [kx_group; kx_plain].
    split; [reflexivity|]. split; [vm_compute; left; reflexivity|].
    exists "plain.o". repeat split; reflexivity.
  - exists true, "build/lib/kept.o", None, ".text", false, kx_kept, "build/lib", [kx_group; kx_kept].
    split; [reflexivity|]. split; [vm_compute; right; left; reflexivity|].
    exists "kept.o". repeat split; reflexivity.
Qed.

(* ---------- C: acyclic sample, cyclic witness ---------- *)

(* without section_order the walk follows the table itself: a rank on the table is enough *)
Lemma chain_decreasing_plain seg sections rank f :
  fi_section_order f = [] ->
  (forall k others other, lookup k (sections_subgroups seg) = Some others -> In other others ->
                          rank other < rank k) ->
  chain_decreasing seg sections rank f.
Proof.
  intros Hso Htab section k others other Hk Hl Hother.
  rewrite (sections_here_plain _ _ _ Hso) in Hk. destruct Hk as [Hk|[]]. subst k.
  apply subgroups_for_sub in Hl. eapply Htab; eassumption.
Qed.

Definition ex06_rank (s : string) : nat := if String.eqb s ".text" then 1 else 0.

Lemma ex06_table files k others other :
  lookup k (sections_subgroups (ex06_seg files)) = Some others -> In other others ->
  ex06_rank other < ex06_rank k.
Proof.
  cbn [sections_subgroups ex06_seg lookup]. destruct (String.eqb k ".text") eqn:E; [|discriminate].
  apply String.eqb_eq in E. subst k. intro H. inversion H; subst others.
  intros [H1|[]]. subst other. vm_compute. lia.
Qed.

Lemma ex06_acyclic : doc_acyclic (ex06_doc ex06_files).
Proof.
  unfold doc_acyclic. cbn [doc_segments ex06_doc]. constructor; [|constructor].
  cbn [sg_files ex06_seg]. unfold ex06_files.
  repeat constructor; exists ex06_rank; intro sections; simpl; repeat split;
    apply chain_decreasing_plain; try reflexivity; apply ex06_table.
Qed.

(* a cyclic sub-group table and one EXCLUDED entry: the entry still walks the chain *)
Definition cyc_excluded : conds := mkConds [] [] [("version", "us")] [].
Definition cyc_obj : file_info := FileInfo "x.o" KObject "" 0%N "" "" [] [] "" cyc_excluded KAbsent.
Definition cyc_seg (files : list file_info) : segment :=
  Segment "s" files None None None None "" None no_conds [".text"] [] None None None None None [] []
          false None [(".text", [".text"])] KAbsent.
Definition cyc_settings : settings :=
  Settings "" Splat None None None None "char" true [] [] [] false false (Some "ld") (Some "segs")
           [".text"] [] None None None None None [] [] false None [(".text", [".text"])].
Definition cyc_doc (files : list file_info) : document :=
  Document cyc_settings [] [cyc_seg files] None [] [] [].
Definition cyc_rt : runtime := Runtime [("version", "us")] false.

Lemma cyc_prune : Forall2 (seg_prune cyc_rt) (doc_segments (cyc_doc [cyc_obj])) [cyc_seg []].
Proof.
  constructor; [|constructor]. exists []. split; [|reflexivity].
  apply prune_skip; [reflexivity | constructor].
Qed.

Lemma document_effective_keep sd d i ss seg c0 pos g :
  parse sd = Ok d -> nth_error (doc_segments d) i = Some seg -> nth_error (serial_segments sd) i = Some ss ->
  In c0 (sg_files seg) -> entry_at c0 pos = Some g -> effective_keep_of sd ss seg c0 g.
Proof.
  intros Hparse Hi Hss Hc0 Hpos.
  destruct (Forall2_nth_r _ _ _ (document_tree_parse sd d Hparse) i seg Hi) as [ss' [Hss' Hrule]].
  rewrite Hss in Hss'. injection Hss' as <-. eapply effective_keep_intro; eassumption.
Qed.

(* the sample document of Properties/C14.v: values at class, segment, outer group, inner group, file *)
Definition kx_doc_inputs : list stmt :=
  match parse Proofs.C14.ex_doc with
  | Ok d => match gen_normal d Proofs.C14.ex_rt with
            | Ok w => flat_map deep_inputs (wo_script w)
            | Err _ => []
            end
  | Err _ => []
  end.

Lemma cyc_witness :
  exists d rt segs2,
    Forall2 (seg_prune rt) (doc_segments d) segs2 /\
    gen_normal d rt = Err (ESubgroupCycle "s" ".text") /\
    is_ok (gen_normal (with_segments d segs2) rt) = true /\
    gen_partial d rt = Err (ESubgroupCycle "s" ".text") /\
    is_ok (gen_partial (with_segments d segs2) rt) = true /\
    ~ doc_acyclic d.
Proof.
  exists (cyc_doc [cyc_obj]), cyc_rt, [cyc_seg []].
  split; [exact cyc_prune|].
  assert (H1 : gen_normal (cyc_doc [cyc_obj]) cyc_rt = Err (ESubgroupCycle "s" ".text"))
    by (vm_compute; reflexivity).
  assert (H2 : is_ok (gen_normal (with_segments (cyc_doc [cyc_obj]) [cyc_seg []]) cyc_rt) = true)
    by (vm_compute; reflexivity).
  split; [exact H1|]. split; [exact H2|].
  split; [vm_compute; reflexivity|]. split; [vm_compute; reflexivity|].
  intro Hac.
  destruct (gen_normal (with_segments (cyc_doc [cyc_obj]) [cyc_seg []]) cyc_rt) as [w|e] eqn:G; [|discriminate H2].
  destruct (no_trace_file_iff cyc_rt _ _ Hac cyc_prune) as [Hn _].
  apply (proj2 (Hn w)) in G. rewrite H1 in G. discriminate G.
Qed.

(* the sample of Properties/C06More.v with an excluded SEGMENT in front: two segments *)
Definition ex06_dbg_seg : segment :=
  Segment "dbg" [ex06_obj "{missing}/dbg.o" no_conds] None None None None "" None ex06_excluded
          [".text"; ".data"] [".bss"] None None None None None [] [] true None [] KAbsent.

Definition ex06_doc2 : document :=
  Document ex06_settings [] [ex06_dbg_seg; ex06_seg ex06_files] (Some "start") [] [] [].
