(* C08 - proofs.  One lemma per option and per level on purpose (the risk guarded is a copy-paste
   between fields); all of them go through the same two inversion tactics. *)
From Slinky Require Import Model.Types Model.Generated Model.Parse Spec.C08.

Lemma bind_ok {A B} (r : res A) (f : A -> res B) b : bind r f = Ok b -> exists a, r = Ok a /\ f a = Ok b.
Proof. destruct r as [a|e]; cbn; intro H; [exists a; auto | discriminate]. Qed.

(* one step of the [do x <- e; k] chain at a time: [e] succeeded with some [x], remembered in [E] *)
Ltac inv_bind H :=
  repeat match type of H with
  | bind ?r _ = Ok _ =>
      let x := fresh "x" in let E := fresh "E" in
      destruct r as [x|] eqn:E; [cbn [bind] in H | discriminate H]
  end.

Ltac proj_ss H := cbn [ss_unknown ss_name ss_files ss_fixed_vram ss_fixed_symbol ss_follows_segment ss_vram_class
  ss_dir ss_gp_info ss_conds ss_alloc_sections ss_noload_sections ss_subalign ss_segment_start_align
  ss_segment_end_align ss_section_start_align ss_section_end_align ss_sections_start_alignment
  ss_sections_end_alignment ss_wildcard_sections ss_fill_value ss_sections_subgroups ss_keep] in H.

Ltac proj_sts H := cbn [sts_unknown sts_base_path sts_linker_symbols_style sts_hardcoded_gp_value sts_d_path
  sts_target_path sts_symbols_header_path sts_symbols_header_type sts_symbols_header_as_array
  sts_sections_allowlist sts_sections_allowlist_extra sts_sections_denylist sts_discard_wildcard_section
  sts_single_segment_mode sts_partial_scripts_folder sts_partial_build_segments_folder sts_alloc_sections
  sts_noload_sections sts_subalign sts_segment_start_align sts_segment_end_align sts_section_start_align
  sts_section_end_align sts_sections_start_alignment sts_sections_end_alignment sts_wildcard_sections
  sts_fill_value sts_sections_subgroups] in H.

Ltac proj_goal := cbn [ss_unknown ss_name ss_files ss_fixed_vram ss_fixed_symbol ss_follows_segment ss_vram_class
  ss_dir ss_gp_info ss_conds ss_alloc_sections ss_noload_sections ss_subalign ss_segment_start_align
  ss_segment_end_align ss_section_start_align ss_section_end_align ss_sections_start_alignment
  ss_sections_end_alignment ss_wildcard_sections ss_fill_value ss_sections_subgroups ss_keep
  sts_unknown sts_base_path sts_linker_symbols_style sts_hardcoded_gp_value sts_d_path
  sts_target_path sts_symbols_header_path sts_symbols_header_type sts_symbols_header_as_array
  sts_sections_allowlist sts_sections_allowlist_extra sts_sections_denylist sts_discard_wildcard_section
  sts_single_segment_mode sts_partial_scripts_folder sts_partial_build_segments_folder sts_alloc_sections
  sts_noload_sections sts_subalign sts_segment_start_align sts_segment_end_align sts_section_start_align
  sts_section_end_align sts_sections_start_alignment sts_sections_end_alignment sts_wildcard_sections
  sts_fill_value sts_sections_subgroups
  base_path linker_symbols_style hardcoded_gp_value d_path target_path symbols_header_path symbols_header_type
  symbols_header_as_array sections_allowlist sections_allowlist_extra sections_denylist discard_wildcard_section
  single_segment_mode partial_scripts_folder partial_build_segments_folder st_alloc_sections st_noload_sections
  st_subalign st_segment_start_align st_segment_end_align st_section_start_align st_section_end_align
  st_sections_start_alignment st_sections_end_alignment st_wildcard_sections st_fill_value st_sections_subgroups].

(* reading back the explicit spelling of the inherited value is reading an omitted field *)
Lemma gon_explicit {A} (o : option A) :
  get_optional_nullable (explicit_nullable o) o = get_optional_nullable Absent o.
Proof. destruct o; reflexivity. Qed.
Lemma gnn_explicit {A} (v : A) name : get_non_null (explicit_plain v) name v = get_non_null Absent name v.
Proof. reflexivity. Qed.

Ltac clean_oks :=
  repeat match goal with
  | E : Ok _ = Ok _ |- _ => injection E as E; try subst
  | E : Err _ = Ok _ |- _ => discriminate E
  end.

(* the serial record becomes its fields, the parser its chain of successful steps, the result its constructor *)
Ltac inv_segment H s :=
  destruct s; unfold parse_segment in H; proj_ss H; inv_bind H; injection H as H; subst; cbn.
Ltac inv_settings H s :=
  destruct s; unfold parse_settings in H; proj_sts H; inv_bind H; injection H as H; subst; cbn.

Ltac solve_field :=
  match goal with
  | |- _ = resolve_nullable ?a _ => destruct a
  | |- _ = resolve_plain ?a _ => destruct a
  | |- ?a <> Null => destruct a
  end; cbn in *; clean_oks; try reflexivity; try discriminate.

(* ---------- (a) the generated defaults are the documented ones ---------- *)

Lemma tbl_base_path : settings_default_base_path = doc_default_base_path.
Proof. reflexivity. Qed.

Lemma tbl_linker_symbols_style : settings_default_linker_symbols_style = doc_default_linker_symbols_style.
Proof. reflexivity. Qed.

Lemma tbl_hardcoded_gp_value : settings_default_hardcoded_gp_value = doc_default_hardcoded_gp_value.
Proof. reflexivity. Qed.

Lemma tbl_d_path : settings_default_d_path = doc_default_d_path.
Proof. reflexivity. Qed.

Lemma tbl_target_path : settings_default_target_path = doc_default_target_path.
Proof. reflexivity. Qed.

Lemma tbl_symbols_header_path : settings_default_symbols_header_path = doc_default_symbols_header_path.
Proof. reflexivity. Qed.

Lemma tbl_symbols_header_type : settings_default_symbols_header_type = doc_default_symbols_header_type.
Proof. reflexivity. Qed.

Lemma tbl_symbols_header_as_array : settings_default_symbols_header_as_array = doc_default_symbols_header_as_array.
Proof. reflexivity. Qed.

Lemma tbl_sections_allowlist : settings_default_sections_allowlist = doc_default_sections_allowlist.
Proof. reflexivity. Qed.

Lemma tbl_sections_allowlist_extra : settings_default_sections_allowlist_extra = doc_default_sections_allowlist_extra.
Proof. reflexivity. Qed.

Lemma tbl_sections_denylist : settings_default_sections_denylist = doc_default_sections_denylist.
Proof. reflexivity. Qed.

Lemma tbl_discard_wildcard_section : settings_default_discard_wildcard_section = doc_default_discard_wildcard_section.
Proof. reflexivity. Qed.

Lemma tbl_single_segment_mode : settings_default_single_segment_mode = doc_default_single_segment_mode.
Proof. reflexivity. Qed.

Lemma tbl_partial_scripts_folder : settings_default_partial_scripts_folder = doc_default_partial_scripts_folder.
Proof. reflexivity. Qed.

Lemma tbl_partial_build_segments_folder : settings_default_partial_build_segments_folder = doc_default_partial_build_segments_folder.
Proof. reflexivity. Qed.

Lemma tbl_alloc_sections : settings_default_alloc_sections = doc_default_alloc_sections.
Proof. reflexivity. Qed.

Lemma tbl_noload_sections : settings_default_noload_sections = doc_default_noload_sections.
Proof. reflexivity. Qed.

Lemma tbl_subalign : settings_default_subalign = doc_default_subalign.
Proof. reflexivity. Qed.

Lemma tbl_segment_start_align : settings_default_segment_start_align = doc_default_segment_start_align.
Proof. reflexivity. Qed.

Lemma tbl_segment_end_align : settings_default_segment_end_align = doc_default_segment_end_align.
Proof. reflexivity. Qed.

Lemma tbl_section_start_align : settings_default_section_start_align = doc_default_section_start_align.
Proof. reflexivity. Qed.

Lemma tbl_section_end_align : settings_default_section_end_align = doc_default_section_end_align.
Proof. reflexivity. Qed.

Lemma tbl_sections_start_alignment : settings_default_sections_start_alignment = doc_default_sections_start_alignment.
Proof. reflexivity. Qed.

Lemma tbl_sections_end_alignment : settings_default_sections_end_alignment = doc_default_sections_end_alignment.
Proof. reflexivity. Qed.

Lemma tbl_wildcard_sections : settings_default_wildcard_sections = doc_default_wildcard_sections.
Proof. reflexivity. Qed.

Lemma tbl_fill_value : settings_default_fill_value = doc_default_fill_value.
Proof. reflexivity. Qed.

Lemma tbl_sections_subgroups : settings_default_subsections_groups = doc_default_sections_subgroups.
Proof. reflexivity. Qed.

Lemma tables : 
  settings_default_base_path = doc_default_base_path /\
  settings_default_linker_symbols_style = doc_default_linker_symbols_style /\
  settings_default_hardcoded_gp_value = doc_default_hardcoded_gp_value /\
  settings_default_d_path = doc_default_d_path /\
  settings_default_target_path = doc_default_target_path /\
  settings_default_symbols_header_path = doc_default_symbols_header_path /\
  settings_default_symbols_header_type = doc_default_symbols_header_type /\
  settings_default_symbols_header_as_array = doc_default_symbols_header_as_array /\
  settings_default_sections_allowlist = doc_default_sections_allowlist /\
  settings_default_sections_allowlist_extra = doc_default_sections_allowlist_extra /\
  settings_default_sections_denylist = doc_default_sections_denylist /\
  settings_default_discard_wildcard_section = doc_default_discard_wildcard_section /\
  settings_default_single_segment_mode = doc_default_single_segment_mode /\
  settings_default_partial_scripts_folder = doc_default_partial_scripts_folder /\
  settings_default_partial_build_segments_folder = doc_default_partial_build_segments_folder /\
  settings_default_alloc_sections = doc_default_alloc_sections /\
  settings_default_noload_sections = doc_default_noload_sections /\
  settings_default_subalign = doc_default_subalign /\
  settings_default_segment_start_align = doc_default_segment_start_align /\
  settings_default_segment_end_align = doc_default_segment_end_align /\
  settings_default_section_start_align = doc_default_section_start_align /\
  settings_default_section_end_align = doc_default_section_end_align /\
  settings_default_sections_start_alignment = doc_default_sections_start_alignment /\
  settings_default_sections_end_alignment = doc_default_sections_end_alignment /\
  settings_default_wildcard_sections = doc_default_wildcard_sections /\
  settings_default_fill_value = doc_default_fill_value /\
  settings_default_subsections_groups = doc_default_sections_subgroups.
Proof. repeat apply conj; reflexivity. Qed.

(* ---------- (b) global level: given value, else documented default ---------- *)

Lemma global_base_path : forall s st, parse_settings s = Ok st ->
  Some (base_path st) = resolve_plain (sts_base_path s) doc_default_base_path.
Proof. intros s st H. inv_settings H s. solve_field. Qed.

Lemma global_linker_symbols_style : forall s st, parse_settings s = Ok st ->
  Some (linker_symbols_style st) = resolve_plain (sts_linker_symbols_style s) doc_default_linker_symbols_style.
Proof. intros s st H. inv_settings H s. solve_field. Qed.

Lemma global_hardcoded_gp_value : forall s st, parse_settings s = Ok st ->
  hardcoded_gp_value st = resolve_nullable (sts_hardcoded_gp_value s) doc_default_hardcoded_gp_value.
Proof. intros s st H. inv_settings H s. solve_field. Qed.

Lemma global_d_path : forall s st, parse_settings s = Ok st ->
  d_path st = resolve_nullable (sts_d_path s) doc_default_d_path.
Proof. intros s st H. inv_settings H s. solve_field. Qed.

Lemma global_target_path : forall s st, parse_settings s = Ok st ->
  target_path st = resolve_nullable (sts_target_path s) doc_default_target_path.
Proof. intros s st H. inv_settings H s. solve_field. Qed.

Lemma global_symbols_header_path : forall s st, parse_settings s = Ok st ->
  symbols_header_path st = resolve_nullable (sts_symbols_header_path s) doc_default_symbols_header_path.
Proof. intros s st H. inv_settings H s. solve_field. Qed.

Lemma global_symbols_header_type : forall s st, parse_settings s = Ok st ->
  Some (symbols_header_type st) = resolve_plain (sts_symbols_header_type s) doc_default_symbols_header_type.
Proof. intros s st H. inv_settings H s. solve_field. Qed.

Lemma global_symbols_header_as_array : forall s st, parse_settings s = Ok st ->
  Some (symbols_header_as_array st) = resolve_plain (sts_symbols_header_as_array s) doc_default_symbols_header_as_array.
Proof. intros s st H. inv_settings H s. solve_field. Qed.

Lemma global_sections_allowlist : forall s st, parse_settings s = Ok st ->
  Some (sections_allowlist st) = resolve_plain (sts_sections_allowlist s) doc_default_sections_allowlist.
Proof. intros s st H. inv_settings H s. solve_field. Qed.

Lemma global_sections_allowlist_extra : forall s st, parse_settings s = Ok st ->
  Some (sections_allowlist_extra st) = resolve_plain (sts_sections_allowlist_extra s) doc_default_sections_allowlist_extra.
Proof. intros s st H. inv_settings H s. solve_field. Qed.

Lemma global_sections_denylist : forall s st, parse_settings s = Ok st ->
  Some (sections_denylist st) = resolve_plain (sts_sections_denylist s) doc_default_sections_denylist.
Proof. intros s st H. inv_settings H s. solve_field. Qed.

Lemma global_discard_wildcard_section : forall s st, parse_settings s = Ok st ->
  Some (discard_wildcard_section st) = resolve_plain (sts_discard_wildcard_section s) doc_default_discard_wildcard_section.
Proof. intros s st H. inv_settings H s. solve_field. Qed.

Lemma global_single_segment_mode : forall s st, parse_settings s = Ok st ->
  Some (single_segment_mode st) = resolve_plain (sts_single_segment_mode s) doc_default_single_segment_mode.
Proof. intros s st H. inv_settings H s. solve_field. Qed.

Lemma global_partial_scripts_folder : forall s st, parse_settings s = Ok st ->
  partial_scripts_folder st = resolve_nullable (sts_partial_scripts_folder s) doc_default_partial_scripts_folder.
Proof. intros s st H. inv_settings H s. solve_field. Qed.

Lemma global_partial_build_segments_folder : forall s st, parse_settings s = Ok st ->
  partial_build_segments_folder st = resolve_nullable (sts_partial_build_segments_folder s) doc_default_partial_build_segments_folder.
Proof. intros s st H. inv_settings H s. solve_field. Qed.

Lemma global_alloc_sections : forall s st, parse_settings s = Ok st ->
  Some (st_alloc_sections st) = resolve_plain (sts_alloc_sections s) doc_default_alloc_sections.
Proof. intros s st H. inv_settings H s. solve_field. Qed.

Lemma global_noload_sections : forall s st, parse_settings s = Ok st ->
  Some (st_noload_sections st) = resolve_plain (sts_noload_sections s) doc_default_noload_sections.
Proof. intros s st H. inv_settings H s. solve_field. Qed.

Lemma global_subalign : forall s st, parse_settings s = Ok st ->
  st_subalign st = resolve_nullable (sts_subalign s) doc_default_subalign.
Proof. intros s st H. inv_settings H s. solve_field. Qed.

Lemma global_segment_start_align : forall s st, parse_settings s = Ok st ->
  st_segment_start_align st = resolve_nullable (sts_segment_start_align s) doc_default_segment_start_align.
Proof. intros s st H. inv_settings H s. solve_field. Qed.

Lemma global_segment_end_align : forall s st, parse_settings s = Ok st ->
  st_segment_end_align st = resolve_nullable (sts_segment_end_align s) doc_default_segment_end_align.
Proof. intros s st H. inv_settings H s. solve_field. Qed.

Lemma global_section_start_align : forall s st, parse_settings s = Ok st ->
  st_section_start_align st = resolve_nullable (sts_section_start_align s) doc_default_section_start_align.
Proof. intros s st H. inv_settings H s. solve_field. Qed.

Lemma global_section_end_align : forall s st, parse_settings s = Ok st ->
  st_section_end_align st = resolve_nullable (sts_section_end_align s) doc_default_section_end_align.
Proof. intros s st H. inv_settings H s. solve_field. Qed.

Lemma global_sections_start_alignment : forall s st, parse_settings s = Ok st ->
  Some (st_sections_start_alignment st) = resolve_plain (sts_sections_start_alignment s) doc_default_sections_start_alignment.
Proof. intros s st H. inv_settings H s. solve_field. Qed.

Lemma global_sections_end_alignment : forall s st, parse_settings s = Ok st ->
  Some (st_sections_end_alignment st) = resolve_plain (sts_sections_end_alignment s) doc_default_sections_end_alignment.
Proof. intros s st H. inv_settings H s. solve_field. Qed.

Lemma global_wildcard_sections : forall s st, parse_settings s = Ok st ->
  Some (st_wildcard_sections st) = resolve_plain (sts_wildcard_sections s) doc_default_wildcard_sections.
Proof. intros s st H. inv_settings H s. solve_field. Qed.

Lemma global_fill_value : forall s st, parse_settings s = Ok st ->
  st_fill_value st = resolve_nullable (sts_fill_value s) doc_default_fill_value.
Proof. intros s st H. inv_settings H s. solve_field. Qed.

Lemma global_sections_subgroups : forall s st, parse_settings s = Ok st ->
  Some (st_sections_subgroups st) = resolve_plain (sts_sections_subgroups s) doc_default_sections_subgroups.
Proof. intros s st H. inv_settings H s. solve_field. Qed.

(* null on a setting that cannot be disabled is an error *)

Lemma global_base_path_not_null : forall s st, parse_settings s = Ok st -> sts_base_path s <> Null.
Proof. intros s st H E. apply global_base_path in H. rewrite E in H. discriminate H. Qed.

Lemma global_base_path_null_err : forall s, sts_base_path s = Null -> exists e, parse_settings s = Err e.
Proof. intros s E. destruct (parse_settings s) as [st|e] eqn:H; [|exists e; reflexivity].
  apply global_base_path_not_null in H. contradiction. Qed.

Lemma global_linker_symbols_style_not_null : forall s st, parse_settings s = Ok st -> sts_linker_symbols_style s <> Null.
Proof. intros s st H E. apply global_linker_symbols_style in H. rewrite E in H. discriminate H. Qed.

Lemma global_linker_symbols_style_null_err : forall s, sts_linker_symbols_style s = Null -> exists e, parse_settings s = Err e.
Proof. intros s E. destruct (parse_settings s) as [st|e] eqn:H; [|exists e; reflexivity].
  apply global_linker_symbols_style_not_null in H. contradiction. Qed.

Lemma global_symbols_header_type_not_null : forall s st, parse_settings s = Ok st -> sts_symbols_header_type s <> Null.
Proof. intros s st H E. apply global_symbols_header_type in H. rewrite E in H. discriminate H. Qed.

Lemma global_symbols_header_type_null_err : forall s, sts_symbols_header_type s = Null -> exists e, parse_settings s = Err e.
Proof. intros s E. destruct (parse_settings s) as [st|e] eqn:H; [|exists e; reflexivity].
  apply global_symbols_header_type_not_null in H. contradiction. Qed.

Lemma global_symbols_header_as_array_not_null : forall s st, parse_settings s = Ok st -> sts_symbols_header_as_array s <> Null.
Proof. intros s st H E. apply global_symbols_header_as_array in H. rewrite E in H. discriminate H. Qed.

Lemma global_symbols_header_as_array_null_err : forall s, sts_symbols_header_as_array s = Null -> exists e, parse_settings s = Err e.
Proof. intros s E. destruct (parse_settings s) as [st|e] eqn:H; [|exists e; reflexivity].
  apply global_symbols_header_as_array_not_null in H. contradiction. Qed.

Lemma global_sections_allowlist_not_null : forall s st, parse_settings s = Ok st -> sts_sections_allowlist s <> Null.
Proof. intros s st H E. apply global_sections_allowlist in H. rewrite E in H. discriminate H. Qed.

Lemma global_sections_allowlist_null_err : forall s, sts_sections_allowlist s = Null -> exists e, parse_settings s = Err e.
Proof. intros s E. destruct (parse_settings s) as [st|e] eqn:H; [|exists e; reflexivity].
  apply global_sections_allowlist_not_null in H. contradiction. Qed.

Lemma global_sections_allowlist_extra_not_null : forall s st, parse_settings s = Ok st -> sts_sections_allowlist_extra s <> Null.
Proof. intros s st H E. apply global_sections_allowlist_extra in H. rewrite E in H. discriminate H. Qed.

Lemma global_sections_allowlist_extra_null_err : forall s, sts_sections_allowlist_extra s = Null -> exists e, parse_settings s = Err e.
Proof. intros s E. destruct (parse_settings s) as [st|e] eqn:H; [|exists e; reflexivity].
  apply global_sections_allowlist_extra_not_null in H. contradiction. Qed.

Lemma global_sections_denylist_not_null : forall s st, parse_settings s = Ok st -> sts_sections_denylist s <> Null.
Proof. intros s st H E. apply global_sections_denylist in H. rewrite E in H. discriminate H. Qed.

Lemma global_sections_denylist_null_err : forall s, sts_sections_denylist s = Null -> exists e, parse_settings s = Err e.
Proof. intros s E. destruct (parse_settings s) as [st|e] eqn:H; [|exists e; reflexivity].
  apply global_sections_denylist_not_null in H. contradiction. Qed.

Lemma global_discard_wildcard_section_not_null : forall s st, parse_settings s = Ok st -> sts_discard_wildcard_section s <> Null.
Proof. intros s st H E. apply global_discard_wildcard_section in H. rewrite E in H. discriminate H. Qed.

Lemma global_discard_wildcard_section_null_err : forall s, sts_discard_wildcard_section s = Null -> exists e, parse_settings s = Err e.
Proof. intros s E. destruct (parse_settings s) as [st|e] eqn:H; [|exists e; reflexivity].
  apply global_discard_wildcard_section_not_null in H. contradiction. Qed.

Lemma global_single_segment_mode_not_null : forall s st, parse_settings s = Ok st -> sts_single_segment_mode s <> Null.
Proof. intros s st H E. apply global_single_segment_mode in H. rewrite E in H. discriminate H. Qed.

Lemma global_single_segment_mode_null_err : forall s, sts_single_segment_mode s = Null -> exists e, parse_settings s = Err e.
Proof. intros s E. destruct (parse_settings s) as [st|e] eqn:H; [|exists e; reflexivity].
  apply global_single_segment_mode_not_null in H. contradiction. Qed.

Lemma global_alloc_sections_not_null : forall s st, parse_settings s = Ok st -> sts_alloc_sections s <> Null.
Proof. intros s st H E. apply global_alloc_sections in H. rewrite E in H. discriminate H. Qed.

Lemma global_alloc_sections_null_err : forall s, sts_alloc_sections s = Null -> exists e, parse_settings s = Err e.
Proof. intros s E. destruct (parse_settings s) as [st|e] eqn:H; [|exists e; reflexivity].
  apply global_alloc_sections_not_null in H. contradiction. Qed.

Lemma global_noload_sections_not_null : forall s st, parse_settings s = Ok st -> sts_noload_sections s <> Null.
Proof. intros s st H E. apply global_noload_sections in H. rewrite E in H. discriminate H. Qed.

Lemma global_noload_sections_null_err : forall s, sts_noload_sections s = Null -> exists e, parse_settings s = Err e.
Proof. intros s E. destruct (parse_settings s) as [st|e] eqn:H; [|exists e; reflexivity].
  apply global_noload_sections_not_null in H. contradiction. Qed.

Lemma global_sections_start_alignment_not_null : forall s st, parse_settings s = Ok st -> sts_sections_start_alignment s <> Null.
Proof. intros s st H E. apply global_sections_start_alignment in H. rewrite E in H. discriminate H. Qed.

Lemma global_sections_start_alignment_null_err : forall s, sts_sections_start_alignment s = Null -> exists e, parse_settings s = Err e.
Proof. intros s E. destruct (parse_settings s) as [st|e] eqn:H; [|exists e; reflexivity].
  apply global_sections_start_alignment_not_null in H. contradiction. Qed.

Lemma global_sections_end_alignment_not_null : forall s st, parse_settings s = Ok st -> sts_sections_end_alignment s <> Null.
Proof. intros s st H E. apply global_sections_end_alignment in H. rewrite E in H. discriminate H. Qed.

Lemma global_sections_end_alignment_null_err : forall s, sts_sections_end_alignment s = Null -> exists e, parse_settings s = Err e.
Proof. intros s E. destruct (parse_settings s) as [st|e] eqn:H; [|exists e; reflexivity].
  apply global_sections_end_alignment_not_null in H. contradiction. Qed.

Lemma global_wildcard_sections_not_null : forall s st, parse_settings s = Ok st -> sts_wildcard_sections s <> Null.
Proof. intros s st H E. apply global_wildcard_sections in H. rewrite E in H. discriminate H. Qed.

Lemma global_wildcard_sections_null_err : forall s, sts_wildcard_sections s = Null -> exists e, parse_settings s = Err e.
Proof. intros s E. destruct (parse_settings s) as [st|e] eqn:H; [|exists e; reflexivity].
  apply global_wildcard_sections_not_null in H. contradiction. Qed.

Lemma global_sections_subgroups_not_null : forall s st, parse_settings s = Ok st -> sts_sections_subgroups s <> Null.
Proof. intros s st H E. apply global_sections_subgroups in H. rewrite E in H. discriminate H. Qed.

Lemma global_sections_subgroups_null_err : forall s, sts_sections_subgroups s = Null -> exists e, parse_settings s = Err e.
Proof. intros s E. destruct (parse_settings s) as [st|e] eqn:H; [|exists e; reflexivity].
  apply global_sections_subgroups_not_null in H. contradiction. Qed.

(* ---------- (b) segment level: own value, else the global one ---------- *)

Lemma segment_alloc_sections : forall st s seg, parse_segment st s = Ok seg ->
  Some (alloc_sections seg) = resolve_plain (ss_alloc_sections s) (st_alloc_sections st).
Proof. intros st s seg H. inv_segment H s. solve_field. Qed.

Lemma segment_noload_sections : forall st s seg, parse_segment st s = Ok seg ->
  Some (noload_sections seg) = resolve_plain (ss_noload_sections s) (st_noload_sections st).
Proof. intros st s seg H. inv_segment H s. solve_field. Qed.

Lemma segment_subalign : forall st s seg, parse_segment st s = Ok seg ->
  subalign seg = resolve_nullable (ss_subalign s) (st_subalign st).
Proof. intros st s seg H. inv_segment H s. solve_field. Qed.

Lemma segment_segment_start_align : forall st s seg, parse_segment st s = Ok seg ->
  segment_start_align seg = resolve_nullable (ss_segment_start_align s) (st_segment_start_align st).
Proof. intros st s seg H. inv_segment H s. solve_field. Qed.

Lemma segment_segment_end_align : forall st s seg, parse_segment st s = Ok seg ->
  segment_end_align seg = resolve_nullable (ss_segment_end_align s) (st_segment_end_align st).
Proof. intros st s seg H. inv_segment H s. solve_field. Qed.

Lemma segment_section_start_align : forall st s seg, parse_segment st s = Ok seg ->
  section_start_align seg = resolve_nullable (ss_section_start_align s) (st_section_start_align st).
Proof. intros st s seg H. inv_segment H s. solve_field. Qed.

Lemma segment_section_end_align : forall st s seg, parse_segment st s = Ok seg ->
  section_end_align seg = resolve_nullable (ss_section_end_align s) (st_section_end_align st).
Proof. intros st s seg H. inv_segment H s. solve_field. Qed.

Lemma segment_sections_start_alignment : forall st s seg, parse_segment st s = Ok seg ->
  Some (sections_start_alignment seg) = resolve_plain (ss_sections_start_alignment s) (st_sections_start_alignment st).
Proof. intros st s seg H. inv_segment H s. solve_field. Qed.

Lemma segment_sections_end_alignment : forall st s seg, parse_segment st s = Ok seg ->
  Some (sections_end_alignment seg) = resolve_plain (ss_sections_end_alignment s) (st_sections_end_alignment st).
Proof. intros st s seg H. inv_segment H s. solve_field. Qed.

Lemma segment_wildcard_sections : forall st s seg, parse_segment st s = Ok seg ->
  Some (wildcard_sections seg) = resolve_plain (ss_wildcard_sections s) (st_wildcard_sections st).
Proof. intros st s seg H. inv_segment H s. solve_field. Qed.

Lemma segment_fill_value : forall st s seg, parse_segment st s = Ok seg ->
  fill_value seg = resolve_nullable (ss_fill_value s) (st_fill_value st).
Proof. intros st s seg H. inv_segment H s. solve_field. Qed.

Lemma segment_sections_subgroups : forall st s seg, parse_segment st s = Ok seg ->
  Some (sections_subgroups seg) = resolve_plain (ss_sections_subgroups s) (st_sections_subgroups st).
Proof. intros st s seg H. inv_segment H s. solve_field. Qed.

Lemma segment_alloc_sections_not_null : forall st s seg, parse_segment st s = Ok seg -> ss_alloc_sections s <> Null.
Proof. intros st s seg H E. apply segment_alloc_sections in H. rewrite E in H. discriminate H. Qed.

Lemma segment_alloc_sections_null_err : forall st s, ss_alloc_sections s = Null -> exists e, parse_segment st s = Err e.
Proof. intros st s E. destruct (parse_segment st s) as [seg|e] eqn:H; [|exists e; reflexivity].
  apply segment_alloc_sections_not_null in H. contradiction. Qed.

Lemma segment_noload_sections_not_null : forall st s seg, parse_segment st s = Ok seg -> ss_noload_sections s <> Null.
Proof. intros st s seg H E. apply segment_noload_sections in H. rewrite E in H. discriminate H. Qed.

Lemma segment_noload_sections_null_err : forall st s, ss_noload_sections s = Null -> exists e, parse_segment st s = Err e.
Proof. intros st s E. destruct (parse_segment st s) as [seg|e] eqn:H; [|exists e; reflexivity].
  apply segment_noload_sections_not_null in H. contradiction. Qed.

Lemma segment_sections_start_alignment_not_null : forall st s seg, parse_segment st s = Ok seg -> ss_sections_start_alignment s <> Null.
Proof. intros st s seg H E. apply segment_sections_start_alignment in H. rewrite E in H. discriminate H. Qed.

Lemma segment_sections_start_alignment_null_err : forall st s, ss_sections_start_alignment s = Null -> exists e, parse_segment st s = Err e.
Proof. intros st s E. destruct (parse_segment st s) as [seg|e] eqn:H; [|exists e; reflexivity].
  apply segment_sections_start_alignment_not_null in H. contradiction. Qed.

Lemma segment_sections_end_alignment_not_null : forall st s seg, parse_segment st s = Ok seg -> ss_sections_end_alignment s <> Null.
Proof. intros st s seg H E. apply segment_sections_end_alignment in H. rewrite E in H. discriminate H. Qed.

Lemma segment_sections_end_alignment_null_err : forall st s, ss_sections_end_alignment s = Null -> exists e, parse_segment st s = Err e.
Proof. intros st s E. destruct (parse_segment st s) as [seg|e] eqn:H; [|exists e; reflexivity].
  apply segment_sections_end_alignment_not_null in H. contradiction. Qed.

Lemma segment_wildcard_sections_not_null : forall st s seg, parse_segment st s = Ok seg -> ss_wildcard_sections s <> Null.
Proof. intros st s seg H E. apply segment_wildcard_sections in H. rewrite E in H. discriminate H. Qed.

Lemma segment_wildcard_sections_null_err : forall st s, ss_wildcard_sections s = Null -> exists e, parse_segment st s = Err e.
Proof. intros st s E. destruct (parse_segment st s) as [seg|e] eqn:H; [|exists e; reflexivity].
  apply segment_wildcard_sections_not_null in H. contradiction. Qed.

Lemma segment_sections_subgroups_not_null : forall st s seg, parse_segment st s = Ok seg -> ss_sections_subgroups s <> Null.
Proof. intros st s seg H E. apply segment_sections_subgroups in H. rewrite E in H. discriminate H. Qed.

Lemma segment_sections_subgroups_null_err : forall st s, ss_sections_subgroups s = Null -> exists e, parse_segment st s = Err e.
Proof. intros st s E. destruct (parse_segment st s) as [seg|e] eqn:H; [|exists e; reflexivity].
  apply segment_sections_subgroups_not_null in H. contradiction. Qed.

(* ---------- the three levels composed ---------- *)

Lemma three_way_alloc_sections : forall gs st s seg, parse_settings gs = Ok st -> parse_segment st s = Ok seg ->
  exists g, resolve_plain (sts_alloc_sections gs) doc_default_alloc_sections = Some g /\ resolve_plain (ss_alloc_sections s) g = Some (alloc_sections seg).
Proof. intros gs st s seg Hg Hs. exists (st_alloc_sections st). split; symmetry; [exact (global_alloc_sections _ _ Hg) | exact (segment_alloc_sections _ _ _ Hs)]. Qed.

Lemma three_way_noload_sections : forall gs st s seg, parse_settings gs = Ok st -> parse_segment st s = Ok seg ->
  exists g, resolve_plain (sts_noload_sections gs) doc_default_noload_sections = Some g /\ resolve_plain (ss_noload_sections s) g = Some (noload_sections seg).
Proof. intros gs st s seg Hg Hs. exists (st_noload_sections st). split; symmetry; [exact (global_noload_sections _ _ Hg) | exact (segment_noload_sections _ _ _ Hs)]. Qed.

Lemma three_way_subalign : forall gs st s seg, parse_settings gs = Ok st -> parse_segment st s = Ok seg ->
  subalign seg = resolve_nullable (ss_subalign s) (resolve_nullable (sts_subalign gs) doc_default_subalign).
Proof. intros gs st s seg Hg Hs. rewrite (segment_subalign _ _ _ Hs), (global_subalign _ _ Hg). reflexivity. Qed.

Lemma three_way_segment_start_align : forall gs st s seg, parse_settings gs = Ok st -> parse_segment st s = Ok seg ->
  segment_start_align seg = resolve_nullable (ss_segment_start_align s) (resolve_nullable (sts_segment_start_align gs) doc_default_segment_start_align).
Proof. intros gs st s seg Hg Hs. rewrite (segment_segment_start_align _ _ _ Hs), (global_segment_start_align _ _ Hg). reflexivity. Qed.

Lemma three_way_segment_end_align : forall gs st s seg, parse_settings gs = Ok st -> parse_segment st s = Ok seg ->
  segment_end_align seg = resolve_nullable (ss_segment_end_align s) (resolve_nullable (sts_segment_end_align gs) doc_default_segment_end_align).
Proof. intros gs st s seg Hg Hs. rewrite (segment_segment_end_align _ _ _ Hs), (global_segment_end_align _ _ Hg). reflexivity. Qed.

Lemma three_way_section_start_align : forall gs st s seg, parse_settings gs = Ok st -> parse_segment st s = Ok seg ->
  section_start_align seg = resolve_nullable (ss_section_start_align s) (resolve_nullable (sts_section_start_align gs) doc_default_section_start_align).
Proof. intros gs st s seg Hg Hs. rewrite (segment_section_start_align _ _ _ Hs), (global_section_start_align _ _ Hg). reflexivity. Qed.

Lemma three_way_section_end_align : forall gs st s seg, parse_settings gs = Ok st -> parse_segment st s = Ok seg ->
  section_end_align seg = resolve_nullable (ss_section_end_align s) (resolve_nullable (sts_section_end_align gs) doc_default_section_end_align).
Proof. intros gs st s seg Hg Hs. rewrite (segment_section_end_align _ _ _ Hs), (global_section_end_align _ _ Hg). reflexivity. Qed.

Lemma three_way_sections_start_alignment : forall gs st s seg, parse_settings gs = Ok st -> parse_segment st s = Ok seg ->
  exists g, resolve_plain (sts_sections_start_alignment gs) doc_default_sections_start_alignment = Some g /\ resolve_plain (ss_sections_start_alignment s) g = Some (sections_start_alignment seg).
Proof. intros gs st s seg Hg Hs. exists (st_sections_start_alignment st). split; symmetry; [exact (global_sections_start_alignment _ _ Hg) | exact (segment_sections_start_alignment _ _ _ Hs)]. Qed.

Lemma three_way_sections_end_alignment : forall gs st s seg, parse_settings gs = Ok st -> parse_segment st s = Ok seg ->
  exists g, resolve_plain (sts_sections_end_alignment gs) doc_default_sections_end_alignment = Some g /\ resolve_plain (ss_sections_end_alignment s) g = Some (sections_end_alignment seg).
Proof. intros gs st s seg Hg Hs. exists (st_sections_end_alignment st). split; symmetry; [exact (global_sections_end_alignment _ _ Hg) | exact (segment_sections_end_alignment _ _ _ Hs)]. Qed.

Lemma three_way_wildcard_sections : forall gs st s seg, parse_settings gs = Ok st -> parse_segment st s = Ok seg ->
  exists g, resolve_plain (sts_wildcard_sections gs) doc_default_wildcard_sections = Some g /\ resolve_plain (ss_wildcard_sections s) g = Some (wildcard_sections seg).
Proof. intros gs st s seg Hg Hs. exists (st_wildcard_sections st). split; symmetry; [exact (global_wildcard_sections _ _ Hg) | exact (segment_wildcard_sections _ _ _ Hs)]. Qed.

Lemma three_way_fill_value : forall gs st s seg, parse_settings gs = Ok st -> parse_segment st s = Ok seg ->
  fill_value seg = resolve_nullable (ss_fill_value s) (resolve_nullable (sts_fill_value gs) doc_default_fill_value).
Proof. intros gs st s seg Hg Hs. rewrite (segment_fill_value _ _ _ Hs), (global_fill_value _ _ Hg). reflexivity. Qed.

Lemma three_way_sections_subgroups : forall gs st s seg, parse_settings gs = Ok st -> parse_segment st s = Ok seg ->
  exists g, resolve_plain (sts_sections_subgroups gs) doc_default_sections_subgroups = Some g /\ resolve_plain (ss_sections_subgroups s) g = Some (sections_subgroups seg).
Proof. intros gs st s seg Hg Hs. exists (st_sections_subgroups st). split; symmetry; [exact (global_sections_subgroups _ _ Hg) | exact (segment_sections_subgroups _ _ _ Hs)]. Qed.

(* ---------- (c) everything omitted ---------- *)

Lemma defaults_all : parse_settings all_absent_settings = Ok doc_default_settings /\ default_settings = doc_default_settings.
Proof. split; reflexivity. Qed.

(* ---------- the update helpers do what their name says ---------- *)

Lemma ss_with_alloc_sections_get : forall s v, ss_alloc_sections (ss_with_alloc_sections s v) = v.
Proof. intros s v. reflexivity. Qed.

Lemma ss_with_alloc_sections_same : forall s, ss_with_alloc_sections s (ss_alloc_sections s) = s.
Proof. intros s. destruct s. reflexivity. Qed.

Lemma sts_with_alloc_sections_get : forall s v, sts_alloc_sections (sts_with_alloc_sections s v) = v.
Proof. intros s v. reflexivity. Qed.

Lemma sts_with_alloc_sections_same : forall s, sts_with_alloc_sections s (sts_alloc_sections s) = s.
Proof. intros s. destruct s. reflexivity. Qed.

Lemma ss_with_noload_sections_get : forall s v, ss_noload_sections (ss_with_noload_sections s v) = v.
Proof. intros s v. reflexivity. Qed.

Lemma ss_with_noload_sections_same : forall s, ss_with_noload_sections s (ss_noload_sections s) = s.
Proof. intros s. destruct s. reflexivity. Qed.

Lemma sts_with_noload_sections_get : forall s v, sts_noload_sections (sts_with_noload_sections s v) = v.
Proof. intros s v. reflexivity. Qed.

Lemma sts_with_noload_sections_same : forall s, sts_with_noload_sections s (sts_noload_sections s) = s.
Proof. intros s. destruct s. reflexivity. Qed.

Lemma ss_with_subalign_get : forall s v, ss_subalign (ss_with_subalign s v) = v.
Proof. intros s v. reflexivity. Qed.

Lemma ss_with_subalign_same : forall s, ss_with_subalign s (ss_subalign s) = s.
Proof. intros s. destruct s. reflexivity. Qed.

Lemma sts_with_subalign_get : forall s v, sts_subalign (sts_with_subalign s v) = v.
Proof. intros s v. reflexivity. Qed.

Lemma sts_with_subalign_same : forall s, sts_with_subalign s (sts_subalign s) = s.
Proof. intros s. destruct s. reflexivity. Qed.

Lemma ss_with_segment_start_align_get : forall s v, ss_segment_start_align (ss_with_segment_start_align s v) = v.
Proof. intros s v. reflexivity. Qed.

Lemma ss_with_segment_start_align_same : forall s, ss_with_segment_start_align s (ss_segment_start_align s) = s.
Proof. intros s. destruct s. reflexivity. Qed.

Lemma sts_with_segment_start_align_get : forall s v, sts_segment_start_align (sts_with_segment_start_align s v) = v.
Proof. intros s v. reflexivity. Qed.

Lemma sts_with_segment_start_align_same : forall s, sts_with_segment_start_align s (sts_segment_start_align s) = s.
Proof. intros s. destruct s. reflexivity. Qed.

Lemma ss_with_segment_end_align_get : forall s v, ss_segment_end_align (ss_with_segment_end_align s v) = v.
Proof. intros s v. reflexivity. Qed.

Lemma ss_with_segment_end_align_same : forall s, ss_with_segment_end_align s (ss_segment_end_align s) = s.
Proof. intros s. destruct s. reflexivity. Qed.

Lemma sts_with_segment_end_align_get : forall s v, sts_segment_end_align (sts_with_segment_end_align s v) = v.
Proof. intros s v. reflexivity. Qed.

Lemma sts_with_segment_end_align_same : forall s, sts_with_segment_end_align s (sts_segment_end_align s) = s.
Proof. intros s. destruct s. reflexivity. Qed.

Lemma ss_with_section_start_align_get : forall s v, ss_section_start_align (ss_with_section_start_align s v) = v.
Proof. intros s v. reflexivity. Qed.

Lemma ss_with_section_start_align_same : forall s, ss_with_section_start_align s (ss_section_start_align s) = s.
Proof. intros s. destruct s. reflexivity. Qed.

Lemma sts_with_section_start_align_get : forall s v, sts_section_start_align (sts_with_section_start_align s v) = v.
Proof. intros s v. reflexivity. Qed.

Lemma sts_with_section_start_align_same : forall s, sts_with_section_start_align s (sts_section_start_align s) = s.
Proof. intros s. destruct s. reflexivity. Qed.

Lemma ss_with_section_end_align_get : forall s v, ss_section_end_align (ss_with_section_end_align s v) = v.
Proof. intros s v. reflexivity. Qed.

Lemma ss_with_section_end_align_same : forall s, ss_with_section_end_align s (ss_section_end_align s) = s.
Proof. intros s. destruct s. reflexivity. Qed.

Lemma sts_with_section_end_align_get : forall s v, sts_section_end_align (sts_with_section_end_align s v) = v.
Proof. intros s v. reflexivity. Qed.

Lemma sts_with_section_end_align_same : forall s, sts_with_section_end_align s (sts_section_end_align s) = s.
Proof. intros s. destruct s. reflexivity. Qed.

Lemma ss_with_sections_start_alignment_get : forall s v, ss_sections_start_alignment (ss_with_sections_start_alignment s v) = v.
Proof. intros s v. reflexivity. Qed.

Lemma ss_with_sections_start_alignment_same : forall s, ss_with_sections_start_alignment s (ss_sections_start_alignment s) = s.
Proof. intros s. destruct s. reflexivity. Qed.

Lemma sts_with_sections_start_alignment_get : forall s v, sts_sections_start_alignment (sts_with_sections_start_alignment s v) = v.
Proof. intros s v. reflexivity. Qed.

Lemma sts_with_sections_start_alignment_same : forall s, sts_with_sections_start_alignment s (sts_sections_start_alignment s) = s.
Proof. intros s. destruct s. reflexivity. Qed.

Lemma ss_with_sections_end_alignment_get : forall s v, ss_sections_end_alignment (ss_with_sections_end_alignment s v) = v.
Proof. intros s v. reflexivity. Qed.

Lemma ss_with_sections_end_alignment_same : forall s, ss_with_sections_end_alignment s (ss_sections_end_alignment s) = s.
Proof. intros s. destruct s. reflexivity. Qed.

Lemma sts_with_sections_end_alignment_get : forall s v, sts_sections_end_alignment (sts_with_sections_end_alignment s v) = v.
Proof. intros s v. reflexivity. Qed.

Lemma sts_with_sections_end_alignment_same : forall s, sts_with_sections_end_alignment s (sts_sections_end_alignment s) = s.
Proof. intros s. destruct s. reflexivity. Qed.

Lemma ss_with_wildcard_sections_get : forall s v, ss_wildcard_sections (ss_with_wildcard_sections s v) = v.
Proof. intros s v. reflexivity. Qed.

Lemma ss_with_wildcard_sections_same : forall s, ss_with_wildcard_sections s (ss_wildcard_sections s) = s.
Proof. intros s. destruct s. reflexivity. Qed.

Lemma sts_with_wildcard_sections_get : forall s v, sts_wildcard_sections (sts_with_wildcard_sections s v) = v.
Proof. intros s v. reflexivity. Qed.

Lemma sts_with_wildcard_sections_same : forall s, sts_with_wildcard_sections s (sts_wildcard_sections s) = s.
Proof. intros s. destruct s. reflexivity. Qed.

Lemma ss_with_fill_value_get : forall s v, ss_fill_value (ss_with_fill_value s v) = v.
Proof. intros s v. reflexivity. Qed.

Lemma ss_with_fill_value_same : forall s, ss_with_fill_value s (ss_fill_value s) = s.
Proof. intros s. destruct s. reflexivity. Qed.

Lemma sts_with_fill_value_get : forall s v, sts_fill_value (sts_with_fill_value s v) = v.
Proof. intros s v. reflexivity. Qed.

Lemma sts_with_fill_value_same : forall s, sts_with_fill_value s (sts_fill_value s) = s.
Proof. intros s. destruct s. reflexivity. Qed.

Lemma ss_with_sections_subgroups_get : forall s v, ss_sections_subgroups (ss_with_sections_subgroups s v) = v.
Proof. intros s v. reflexivity. Qed.

Lemma ss_with_sections_subgroups_same : forall s, ss_with_sections_subgroups s (ss_sections_subgroups s) = s.
Proof. intros s. destruct s. reflexivity. Qed.

Lemma sts_with_sections_subgroups_get : forall s v, sts_sections_subgroups (sts_with_sections_subgroups s v) = v.
Proof. intros s v. reflexivity. Qed.

Lemma sts_with_sections_subgroups_same : forall s, sts_with_sections_subgroups s (sts_sections_subgroups s) = s.
Proof. intros s. destruct s. reflexivity. Qed.

(* ---------- (d) restating the effective value changes nothing ---------- *)

Lemma restate_segment_inherited_alloc_sections : forall st s, ss_alloc_sections s = Absent ->
  parse_segment st (ss_with_alloc_sections s (explicit_plain (st_alloc_sections st))) = parse_segment st s.
Proof. intros st s E. destruct s. cbn in E. subst. unfold parse_segment, ss_with_alloc_sections. proj_goal.
  rewrite gnn_explicit. reflexivity. Qed.

Lemma restate_segment_alloc_sections : forall st s seg, parse_segment st s = Ok seg -> ss_alloc_sections s = Absent ->
  parse_segment st (ss_with_alloc_sections s (explicit_plain (alloc_sections seg))) = Ok seg.
Proof. intros st s seg H E. pose proof (segment_alloc_sections _ _ _ H) as F. rewrite E in F. cbn in F. injection F as F.
  rewrite F, restate_segment_inherited_alloc_sections by assumption. assumption. Qed.

Lemma restate_segment_inherited_noload_sections : forall st s, ss_noload_sections s = Absent ->
  parse_segment st (ss_with_noload_sections s (explicit_plain (st_noload_sections st))) = parse_segment st s.
Proof. intros st s E. destruct s. cbn in E. subst. unfold parse_segment, ss_with_noload_sections. proj_goal.
  rewrite gnn_explicit. reflexivity. Qed.

Lemma restate_segment_noload_sections : forall st s seg, parse_segment st s = Ok seg -> ss_noload_sections s = Absent ->
  parse_segment st (ss_with_noload_sections s (explicit_plain (noload_sections seg))) = Ok seg.
Proof. intros st s seg H E. pose proof (segment_noload_sections _ _ _ H) as F. rewrite E in F. cbn in F. injection F as F.
  rewrite F, restate_segment_inherited_noload_sections by assumption. assumption. Qed.

Lemma restate_segment_inherited_subalign : forall st s, ss_subalign s = Absent ->
  parse_segment st (ss_with_subalign s (explicit_nullable (st_subalign st))) = parse_segment st s.
Proof. intros st s E. destruct s. cbn in E. subst. unfold parse_segment, ss_with_subalign. proj_goal.
  rewrite gon_explicit. reflexivity. Qed.

Lemma restate_segment_subalign : forall st s seg, parse_segment st s = Ok seg -> ss_subalign s = Absent ->
  parse_segment st (ss_with_subalign s (explicit_nullable (subalign seg))) = Ok seg.
Proof. intros st s seg H E. pose proof (segment_subalign _ _ _ H) as F. rewrite E in F. cbn in F.
  rewrite F, restate_segment_inherited_subalign by assumption. assumption. Qed.

Lemma restate_segment_inherited_segment_start_align : forall st s, ss_segment_start_align s = Absent ->
  parse_segment st (ss_with_segment_start_align s (explicit_nullable (st_segment_start_align st))) = parse_segment st s.
Proof. intros st s E. destruct s. cbn in E. subst. unfold parse_segment, ss_with_segment_start_align. proj_goal.
  rewrite gon_explicit. reflexivity. Qed.

Lemma restate_segment_segment_start_align : forall st s seg, parse_segment st s = Ok seg -> ss_segment_start_align s = Absent ->
  parse_segment st (ss_with_segment_start_align s (explicit_nullable (segment_start_align seg))) = Ok seg.
Proof. intros st s seg H E. pose proof (segment_segment_start_align _ _ _ H) as F. rewrite E in F. cbn in F.
  rewrite F, restate_segment_inherited_segment_start_align by assumption. assumption. Qed.

Lemma restate_segment_inherited_segment_end_align : forall st s, ss_segment_end_align s = Absent ->
  parse_segment st (ss_with_segment_end_align s (explicit_nullable (st_segment_end_align st))) = parse_segment st s.
Proof. intros st s E. destruct s. cbn in E. subst. unfold parse_segment, ss_with_segment_end_align. proj_goal.
  rewrite gon_explicit. reflexivity. Qed.

Lemma restate_segment_segment_end_align : forall st s seg, parse_segment st s = Ok seg -> ss_segment_end_align s = Absent ->
  parse_segment st (ss_with_segment_end_align s (explicit_nullable (segment_end_align seg))) = Ok seg.
Proof. intros st s seg H E. pose proof (segment_segment_end_align _ _ _ H) as F. rewrite E in F. cbn in F.
  rewrite F, restate_segment_inherited_segment_end_align by assumption. assumption. Qed.

Lemma restate_segment_inherited_section_start_align : forall st s, ss_section_start_align s = Absent ->
  parse_segment st (ss_with_section_start_align s (explicit_nullable (st_section_start_align st))) = parse_segment st s.
Proof. intros st s E. destruct s. cbn in E. subst. unfold parse_segment, ss_with_section_start_align. proj_goal.
  rewrite gon_explicit. reflexivity. Qed.

Lemma restate_segment_section_start_align : forall st s seg, parse_segment st s = Ok seg -> ss_section_start_align s = Absent ->
  parse_segment st (ss_with_section_start_align s (explicit_nullable (section_start_align seg))) = Ok seg.
Proof. intros st s seg H E. pose proof (segment_section_start_align _ _ _ H) as F. rewrite E in F. cbn in F.
  rewrite F, restate_segment_inherited_section_start_align by assumption. assumption. Qed.

Lemma restate_segment_inherited_section_end_align : forall st s, ss_section_end_align s = Absent ->
  parse_segment st (ss_with_section_end_align s (explicit_nullable (st_section_end_align st))) = parse_segment st s.
Proof. intros st s E. destruct s. cbn in E. subst. unfold parse_segment, ss_with_section_end_align. proj_goal.
  rewrite gon_explicit. reflexivity. Qed.

Lemma restate_segment_section_end_align : forall st s seg, parse_segment st s = Ok seg -> ss_section_end_align s = Absent ->
  parse_segment st (ss_with_section_end_align s (explicit_nullable (section_end_align seg))) = Ok seg.
Proof. intros st s seg H E. pose proof (segment_section_end_align _ _ _ H) as F. rewrite E in F. cbn in F.
  rewrite F, restate_segment_inherited_section_end_align by assumption. assumption. Qed.

Lemma restate_segment_inherited_sections_start_alignment : forall st s, ss_sections_start_alignment s = Absent ->
  parse_segment st (ss_with_sections_start_alignment s (explicit_plain (st_sections_start_alignment st))) = parse_segment st s.
Proof. intros st s E. destruct s. cbn in E. subst. unfold parse_segment, ss_with_sections_start_alignment. proj_goal.
  rewrite gnn_explicit. reflexivity. Qed.

Lemma restate_segment_sections_start_alignment : forall st s seg, parse_segment st s = Ok seg -> ss_sections_start_alignment s = Absent ->
  parse_segment st (ss_with_sections_start_alignment s (explicit_plain (sections_start_alignment seg))) = Ok seg.
Proof. intros st s seg H E. pose proof (segment_sections_start_alignment _ _ _ H) as F. rewrite E in F. cbn in F. injection F as F.
  rewrite F, restate_segment_inherited_sections_start_alignment by assumption. assumption. Qed.

Lemma restate_segment_inherited_sections_end_alignment : forall st s, ss_sections_end_alignment s = Absent ->
  parse_segment st (ss_with_sections_end_alignment s (explicit_plain (st_sections_end_alignment st))) = parse_segment st s.
Proof. intros st s E. destruct s. cbn in E. subst. unfold parse_segment, ss_with_sections_end_alignment. proj_goal.
  rewrite gnn_explicit. reflexivity. Qed.

Lemma restate_segment_sections_end_alignment : forall st s seg, parse_segment st s = Ok seg -> ss_sections_end_alignment s = Absent ->
  parse_segment st (ss_with_sections_end_alignment s (explicit_plain (sections_end_alignment seg))) = Ok seg.
Proof. intros st s seg H E. pose proof (segment_sections_end_alignment _ _ _ H) as F. rewrite E in F. cbn in F. injection F as F.
  rewrite F, restate_segment_inherited_sections_end_alignment by assumption. assumption. Qed.

Lemma restate_segment_inherited_wildcard_sections : forall st s, ss_wildcard_sections s = Absent ->
  parse_segment st (ss_with_wildcard_sections s (explicit_plain (st_wildcard_sections st))) = parse_segment st s.
Proof. intros st s E. destruct s. cbn in E. subst. unfold parse_segment, ss_with_wildcard_sections. proj_goal.
  rewrite gnn_explicit. reflexivity. Qed.

Lemma restate_segment_wildcard_sections : forall st s seg, parse_segment st s = Ok seg -> ss_wildcard_sections s = Absent ->
  parse_segment st (ss_with_wildcard_sections s (explicit_plain (wildcard_sections seg))) = Ok seg.
Proof. intros st s seg H E. pose proof (segment_wildcard_sections _ _ _ H) as F. rewrite E in F. cbn in F. injection F as F.
  rewrite F, restate_segment_inherited_wildcard_sections by assumption. assumption. Qed.

Lemma restate_segment_inherited_fill_value : forall st s, ss_fill_value s = Absent ->
  parse_segment st (ss_with_fill_value s (explicit_nullable (st_fill_value st))) = parse_segment st s.
Proof. intros st s E. destruct s. cbn in E. subst. unfold parse_segment, ss_with_fill_value. proj_goal.
  rewrite gon_explicit. reflexivity. Qed.

Lemma restate_segment_fill_value : forall st s seg, parse_segment st s = Ok seg -> ss_fill_value s = Absent ->
  parse_segment st (ss_with_fill_value s (explicit_nullable (fill_value seg))) = Ok seg.
Proof. intros st s seg H E. pose proof (segment_fill_value _ _ _ H) as F. rewrite E in F. cbn in F.
  rewrite F, restate_segment_inherited_fill_value by assumption. assumption. Qed.

Lemma restate_segment_inherited_sections_subgroups : forall st s, ss_sections_subgroups s = Absent ->
  parse_segment st (ss_with_sections_subgroups s (explicit_plain (st_sections_subgroups st))) = parse_segment st s.
Proof. intros st s E. destruct s. cbn in E. subst. unfold parse_segment, ss_with_sections_subgroups. proj_goal.
  rewrite gnn_explicit. reflexivity. Qed.

Lemma restate_segment_sections_subgroups : forall st s seg, parse_segment st s = Ok seg -> ss_sections_subgroups s = Absent ->
  parse_segment st (ss_with_sections_subgroups s (explicit_plain (sections_subgroups seg))) = Ok seg.
Proof. intros st s seg H E. pose proof (segment_sections_subgroups _ _ _ H) as F. rewrite E in F. cbn in F. injection F as F.
  rewrite F, restate_segment_inherited_sections_subgroups by assumption. assumption. Qed.

Lemma restate_global_alloc_sections : forall s, sts_alloc_sections s = Absent ->
  parse_settings (sts_with_alloc_sections s (explicit_plain doc_default_alloc_sections)) = parse_settings s.
Proof. intros s E. destruct s. cbn in E. subst. unfold parse_settings, sts_with_alloc_sections. proj_goal.
  change doc_default_alloc_sections with settings_default_alloc_sections. rewrite gnn_explicit. reflexivity. Qed.

Lemma restate_global_noload_sections : forall s, sts_noload_sections s = Absent ->
  parse_settings (sts_with_noload_sections s (explicit_plain doc_default_noload_sections)) = parse_settings s.
Proof. intros s E. destruct s. cbn in E. subst. unfold parse_settings, sts_with_noload_sections. proj_goal.
  change doc_default_noload_sections with settings_default_noload_sections. rewrite gnn_explicit. reflexivity. Qed.

Lemma restate_global_subalign : forall s, sts_subalign s = Absent ->
  parse_settings (sts_with_subalign s (explicit_nullable doc_default_subalign)) = parse_settings s.
Proof. intros s E. destruct s. cbn in E. subst. unfold parse_settings, sts_with_subalign. proj_goal.
  change doc_default_subalign with settings_default_subalign. rewrite gon_explicit. reflexivity. Qed.

Lemma restate_global_segment_start_align : forall s, sts_segment_start_align s = Absent ->
  parse_settings (sts_with_segment_start_align s (explicit_nullable doc_default_segment_start_align)) = parse_settings s.
Proof. intros s E. destruct s. cbn in E. subst. unfold parse_settings, sts_with_segment_start_align. proj_goal.
  change doc_default_segment_start_align with settings_default_segment_start_align. rewrite gon_explicit. reflexivity. Qed.

Lemma restate_global_segment_end_align : forall s, sts_segment_end_align s = Absent ->
  parse_settings (sts_with_segment_end_align s (explicit_nullable doc_default_segment_end_align)) = parse_settings s.
Proof. intros s E. destruct s. cbn in E. subst. unfold parse_settings, sts_with_segment_end_align. proj_goal.
  change doc_default_segment_end_align with settings_default_segment_end_align. rewrite gon_explicit. reflexivity. Qed.

Lemma restate_global_section_start_align : forall s, sts_section_start_align s = Absent ->
  parse_settings (sts_with_section_start_align s (explicit_nullable doc_default_section_start_align)) = parse_settings s.
Proof. intros s E. destruct s. cbn in E. subst. unfold parse_settings, sts_with_section_start_align. proj_goal.
  change doc_default_section_start_align with settings_default_section_start_align. rewrite gon_explicit. reflexivity. Qed.

Lemma restate_global_section_end_align : forall s, sts_section_end_align s = Absent ->
  parse_settings (sts_with_section_end_align s (explicit_nullable doc_default_section_end_align)) = parse_settings s.
Proof. intros s E. destruct s. cbn in E. subst. unfold parse_settings, sts_with_section_end_align. proj_goal.
  change doc_default_section_end_align with settings_default_section_end_align. rewrite gon_explicit. reflexivity. Qed.

Lemma restate_global_sections_start_alignment : forall s, sts_sections_start_alignment s = Absent ->
  parse_settings (sts_with_sections_start_alignment s (explicit_plain doc_default_sections_start_alignment)) = parse_settings s.
Proof. intros s E. destruct s. cbn in E. subst. unfold parse_settings, sts_with_sections_start_alignment. proj_goal.
  change doc_default_sections_start_alignment with settings_default_sections_start_alignment. rewrite gnn_explicit. reflexivity. Qed.

Lemma restate_global_sections_end_alignment : forall s, sts_sections_end_alignment s = Absent ->
  parse_settings (sts_with_sections_end_alignment s (explicit_plain doc_default_sections_end_alignment)) = parse_settings s.
Proof. intros s E. destruct s. cbn in E. subst. unfold parse_settings, sts_with_sections_end_alignment. proj_goal.
  change doc_default_sections_end_alignment with settings_default_sections_end_alignment. rewrite gnn_explicit. reflexivity. Qed.

Lemma restate_global_wildcard_sections : forall s, sts_wildcard_sections s = Absent ->
  parse_settings (sts_with_wildcard_sections s (explicit_plain doc_default_wildcard_sections)) = parse_settings s.
Proof. intros s E. destruct s. cbn in E. subst. unfold parse_settings, sts_with_wildcard_sections. proj_goal.
  change doc_default_wildcard_sections with settings_default_wildcard_sections. rewrite gnn_explicit. reflexivity. Qed.

Lemma restate_global_fill_value : forall s, sts_fill_value s = Absent ->
  parse_settings (sts_with_fill_value s (explicit_nullable doc_default_fill_value)) = parse_settings s.
Proof. intros s E. destruct s. cbn in E. subst. unfold parse_settings, sts_with_fill_value. proj_goal.
  change doc_default_fill_value with settings_default_fill_value. rewrite gon_explicit. reflexivity. Qed.

Lemma restate_global_sections_subgroups : forall s, sts_sections_subgroups s = Absent ->
  parse_settings (sts_with_sections_subgroups s (explicit_plain doc_default_sections_subgroups)) = parse_settings s.
Proof. intros s E. destruct s. cbn in E. subst. unfold parse_settings, sts_with_sections_subgroups. proj_goal.
  change doc_default_sections_subgroups with settings_default_subsections_groups. rewrite gnn_explicit. reflexivity. Qed.

(* ---------- (e) a segment that gives the option is shielded from the global value ---------- *)

Lemma shielding_alloc_sections : forall st st' s seg seg', given (ss_alloc_sections s) ->
  parse_segment st s = Ok seg -> parse_segment st' s = Ok seg' -> alloc_sections seg = alloc_sections seg'.
Proof. intros st st' s seg seg' G H H'. apply segment_alloc_sections in H, H'.
  assert (Some (alloc_sections seg) = Some (alloc_sections seg')) as F.
  { rewrite H, H'. destruct (ss_alloc_sections s); [exfalso; apply G; reflexivity | reflexivity | reflexivity]. }
  injection F as F. exact F. Qed.

Lemma shielding_whole_alloc_sections : forall st v s, given (ss_alloc_sections s) ->
  parse_segment (st_with_alloc_sections st v) s = parse_segment st s.
Proof. intros st v s G. destruct s. unfold given in G. cbn in G. unfold parse_segment, st_with_alloc_sections. proj_goal.
  destruct ss_alloc_sections; [exfalso; apply G; reflexivity | reflexivity | reflexivity]. Qed.

Lemma shielding_noload_sections : forall st st' s seg seg', given (ss_noload_sections s) ->
  parse_segment st s = Ok seg -> parse_segment st' s = Ok seg' -> noload_sections seg = noload_sections seg'.
Proof. intros st st' s seg seg' G H H'. apply segment_noload_sections in H, H'.
  assert (Some (noload_sections seg) = Some (noload_sections seg')) as F.
  { rewrite H, H'. destruct (ss_noload_sections s); [exfalso; apply G; reflexivity | reflexivity | reflexivity]. }
  injection F as F. exact F. Qed.

Lemma shielding_whole_noload_sections : forall st v s, given (ss_noload_sections s) ->
  parse_segment (st_with_noload_sections st v) s = parse_segment st s.
Proof. intros st v s G. destruct s. unfold given in G. cbn in G. unfold parse_segment, st_with_noload_sections. proj_goal.
  destruct ss_noload_sections; [exfalso; apply G; reflexivity | reflexivity | reflexivity]. Qed.

Lemma shielding_subalign : forall st st' s seg seg', given (ss_subalign s) ->
  parse_segment st s = Ok seg -> parse_segment st' s = Ok seg' -> subalign seg = subalign seg'.
Proof. intros st st' s seg seg' G H H'. apply segment_subalign in H, H'. rewrite H, H'.
  destruct (ss_subalign s); [exfalso; apply G; reflexivity | reflexivity | reflexivity]. Qed.

Lemma shielding_whole_subalign : forall st v s, given (ss_subalign s) ->
  parse_segment (st_with_subalign st v) s = parse_segment st s.
Proof. intros st v s G. destruct s. unfold given in G. cbn in G. unfold parse_segment, st_with_subalign. proj_goal.
  destruct ss_subalign; [exfalso; apply G; reflexivity | reflexivity | reflexivity]. Qed.

Lemma shielding_segment_start_align : forall st st' s seg seg', given (ss_segment_start_align s) ->
  parse_segment st s = Ok seg -> parse_segment st' s = Ok seg' -> segment_start_align seg = segment_start_align seg'.
Proof. intros st st' s seg seg' G H H'. apply segment_segment_start_align in H, H'. rewrite H, H'.
  destruct (ss_segment_start_align s); [exfalso; apply G; reflexivity | reflexivity | reflexivity]. Qed.

Lemma shielding_whole_segment_start_align : forall st v s, given (ss_segment_start_align s) ->
  parse_segment (st_with_segment_start_align st v) s = parse_segment st s.
Proof. intros st v s G. destruct s. unfold given in G. cbn in G. unfold parse_segment, st_with_segment_start_align. proj_goal.
  destruct ss_segment_start_align; [exfalso; apply G; reflexivity | reflexivity | reflexivity]. Qed.

Lemma shielding_segment_end_align : forall st st' s seg seg', given (ss_segment_end_align s) ->
  parse_segment st s = Ok seg -> parse_segment st' s = Ok seg' -> segment_end_align seg = segment_end_align seg'.
Proof. intros st st' s seg seg' G H H'. apply segment_segment_end_align in H, H'. rewrite H, H'.
  destruct (ss_segment_end_align s); [exfalso; apply G; reflexivity | reflexivity | reflexivity]. Qed.

Lemma shielding_whole_segment_end_align : forall st v s, given (ss_segment_end_align s) ->
  parse_segment (st_with_segment_end_align st v) s = parse_segment st s.
Proof. intros st v s G. destruct s. unfold given in G. cbn in G. unfold parse_segment, st_with_segment_end_align. proj_goal.
  destruct ss_segment_end_align; [exfalso; apply G; reflexivity | reflexivity | reflexivity]. Qed.

Lemma shielding_section_start_align : forall st st' s seg seg', given (ss_section_start_align s) ->
  parse_segment st s = Ok seg -> parse_segment st' s = Ok seg' -> section_start_align seg = section_start_align seg'.
Proof. intros st st' s seg seg' G H H'. apply segment_section_start_align in H, H'. rewrite H, H'.
  destruct (ss_section_start_align s); [exfalso; apply G; reflexivity | reflexivity | reflexivity]. Qed.

Lemma shielding_whole_section_start_align : forall st v s, given (ss_section_start_align s) ->
  parse_segment (st_with_section_start_align st v) s = parse_segment st s.
Proof. intros st v s G. destruct s. unfold given in G. cbn in G. unfold parse_segment, st_with_section_start_align. proj_goal.
  destruct ss_section_start_align; [exfalso; apply G; reflexivity | reflexivity | reflexivity]. Qed.

Lemma shielding_section_end_align : forall st st' s seg seg', given (ss_section_end_align s) ->
  parse_segment st s = Ok seg -> parse_segment st' s = Ok seg' -> section_end_align seg = section_end_align seg'.
Proof. intros st st' s seg seg' G H H'. apply segment_section_end_align in H, H'. rewrite H, H'.
  destruct (ss_section_end_align s); [exfalso; apply G; reflexivity | reflexivity | reflexivity]. Qed.

Lemma shielding_whole_section_end_align : forall st v s, given (ss_section_end_align s) ->
  parse_segment (st_with_section_end_align st v) s = parse_segment st s.
Proof. intros st v s G. destruct s. unfold given in G. cbn in G. unfold parse_segment, st_with_section_end_align. proj_goal.
  destruct ss_section_end_align; [exfalso; apply G; reflexivity | reflexivity | reflexivity]. Qed.

Lemma shielding_sections_start_alignment : forall st st' s seg seg', given (ss_sections_start_alignment s) ->
  parse_segment st s = Ok seg -> parse_segment st' s = Ok seg' -> sections_start_alignment seg = sections_start_alignment seg'.
Proof. intros st st' s seg seg' G H H'. apply segment_sections_start_alignment in H, H'.
  assert (Some (sections_start_alignment seg) = Some (sections_start_alignment seg')) as F.
  { rewrite H, H'. destruct (ss_sections_start_alignment s); [exfalso; apply G; reflexivity | reflexivity | reflexivity]. }
  injection F as F. exact F. Qed.

Lemma shielding_whole_sections_start_alignment : forall st v s, given (ss_sections_start_alignment s) ->
  parse_segment (st_with_sections_start_alignment st v) s = parse_segment st s.
Proof. intros st v s G. destruct s. unfold given in G. cbn in G. unfold parse_segment, st_with_sections_start_alignment. proj_goal.
  destruct ss_sections_start_alignment; [exfalso; apply G; reflexivity | reflexivity | reflexivity]. Qed.

Lemma shielding_sections_end_alignment : forall st st' s seg seg', given (ss_sections_end_alignment s) ->
  parse_segment st s = Ok seg -> parse_segment st' s = Ok seg' -> sections_end_alignment seg = sections_end_alignment seg'.
Proof. intros st st' s seg seg' G H H'. apply segment_sections_end_alignment in H, H'.
  assert (Some (sections_end_alignment seg) = Some (sections_end_alignment seg')) as F.
  { rewrite H, H'. destruct (ss_sections_end_alignment s); [exfalso; apply G; reflexivity | reflexivity | reflexivity]. }
  injection F as F. exact F. Qed.

Lemma shielding_whole_sections_end_alignment : forall st v s, given (ss_sections_end_alignment s) ->
  parse_segment (st_with_sections_end_alignment st v) s = parse_segment st s.
Proof. intros st v s G. destruct s. unfold given in G. cbn in G. unfold parse_segment, st_with_sections_end_alignment. proj_goal.
  destruct ss_sections_end_alignment; [exfalso; apply G; reflexivity | reflexivity | reflexivity]. Qed.

Lemma shielding_wildcard_sections : forall st st' s seg seg', given (ss_wildcard_sections s) ->
  parse_segment st s = Ok seg -> parse_segment st' s = Ok seg' -> wildcard_sections seg = wildcard_sections seg'.
Proof. intros st st' s seg seg' G H H'. apply segment_wildcard_sections in H, H'.
  assert (Some (wildcard_sections seg) = Some (wildcard_sections seg')) as F.
  { rewrite H, H'. destruct (ss_wildcard_sections s); [exfalso; apply G; reflexivity | reflexivity | reflexivity]. }
  injection F as F. exact F. Qed.

Lemma shielding_whole_wildcard_sections : forall st v s, given (ss_wildcard_sections s) ->
  parse_segment (st_with_wildcard_sections st v) s = parse_segment st s.
Proof. intros st v s G. destruct s. unfold given in G. cbn in G. unfold parse_segment, st_with_wildcard_sections. proj_goal.
  destruct ss_wildcard_sections; [exfalso; apply G; reflexivity | reflexivity | reflexivity]. Qed.

Lemma shielding_fill_value : forall st st' s seg seg', given (ss_fill_value s) ->
  parse_segment st s = Ok seg -> parse_segment st' s = Ok seg' -> fill_value seg = fill_value seg'.
Proof. intros st st' s seg seg' G H H'. apply segment_fill_value in H, H'. rewrite H, H'.
  destruct (ss_fill_value s); [exfalso; apply G; reflexivity | reflexivity | reflexivity]. Qed.

Lemma shielding_whole_fill_value : forall st v s, given (ss_fill_value s) ->
  parse_segment (st_with_fill_value st v) s = parse_segment st s.
Proof. intros st v s G. destruct s. unfold given in G. cbn in G. unfold parse_segment, st_with_fill_value. proj_goal.
  destruct ss_fill_value; [exfalso; apply G; reflexivity | reflexivity | reflexivity]. Qed.

Lemma shielding_sections_subgroups : forall st st' s seg seg', given (ss_sections_subgroups s) ->
  parse_segment st s = Ok seg -> parse_segment st' s = Ok seg' -> sections_subgroups seg = sections_subgroups seg'.
Proof. intros st st' s seg seg' G H H'. apply segment_sections_subgroups in H, H'.
  assert (Some (sections_subgroups seg) = Some (sections_subgroups seg')) as F.
  { rewrite H, H'. destruct (ss_sections_subgroups s); [exfalso; apply G; reflexivity | reflexivity | reflexivity]. }
  injection F as F. exact F. Qed.

Lemma shielding_whole_sections_subgroups : forall st v s, given (ss_sections_subgroups s) ->
  parse_segment (st_with_sections_subgroups st v) s = parse_segment st s.
Proof. intros st v s G. destruct s. unfold given in G. cbn in G. unfold parse_segment, st_with_sections_subgroups. proj_goal.
  destruct ss_sections_subgroups; [exfalso; apply G; reflexivity | reflexivity | reflexivity]. Qed.

(* ---------- example inputs (used by the Examples of Properties/C08.v) ---------- *)

Definition c08_ex_no_conds : conds_serial := mkCondsSerial Absent Absent Absent Absent.
Definition c08_ex_file : file_serial :=
  FileSerial [] (Value "src/main.o") Absent Absent Absent Absent Absent Absent Absent Absent c08_ex_no_conds SKAbsent.

(* settings: alloc_sections: [.text, .data] / subalign: 16 / fill_value: null / everything else omitted *)
Definition c08_ex_settings : settings_serial :=
  sts_with_subalign
    (sts_with_fill_value (sts_with_alloc_sections all_absent_settings (Value [".text"; ".data"])) Null)
    (Value 16%N).
Definition c08_ex_st : settings := st_with_subalign (st_with_fill_value
  (st_with_alloc_sections doc_default_settings [".text"; ".data"]) None) (Some 16%N).

(* a segment that disables subalign (null), sets wildcard_sections and section_end_align, omits the rest *)
Definition c08_ex_segment : segment_serial :=
  SegmentSerial [] (Value "boot") (Some [c08_ex_file]) (Value 2147484672%N) Absent Absent Absent Absent Absent c08_ex_no_conds
    Absent Absent Null Absent Absent Absent (Value 8%N) Absent Absent (Value false) Absent Absent SKAbsent.
