(* C18Doc: the link-level half of C18 over a whole generated document.  The generated script is
   "version; SECTIONS { pre; tail of SECTIONS }; tail" (tail_last_normal); the work is what LdSem does
   with the tail of SECTIONS - class sizes, allow-list entries, discard block - from the state the
   segments' statements leave, and that the statements after SECTIONS move no input section. *)
From Slinky Require Import Model.Types Model.Generated Model.Runtime Model.Style Model.Script Model.Writer Model.LdSem.
From Slinky Require Import Spec.C17 Spec.C18 Spec.C04 Spec.C12 Spec.DocLevel Spec.C01Doc Spec.C17Doc.
From Slinky Require Import Proofs.C06 Proofs.C18 Proofs.C17 Proofs.LdLemmas Proofs.C04 Proofs.C18Link Proofs.DocLevel
                           Proofs.C01Doc.
From Coq Require Import Lia ZArith Permutation.
Local Open Scope Z_scope.

(* ====================================================================== *)
(* 1. the split of the script                                              *)
(* ====================================================================== *)

Lemma split_exists d rt w : gen_normal d rt = Ok w -> exists pre ws, SplitAtTail d rt w pre ws.
Proof.
  intro H. destruct (tail_last_normal d rt w H) as [body [Ew [pre [ws [Eb Hp]]]]]. subst body.
  exists pre, ws. split; assumption.
Qed.

Lemma split_multi d rt w :
  gen_normal d rt = Ok w -> single_segment_mode (doc_settings d) = false ->
  SplitAtTail d rt w (multi_pre d rt) (multi_ws d rt).
Proof.
  intros H Hm. apply gen_normal_inv in H. destruct H as [s [ws' [E Hw]]].
  apply add_all_segments_inv in E. destruct E as [[Hs _] | [_ [body [E Es]]]]; [congruence|].
  unfold multi_pre, multi_ws. rewrite E. subst s w. cbn [wo_script]. split.
  - rewrite <- app_assoc. reflexivity.
  - apply Forall_app; split; [apply nt_begin | eapply nt_fold_add_segment; eassumption].
Qed.

(* ====================================================================== *)
(* 2. small list facts                                                     *)
(* ====================================================================== *)

Lemma markers_in_l pls (l : list usec) p :
  map pl_marker pls = map u_marker l -> In p pls -> exists x, In x l /\ u_marker x = pl_marker p.
Proof.
  intros M Hp. apply (in_map pl_marker) in Hp. rewrite M in Hp. apply in_map_iff in Hp.
  destruct Hp as [x [E Hx]]. exists x. split; assumption.
Qed.

Lemma markers_in_r pls (l : list usec) x :
  map pl_marker pls = map u_marker l -> In x l -> exists p, In p pls /\ pl_marker p = u_marker x.
Proof.
  intros M Hx. apply (in_map u_marker) in Hx. rewrite <- M in Hx. apply in_map_iff in Hx.
  destruct Hx as [p [E Hp]]. exists p. split; assumption.
Qed.

Lemma existsb_mem_str n pats : existsb (fun p => String.eqb p n) pats = mem_str n pats.
Proof.
  induction pats as [|p r IH]; [reflexivity|]. cbn [existsb mem_str]. rewrite IH, (String.eqb_sym p n).
  destruct (String.eqb n p); reflexivity.
Qed.

Lemma hit_discard_hits stg x :
  hit (sections_denylist stg) (discard_wildcard_section stg) x = discard_hits stg x.
Proof. unfold hit, discard_hits. rewrite existsb_mem_str. reflexivity. Qed.

Lemma run_strip env senv ext final l : forall st,
  run env senv ext final (strip_blank l) st = run env senv ext final l st.
Proof.
  induction l as [|s l IH]; intro st; [reflexivity|].
  destruct s; cbn [strip_blank filter is_blank negb]; rewrite !run_cons; apply IH.
Qed.

(* ====================================================================== *)
(* 3. LdSem: which statements move input sections                          *)
(* ====================================================================== *)

(* a statement that leaves every input section where it is *)
Definition still (s : stmt) : bool :=
  match s with
  | SOutSec _ _ _ _ _ _ | SSingleEntry _ | SDiscard _ _ => false
  | _ => true
  end.

Lemma TailOutcome_ext stg a b b' :
  l_placed b' = l_placed b -> l_remaining b' = l_remaining b -> l_discarded b' = l_discarded b ->
  TailOutcome stg a b -> TailOutcome stg a b'.
Proof. intros E1 E2 E3 H. unfold TailOutcome in *. rewrite E1, E2, E3. exact H. Qed.

Section Tail.
  Variables (env : list (string * Z)) (senv : list osec) (ext : list (string * Z)) (final : bool).
  Notation top := (exec_top_stmt env senv ext final).
  Notation runl := (run env senv ext final).
  Notation secs vma sub name := (exec_sec_stmt env senv ext final vma sub name).

  Lemma top_still st s :
    still s = true ->
    l_placed (top st s) = l_placed st /\ l_remaining (top st s) = l_remaining st /\
    l_discarded (top st s) = l_discarded st.
  Proof.
    intro H. destruct s; try discriminate H; try (repeat split; reflexivity); cbn [exec_top_stmt].
    - destruct (String.eqb sym ".").
      + destruct (eval_expr env senv ext st (l_dot st) e); repeat split; reflexivity.
      + rewrite assign_placed, assign_remaining, assign_discarded. repeat split; reflexivity.
    - destruct (String.eqb sym "."); [repeat split; reflexivity|].
      destruct (sym_lookup sym st env ext); repeat split; reflexivity.
    - destruct (sym_lookup sym st env ext); [destruct (sym_lookup other st env ext)|];
        try (destruct final; repeat split; reflexivity); repeat split; reflexivity.
    - destruct (sym_lookup "__romPos" st env ext); [destruct (sec_lookup sec st senv)|];
        try (destruct final; repeat split; reflexivity); repeat split; reflexivity.
    - destruct (eval_raw env ext st cond) as [v|e]; [destruct (v =? 0); repeat split; reflexivity|].
      destruct e; destruct final; repeat split; reflexivity.
  Qed.

  Lemma run_still l : forall st,
    forallb still l = true ->
    l_placed (runl l st) = l_placed st /\ l_remaining (runl l st) = l_remaining st /\
    l_discarded (runl l st) = l_discarded st.
  Proof.
    induction l as [|s l IH]; intros st H; [repeat split; reflexivity|].
    cbn [forallb] in H. apply andb_true_iff in H. destruct H as [H1 H2]. rewrite run_cons.
    destruct (IH (top st s) H2) as [A [B C]]. destruct (top_still st s H1) as [A' [B' C']].
    rewrite A, B, C. repeat split; assumption.
  Qed.

  (* ---------- nothing is discarded before the tail ---------- *)

  Lemma top_no_discard st s : no_tail_stmt s -> l_discarded (top st s) = l_discarded st.
  Proof.
    intro H. destruct (still s) eqn:Es; [apply (top_still st s Es)|].
    destruct s; try discriminate Es; try discriminate H. cbn [exec_top_stmt].
    destruct (outsec_vma env senv ext addr sub body st) as [vma|e] eqn:E.
    - destruct (exec_outsec_ok env senv ext final name addr at_ noload sub body st vma E)
        as [_ [_ [_ [_ [_ [_ [Hd _]]]]]]]. rewrite Hd.
      destruct (sec_fold_accounted env senv ext final vma (option_map Z.of_N sub) name body (SState 0 false st))
        as [_ [_ D]]. exact D.
    - rewrite (exec_outsec_err _ _ _ _ _ _ _ _ _ _ _ _ E). reflexivity.
  Qed.

  Lemma run_no_discard l : forall st, Forall no_tail_stmt l -> l_discarded (runl l st) = l_discarded st.
  Proof.
    induction l as [|s l IH]; intros st H; [reflexivity|]. inversion H as [|? ? Hs Hl]; subst.
    rewrite run_cons, (IH _ Hl). apply top_no_discard. exact Hs.
  Qed.

  (* ---------- an input section whose file no statement names stays unplaced ---------- *)

  Lemma sel_other_path path member sect wild x :
    path <> u_path x -> sel false path member sect wild x = false.
  Proof.
    intro H. unfold sel, file_matches. apply String.eqb_neq in H.
    destruct member as [m|], (u_member x) as [um|]; rewrite ?H; reflexivity.
  Qed.

  Lemma sec_stmt_keeps vma sub name ss s x :
    In x (l_remaining (s_st ss)) -> ~ In (u_path x) (stmt_inputs s) ->
    In x (l_remaining (s_st (secs vma sub name ss s))).
  Proof.
    intros Hx Hp.
    destruct (sec_stmt_cases env senv ext final vma sub name ss s)
      as [[p [h [r [sym [e [Es E]]]]]] | [[k [path [member [sect [wild [off' [pls [c [Es [Ep E]]]]]]]]]] | [E _]]];
      rewrite E.
    - cbn [s_st]. rewrite assign_remaining. exact Hx.
    - cbn [s_st l_remaining]. apply filter_In. split; [exact Hx|].
      rewrite sel_other_path; [reflexivity|]. subst s. intro Ebad. apply Hp. left. exact Ebad.
    - exact Hx.
  Qed.

  Lemma sec_fold_keeps vma sub name body x : forall ss,
    In x (l_remaining (s_st ss)) -> ~ In (u_path x) (flat_map stmt_inputs body) ->
    In x (l_remaining (s_st (fold_left (secs vma sub name) body ss))).
  Proof.
    induction body as [|s body IH]; intros ss Hx Hp; [exact Hx|]. cbn [fold_left]. cbn [flat_map] in Hp.
    apply IH.
    - apply sec_stmt_keeps; [exact Hx|]. intro Hin. apply Hp. apply in_or_app. left. exact Hin.
    - intro Hin. apply Hp. apply in_or_app. right. exact Hin.
  Qed.

  Lemma top_keeps st s x :
    no_tail_stmt s -> In x (l_remaining st) -> ~ In (u_path x) (stmt_inputs s) -> In x (l_remaining (top st s)).
  Proof.
    intros H Hx Hp. destruct (still s) eqn:Es.
    { destruct (top_still st s Es) as [_ [E _]]. rewrite E. exact Hx. }
    destruct s; try discriminate Es; try discriminate H. cbn [exec_top_stmt].
    destruct (outsec_vma env senv ext addr sub body st) as [vma|e] eqn:E.
    - destruct (exec_outsec_ok env senv ext final name addr at_ noload sub body st vma E)
        as [_ [_ [_ [_ [_ [Hr _]]]]]]. rewrite Hr. unfold outsec_body.
      apply sec_fold_keeps; [exact Hx | exact Hp].
    - rewrite (exec_outsec_err _ _ _ _ _ _ _ _ _ _ _ _ E). exact Hx.
  Qed.

  Lemma run_keeps l x : forall st,
    Forall no_tail_stmt l -> In x (l_remaining st) -> ~ In (u_path x) (input_paths l) ->
    In x (l_remaining (runl l st)).
  Proof.
    induction l as [|s l IH]; intros st H Hx Hp; [exact Hx|]. inversion H as [|? ? Hs Hl]; subst.
    unfold input_paths in Hp. cbn [flat_map] in Hp. rewrite run_cons. apply IH; [exact Hl | |].
    - apply top_keeps; [exact Hs | exact Hx |]. intro Hin. apply Hp. apply in_or_app. left. exact Hin.
    - intro Hin. apply Hp. apply in_or_app. right. exact Hin.
  Qed.

  (* ---------- the allow-list entries ---------- *)

  Lemma run_allow names : forall st,
    let st1 := runl (map SSingleEntry names) st in
    l_remaining st1 = filter (fun x => negb (mem_str (u_name x) names)) (l_remaining st) /\
    l_discarded st1 = l_discarded st /\
    exists pls, l_placed st1 = (l_placed st ++ pls)%list /\
      Forall (fun p => exists x, In x (l_remaining st) /\ mem_str (u_name x) names = true /\ placed_by_name x p) pls /\
      (forall x, In x (l_remaining st) -> mem_str (u_name x) names = true ->
                 exists p, In p pls /\ placed_by_name x p).
  Proof.
    induction names as [|n r IH]; intro st; cbv zeta.
    - cbn [map mem_str negb]. rewrite run_nil, filter_true. split; [reflexivity|]. split; [reflexivity|].
      exists []. rewrite app_nil_r. split; [reflexivity|]. split; [constructor|]. intros x _ Hbad. discriminate Hbad.
    - cbn [map]. rewrite run_cons.
      destruct (allow_placed env senv ext final st n) as [Hr [[pa [Hp [M F]]] [_ [Hd _]]]].
      set (st_a := top st (SSingleEntry n)) in *.
      destruct (IH st_a) as [Hr2 [Hd2 [pr [Hp2 [F2 G2]]]]].
      split.
      { rewrite Hr2, Hr, filter_filter. apply filter_ext. intro x. cbn [mem_str]. unfold named.
        rewrite (String.eqb_sym n (u_name x)). destruct (String.eqb (u_name x) n); reflexivity. }
      split; [rewrite Hd2; exact Hd|].
      exists (pa ++ pr)%list. split; [rewrite Hp2, Hp, app_assoc; reflexivity|]. split.
      + apply Forall_app. split.
        * apply Forall_forall. intros p Hin. destruct (markers_in_l _ _ p M Hin) as [x [Hx Em]].
          apply filter_In in Hx. destruct Hx as [Hx Hn]. unfold named in Hn. apply String.eqb_eq in Hn.
          exists x. split; [exact Hx|]. split.
          { cbn [mem_str]. rewrite <- Hn, String.eqb_refl. reflexivity. }
          split; [symmetry; exact Em|]. rewrite Forall_forall in F. rewrite (F p Hin). exact Hn.
        * eapply Forall_impl; [|exact F2]. intros p [x [Hx [Hm Hp0]]]. exists x.
          rewrite Hr in Hx. apply filter_In in Hx. destruct Hx as [Hx _]. split; [exact Hx|]. split; [|exact Hp0].
          cbn [mem_str]. rewrite Hm. destruct (String.eqb (u_name x) n); reflexivity.
      + intros x Hx Hm. cbn [mem_str] in Hm. destruct (String.eqb (u_name x) n) eqn:E.
        * apply String.eqb_eq in E.
          assert (Hc : In x (filter (named n) (l_remaining st))).
          { apply filter_In. split; [exact Hx|]. unfold named. rewrite E. apply String.eqb_refl. }
          destruct (markers_in_r _ _ x M Hc) as [p [Hin Em]]. exists p.
          split; [apply in_or_app; left; exact Hin|]. split; [exact Em|].
          rewrite Forall_forall in F. rewrite (F p Hin). symmetry. exact E.
        * assert (Hx' : In x (l_remaining st_a)).
          { rewrite Hr. apply filter_In. split; [exact Hx|]. unfold named.
            rewrite (String.eqb_sym n (u_name x)), E. reflexivity. }
          destruct (G2 x Hx' Hm) as [p [Hin Hp0]]. exists p. split; [apply in_or_app; right; exact Hin | exact Hp0].
  Qed.

  (* ---------- the discard block ---------- *)

  Lemma run_tail_discard stg st :
    let st1 := runl (tail_discard stg) st in
    l_remaining st1 = filter (fun x => negb (discard_hits stg x)) (l_remaining st) /\
    l_discarded st1 = (l_discarded st ++ map u_marker (filter (discard_hits stg) (l_remaining st)))%list /\
    l_placed st1 = l_placed st.
  Proof.
    cbv zeta. unfold tail_discard.
    destruct (discard_wildcard_section stg || nonempty (sections_denylist stg))%bool eqn:W.
    - rewrite run_one.
      destruct (discard env senv ext final st (sections_denylist stg) (discard_wildcard_section stg))
        as [Hd [Hr [Hp _]]].
      rewrite Hd, Hr, Hp. split; [|split; [|reflexivity]].
      + apply filter_ext. intro x. rewrite hit_discard_hits. reflexivity.
      + f_equal. f_equal. apply filter_ext. intro x. apply hit_discard_hits.
    - apply orb_false_iff in W. destruct W as [W1 W2]. apply nonempty_false in W2.
      assert (Hno : forall x, discard_hits stg x = false).
      { intro x. unfold discard_hits. rewrite W1, W2. reflexivity. }
      rewrite run_nil. split; [|split; [|reflexivity]].
      + rewrite (filter_ext _ (fun _ => true)); [symmetry; apply filter_true|]. intro x. rewrite Hno. reflexivity.
      + rewrite (filter_ext _ (fun _ => false)) by exact Hno. rewrite filter_false_nil, app_nil_r. reflexivity.
  Qed.

  (* ---------- the whole tail of SECTIONS ---------- *)

  Lemma still_sizes stg classes ws : forallb still (tail_sizes stg classes ws) = true.
  Proof. unfold tail_sizes. apply forallb_forall. intros s Hs. apply in_map_iff in Hs. destruct Hs as [cn [E _]]. subst s. reflexivity. Qed.

  Lemma still_tail_stmts rt d : forallb still (tail_stmts rt d) = true.
  Proof.
    apply forallb_forall. intros s Hs.
    pose proof (nt_tail_stmts rt d) as Hnt. pose proof (makes_sec_tail rt d) as Hms.
    rewrite Forall_forall in Hnt. specialize (Hnt s Hs).
    destruct s; try reflexivity; try discriminate Hnt.
    exfalso. apply in_split in Hs. destruct Hs as [l1 [l2 E]]. rewrite E, flat_map_app in Hms.
    apply app_eq_nil in Hms. destruct Hms as [_ Hms]. discriminate Hms.
  Qed.

  Lemma run_end_sections stg classes ws st :
    TailOutcome stg st (runl (end_sections_body stg classes ws) st).
  Proof.
    rewrite <- run_strip, end_sections_strip.
    replace (tail_sizes stg classes ws ++ tail_allow stg ++ tail_extra stg ++ tail_discard stg)%list
      with (tail_sizes stg classes ws ++ map SSingleEntry (aux_section_names stg) ++ tail_discard stg)%list
      by (unfold tail_allow, tail_extra, aux_section_names; rewrite map_app, <- app_assoc; reflexivity).
    rewrite !run_app.
    destruct (run_still (tail_sizes stg classes ws) st (still_sizes stg classes ws)) as [A0 [B0 C0]].
    set (st0 := runl (tail_sizes stg classes ws) st) in *.
    destruct (run_allow (aux_section_names stg) st0) as [B1 [C1 [pls [A1 [F1 G1]]]]].
    set (st1 := runl (map SSingleEntry (aux_section_names stg)) st0) in *.
    destruct (run_tail_discard stg st1) as [B2 [C2 A2]].
    set (st2 := runl (tail_discard stg) st1) in *.
    unfold TailOutcome. cbv zeta. split; [|split].
    - rewrite B2, B1, B0, filter_filter. reflexivity.
    - rewrite C2, C1, C0, B1, B0, filter_filter. reflexivity.
    - exists pls. rewrite A2, A1, A0, <- B0. split; [reflexivity|]. split; [exact F1 | exact G1].
  Qed.

  (* C18_document_tail_outcome *)
  Theorem document_tail d rt w pre ws u :
    SplitAtTail d rt w pre ws ->
    let st_seg := runl pre (init_state u) in
    let st' := exec_script env senv ext final (wo_script w) (init_state u) in
    TailOutcome (doc_settings d) st_seg st' /\ l_discarded st_seg = [].
  Proof.
    intros [Ew Hp] st_seg st'. split.
    - unfold st'. rewrite Ew, exec_sections_script, run_app. fold st_seg.
      destruct (run_still (tail_stmts rt d) (runl (end_sections_body (doc_settings d) (doc_vram_classes d) ws) st_seg)
                          (still_tail_stmts rt d)) as [A [B C]].
      eapply TailOutcome_ext; [exact A | exact B | exact C | apply run_end_sections].
    - unfold st_seg. rewrite (run_no_discard pre _ Hp). reflexivity.
  Qed.

  (* ---------- 1. allow-listed sections survive ---------- *)

  Theorem document_allowlisted_survive d rt w pre ws u x :
    SplitAtTail d rt w pre ws ->
    let st_seg := runl pre (init_state u) in
    let st' := exec_script env senv ext final (wo_script w) (init_state u) in
    In x (l_remaining st_seg) -> In (u_name x) (aux_section_names (doc_settings d)) ->
    (exists p, In p (l_placed st') /\ placed_by_name x p) /\
    ~ In x (l_remaining st') /\
    (NoDup (map u_marker u) -> ~ In (u_marker x) (l_discarded st')).
  Proof.
    intros Hs st_seg st' Hx Hn.
    destruct (document_tail d rt w pre ws u Hs) as [[Hr [Hd [pls [Hp [F G]]]]] _]. fold st_seg st' in Hr, Hd, Hp, F, G.
    assert (Ha : allow_listed (doc_settings d) x = true) by (apply mem_str_in; exact Hn).
    destruct (G x Hx Ha) as [p [Hin Hpn]].
    assert (Hpl : In p (l_placed st')) by (rewrite Hp; apply in_or_app; right; exact Hin).
    split; [exists p; split; assumption|]. split.
    - rewrite Hr. intro Hbad. apply filter_In in Hbad. destruct Hbad as [_ Hbad]. rewrite Ha in Hbad. discriminate Hbad.
    - intro Hnd. destruct (placed_never_discarded env senv ext final (wo_script w) u Hnd) as [_ [Hpd _]].
      apply Hpd. destruct Hpn as [Em _]. rewrite <- Em. apply in_map. exact Hpl.
  Qed.

  Lemma input_paths_pre d rt w pre ws p :
    SplitAtTail d rt w pre ws -> In p (input_paths pre) -> In p (input_paths (wo_script w)).
  Proof.
    intros [Ew _] Hin. rewrite Ew. unfold input_paths in *. rewrite !flat_map_app.
    apply in_or_app. right. apply in_or_app. left. cbn [flat_map stmt_inputs]. rewrite app_nil_r, flat_map_app.
    apply in_or_app. left. exact Hin.
  Qed.

  (* document side: no statement of the script names the object file of [x] *)
  Theorem document_unnamed_file_waits d rt w pre ws u x :
    SplitAtTail d rt w pre ws -> In x u -> ~ In (u_path x) (input_paths (wo_script w)) ->
    In x (l_remaining (runl pre (init_state u))).
  Proof.
    intros Hs Hx Hp. apply run_keeps; [apply Hs | exact Hx |].
    intro Hin. apply Hp. eapply input_paths_pre; eassumption.
  Qed.

  Theorem document_allowlisted_survive_file d rt w u x :
    gen_normal d rt = Ok w ->
    let st' := exec_script env senv ext final (wo_script w) (init_state u) in
    In x u -> ~ In (u_path x) (input_paths (wo_script w)) ->
    In (u_name x) (aux_section_names (doc_settings d)) ->
    (exists p, In p (l_placed st') /\ placed_by_name x p) /\
    ~ In x (l_remaining st') /\
    (NoDup (map u_marker u) -> ~ In (u_marker x) (l_discarded st')).
  Proof.
    intros Hg st' Hx Hp Hn. destruct (split_exists d rt w Hg) as [pre [ws Hs]].
    apply (document_allowlisted_survive d rt w pre ws u x Hs); [|exact Hn].
    apply (document_unnamed_file_waits d rt w pre ws u x Hs Hx Hp).
  Qed.

  (* ---------- 2. denied and unplaced sections are discarded ---------- *)

  Theorem document_discarded_exactly d rt w pre ws u :
    SplitAtTail d rt w pre ws ->
    let stg := doc_settings d in
    let st_seg := runl pre (init_state u) in
    let st' := exec_script env senv ext final (wo_script w) (init_state u) in
    l_discarded st' =
    map u_marker (filter (fun x => negb (allow_listed stg x) && discard_hits stg x) (l_remaining st_seg)).
  Proof.
    intros Hs stg st_seg st'. destruct (document_tail d rt w pre ws u Hs) as [[_ [Hd _]] Hd0].
    fold st_seg st' in Hd, Hd0. rewrite Hd, Hd0. reflexivity.
  Qed.

  Theorem document_denied_discarded d rt w pre ws u x :
    SplitAtTail d rt w pre ws ->
    let stg := doc_settings d in
    let st_seg := runl pre (init_state u) in
    let st' := exec_script env senv ext final (wo_script w) (init_state u) in
    In x (l_remaining st_seg) -> ~ In (u_name x) (aux_section_names stg) ->
    (In (u_name x) (sections_denylist stg) \/ discard_wildcard_section stg = true) ->
    In (u_marker x) (l_discarded st') /\ ~ In x (l_remaining st').
  Proof.
    intros Hs stg st_seg st' Hx Hn Hd.
    destruct (document_tail d rt w pre ws u Hs) as [[Hr _] _]. fold st_seg st' stg in Hr.
    assert (Ha : allow_listed stg x = false).
    { destruct (allow_listed stg x) eqn:E; [|reflexivity]. exfalso. apply Hn. apply mem_str_in. exact E. }
    assert (Hh : discard_hits stg x = true).
    { unfold discard_hits. destruct Hd as [Hd|Hd]; [apply mem_str_in in Hd; rewrite Hd; reflexivity|].
      rewrite Hd. apply orb_true_r. }
    split.
    - unfold st'. rewrite (document_discarded_exactly d rt w pre ws u Hs). apply in_map. apply filter_In.
      split; [exact Hx|]. fold stg. rewrite Ha, Hh. reflexivity.
    - rewrite Hr. intro Hbad. apply filter_In in Hbad. destruct Hbad as [_ Hbad]. rewrite Hh, andb_false_r in Hbad.
      discriminate Hbad.
  Qed.

  (* conversely: what is discarded was still unplaced after the segments, is not allow-listed, and is
     named by the deny list or taken by the wildcard *)
  Theorem document_discarded_only d rt w pre ws u m :
    SplitAtTail d rt w pre ws ->
    let stg := doc_settings d in
    let st_seg := runl pre (init_state u) in
    let st' := exec_script env senv ext final (wo_script w) (init_state u) in
    In m (l_discarded st') ->
    exists x, In x (l_remaining st_seg) /\ u_marker x = m /\ ~ In (u_name x) (aux_section_names stg) /\
              (In (u_name x) (sections_denylist stg) \/ discard_wildcard_section stg = true).
  Proof.
    intros Hs stg st_seg st' Hm. unfold st' in Hm. rewrite (document_discarded_exactly d rt w pre ws u Hs) in Hm.
    apply in_map_iff in Hm. destruct Hm as [x [Em Hx]]. apply filter_In in Hx. destruct Hx as [Hx Hc].
    apply andb_true_iff in Hc. destruct Hc as [Ha Hh]. apply negb_true_iff in Ha.
    exists x. split; [exact Hx|]. split; [exact Em|]. split.
    - intro Hin. apply mem_str_in in Hin. unfold allow_listed in Ha. fold stg in Ha. congruence.
    - unfold discard_hits in Hh. apply orb_true_iff in Hh. destruct Hh as [Hh|Hh]; [left; apply mem_str_in; exact Hh | right; exact Hh].
  Qed.

  (* ---------- 3. no discard block: nothing is discarded ---------- *)

  Theorem document_no_discard_block d rt w u :
    gen_normal d rt = Ok w ->
    discard_wildcard_section (doc_settings d) = false -> sections_denylist (doc_settings d) = [] ->
    l_discarded (exec_script env senv ext final (wo_script w) (init_state u)) = [].
  Proof.
    intros Hg Hw Hdl. destruct (split_exists d rt w Hg) as [pre [ws Hs]].
    rewrite (document_discarded_exactly d rt w pre ws u Hs).
    rewrite (filter_ext _ (fun _ => false)); [rewrite filter_false_nil; reflexivity|].
    intro x. unfold discard_hits. rewrite Hw, Hdl. cbn [mem_str orb]. apply andb_false_r.
  Qed.

  (* every placement of the final state was made by the segments' statements or by an allow-list entry *)
  Theorem document_placed_by d rt w pre ws u :
    SplitAtTail d rt w pre ws ->
    let stg := doc_settings d in
    let st_seg := runl pre (init_state u) in
    let st' := exec_script env senv ext final (wo_script w) (init_state u) in
    exists pls, l_placed st' = (l_placed st_seg ++ pls)%list /\
      Forall (fun p => exists x, In x (l_remaining st_seg) /\ allow_listed stg x = true /\ placed_by_name x p) pls.
  Proof.
    intros Hs stg st_seg st'. destruct (document_tail d rt w pre ws u Hs) as [[_ [_ [pls [Hp [F _]]]]] _].
    exists pls. split; assumption.
  Qed.

  (* C18_document_placed_never_discarded *)
  Theorem document_placed_never_discarded d rt w u m :
    gen_normal d rt = Ok w -> NoDup (map u_marker u) ->
    let st' := exec_script env senv ext final (wo_script w) (init_state u) in
    In m (map pl_marker (l_placed st')) -> ~ In m (l_discarded st') /\ ~ In m (map u_marker (l_remaining st')).
  Proof.
    intros _ Hnd st' Hm. destruct (placed_never_discarded env senv ext final (wo_script w) u Hnd) as [_ [H1 H2]].
    split; [apply H1 | apply H2]; exact Hm.
  Qed.
End Tail.

(* ====================================================================== *)
(* 4. the last pass of layout                                              *)
(* ====================================================================== *)

Lemma layout_last_pass script u ext0 : layout script u ext0 = last_pass script u ext0 (flat_stmts script).
Proof. unfold layout, last_pass. apply exec_script_flat. Qed.

Theorem document_tail_layout d rt w pre ws u ext0 :
  SplitAtTail d rt w pre ws ->
  TailOutcome (doc_settings d) (last_pass (wo_script w) u ext0 pre) (layout (wo_script w) u ext0) /\
  l_discarded (last_pass (wo_script w) u ext0 pre) = [].
Proof. intro Hs. unfold layout, last_pass. apply (document_tail _ _ _ _ d rt w pre ws u Hs). Qed.

Theorem document_allowlisted_survive_layout d rt w pre ws u ext0 x :
  SplitAtTail d rt w pre ws ->
  let st' := layout (wo_script w) u ext0 in
  In x (l_remaining (last_pass (wo_script w) u ext0 pre)) -> In (u_name x) (aux_section_names (doc_settings d)) ->
  (exists p, In p (l_placed st') /\ placed_by_name x p) /\
  ~ In x (l_remaining st') /\
  (NoDup (map u_marker u) -> ~ In (u_marker x) (l_discarded st')).
Proof. intro Hs. unfold layout, last_pass. apply (document_allowlisted_survive _ _ _ _ d rt w pre ws u x Hs). Qed.

Theorem document_allowlisted_survive_file_layout d rt w u ext0 x :
  gen_normal d rt = Ok w ->
  let st' := layout (wo_script w) u ext0 in
  In x u -> ~ In (u_path x) (input_paths (wo_script w)) ->
  In (u_name x) (aux_section_names (doc_settings d)) ->
  (exists p, In p (l_placed st') /\ placed_by_name x p) /\
  ~ In x (l_remaining st') /\
  (NoDup (map u_marker u) -> ~ In (u_marker x) (l_discarded st')).
Proof. intro Hg. unfold layout. apply (document_allowlisted_survive_file _ _ _ _ d rt w u x Hg). Qed.

Theorem document_denied_discarded_layout d rt w pre ws u ext0 x :
  SplitAtTail d rt w pre ws ->
  let stg := doc_settings d in
  let st' := layout (wo_script w) u ext0 in
  In x (l_remaining (last_pass (wo_script w) u ext0 pre)) -> ~ In (u_name x) (aux_section_names stg) ->
  (In (u_name x) (sections_denylist stg) \/ discard_wildcard_section stg = true) ->
  In (u_marker x) (l_discarded st') /\ ~ In x (l_remaining st').
Proof. intro Hs. unfold layout, last_pass. apply (document_denied_discarded _ _ _ _ d rt w pre ws u x Hs). Qed.

Theorem document_discarded_exactly_layout d rt w pre ws u ext0 :
  SplitAtTail d rt w pre ws ->
  let stg := doc_settings d in
  l_discarded (layout (wo_script w) u ext0) =
  map u_marker (filter (fun x => negb (allow_listed stg x) && discard_hits stg x)
                       (l_remaining (last_pass (wo_script w) u ext0 pre))).
Proof. intro Hs. unfold layout, last_pass. apply (document_discarded_exactly _ _ _ _ d rt w pre ws u Hs). Qed.

Theorem document_no_discard_block_layout d rt w u ext0 :
  gen_normal d rt = Ok w ->
  discard_wildcard_section (doc_settings d) = false -> sections_denylist (doc_settings d) = [] ->
  l_discarded (layout (wo_script w) u ext0) = [].
Proof. intros Hg H1 H2. unfold layout. apply (document_no_discard_block _ _ _ _ d rt w u Hg H1 H2). Qed.

Theorem document_placed_never_discarded_layout d rt w u ext0 m :
  gen_normal d rt = Ok w -> NoDup (map u_marker u) ->
  let st' := layout (wo_script w) u ext0 in
  In m (map pl_marker (l_placed st')) -> ~ In m (l_discarded st') /\ ~ In m (map u_marker (l_remaining st')).
Proof. intros Hg Hnd. unfold layout. apply (document_placed_never_discarded _ _ _ _ d rt w u m Hg Hnd). Qed.
