(* C11: lemmas relating the partial scripts to the ordinary script. *)
From Slinky Require Import Model.Types Model.Runtime Model.Style Model.Script Model.Writer Model.Exports.
From Slinky Require Import Spec.C11 Proofs.C06 Proofs.C18 Proofs.C12.
From Coq Require Import Lia.

(* ====================================================================== *)
(* one sub-script per emitted segment                                      *)
(* ====================================================================== *)

Lemma partial_segments_names d rt folder segs : forall ws subs s ws' subs',
  partial_segments d rt folder segs (ws, subs) = Ok (s, (ws', subs')) ->
  map fst subs' = map fst subs ++ map sg_name (filter (fun seg => should_emit rt (sg_conds seg)) segs).
Proof.
  induction segs as [|seg r IH]; intros ws subs s ws' subs' H.
  - apply ok_inj in H. inversion H; subst. simpl. rewrite app_nil_r. reflexivity.
  - apply partial_segments_cons in H. destruct H as [s1 [[ws1 subs1] [s2 [E1 [E2 E]]]]]. subst.
    apply IH in E2. apply partial_segment_inv in E1. cbn [filter].
    destruct E1 as [[Hc [E [Ew Es]]] | [Hc [sub [wsub [Ea [Eb Es]]]]]]; subst; rewrite Hc.
    + exact E2.
    + rewrite E2, map_app, <- app_assoc. reflexivity.
Qed.

Lemma one_per_segment d rt p :
  gen_partial d rt = Ok p ->
  map fst (po_subs p) = map sg_name (filter (fun seg => should_emit rt (sg_conds seg)) (doc_segments d)).
Proof.
  intro H. apply gen_partial_inv in H. destruct H as [folder [body [ws [subs [Ef [E H]]]]]]. subst.
  apply partial_segments_names in E. exact E.
Qed.


Lemma partial_segments_subs d rt folder segs : forall ws subs s ws' subs',
  incl segs (doc_segments d) ->
  partial_segments d rt folder segs (ws, subs) = Ok (s, (ws', subs')) ->
  Forall (SubOf d rt) subs -> Forall (SubOf d rt) subs'.
Proof.
  induction segs as [|seg r IH]; intros ws subs s ws' subs' Hin H Hsubs.
  - apply ok_inj in H. inversion H; subst. assumption.
  - apply partial_segments_cons in H. destruct H as [s1 [[ws1 subs1] [s2 [E1 [E2 E]]]]]. subst.
    assert (Hr : incl r (doc_segments d)) by (intros x Hx; apply Hin; right; assumption).
    apply partial_segment_inv in E1.
    destruct E1 as [[Hc [E [Ew Es]]] | [Hc [sub [wsub [Ea [Eb Es]]]]]]; subst.
    + eapply IH; eassumption.
    + eapply IH; [exact Hr | eassumption|]. apply Forall_app; split; [assumption|].
      constructor; [|constructor]. exists seg, sub, wsub. repeat split; auto. apply Hin. left; reflexivity.
Qed.

Lemma subs_are_single_scripts d rt p :
  gen_partial d rt = Ok p -> Forall (SubOf d rt) (po_subs p).
Proof.
  intro H. apply gen_partial_inv in H. destruct H as [folder [body [ws [subs [Ef [E H]]]]]]. subst.
  eapply partial_segments_subs; [apply incl_refl | eassumption | constructor].
Qed.

(* ====================================================================== *)
(* same file statements                                                    *)
(* ====================================================================== *)

(* emit_section only reads reference_partial_objects from the configuration *)
Lemma emit_section_cfg rt sty cfg :
  reference_partial cfg = false -> emit_section rt sty cfg = emit_section rt sty cfg_normal.
Proof. destruct cfg as [r k s]. simpl. intro H. subst. reflexivity. Qed.

Lemma emit_section_sub rt sty : emit_section rt sty cfg_sub_partial = emit_section rt sty cfg_normal.
Proof. reflexivity. Qed.

(* the statements of a file-level action do not depend on the incoming state *)
Lemma emitter_state_indep sty wild offs g : emitter sty wild offs g ->
  forall ws s ws', g ws = Ok (s, ws') -> forall ws2, exists ws2', g ws2 = Ok (s, ws2').
Proof.
  induction 1 as [| e | keep path member k | n | name Hn | g1 g2 H1 IH1 H2 IH2 | g1 g2 Hext H1 IH1];
    intros ws s ws' H ws2.
  - apply ok_inj in H. inversion H; subst. eexists; reflexivity.
  - discriminate.
  - apply ok_inj in H. inversion H; subst. eexists; reflexivity.
  - apply ok_inj in H. inversion H; subst. eexists; reflexivity.
  - apply ok_inj in H. inversion H; subst. eexists; reflexivity.
  - unfold seq_out in *. apply bind_ok_out in H. destruct H as [s1 [w1 [E1 H]]]. cbn [fst snd] in H.
    apply bind_ok_out in H. destruct H as [s2 [w2 [E2 H]]]. cbn [fst snd] in H.
    apply ok_inj in H. inversion H; subst.
    destruct (IH1 _ _ _ E1 ws2) as [w1' F1]. destruct (IH2 _ _ _ E2 w1') as [w2' F2].
    exists w2'. rewrite F1. cbn [bind fst snd]. rewrite F2. reflexivity.
  - rewrite <- Hext in H. destruct (IH1 _ _ _ H ws2) as [w' F]. exists w'. rewrite <- Hext. exact F.
Qed.

Lemma emit_section_state_indep rt sty cfg seg sections base section ws s ws' :
  emit_section rt sty cfg seg sections base section ws = Ok (s, ws') ->
  forall ws2, exists ws2', emit_section rt sty cfg seg sections base section ws2 = Ok (s, ws2').
Proof. apply (emitter_state_indep sty (wildcard_sections seg) (offs_of_segment rt seg)). apply emit_section_emitter. Qed.

Lemma emit_sff_state_indep rt sty cfg seg sections f n stack section base ws s ws' :
  emit_sff rt sty cfg seg sections f n stack section base ws = Ok (s, ws') ->
  forall ws2, exists ws2', emit_sff rt sty cfg seg sections f n stack section base ws2 = Ok (s, ws2').
Proof. apply (emitter_state_indep sty (wildcard_sections seg) (offs_of rt f)). apply emit_sff_emitter. Qed.

Lemma section_stmts_of rt st cfg seg sections section ws s ws' :
  reference_partial cfg = false ->
  emit_section rt (linker_symbols_style st) cfg seg sections (base_path st) section ws = Ok (s, ws') ->
  section_stmts rt st seg sections section = Ok s.
Proof.
  intros Hc H. rewrite (emit_section_cfg _ _ _ Hc) in H.
  destruct (emit_section_state_indep _ _ _ _ _ _ _ _ _ _ H ws0) as [w' F].
  unfold section_stmts. rewrite F. reflexivity.
Qed.

Lemma FilesOf_functional rt st seg sections rest f1 : forall f2,
  FilesOf rt st seg sections rest f1 -> FilesOf rt st seg sections rest f2 -> f1 = f2.
Proof.
  intros f2 H1. revert f2. induction H1 as [|section F rest files HF Hr IH]; intros f2 H2.
  - inversion H2. reflexivity.
  - inversion H2 as [|section' F' rest' files' HF' Hr']; subst. rewrite HF in HF'. inversion HF'; subst.
    f_equal. apply IH. assumption.
Qed.

Lemma part_groups_body rt st cfg seg sections rest : forall ws s ws',
  reference_partial cfg = false ->
  part_groups rt st cfg seg sections rest ws = Ok (s, ws') ->
  exists files, FilesOf rt st seg sections rest files /\ s = multi_body rt st cfg seg rest files.
Proof.
  induction rest as [|section rest IH]; intros ws s ws' Hc H.
  - apply ok_inj in H. inversion H; subst. exists []. split; [constructor | reflexivity].
  - apply part_groups_cons in H. destruct H as [s1 [ws1 [s2 [E1 [E2 E]]]]]. subst.
    destruct (IH _ _ _ Hc E2) as [files [HF Es]]. subst. exists (s1 :: files). split.
    + constructor; [eapply section_stmts_of; eassumption | assumption].
    + reflexivity.
Qed.

Lemma sub_groups_body rt st seg sections noload rest : forall ws s ws',
  single_groups rt st cfg_sub_partial seg sections noload rest ws = Ok (s, ws') ->
  exists files, FilesOf rt st seg sections rest files /\ s = sub_body seg noload rest files.
Proof.
  induction rest as [|section rest IH]; intros ws s ws' H.
  - apply ok_inj in H. inversion H; subst. exists []. split; [constructor | reflexivity].
  - apply single_groups_cons in H. destruct H as [s1 [ws1 [s2 [E1 [E2 E]]]]]. subst.
    destruct (IH _ _ _ E2) as [files [HF Es]]. subst. exists (s1 :: files). split.
    + constructor; [eapply section_stmts_of; [|eassumption]; reflexivity | assumption].
    + reflexivity.
Qed.

Lemma write_segment_half rt st cfg seg sections noload ws s ws' :
  reference_partial cfg = false ->
  write_segment rt st cfg seg sections noload ws = Ok (s, ws') ->
  exists files, FilesOf rt st seg sections sections files /\
                s = half_segment rt st cfg seg sections noload files.
Proof.
  intros Hc H. apply write_segment_inv in H. destruct H as [body [E H]]. subst.
  destruct (part_groups_body _ _ _ _ _ _ _ _ _ Hc E) as [files [HF Es]]. subst.
  exists files. split; [assumption | reflexivity].
Qed.

Lemma write_sub_segment_body rt st seg sections noload ws s ws' :
  write_single_segment rt st cfg_sub_partial seg sections noload ws = Ok (s, ws') ->
  exists files, FilesOf rt st seg sections sections files /\ s = sub_body seg noload sections files.
Proof.
  intro H. apply write_single_segment_inv in H. destruct H as [body [E H]]. subst.
  destruct (sub_groups_body _ _ _ _ _ _ _ _ _ E) as [files [HF Es]]. subst.
  exists files. split; [assumption|]. simpl. apply app_nil_r.
Qed.

(* one half of a segment: ordinary script against sub-script, from any two writer states *)
Lemma same_statements_half rt st seg sections noload ws s ws' ws2 s2 ws2' :
  write_segment rt st cfg_normal seg sections noload ws = Ok (s, ws') ->
  write_single_segment rt st cfg_sub_partial seg sections noload ws2 = Ok (s2, ws2') ->
  exists files, FilesOf rt st seg sections sections files /\
                s = half_segment rt st cfg_normal seg sections noload files /\
                s2 = sub_body seg noload sections files.
Proof.
  intros H1 H2. apply write_segment_half in H1; [|reflexivity]. destruct H1 as [f1 [F1 E1]].
  apply write_sub_segment_body in H2. destruct H2 as [f2 [F2 E2]].
  assert (f1 = f2) by (eapply FilesOf_functional; eassumption). subst. exists f2. auto.
Qed.

(* a whole segment of the ordinary script against the sub-script of that segment *)
Lemma same_statements_segment rt st classes seg ws s ws' sub wsub :
  should_emit rt (sg_conds seg) = true ->
  add_segment rt st cfg_normal classes seg ws = Ok (s, ws') ->
  add_single_segment rt st cfg_sub_partial classes seg ws0 = Ok (sub, wsub) ->
  exists fa fn pre post,
    FilesOf rt st seg (alloc_sections seg) (alloc_sections seg) fa /\
    FilesOf rt st seg (noload_sections seg) (noload_sections seg) fn /\
    s = pre ++ half_segment rt st cfg_normal seg (alloc_sections seg) false fa ++ [SBlank] ++
        half_segment rt st cfg_normal seg (noload_sections seg) true fn ++ post /\
    sub = [SSections
             (match sg_fixed_vram seg with
              | Some v => [SAssign false false false "." (EHex8 v); SBlank] | None => [] end ++
              sub_body seg false (alloc_sections seg) fa ++ [SBlank] ++
              sub_body seg true (noload_sections seg) fn ++ [SBlank] ++
              end_sections_body st classes wsub)].
Proof.
  intros Hc H1 H2. apply add_segment_inv in H1.
  destruct H1 as [[Hc' _] | [_ [cls [ws1 [s1 [ws2 [s2 [Ec [E1 [E2 E]]]]]]]]]]; [congruence|]. subst.
  apply add_single_segment_inv in H2. destruct H2 as [t1 [w1 [t2 [F1 [F2 F]]]]]. subst.
  destruct (same_statements_half _ _ _ _ _ _ _ _ _ _ _ E1 F1) as [fa [Ha [Ea Eb]]].
  destruct (same_statements_half _ _ _ _ _ _ _ _ _ _ _ E2 F2) as [fn [Hn [En Em]]]. subst.
  exists fa, fn, (cls ++ seg_head st seg), ([SBlank] ++ seg_foot st seg). repeat split; try assumption.
  repeat rewrite <- app_assoc. reflexivity.
Qed.

(* ====================================================================== *)
(* the main script places exactly the partial object                       *)
(* ====================================================================== *)

Lemma should_emit_no_conds rt : should_emit rt no_conds = true.
Proof. reflexivity. Qed.

Lemma main_emit_section rt sty seg p sections base section ws :
  emit_section rt sty cfg_main_partial (clone_with_new_files seg [new_object p]) sections base section ws =
  (do b0 <- escape_path rt base;
   do pe <- escape_path rt p;
   Ok ([SInput false (display (push b0 pe)) None section (wildcard_sections seg)],
       add_path (push b0 pe) ws)).
Proof.
  unfold emit_section. destruct (escape_path rt base) as [b0|e]; [|reflexivity].
  cbn [bind reference_partial cfg_main_partial sg_files clone_with_new_files fold_out].
  unfold chain_fuel. rewrite emit_sff_S. cbn [mem_str]. unfold chain_step.
  assert (Eh : sections_here (new_object p) section sections = [section]) by reflexivity.
  rewrite Eh. cbn [fold_out]. unfold emit_file_of, emit_file_gen.
  assert (Ec : fi_conds (new_object p) = no_conds) by reflexivity. rewrite Ec, should_emit_no_conds.
  cbn [negb fi_kind new_object fi_path fi_keep keeps].
  destruct (escape_path rt p) as [pe|e]; [|reflexivity].
  cbn [bind fst snd reference_partial cfg_main_partial wildcard_sections clone_with_new_files app].
  reflexivity.
Qed.


Lemma main_part_groups rt st seg p sections rest b0 pe : forall ws s ws',
  escape_path rt (base_path st) = Ok b0 -> escape_path rt p = Ok pe ->
  part_groups rt st cfg_main_partial (clone_with_new_files seg [new_object p]) sections rest ws = Ok (s, ws') ->
  s = multi_body rt st cfg_normal seg rest (map (partial_input b0 pe seg) rest).
Proof.
  intros ws s ws' Hb Hp. revert ws s ws'. induction rest as [|section rest IH]; intros ws s ws' H.
  - apply ok_inj in H. inversion H; subst. reflexivity.
  - apply part_groups_cons in H. destruct H as [s1 [ws1 [s2 [E1 [E2 E]]]]]. subst.
    rewrite main_emit_section, Hb, Hp in E1. cbn [bind] in E1. apply ok_inj in E1. inversion E1; subst.
    rewrite (IH _ _ _ E2). reflexivity.
Qed.

Lemma main_write_segment rt st seg p sections noload b0 pe ws s ws' :
  escape_path rt (base_path st) = Ok b0 -> escape_path rt p = Ok pe ->
  write_segment rt st cfg_main_partial (clone_with_new_files seg [new_object p]) sections noload ws = Ok (s, ws') ->
  s = half_segment rt st cfg_normal seg sections noload (map (partial_input b0 pe seg) sections).
Proof.
  intros Hb Hp H. apply write_segment_inv in H. destruct H as [body [E H]]. subst.
  rewrite (main_part_groups _ _ _ _ _ _ _ _ _ _ _ Hb Hp E). reflexivity.
Qed.

(* when a section group exists the two paths do escape *)
Lemma main_part_groups_escapes rt st seg p sections section rest ws s ws' :
  part_groups rt st cfg_main_partial (clone_with_new_files seg [new_object p]) sections (section :: rest) ws
    = Ok (s, ws') ->
  exists b0 pe, escape_path rt (base_path st) = Ok b0 /\ escape_path rt p = Ok pe.
Proof.
  intro H. apply part_groups_cons in H. destruct H as [s1 [ws1 [s2 [E1 [E2 E]]]]].
  rewrite main_emit_section in E1. destruct (escape_path rt (base_path st)) as [b0|]; [|discriminate].
  destruct (escape_path rt p) as [pe|]; [|discriminate]. exists b0, pe. auto.
Qed.

(* the main script's segment against the ordinary script's: same statements around the files *)
Lemma main_skeleton rt st classes seg p ws s ws' wsm sm wsm' b0 pe :
  should_emit rt (sg_conds seg) = true ->
  ws_emitted wsm = ws_emitted ws ->
  escape_path rt (base_path st) = Ok b0 -> escape_path rt p = Ok pe ->
  add_segment rt st cfg_normal classes seg ws = Ok (s, ws') ->
  add_segment rt st cfg_main_partial classes (clone_with_new_files seg [new_object p]) wsm = Ok (sm, wsm') ->
  exists fa fn pre post,
    FilesOf rt st seg (alloc_sections seg) (alloc_sections seg) fa /\
    FilesOf rt st seg (noload_sections seg) (noload_sections seg) fn /\
    s = pre ++ half_segment rt st cfg_normal seg (alloc_sections seg) false fa ++ [SBlank] ++
        half_segment rt st cfg_normal seg (noload_sections seg) true fn ++ post /\
    sm = pre ++ half_segment rt st cfg_normal seg (alloc_sections seg) false
                  (map (partial_input b0 pe seg) (alloc_sections seg)) ++ [SBlank] ++
         half_segment rt st cfg_normal seg (noload_sections seg) true
                  (map (partial_input b0 pe seg) (noload_sections seg)) ++ post /\
    ws_emitted wsm' = ws_emitted ws'.
Proof.
  intros Hc Hem Hb Hp H1 H2. apply add_segment_inv in H1.
  destruct H1 as [[Hc' _] | [_ [cls [ws1 [s1 [ws2 [s2 [Ec [E1 [E2 E]]]]]]]]]]; [congruence|]. subst.
  apply add_segment_inv in H2.
  destruct H2 as [[Hc' _] | [_ [clsm [wm1 [t1 [wm2 [t2 [Fc [F1 [F2 F]]]]]]]]]];
    [cbn [sg_conds clone_with_new_files] in Hc'; congruence|]. subst.
  cbn [alloc_sections noload_sections clone_with_new_files] in F1, F2.
  pose proof F1 as F1'. pose proof F2 as F2'.
  apply (main_write_segment _ _ _ _ _ _ _ _ _ _ _ Hb Hp) in F1.
  apply (main_write_segment _ _ _ _ _ _ _ _ _ _ _ Hb Hp) in F2. subst.
  pose proof E1 as E1'. pose proof E2 as E2'.
  apply write_segment_half in E1; [|reflexivity]. destruct E1 as [fa [Ha Ea]].
  apply write_segment_half in E2; [|reflexivity]. destruct E2 as [fn [Hn En]]. subst.
  (* the class part only looks at the class flags *)
  assert (Hcls : clsm = cls /\ ws_emitted wm1 = ws_emitted ws1).
  { unfold class_part in Ec, Fc. cbn [sg_vram_class sg_name clone_with_new_files] in Fc.
    destruct (sg_vram_class seg) as [cn|].
    - destruct (class_get classes cn) as [c|]; [|discriminate]. rewrite Hem in Fc.
      destruct (mem_str cn (ws_emitted ws)).
      + apply ok_inj in Ec. apply ok_inj in Fc. inversion Ec; inversion Fc; subst. auto.
      + apply ok_inj in Ec. apply ok_inj in Fc. inversion Ec; inversion Fc; subst. simpl. rewrite Hem. auto.
    - apply ok_inj in Ec. apply ok_inj in Fc. inversion Ec; inversion Fc; subst. auto. }
  destruct Hcls as [Hcl Hw1]. subst.
  exists fa, fn, (cls ++ seg_head st seg), ([SBlank] ++ seg_foot st seg). repeat split; try assumption.
  - repeat rewrite <- app_assoc. reflexivity.
  - repeat rewrite <- app_assoc. reflexivity.
  - apply FileRel_write_segment in E1'; [|apply incl_alloc].
    apply FileRel_write_segment in E2'; [|apply incl_noload].
    apply FileRel_write_segment in F1';
      [|apply (incl_alloc (clone_with_new_files seg [new_object p]))].
    apply FileRel_write_segment in F2';
      [|apply (incl_noload (clone_with_new_files seg [new_object p]))].
    destruct E1' as [A1 _], E2' as [A2 _], F1' as [B1 _], F2' as [B2 _].
    rewrite A2, A1, B2, B1. exact Hw1.
Qed.

(* ====================================================================== *)
(* missing folders                                                         *)
(* ====================================================================== *)

Lemma gen_partial_missing d rt :
  partial_build_segments_folder (doc_settings d) = None ->
  gen_partial d rt = Err (EMissingRequiredField "partial_build_segments_folder").
Proof. intro H. unfold gen_partial. rewrite H. reflexivity. Qed.

Lemma export_partial_missing rt st p path :
  partial_scripts_folder st = None ->
  export_script_partial rt st p path = Err (EMissingRequiredField "partial_scripts_folder").
Proof. intro H. unfold export_script_partial. rewrite H. reflexivity. Qed.

Lemma save_partial_missing_build rt st p base :
  escape_path rt (base_path st) = Ok base ->
  partial_build_segments_folder st = None ->
  save_other_files_partial rt st p = Err (EMissingRequiredField "partial_build_segments_folder").
Proof. intros Hb H. unfold save_other_files_partial. rewrite Hb, H. reflexivity. Qed.

Lemma save_partial_missing_scripts rt st p base pb pbsf :
  escape_path rt (base_path st) = Ok base ->
  partial_build_segments_folder st = Some pb -> escape_path rt pb = Ok pbsf ->
  partial_scripts_folder st = None ->
  save_other_files_partial rt st p = Err (EMissingRequiredField "partial_scripts_folder").
Proof.
  intros Hb Hpb He H. unfold save_other_files_partial. rewrite Hb, Hpb, H. simpl. rewrite He. reflexivity.
Qed.

Lemma export_partial_ok rt st p path ps psf :
  partial_scripts_folder st = Some ps -> escape_path rt ps = Ok psf ->
  export_script_partial rt st p path =
  Ok ((path, script_text (po_main p)) ::
      map (fun s => (push psf (fst s ++ ".ld"), script_text (snd s))) (po_subs p)).
Proof. intros H He. unfold export_script_partial. rewrite H. simpl. rewrite He. reflexivity. Qed.

(* ====================================================================== *)
(* the main script references partial objects only                         *)
(* ====================================================================== *)

Lemma main_part_groups_inputs rt st seg p sections rest : forall ws s ws',
  incl rest (alloc_sections seg ++ noload_sections seg) ->
  part_groups rt st cfg_main_partial (clone_with_new_files seg [new_object p]) sections rest ws = Ok (s, ws') ->
  Forall (fun path => exists b0 pe, escape_path rt (base_path st) = Ok b0 /\ escape_path rt p = Ok pe /\
                                    path = display (push b0 pe)) (Spec.C12.input_paths s).
Proof.
  induction rest as [|section rest IH]; intros ws s ws' Hin H.
  - apply ok_inj in H. inversion H; subst. constructor.
  - apply part_groups_cons in H. destruct H as [s1 [ws1 [s2 [E1 [E2 E]]]]]. subst.
    rewrite !input_paths_app.
    rewrite (plain_no_inputs _ _ (pl_section_symbol_start rt _ cfg_main_partial
               (clone_with_new_files seg [new_object p]) section (Hin _ (or_introl eq_refl)))).
    rewrite (plain_no_inputs _ _ (pl_section_symbol_end _ cfg_main_partial
               (clone_with_new_files seg [new_object p]) section (Hin _ (or_introl eq_refl)))).
    assert (Eb : Spec.C12.input_paths (match rest with [] => [] | _ :: _ => [SBlank] end) = [])
      by (destruct rest; reflexivity).
    rewrite Eb. cbn [app]. apply Forall_app; split.
    + rewrite main_emit_section in E1. destruct (escape_path rt (base_path st)) as [b0|]; [|discriminate].
      destruct (escape_path rt p) as [pe|]; [|discriminate]. cbn [bind] in E1.
      apply ok_inj in E1. inversion E1; subst. constructor; [|constructor]. exists b0, pe. auto.
    + eapply IH; [|eassumption]. intros x Hx. apply Hin. right; assumption.
Qed.


Lemma main_add_segment_inputs rt st classes seg p ws s ws' :
  add_segment rt st cfg_main_partial classes (clone_with_new_files seg [new_object p]) ws = Ok (s, ws') ->
  Forall (fun path => exists b0 pe, escape_path rt (base_path st) = Ok b0 /\ escape_path rt p = Ok pe /\
                                    path = display (push b0 pe)) (Spec.C12.input_paths s).
Proof.
  intro H. apply add_segment_inv in H.
  destruct H as [[_ [E _]] | [_ [cls [ws1 [s1 [ws2 [s2 [Ec [E1 [E2 E]]]]]]]]]]; subst; [constructor|].
  rewrite !input_paths_app.
  rewrite (plain_no_inputs _ _ (pl_seg_head st _)), (plain_no_inputs _ _ (pl_seg_foot st _)).
  assert (Ecls : Spec.C12.input_paths cls = []).
  { apply class_part_inv in Ec. destruct Ec as [[E _] | [cn [c [_ [_ [_ [E _]]]]]]]; subst;
      [reflexivity | apply (plain_no_inputs _ _ (pl_class_start st c cn))]. }
  rewrite Ecls. cbn [app Spec.C12.input_paths flat_map Spec.C12.stmt_inputs]. rewrite app_nil_r.
  apply write_segment_inv in E1. destruct E1 as [b1 [P1 E1]].
  apply write_segment_inv in E2. destruct E2 as [b2 [P2 E2]]. subst.
  rewrite !input_paths_app. unfold outsec_of. rewrite !input_paths_outsec, !input_paths_app.
  rewrite !(plain_no_inputs _ _ (pl_kind_start _ _ _ _)), !(plain_no_inputs _ _ (pl_kind_end _ _ _ _)),
    !(plain_no_inputs _ _ (pl_opt_fill (fun _ => True) _)).
  cbn [app]. rewrite !app_nil_r. apply Forall_app; split.
  - eapply main_part_groups_inputs; [|exact P1]. apply (incl_alloc (clone_with_new_files seg [new_object p])).
  - eapply main_part_groups_inputs; [|exact P2]. apply (incl_noload (clone_with_new_files seg [new_object p])).
Qed.

Lemma main_partial_segments_inputs d rt folder segs : forall ws subs s ws' subs',
  partial_segments d rt folder segs (ws, subs) = Ok (s, (ws', subs')) ->
  Forall (IsPartialObject rt (doc_settings d) folder segs) (Spec.C12.input_paths s).
Proof.
  induction segs as [|seg r IH]; intros ws subs s ws' subs' H.
  - apply ok_inj in H. inversion H; subst. constructor.
  - apply partial_segments_cons in H. destruct H as [s1 [[ws1 subs1] [s2 [E1 [E2 E]]]]]. subst.
    apply IH in E2. rewrite input_paths_app. apply Forall_app; split.
    + apply partial_segment_inv in E1.
      destruct E1 as [[_ [E _]] | [Hc [sub [wsub [Ea [Eb Es]]]]]]; subst; [constructor|].
      apply main_add_segment_inputs in Eb. eapply Forall_impl; [|exact Eb].
      intros path [b0 [pe [Hb [Hp Ep]]]]. exists seg, b0, pe. repeat split; auto. left; reflexivity.
    + eapply Forall_impl; [|exact E2]. intros path [sg [b0 [pe [Hin Hr]]]].
      exists sg, b0, pe. split; [right; assumption | assumption].
Qed.

Lemma main_only_partial_objects d rt p folder :
  partial_build_segments_folder (doc_settings d) = Some folder ->
  gen_partial d rt = Ok p ->
  Forall (IsPartialObject rt (doc_settings d) folder (doc_segments d))
         (Spec.C12.input_paths (wo_script (po_main p))).
Proof.
  intros Hf H. apply gen_partial_inv in H. destruct H as [folder' [body [ws [subs [Ef [E H]]]]]]. subst.
  rewrite Hf in Ef. inversion Ef; subst folder'.
  cbn [po_main wo_script]. rewrite !input_paths_app, input_paths_sections, !input_paths_app.
  rewrite (plain_no_inputs _ _ (pl_version (fun _ => True) rt)),
    (plain_no_inputs _ _ (pl_tail_stmts (fun _ => True) rt d)),
    (plain_no_inputs _ _ (pl_begin (fun _ => True) (doc_settings d))),
    (plain_no_inputs _ _ (pl_end_sections (doc_settings d) (doc_vram_classes d) ws)).
  cbn [app]. rewrite !app_nil_r. eapply main_partial_segments_inputs; eassumption.
Qed.
