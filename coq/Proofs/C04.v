(* C04: lemmas.  The first parts (frame lemmas about LdSem, how generated names end, names no
   generated symbol can have) are shared by the link-level theorems of C03, C10 and the *Link files. *)
From Slinky Require Import Model.Types Model.Generated Model.Runtime Model.Style Model.Script Model.Writer Model.LdSem.
From Slinky Require Import Spec.C17 Spec.C04 Proofs.C06 Proofs.C18 Proofs.C17 Proofs.LdLemmas.
From Coq Require Import Lia ZArith.
Local Open Scope Z_scope.

(* ====================================================================== *)
(* LdSem: what a statement leaves unchanged                                *)
(* ====================================================================== *)

Section Frames.
  Variables (env : list (string * Z)) (senv : list osec) (ext : list (string * Z)) (final : bool).

  Notation top := (exec_top_stmt env senv ext final).
  Notation runl := (run env senv ext final).

  Lemma run_app a b st : runl (a ++ b) st = runl b (runl a st).
  Proof. unfold run. apply fold_left_app. Qed.

  Lemma run_cons s l st : runl (s :: l) st = runl l (top st s).
  Proof. reflexivity. Qed.

  Lemma run_nil st : runl [] st = st.
  Proof. reflexivity. Qed.

  Lemma run_one s st : runl [s] st = top st s.
  Proof. reflexivity. Qed.

  (* ---------- assign ---------- *)

  Lemma assign_cases p sym r text st :
    assign ext final p sym r text st = st \/
    (exists v, r = Ok v /\ assign ext final p sym r text st = set_sym sym v p st) \/
    (exists e, assign ext final p sym r text st = add_err e st).
  Proof.
    unfold assign. destruct r as [v|e].
    - destruct (p && is_some (lookup sym ext))%bool; [left; reflexivity|right; left; eauto].
    - destruct e; try (destruct (final && negb p)%bool; [right; right; eauto | left; reflexivity]).
      right; right; eauto.
  Qed.

  Lemma assign_ok sym v text st :
    assign ext final false sym (Ok v) text st = set_sym sym v false st.
  Proof. reflexivity. Qed.

  Lemma assign_syms_other p sym r text st x :
    sym <> x -> lookup x (l_syms (assign ext final p sym r text st)) = lookup x (l_syms st).
  Proof.
    intro H. destruct (assign_cases p sym r text st) as [E|[[v [_ E]]|[e E]]]; rewrite E; try reflexivity.
    apply lookup_set_sym_other. assumption.
  Qed.

  Lemma assign_dot p sym r text st : l_dot (assign ext final p sym r text st) = l_dot st.
  Proof. destruct (assign_cases p sym r text st) as [E|[[v [_ E]]|[e E]]]; rewrite E; reflexivity. Qed.

  Lemma assign_secs p sym r text st : l_secs (assign ext final p sym r text st) = l_secs st.
  Proof. destruct (assign_cases p sym r text st) as [E|[[v [_ E]]|[e E]]]; rewrite E; reflexivity. Qed.

  Lemma assign_placed p sym r text st : l_placed (assign ext final p sym r text st) = l_placed st.
  Proof. destruct (assign_cases p sym r text st) as [E|[[v [_ E]]|[e E]]]; rewrite E; reflexivity. Qed.

  Lemma assign_remaining p sym r text st : l_remaining (assign ext final p sym r text st) = l_remaining st.
  Proof. destruct (assign_cases p sym r text st) as [E|[[v [_ E]]|[e E]]]; rewrite E; reflexivity. Qed.

  Lemma assign_discarded p sym r text st : l_discarded (assign ext final p sym r text st) = l_discarded st.
  Proof. destruct (assign_cases p sym r text st) as [E|[[v [_ E]]|[e E]]]; rewrite E; reflexivity. Qed.

  Lemma assign_errors p sym r text st :
    exists new, l_errors (assign ext final p sym r text st) = (l_errors st ++ new)%list.
  Proof.
    destruct (assign_cases p sym r text st) as [E|[[v [_ E]]|[e E]]]; rewrite E.
    - exists []. rewrite app_nil_r. reflexivity.
    - exists []. rewrite app_nil_r. reflexivity.
    - exists [e]. reflexivity.
  Qed.

  (* ---------- statements inside an output section ---------- *)

  Notation secs vma sub name := (exec_sec_stmt env senv ext final vma sub name).

  (* a view of the state that an input statement changes in a known way *)
  Lemma sec_stmt_cases vma sub name ss s :
    (exists p h r sym e, s = SAssign p h r sym e /\
        secs vma sub name ss s =
        SState (s_off ss) (s_contents ss)
               (assign ext final p sym (eval_expr env senv ext (s_st ss) (vma + s_off ss) e) (render_expr e) (s_st ss))) \/
    (exists k path member sect wild off' pls c, s = SInput k path member sect wild /\
        place vma sub name (filter (sel false path member sect wild) (l_remaining (s_st ss))) (s_off ss) []
              (s_contents ss) = (off', pls, c) /\
        secs vma sub name ss s =
        SState off' c
          (LState (l_dot (s_st ss)) (l_syms (s_st ss)) (l_provided (s_st ss)) (l_secs (s_st ss))
                  (l_placed (s_st ss) ++ pls)
                  (filter (fun u => negb (sel false path member sect wild u)) (l_remaining (s_st ss)))
                  (l_discarded (s_st ss)) (l_errors (s_st ss)))) \/
    (s_st (secs vma sub name ss s) = s_st ss /\
     (forall p h r sym e, s <> SAssign p h r sym e) /\ (forall k p m t w, s <> SInput k p m t w)).
  Proof.
    destruct s; try (right; right; repeat split; [intros; discriminate | intros; discriminate]).
    - left. repeat eexists.
    - right; right. repeat split; try (intros; discriminate). simpl. destruct (String.eqb sym "."); reflexivity.
    - right; left. simpl.
      destruct (place vma sub name (filter (sel false path member sect wild) (l_remaining (s_st ss))) (s_off ss) []
                      (s_contents ss)) as [[off' pls] c] eqn:E.
      exists keep, path, member, sect, wild, off', pls, c. auto.
  Qed.

  Lemma sec_stmt_syms vma sub name ss s x :
    assigns x s = false ->
    lookup x (l_syms (s_st (secs vma sub name ss s))) = lookup x (l_syms (s_st ss)).
  Proof.
    intro H. destruct (sec_stmt_cases vma sub name ss s)
      as [[p [h [r [sym [e [Es E]]]]]] | [[k [path [member [sect [wild [off' [pls [c [Es [Ep E]]]]]]]]]] | [E _]]].
    - subst s. rewrite E. simpl in *. apply assign_syms_other. apply String.eqb_neq. assumption.
    - rewrite E. reflexivity.
    - rewrite E. reflexivity.
  Qed.

  Lemma sec_stmt_dot vma sub name ss s : l_dot (s_st (secs vma sub name ss s)) = l_dot (s_st ss).
  Proof.
    destruct (sec_stmt_cases vma sub name ss s)
      as [[p [h [r [sym [e [Es E]]]]]] | [[k [path [member [sect [wild [off' [pls [c [Es [Ep E]]]]]]]]]] | [E _]]];
      rewrite E; try reflexivity. apply assign_dot.
  Qed.

  Lemma sec_stmt_secs vma sub name ss s : l_secs (s_st (secs vma sub name ss s)) = l_secs (s_st ss).
  Proof.
    destruct (sec_stmt_cases vma sub name ss s)
      as [[p [h [r [sym [e [Es E]]]]]] | [[k [path [member [sect [wild [off' [pls [c [Es [Ep E]]]]]]]]]] | [E _]]];
      rewrite E; try reflexivity. apply assign_secs.
  Qed.

  Lemma sec_stmt_errors vma sub name ss s :
    exists new, l_errors (s_st (secs vma sub name ss s)) = (l_errors (s_st ss) ++ new)%list.
  Proof.
    destruct (sec_stmt_cases vma sub name ss s)
      as [[p [h [r [sym [e [Es E]]]]]] | [[k [path [member [sect [wild [off' [pls [c [Es [Ep E]]]]]]]]]] | [E _]]];
      rewrite E; try (exists []; rewrite app_nil_r; reflexivity). apply assign_errors.
  Qed.

  Lemma sec_fold_syms vma sub name body x : forall ss,
    existsb (assigns x) body = false ->
    lookup x (l_syms (s_st (fold_left (secs vma sub name) body ss))) = lookup x (l_syms (s_st ss)).
  Proof.
    induction body as [|s body IH]; intros ss H; [reflexivity|]. simpl in H. apply orb_false_iff in H.
    destruct H as [H1 H2]. simpl. rewrite IH by assumption. apply sec_stmt_syms. assumption.
  Qed.

  Lemma sec_fold_dot vma sub name body : forall ss,
    l_dot (s_st (fold_left (secs vma sub name) body ss)) = l_dot (s_st ss).
  Proof. induction body as [|s body IH]; intro ss; [reflexivity|]. simpl. rewrite IH. apply sec_stmt_dot. Qed.

  Lemma sec_fold_secs vma sub name body : forall ss,
    l_secs (s_st (fold_left (secs vma sub name) body ss)) = l_secs (s_st ss).
  Proof. induction body as [|s body IH]; intro ss; [reflexivity|]. simpl. rewrite IH. apply sec_stmt_secs. Qed.

  Lemma sec_fold_errors vma sub name body : forall ss,
    exists new, l_errors (s_st (fold_left (secs vma sub name) body ss)) = (l_errors (s_st ss) ++ new)%list.
  Proof.
    induction body as [|s body IH]; intro ss; [exists []; rewrite app_nil_r; reflexivity|]. simpl.
    destruct (IH (secs vma sub name ss s)) as [n1 E1]. destruct (sec_stmt_errors vma sub name ss s) as [n2 E2].
    exists (n2 ++ n1)%list. rewrite E1, E2, app_assoc. reflexivity.
  Qed.

  (* ---------- an output section ---------- *)

  Definition outsec_vma (addr : option expr) (sub : option N) (body : list stmt) (st : lstate) : res Z :=
    match addr with
    | Some e => eval_expr env senv ext st (l_dot st) e
    | None => Ok (align_up (l_dot st) (body_align (option_map Z.of_N sub) body (l_remaining st) 1))
    end.

  Definition outsec_body (name : string) (sub : option N) (body : list stmt) (vma : Z) (st : lstate) : sstate :=
    fold_left (secs vma (option_map Z.of_N sub) name) body (SState 0 false st).

  Lemma exec_outsec_err name addr at_ noload sub body st e :
    outsec_vma addr sub body st = Err e ->
    exec_outsec env senv ext final name addr at_ noload sub body st = add_err (LForwardRef name) st.
  Proof. unfold outsec_vma, exec_outsec. intro H. cbv zeta. rewrite H. reflexivity. Qed.

  Lemma exec_outsec_ok name addr at_ noload sub body st vma :
    outsec_vma addr sub body st = Ok vma ->
    let ss := outsec_body name sub body vma st in
    let st' := exec_outsec env senv ext final name addr at_ noload sub body st in
    l_dot st' = vma + s_off ss /\
    l_syms st' = l_syms (s_st ss) /\
    l_provided st' = l_provided (s_st ss) /\
    l_secs st' = (l_secs st ++
                  [OSec name vma (s_off ss)
                        (match at_ with Some s => sym_lookup s (s_st ss) env ext | None => None end)
                        noload (s_contents ss && negb noload)])%list /\
    l_placed st' = l_placed (s_st ss) /\
    l_remaining st' = l_remaining (s_st ss) /\
    l_discarded st' = l_discarded (s_st ss) /\
    (l_errors st' = l_errors (s_st ss) \/ l_errors st' = (l_errors (s_st ss) ++ [LIrregular name])%list).
  Proof.
    unfold outsec_vma, exec_outsec, outsec_body. intro H. cbv zeta. rewrite H.
    set (ss := fold_left _ body _).
    assert (Hsecs : l_secs (s_st ss) = l_secs st) by (unfold ss; rewrite sec_fold_secs; reflexivity).
    match goal with |- context [if ?c then _ else _] => destruct c end; cbn [l_dot l_syms l_provided l_secs
      l_placed l_remaining l_discarded l_errors add_err]; rewrite Hsecs;
      repeat split; try reflexivity; try (destruct at_; reflexivity); auto.
  Qed.

  Lemma exec_outsec_syms name addr at_ noload sub body st x :
    existsb (assigns x) body = false ->
    lookup x (l_syms (exec_outsec env senv ext final name addr at_ noload sub body st)) = lookup x (l_syms st).
  Proof.
    intro H. destruct (outsec_vma addr sub body st) as [vma|e] eqn:E.
    - destruct (exec_outsec_ok name addr at_ noload sub body st vma E) as [_ [Hs _]]. rewrite Hs.
      unfold outsec_body. rewrite sec_fold_syms by assumption. reflexivity.
    - rewrite (exec_outsec_err _ _ _ _ _ _ _ _ E). reflexivity.
  Qed.

  Lemma exec_outsec_errors name addr at_ noload sub body st :
    exists new, l_errors (exec_outsec env senv ext final name addr at_ noload sub body st) = (l_errors st ++ new)%list.
  Proof.
    destruct (outsec_vma addr sub body st) as [vma|e] eqn:E.
    - destruct (exec_outsec_ok name addr at_ noload sub body st vma E) as [_ [_ [_ [_ [_ [_ [_ He]]]]]]].
      unfold outsec_body in He. destruct (sec_fold_errors (vma) (option_map Z.of_N sub) name body (SState 0 false st)) as [n En].
      cbn [s_st] in En. destruct He as [He|He]; rewrite He, En.
      + eauto.
      + rewrite <- app_assoc. eauto.
    - rewrite (exec_outsec_err _ _ _ _ _ _ _ _ E). exists [LForwardRef name]. reflexivity.
  Qed.

  (* the sections of a state only grow *)
  Lemma exec_outsec_secs name addr at_ noload sub body st :
    exists new, l_secs (exec_outsec env senv ext final name addr at_ noload sub body st) = (l_secs st ++ new)%list /\
                Forall (fun o => os_name o = name) new.
  Proof.
    destruct (outsec_vma addr sub body st) as [vma|e] eqn:E.
    - destruct (exec_outsec_ok name addr at_ noload sub body st vma E) as [_ [_ [_ [Hs _]]]]. rewrite Hs.
      eexists. split; [reflexivity|]. repeat constructor.
    - rewrite (exec_outsec_err _ _ _ _ _ _ _ _ E). exists []. rewrite app_nil_r. split; [reflexivity|constructor].
  Qed.

  (* ---------- top-level statements ---------- *)

  Lemma top_syms st s x :
    assigns x s = false -> lookup x (l_syms (top st s)) = lookup x (l_syms st).
  Proof.
    intro H. destruct s; try reflexivity; cbn [exec_top_stmt].
    - cbn [assigns] in H. destruct (String.eqb sym ".").
      + destruct (eval_expr env senv ext st (l_dot st) e); reflexivity.
      + apply assign_syms_other. apply String.eqb_neq. assumption.
    - cbn [assigns] in H. destruct (String.eqb sym "."); [reflexivity|].
      destruct (sym_lookup sym st env ext); [|reflexivity].
      apply lookup_set_sym_other. apply String.eqb_neq. assumption.
    - cbn [assigns] in H.
      destruct (sym_lookup sym st env ext); [destruct (sym_lookup other st env ext)|];
        try (destruct final; reflexivity).
      apply lookup_set_sym_other. apply String.eqb_neq. assumption.
    - cbn [assigns] in H.
      destruct (sym_lookup "__romPos" st env ext); [destruct (sec_lookup sec st senv)|];
        try (destruct final; reflexivity).
      apply lookup_set_sym_other. apply String.eqb_neq. assumption.
    - cbn [assigns] in H. apply exec_outsec_syms. assumption.
    - destruct (place 0 None sect _ 0 [] false) as [[off' pls] c]. reflexivity.
    - destruct (eval_raw env ext st cond) as [v|e]; [destruct (v =? 0); reflexivity|].
      destruct e; destruct final; reflexivity.
  Qed.

  Lemma run_syms l x : forall st,
    existsb (assigns x) l = false -> lookup x (l_syms (runl l st)) = lookup x (l_syms st).
  Proof.
    induction l as [|s l IH]; intros st H; [reflexivity|]. simpl in H. apply orb_false_iff in H.
    destruct H as [H1 H2]. rewrite run_cons, IH by assumption. apply top_syms. assumption.
  Qed.

  (* statements that leave "." where it is *)
  Definition keeps_dot (s : stmt) : bool :=
    match s with
    | SAssign _ _ _ sym _ => negb (String.eqb sym ".")
    | SAlign sym _ => negb (String.eqb sym ".")
    | SOutSec _ _ _ _ _ _ | SSingleEntry _ => false
    | _ => true
    end.

  Lemma top_dot st s : keeps_dot s = true -> l_dot (top st s) = l_dot st.
  Proof.
    intro H. destruct s; try reflexivity; try discriminate; cbn [exec_top_stmt]; cbn [keeps_dot] in H.
    - destruct (String.eqb sym "."); [discriminate|]. apply assign_dot.
    - destruct (String.eqb sym "."); [discriminate|]. destruct (sym_lookup sym st env ext); reflexivity.
    - destruct (sym_lookup sym st env ext); [destruct (sym_lookup other st env ext)|];
        try (destruct final; reflexivity).
    - destruct (sym_lookup "__romPos" st env ext); [destruct (sec_lookup sec st senv)|];
        try (destruct final; reflexivity).
    - destruct (eval_raw env ext st cond) as [v|e]; [destruct (v =? 0); reflexivity|].
      destruct e; destruct final; reflexivity.
  Qed.

  Lemma run_dot l : forall st, forallb keeps_dot l = true -> l_dot (runl l st) = l_dot st.
  Proof.
    induction l as [|s l IH]; intros st H; [reflexivity|]. simpl in H. apply andb_true_iff in H.
    destruct H as [H1 H2]. rewrite run_cons, IH by assumption. apply top_dot. assumption.
  Qed.

  (* the output sections a statement creates *)
  Definition makes_sec (s : stmt) : list string :=
    match s with
    | SOutSec name _ _ _ _ _ => [name]
    | SSingleEntry sect => [sect]
    | _ => []
    end.

  Lemma top_secs st s :
    exists new, l_secs (top st s) = (l_secs st ++ new)%list /\
                Forall (fun o => In (os_name o) (makes_sec s)) new.
  Proof.
    assert (Hsame : l_secs (top st s) = l_secs st -> exists new, l_secs (top st s) = (l_secs st ++ new)%list /\
                Forall (fun o => In (os_name o) (makes_sec s)) new).
    { intro E. exists []. rewrite app_nil_r. split; [assumption|constructor]. }
    destruct s; try (apply Hsame; reflexivity); cbn [exec_top_stmt].
    - apply Hsame. cbn [exec_top_stmt]. destruct (String.eqb sym ".").
      + destruct (eval_expr env senv ext st (l_dot st) e); reflexivity.
      + apply assign_secs.
    - apply Hsame. cbn [exec_top_stmt]. destruct (String.eqb sym "."); [reflexivity|].
      destruct (sym_lookup sym st env ext); reflexivity.
    - apply Hsame. cbn [exec_top_stmt].
      destruct (sym_lookup sym st env ext); [destruct (sym_lookup other st env ext)|];
        try (destruct final; reflexivity).
    - apply Hsame. cbn [exec_top_stmt].
      destruct (sym_lookup "__romPos" st env ext); [destruct (sec_lookup sec st senv)|];
        try (destruct final; reflexivity).
    - destruct (exec_outsec_secs name addr at_ noload sub body st) as [new [E F]]. exists new.
      split; [assumption|]. eapply Forall_impl; [|exact F]. intros o Ho. left. symmetry. assumption.
    - destruct (place 0 None sect _ 0 [] false) as [[off' pls] c]. eexists. split; [reflexivity|].
      constructor; [left; reflexivity|constructor].
    - apply Hsame. cbn [exec_top_stmt].
      destruct (eval_raw env ext st cond) as [v|e]; [destruct (v =? 0); reflexivity|].
      destruct e; destruct final; reflexivity.
  Qed.

  Lemma run_secs l : forall st,
    exists new, l_secs (runl l st) = (l_secs st ++ new)%list /\
                Forall (fun o => In (os_name o) (flat_map makes_sec l)) new.
  Proof.
    induction l as [|s l IH]; intro st.
    - exists []. rewrite app_nil_r. split; [reflexivity|constructor].
    - rewrite run_cons. destruct (IH (top st s)) as [n1 [E1 F1]]. destruct (top_secs st s) as [n2 [E2 F2]].
      exists (n2 ++ n1)%list. rewrite E1, E2, app_assoc. split; [reflexivity|].
      cbn [flat_map]. apply Forall_app; split.
      + eapply Forall_impl; [|exact F2]. intros o Ho. apply in_or_app. left. assumption.
      + eapply Forall_impl; [|exact F1]. intros o Ho. apply in_or_app. right. assumption.
  Qed.

  Lemma top_errors st s : exists new, l_errors (top st s) = (l_errors st ++ new)%list.
  Proof.
    assert (Hsame : l_errors (top st s) = l_errors st -> exists new, l_errors (top st s) = (l_errors st ++ new)%list).
    { intro E. exists []. rewrite app_nil_r. assumption. }
    assert (Hadd : forall e st0, exists new, l_errors (add_err e st0) = (l_errors st0 ++ new)%list).
    { intros e st0. exists [e]. reflexivity. }
    destruct s; try (apply Hsame; reflexivity); cbn [exec_top_stmt].
    - destruct (String.eqb sym ".").
      + destruct (eval_expr env senv ext st (l_dot st) e); [exists []; rewrite app_nil_r; reflexivity | apply Hadd].
      + apply assign_errors.
    - apply Hsame. cbn [exec_top_stmt]. destruct (String.eqb sym "."); [reflexivity|].
      destruct (sym_lookup sym st env ext); reflexivity.
    - destruct (sym_lookup sym st env ext); [destruct (sym_lookup other st env ext)|];
        try (destruct final; [apply Hadd | exists []; rewrite app_nil_r; reflexivity]).
      exists []; rewrite app_nil_r; reflexivity.
    - destruct (sym_lookup "__romPos" st env ext); [destruct (sec_lookup sec st senv)|];
        try (destruct final; [apply Hadd | exists []; rewrite app_nil_r; reflexivity]).
      exists []; rewrite app_nil_r; reflexivity.
    - apply exec_outsec_errors.
    - destruct (place 0 None sect _ 0 [] false) as [[off' pls] c]. exists []; rewrite app_nil_r; reflexivity.
    - destruct (eval_raw env ext st cond) as [v|e].
      + destruct (v =? 0); [apply Hadd | exists []; rewrite app_nil_r; reflexivity].
      + destruct e; try (destruct final; [apply Hadd | exists []; rewrite app_nil_r; reflexivity]). apply Hadd.
  Qed.

  Lemma run_errors l : forall st, exists new, l_errors (runl l st) = (l_errors st ++ new)%list.
  Proof.
    induction l as [|s l IH]; intro st; [exists []; rewrite app_nil_r; reflexivity|].
    rewrite run_cons. destruct (IH (top st s)) as [n1 E1]. destruct (top_errors st s) as [n2 E2].
    exists (n2 ++ n1)%list. rewrite E1, E2, app_assoc. reflexivity.
  Qed.

  Lemma run_errors_in l st e : In e (l_errors st) -> In e (l_errors (runl l st)).
  Proof. intro H. destruct (run_errors l st) as [new E]. rewrite E. apply in_or_app. left. assumption. Qed.

  (* a section found in a state is still found, the same, after more statements *)
  Lemma find_sec_app name l1 l2 o : find_sec name l1 = Some o -> find_sec name (l1 ++ l2) = Some o.
  Proof.
    unfold find_sec. induction l1 as [|a l1 IH]; simpl; [discriminate|].
    destruct (String.eqb (os_name a) name); auto.
  Qed.

  Lemma find_sec_app_none name l1 l2 : find_sec name l1 = None -> find_sec name (l1 ++ l2) = find_sec name l2.
  Proof.
    unfold find_sec. induction l1 as [|a l1 IH]; simpl; [reflexivity|].
    destruct (String.eqb (os_name a) name); [discriminate|auto].
  Qed.

  Lemma find_sec_none_names name l : ~ In name (map os_name l) -> find_sec name l = None.
  Proof.
    unfold find_sec. induction l as [|a l IH]; simpl; intro H; [reflexivity|].
    destruct (String.eqb (os_name a) name) eqn:E; [apply String.eqb_eq in E; tauto|]. apply IH. tauto.
  Qed.

  Lemma run_find_sec l st name o :
    find_sec name (l_secs st) = Some o -> find_sec name (l_secs (runl l st)) = Some o.
  Proof. intro H. destruct (run_secs l st) as [new [E _]]. rewrite E. apply find_sec_app. assumption. Qed.

  Lemma run_find_sec_none l st name :
    find_sec name (l_secs st) = None -> ~ In name (flat_map makes_sec l) ->
    find_sec name (l_secs (runl l st)) = None.
  Proof.
    intros H Hn. destruct (run_secs l st) as [new [E F]]. rewrite E, find_sec_app_none by assumption.
    apply find_sec_none_names. intro Hin. apply in_map_iff in Hin. destruct Hin as [o [Eo Hin]].
    rewrite Forall_forall in F. apply F in Hin. rewrite Eo in Hin. contradiction.
  Qed.
End Frames.

(* ---------- what is still unplaced only shrinks; offsets only grow ---------- *)

Section Remaining.
  Variables (env : list (string * Z)) (senv : list osec) (ext : list (string * Z)) (final : bool).

  Notation top := (exec_top_stmt env senv ext final).
  Notation runl := (run env senv ext final).
  Notation secs vma sub name := (exec_sec_stmt env senv ext final vma sub name).

  Lemma filter_true {A} (l : list A) : filter (fun _ => true) l = l.
  Proof. induction l as [|a l IH]; simpl; congruence. Qed.

  Lemma sec_stmt_remaining vma sub name ss s :
    exists f, l_remaining (s_st (secs vma sub name ss s)) = filter f (l_remaining (s_st ss)).
  Proof.
    destruct (sec_stmt_cases env senv ext final vma sub name ss s)
      as [[p [h [r [sym [e [Es E]]]]]] | [[k [path [member [sect [wild [off' [pls [c [Es [Ep E]]]]]]]]]] | [E _]]];
      rewrite E.
    - exists (fun _ => true). cbn [s_st]. rewrite assign_remaining, filter_true. reflexivity.
    - eexists. reflexivity.
    - exists (fun _ => true). rewrite filter_true. reflexivity.
  Qed.

  Lemma sec_fold_remaining vma sub name body : forall ss,
    exists f, l_remaining (s_st (fold_left (secs vma sub name) body ss)) = filter f (l_remaining (s_st ss)).
  Proof.
    induction body as [|s body IH]; intro ss.
    - exists (fun _ => true). rewrite filter_true. reflexivity.
    - cbn [fold_left]. destruct (IH (secs vma sub name ss s)) as [f1 E1].
      destruct (sec_stmt_remaining vma sub name ss s) as [f2 E2]. rewrite E1, E2, filter_filter. eexists. reflexivity.
  Qed.

  Lemma top_remaining st s : exists f, l_remaining (top st s) = filter f (l_remaining st).
  Proof.
    assert (Hsame : l_remaining (top st s) = l_remaining st ->
                    exists f, l_remaining (top st s) = filter f (l_remaining st)).
    { intro E. exists (fun _ => true). rewrite filter_true. assumption. }
    destruct s; try (apply Hsame; reflexivity); cbn [exec_top_stmt].
    - apply Hsame. cbn [exec_top_stmt]. destruct (String.eqb sym ".").
      + destruct (eval_expr env senv ext st (l_dot st) e); reflexivity.
      + apply assign_remaining.
    - apply Hsame. cbn [exec_top_stmt]. destruct (String.eqb sym "."); [reflexivity|].
      destruct (sym_lookup sym st env ext); reflexivity.
    - apply Hsame. cbn [exec_top_stmt].
      destruct (sym_lookup sym st env ext); [destruct (sym_lookup other st env ext)|];
        try (destruct final; reflexivity).
    - apply Hsame. cbn [exec_top_stmt].
      destruct (sym_lookup "__romPos" st env ext); [destruct (sec_lookup sec st senv)|];
        try (destruct final; reflexivity).
    - destruct (outsec_vma env senv ext addr sub body st) as [vma|e] eqn:E.
      + destruct (exec_outsec_ok env senv ext final name addr at_ noload sub body st vma E)
          as [_ [_ [_ [_ [_ [Hr _]]]]]]. rewrite Hr. unfold outsec_body.
        destruct (sec_fold_remaining vma (option_map Z.of_N sub) name body (SState 0 false st)) as [f Ef].
        exists f. exact Ef.
      + rewrite (exec_outsec_err _ _ _ _ _ _ _ _ _ _ _ _ E). exists (fun _ => true). rewrite filter_true. reflexivity.
    - destruct (place 0 None sect _ 0 [] false) as [[off' pls] c]. eexists. reflexivity.
    - eexists. reflexivity.
    - apply Hsame. cbn [exec_top_stmt].
      destruct (eval_raw env ext st cond) as [v|e]; [destruct (v =? 0); reflexivity|].
      destruct e; destruct final; reflexivity.
  Qed.

  Lemma run_remaining l : forall st, exists f, l_remaining (runl l st) = filter f (l_remaining st).
  Proof.
    induction l as [|s l IH]; intro st.
    - exists (fun _ => true). rewrite filter_true. reflexivity.
    - rewrite run_cons. destruct (IH (top st s)) as [f1 E1]. destruct (top_remaining st s) as [f2 E2].
      rewrite E1, E2, filter_filter. eexists. reflexivity.
  Qed.

  Lemma Forall_filter {A} (P : A -> Prop) f l : Forall P l -> Forall P (filter f l).
  Proof. induction 1 as [|a l Ha Hl IH]; simpl; [constructor|]. destruct (f a); [constructor|]; assumption. Qed.

  Lemma run_remaining_Forall (P : usec -> Prop) l st :
    Forall P (l_remaining st) -> Forall P (l_remaining (runl l st)).
  Proof. intro H. destruct (run_remaining l st) as [f E]. rewrite E. apply Forall_filter. assumption. Qed.

  Definition sizes_ok (st : lstate) : Prop := Forall (fun u => 0 <= u_size u) (l_remaining st).

  Lemma sec_stmt_off vma sub name ss s :
    sizes_ok (s_st ss) ->
    s_off ss <= s_off (secs vma sub name ss s) /\ sizes_ok (s_st (secs vma sub name ss s)).
  Proof.
    intro H. split.
    2:{ unfold sizes_ok. destruct (sec_stmt_remaining vma sub name ss s) as [f E]. rewrite E.
        apply Forall_filter. assumption. }
    destruct s; try (cbn [exec_sec_stmt s_off]; lia).
    - cbn [exec_sec_stmt]. destruct (String.eqb sym "."); cbn [s_off]; [apply align_up_le | lia].
    - cbn [exec_sec_stmt].
      destruct (place vma sub name (filter (sel false path member sect wild) (l_remaining (s_st ss))) (s_off ss) []
                      (s_contents ss)) as [[off' pls] c] eqn:E.
      cbn [s_off]. apply place_spec in E; [tauto|]. apply Forall_filter. assumption.
  Qed.

  Lemma sec_fold_off vma sub name body : forall ss,
    sizes_ok (s_st ss) -> s_off ss <= s_off (fold_left (secs vma sub name) body ss).
  Proof.
    induction body as [|s body IH]; intros ss H; [cbn; lia|]. cbn [fold_left].
    destruct (sec_stmt_off vma sub name ss s H) as [H1 H2]. specialize (IH _ H2). lia.
  Qed.

  Lemma outsec_body_off name sub body vma st :
    sizes_ok st -> 0 <= s_off (outsec_body env senv ext final name sub body vma st).
  Proof. intro H. unfold outsec_body. apply (sec_fold_off vma (option_map Z.of_N sub) name body (SState 0 false st)). exact H. Qed.
End Remaining.

(* ====================================================================== *)
(* generated names: how they end                                           *)
(* ====================================================================== *)

Lemma append_nil_r s : (s ++ "")%string = s.
Proof. induction s as [|c s IH]; simpl; [reflexivity|]. rewrite IH. reflexivity. Qed.

Lemma append_assoc a b c : ((a ++ b) ++ c)%string = (a ++ (b ++ c))%string.
Proof. induction a as [|x a IH]; simpl; [reflexivity|]. rewrite IH. reflexivity. Qed.

Lemma last_char_app a b : b <> ""%string -> last_char (a ++ b) = last_char b.
Proof.
  intro H. induction a as [|c a IH]; [reflexivity|]. cbn [append last_char]. rewrite IH.
  destruct (a ++ b)%string eqn:E; [|reflexivity].
  destruct a; simpl in E; [contradiction|discriminate].
Qed.

Lemma fmt_ends pieces : forall args, pieces <> [] -> exists pre, fmt pieces args = (pre ++ last pieces "")%string.
Proof.
  induction pieces as [|p ps IH]; intros args H; [contradiction|].
  destruct ps as [|p2 ps'].
  - exists ""%string. destruct args; cbn [fmt last]; [apply append_nil_r | reflexivity].
  - assert (Hne : p2 :: ps' <> []) by discriminate.
    destruct args as [|a rest].
    + destruct (IH [] Hne) as [pre E]. exists (p ++ pre)%string.
      change (fmt (p :: p2 :: ps') []) with (p ++ fmt (p2 :: ps') [])%string. rewrite E, append_assoc. reflexivity.
    + destruct (IH rest Hne) as [pre E]. exists (p ++ a ++ pre)%string.
      change (fmt (p :: p2 :: ps') (a :: rest)) with (p ++ a ++ fmt (p2 :: ps') rest)%string.
      rewrite E, !append_assoc. reflexivity.
Qed.

Definition style_last_ok (c : ascii) : bool :=
  existsb (Ascii.eqb c) ["T"; "D"; "E"; "M"; "t"; "d"; "e"]%char.

Definition ends_ok (s : string) : bool :=
  match last_char s with Some c => style_last_ok c | None => false end.

Lemma templates_end_ok :
  Forall (fun tpl => ends_ok (last (fst tpl) "") = true /\ ends_ok (last (snd tpl) "") = true) all_templates.
Proof. repeat constructor. Qed.

Lemma style_name_ends sty s : style_name sty s -> ends_ok s = true.
Proof.
  intros [tpl [args [Hin E]]]. subst.
  pose proof templates_end_ok as T. rewrite Forall_forall in T. destruct (T tpl Hin) as [T1 T2].
  assert (Hp : ends_ok (last (pick sty tpl) "") = true) by (destruct sty; assumption).
  assert (Hne : pick sty tpl <> []).
  { intro E. rewrite E in Hp. discriminate. }
  destruct (fmt_ends (pick sty tpl) args Hne) as [pre E]. rewrite E. unfold ends_ok in *.
  rewrite last_char_app; [assumption|]. intro E0. rewrite E0 in Hp. discriminate.
Qed.

(* a generated name is never a name that ends differently: "__romPos", ".", "_gp" ... *)
Lemma style_name_neq sty s x : style_name sty s -> ends_ok x = false -> s <> x.
Proof. intros H Hx E. subst. rewrite (style_name_ends sty x H) in Hx. discriminate. Qed.

Lemma style_name_eqb sty s x : style_name sty s -> ends_ok x = false -> String.eqb s x = false.
Proof. intros H Hx. apply String.eqb_neq. eapply style_name_neq; eassumption. Qed.

Lemma segment_rom_start_not_rompos sty n : segment_rom_start sty n <> "__romPos"%string.
Proof. apply (style_name_neq sty); [sn | reflexivity]. Qed.

Lemma segment_rom_start_not_dot sty n : segment_rom_start sty n <> "."%string.
Proof. apply (style_name_neq sty); [sn | reflexivity]. Qed.

(* ====================================================================== *)
(* a name no generated symbol can have is assigned nowhere in the groups   *)
(* ====================================================================== *)

Lemma existsb_false_Forall {A} (f : A -> bool) l : existsb f l = false <-> Forall (fun s => f s = false) l.
Proof.
  induction l as [|a l IH]; simpl; [split; [constructor|reflexivity]|].
  rewrite orb_false_iff, IH. split; [intros [H1 H2]; constructor; assumption | intro H; inversion H; auto].
Qed.

Lemma no_assign_Forall x l : no_assign x l = true <-> Forall (fun s => assigns x s = false) l.
Proof. unfold no_assign. rewrite negb_true_iff. apply existsb_false_Forall. Qed.

Section FreshName.
  Variable x : string.
  Hypothesis x_end : ends_ok x = false.
  Hypothesis x_gp : x <> "_gp"%string.
  Hypothesis x_dot : x <> "."%string.

  Definition nf (s : stmt) : Prop := assigns x s = false.

  Lemma nf_linker sty sym e : style_name sty sym -> nf (linker_symbol sym e).
  Proof. intro H. unfold nf, linker_symbol. cbn [assigns]. eapply style_name_eqb; eassumption. Qed.

  Lemma nf_dot n : nf (SAlign "." n).
  Proof. unfold nf. cbn [assigns]. apply String.eqb_neq. congruence. Qed.

  Lemma nf_gp p h r e : nf (SAssign p h r "_gp" e).
  Proof. unfold nf. cbn [assigns]. apply String.eqb_neq. congruence. Qed.

  Ltac nf_leaf :=
    repeat match goal with
           | |- Forall _ (_ ++ _) => apply Forall_app; split
           | |- Forall _ (match ?x with _ => _ end) => destruct x
           | |- Forall _ (if ?x then _ else _) => destruct x
           | |- Forall _ (_ :: _) => constructor
           | |- Forall _ [] => constructor
           | |- nf (linker_symbol _ _) => eapply nf_linker; sn
           | |- nf (SAlign "." _) => apply nf_dot
           | |- nf (SAssign _ _ _ "_gp" _) => apply nf_gp
           | |- nf _ => reflexivity
           end.

  Lemma nf_opt_align a : Forall nf (opt_align a).
  Proof. unfold opt_align. nf_leaf. Qed.

  Lemma nf_gp_stmt rt seg section : Forall nf (gp_stmt rt seg section).
  Proof. unfold gp_stmt. nf_leaf. Qed.

  Lemma nf_section_symbol_start rt sty cfg seg section : Forall nf (section_symbol_start rt sty cfg seg section).
  Proof.
    unfold section_symbol_start. destruct (section_syms cfg); [|constructor].
    fa; try apply nf_opt_align; try apply nf_gp_stmt. nf_leaf.
  Qed.

  Lemma nf_section_symbol_end sty cfg seg section : Forall nf (section_symbol_end sty cfg seg section).
  Proof.
    unfold section_symbol_end. destruct (section_syms cfg); [|constructor].
    fa; try apply nf_opt_align. unfold sym_end_size. nf_leaf.
  Qed.

  Lemma nf_kind_start sty cfg seg noload : Forall nf (sections_kind_start sty cfg seg noload).
  Proof. unfold sections_kind_start. nf_leaf. Qed.

  Lemma nf_kind_end sty cfg seg noload : Forall nf (sections_kind_end sty cfg seg noload).
  Proof. unfold sections_kind_end, sym_end_size. nf_leaf. Qed.

  Lemma nf_opt_fill seg : Forall nf (opt_fill seg).
  Proof. unfold opt_fill. nf_leaf. Qed.

  Lemma nf_class_start st c cn : Forall nf (class_start_stmts st c cn).
  Proof.
    unfold class_start_stmts. apply Forall_app; split; [|nf_leaf].
    destruct (vc_fixed_vram c); [nf_leaf|]. destruct (vc_fixed_symbol c); [nf_leaf|].
    constructor; [eapply nf_linker; sn|]. apply Forall_map_intro. intro o. unfold nf. cbn [assigns].
    apply (style_name_eqb (linker_symbols_style st)); [sn|assumption].
  Qed.

  Lemma nf_emitter sty wild offs g : emitter sty wild offs g ->
    forall ws s ws', g ws = Ok (s, ws') -> Forall nf s.
  Proof.
    apply (emitter_rel sty wild offs (fun _ s _ => Forall nf s)); intros.
    - constructor.
    - apply Forall_app; split; assumption.
    - repeat constructor.
    - repeat constructor.
    - constructor; [|constructor]. apply (nf_linker sty). sn.
  Qed.

  Lemma nf_emit_section rt sty cfg seg sections base section ws s ws' :
    emit_section rt sty cfg seg sections base section ws = Ok (s, ws') -> Forall nf s.
  Proof. apply (nf_emitter sty (wildcard_sections seg) (offs_of_segment rt seg)). apply emit_section_emitter. Qed.

  Lemma nf_part_groups rt st cfg seg sections rest : forall ws s ws',
    part_groups rt st cfg seg sections rest ws = Ok (s, ws') -> Forall nf s.
  Proof.
    induction rest as [|section rest IH]; intros ws s ws' H.
    - apply ok_inj in H. inversion H; subst. constructor.
    - apply part_groups_cons in H. destruct H as [s1 [ws1 [s2 [E1 [E2 E]]]]]. subst.
      fa.
      + apply nf_section_symbol_start.
      + eapply nf_emit_section; eassumption.
      + apply nf_section_symbol_end.
      + nf_leaf.
      + eapply IH; eassumption.
  Qed.

  Lemma nf_outsec name addr at_ noload sub body : Forall nf body -> nf (SOutSec name addr at_ noload sub body).
  Proof. intro H. unfold nf. cbn [assigns]. apply existsb_false_Forall. exact H. Qed.

  Lemma nf_write_segment rt st cfg seg sections noload ws s ws' :
    write_segment rt st cfg seg sections noload ws = Ok (s, ws') -> Forall nf s.
  Proof.
    intro H. apply write_segment_inv in H. destruct H as [body [E H]]. subst.
    fa; [apply nf_kind_start | | apply nf_kind_end].
    constructor; [|constructor]. apply nf_outsec. apply Forall_app; split; [apply nf_opt_fill|].
    eapply nf_part_groups; eassumption.
  Qed.

  Lemma nf_single_groups rt st cfg seg sections noload rest : forall ws s ws',
    single_groups rt st cfg seg sections noload rest ws = Ok (s, ws') -> Forall nf s.
  Proof.
    induction rest as [|section rest IH]; intros ws s ws' H.
    - apply ok_inj in H. inversion H; subst. constructor.
    - apply single_groups_cons in H. destruct H as [s1 [ws1 [s2 [E1 [E2 E]]]]]. subst.
      fa.
      + apply nf_section_symbol_start.
      + constructor; [|constructor]. apply nf_outsec.
        apply Forall_app; split; [apply nf_opt_fill|]. eapply nf_emit_section; eassumption.
      + apply nf_section_symbol_end.
      + nf_leaf.
      + eapply IH; eassumption.
  Qed.

  Lemma nf_class_part st classes seg ws cls ws1 :
    class_part st classes seg ws = Ok (cls, ws1) -> Forall nf cls.
  Proof.
    intro Ec. apply class_part_inv in Ec. destruct Ec as [[E _] | [cn [c [_ [_ [_ [E _]]]]]]]; subst;
      [constructor | apply nf_class_start].
  Qed.

  Lemma nf_end_sections st classes ws : Forall nf (end_sections_body st classes ws).
  Proof.
    rewrite end_sections_layout.
    assert (Hparts : Forall (Forall nf)
                       [tail_sizes st classes ws; tail_allow st; tail_extra st; tail_discard st]).
    { repeat constructor.
      - apply Forall_map_intro. intro cn. eapply nf_linker. sn.
      - apply Forall_map_intro. reflexivity.
      - apply Forall_map_intro. reflexivity.
      - unfold tail_discard. nf_leaf. }
    induction Hparts as [|p r Hp Hr IH]; [constructor|]. simpl. destruct p as [|y p]; [exact IH|].
    apply Forall_app; split; [exact Hp|]. destruct (sep_concat r); [constructor|].
    constructor; [reflexivity | exact IH].
  Qed.
End FreshName.

(* ====================================================================== *)
(* C04, script level                                                       *)
(* ====================================================================== *)

Lemma eval_raw_0x0 env ext st : eval_raw env ext st "0x0" = Ok 0.
Proof. reflexivity. Qed.

Lemma begin_sections_rom st :
  begin_sections_body st = rom_init :: (hardcoded_gp_stmts st ++ [SBlank])%list.
Proof. reflexivity. Qed.

Lemma ends_rompos : ends_ok "__romPos" = false.
Proof. reflexivity. Qed.

Lemma rompos_gp : "__romPos"%string <> "_gp"%string.
Proof. discriminate. Qed.

Lemma rompos_dot : "__romPos"%string <> "."%string.
Proof. discriminate. Qed.

Notation rf := (nf "__romPos").

Lemma filter_none {A} (f : A -> bool) l : Forall (fun s => f s = false) l -> filter f l = [].
Proof. induction 1 as [|a l Ha Hl IH]; simpl; [reflexivity|]. rewrite Ha. assumption. Qed.

Lemma rf_filter l : Forall rf l -> filter (assigns "__romPos") l = [].
Proof. apply filter_none. Qed.

Lemma rf_linker sty sym e : style_name sty sym -> assigns "__romPos" (linker_symbol sym e) = false.
Proof. apply nf_linker. reflexivity. Qed.

Lemma rom_stmts_head st seg :
  filter (assigns "__romPos") (seg_head st seg) = rom_align (segment_start_align seg).
Proof.
  unfold seg_head. rewrite filter_app. cbn [filter].
  rewrite !(rf_linker (linker_symbols_style st)) by sn.
  destruct (segment_start_align seg); reflexivity.
Qed.

Lemma rom_stmts_foot st seg :
  filter (assigns "__romPos") (seg_foot st seg) = (SRomAdd (alloc_name seg) :: rom_align (segment_end_align seg))%list.
Proof.
  unfold seg_foot, sym_end_size. cbv zeta. rewrite !filter_app. cbn [filter].
  rewrite !(rf_linker (linker_symbols_style st)) by sn.
  assert (E : filter (assigns "__romPos")
                (match sg_vram_class seg with
                 | Some cn => [SBlank; SMaxSelf (vram_class_end (linker_symbols_style st) cn)
                                                (segment_vram_end (linker_symbols_style st) (sg_name seg))]
                 | None => [] end) = []).
  { destruct (sg_vram_class seg) as [cn|]; [|reflexivity]. cbn [filter assigns].
    rewrite (style_name_eqb (linker_symbols_style st)); [reflexivity | sn | reflexivity]. }
  rewrite E. destruct (segment_end_align seg); reflexivity.
Qed.

Lemma rom_stmts_add_segment rt st cfg classes seg ws s ws' :
  add_segment rt st cfg classes seg ws = Ok (s, ws') ->
  filter (assigns "__romPos") s = if should_emit rt (sg_conds seg) then segment_rom_stmts seg else [].
Proof.
  intro H. apply add_segment_inv in H.
  destruct H as [[Hc [E _]] | [Hc [cls [ws1 [s1 [ws2 [s2 [Ec [E1 [E2 E]]]]]]]]]]; subst; rewrite Hc; [reflexivity|].
  rewrite !filter_app, rom_stmts_head, rom_stmts_foot.
  rewrite (rf_filter cls) by (eapply nf_class_part; solve [eassumption | reflexivity | discriminate]).
  rewrite (rf_filter s1) by (eapply nf_write_segment; solve [eassumption | reflexivity | discriminate]).
  rewrite (rf_filter s2) by (eapply nf_write_segment; solve [eassumption | reflexivity | discriminate]).
  reflexivity.
Qed.

Lemma rom_stmts_fold rt st cfg classes segs : forall ws s ws',
  fold_out (add_segment rt st cfg classes) segs ws = Ok (s, ws') ->
  filter (assigns "__romPos") s = flat_map segment_rom_stmts (included rt segs).
Proof.
  induction segs as [|seg r IH]; intros ws s ws' H.
  - apply fold_out_nil in H. destruct H; subst. reflexivity.
  - apply fold_out_cons in H. destruct H as [s1 [ws1 [s2 [E1 [E2 E]]]]]. subst.
    rewrite filter_app, (IH _ _ _ E2), (rom_stmts_add_segment _ _ _ _ _ _ _ _ E1).
    unfold included. cbn [filter]. destruct (should_emit rt (sg_conds seg)); reflexivity.
Qed.

(* the whole SECTIONS body of a multi-segment script *)
Lemma rom_stmts_sections rt st cfg classes segs ws body ws' :
  fold_out (add_segment rt st cfg classes) segs ws = Ok (body, ws') ->
  filter (assigns "__romPos") (begin_sections_body st ++ body ++ end_sections_body st classes ws') =
  rom_init :: flat_map segment_rom_stmts (included rt segs).
Proof.
  intro H. rewrite !filter_app, (rom_stmts_fold _ _ _ _ _ _ _ _ H).
  rewrite (rf_filter (end_sections_body st classes ws')) by (apply nf_end_sections; solve [reflexivity | discriminate]).
  rewrite app_nil_r, begin_sections_rom. cbn [filter assigns rom_init]. cbn [String.eqb Ascii.eqb Bool.eqb].
  rewrite filter_app. unfold hardcoded_gp_stmts. destruct (hardcoded_gp_value st); reflexivity.
Qed.

(* ---------- headers and ROM additions ---------- *)

Definition plain (s : stmt) : Prop := header_of s = [] /\ rom_add_of s = [] /\ makes_sec s = [].

Lemma headers_app a b : headers (a ++ b) = headers a ++ headers b.
Proof. apply flat_map_app. Qed.

Lemma rom_adds_app a b : rom_adds (a ++ b) = rom_adds a ++ rom_adds b.
Proof. apply flat_map_app. Qed.

Lemma headers_plain l : Forall plain l -> headers l = [].
Proof. induction 1 as [|a l [Ha _] Hl IH]; simpl; [reflexivity|]. rewrite Ha. assumption. Qed.

Lemma makes_sec_plain l : Forall plain l -> flat_map makes_sec l = [].
Proof. induction 1 as [|a l [_ [_ Ha]] Hl IH]; simpl; [reflexivity|]. rewrite Ha. assumption. Qed.

Lemma rom_adds_plain l : Forall plain l -> rom_adds l = [].
Proof. induction 1 as [|a l [_ [Ha _]] Hl IH]; simpl; [reflexivity|]. rewrite Ha. assumption. Qed.

Ltac pl_leaf :=
  repeat match goal with
         | |- Forall _ (_ ++ _) => apply Forall_app; split
         | |- Forall _ (match ?x with _ => _ end) => destruct x
         | |- Forall _ (if ?x then _ else _) => destruct x
         | |- Forall _ (_ :: _) => constructor
         | |- Forall _ [] => constructor
         | |- plain _ => repeat split; reflexivity
         end.

Lemma pl_opt_align a : Forall plain (opt_align a).
Proof. unfold opt_align. pl_leaf. Qed.

Lemma pl_gp_stmt rt seg section : Forall plain (gp_stmt rt seg section).
Proof. unfold gp_stmt. pl_leaf. Qed.

Lemma pl_section_symbol_start rt sty cfg seg section : Forall plain (section_symbol_start rt sty cfg seg section).
Proof.
  unfold section_symbol_start. destruct (section_syms cfg); [|constructor].
  fa; try apply pl_opt_align; try apply pl_gp_stmt. pl_leaf.
Qed.

Lemma pl_section_symbol_end sty cfg seg section : Forall plain (section_symbol_end sty cfg seg section).
Proof.
  unfold section_symbol_end. destruct (section_syms cfg); [|constructor].
  fa; try apply pl_opt_align. unfold sym_end_size. pl_leaf.
Qed.

Lemma pl_kind_start sty cfg seg noload : Forall plain (sections_kind_start sty cfg seg noload).
Proof. unfold sections_kind_start. pl_leaf. Qed.

Lemma pl_kind_end sty cfg seg noload : Forall plain (sections_kind_end sty cfg seg noload).
Proof. unfold sections_kind_end, sym_end_size. pl_leaf. Qed.

Lemma pl_class_start st c cn : Forall plain (class_start_stmts st c cn).
Proof.
  unfold class_start_stmts. apply Forall_app; split; [|pl_leaf].
  destruct (vc_fixed_vram c); [pl_leaf|]. destruct (vc_fixed_symbol c); [pl_leaf|].
  constructor; [repeat split; reflexivity|]. apply Forall_map_intro. intro o. repeat split; reflexivity.
Qed.

Lemma pl_class_part st classes seg ws cls ws1 :
  class_part st classes seg ws = Ok (cls, ws1) -> Forall plain cls.
Proof.
  intro Ec. apply class_part_inv in Ec. destruct Ec as [[E _] | [cn [c [_ [_ [_ [E _]]]]]]]; subst;
    [constructor | apply pl_class_start].
Qed.

Lemma pl_seg_head st seg : Forall plain (seg_head st seg).
Proof. unfold seg_head. pl_leaf. Qed.

Lemma headers_write_segment rt st cfg seg sections noload ws s ws' :
  write_segment rt st cfg seg sections noload ws = Ok (s, ws') ->
  headers s = [("." ++ sg_name seg ++ (if noload then ".noload" else ""),
                if noload then None else segment_addr (linker_symbols_style st) seg,
                if noload then None else Some (segment_rom_start (linker_symbols_style st) (sg_name seg)),
                noload)]%string /\
  rom_adds s = [].
Proof.
  intro H. apply write_segment_inv in H. destruct H as [body [E H]]. subst.
  rewrite !headers_app, !rom_adds_app, (headers_plain _ (pl_kind_start _ _ _ _)), (headers_plain _ (pl_kind_end _ _ _ _)),
    (rom_adds_plain _ (pl_kind_start _ _ _ _)), (rom_adds_plain _ (pl_kind_end _ _ _ _)).
  split; reflexivity.
Qed.

Lemma headers_foot st seg : headers (seg_foot st seg) = [] /\ rom_adds (seg_foot st seg) = [alloc_name seg].
Proof.
  unfold seg_foot, sym_end_size. cbv zeta. destruct (segment_end_align seg), (sg_vram_class seg); split; reflexivity.
Qed.

Lemma append_nil_r' s : (s ++ "")%string = s.
Proof. apply append_nil_r. Qed.

Lemma headers_add_segment rt st cfg classes seg ws s ws' :
  add_segment rt st cfg classes seg ws = Ok (s, ws') ->
  headers s = (if should_emit rt (sg_conds seg) then segment_headers (linker_symbols_style st) seg else []) /\
  rom_adds s = (if should_emit rt (sg_conds seg) then [alloc_name seg] else []).
Proof.
  intro H. apply add_segment_inv in H.
  destruct H as [[Hc [E _]] | [Hc [cls [ws1 [s1 [ws2 [s2 [Ec [E1 [E2 E]]]]]]]]]]; subst; rewrite Hc; [split; reflexivity|].
  apply headers_write_segment in E1. apply headers_write_segment in E2.
  destruct E1 as [A1 B1]. destruct E2 as [A2 B2]. destruct (headers_foot st seg) as [A3 B3].
  rewrite !headers_app, !rom_adds_app, A1, A2, A3, B1, B2, B3.
  rewrite (headers_plain cls), (rom_adds_plain cls) by (eapply pl_class_part; eassumption).
  rewrite (headers_plain _ (pl_seg_head _ _)), (rom_adds_plain _ (pl_seg_head _ _)).
  split; [|reflexivity]. cbn. unfold segment_headers, alloc_name, noload_name. rewrite append_nil_r. reflexivity.
Qed.

Lemma headers_fold rt st cfg classes segs : forall ws s ws',
  fold_out (add_segment rt st cfg classes) segs ws = Ok (s, ws') ->
  headers s = flat_map (segment_headers (linker_symbols_style st)) (included rt segs) /\
  rom_adds s = map alloc_name (included rt segs).
Proof.
  induction segs as [|seg r IH]; intros ws s ws' H.
  - apply fold_out_nil in H. destruct H; subst. split; reflexivity.
  - apply fold_out_cons in H. destruct H as [s1 [ws1 [s2 [E1 [E2 E]]]]]. subst.
    destruct (IH _ _ _ E2) as [A2 B2]. destruct (headers_add_segment _ _ _ _ _ _ _ _ E1) as [A1 B1].
    rewrite headers_app, rom_adds_app, A1, A2, B1, B2.
    unfold included. cbn [filter]. destruct (should_emit rt (sg_conds seg)); split; reflexivity.
Qed.

(* single-segment mode: one header per configured section, none with an address or a load address,
   the noload ones marked NOLOAD *)
Lemma headers_single_groups rt st cfg seg sections noload rest : forall ws s ws',
  single_groups rt st cfg seg sections noload rest ws = Ok (s, ws') ->
  headers s = map (fun sec => (sec, None, None, noload)) rest /\ rom_adds s = [].
Proof.
  induction rest as [|section rest IH]; intros ws s ws' H.
  - apply ok_inj in H. inversion H; subst. split; reflexivity.
  - apply single_groups_cons in H. destruct H as [s1 [ws1 [s2 [E1 [E2 E]]]]]. subst.
    destruct (IH _ _ _ E2) as [A B].
    rewrite !headers_app, !rom_adds_app, A, B, (headers_plain _ (pl_section_symbol_start _ _ _ _ _)),
      (headers_plain _ (pl_section_symbol_end _ _ _ _)), (rom_adds_plain _ (pl_section_symbol_start _ _ _ _ _)),
      (rom_adds_plain _ (pl_section_symbol_end _ _ _ _)).
    destruct rest; split; reflexivity.
Qed.

Lemma headers_write_single rt st cfg seg sections noload ws s ws' :
  write_single_segment rt st cfg seg sections noload ws = Ok (s, ws') ->
  headers s = map (fun sec => (sec, None, None, noload)) sections /\ rom_adds s = [].
Proof.
  intro H. apply write_single_segment_inv in H. destruct H as [body [E H]]. subst.
  apply headers_single_groups in E. destruct E as [A B].
  rewrite !headers_app, !rom_adds_app, A, B, (headers_plain _ (pl_kind_start _ _ _ _)), (headers_plain _ (pl_kind_end _ _ _ _)),
    (rom_adds_plain _ (pl_kind_start _ _ _ _)), (rom_adds_plain _ (pl_kind_end _ _ _ _)).
  rewrite app_nil_r. split; reflexivity.
Qed.

(* ====================================================================== *)
(* C04, link level                                                         *)
(* ====================================================================== *)

Lemma filter_nil_existsb {A} (f : A -> bool) l : filter f l = [] -> existsb f l = false.
Proof.
  induction l as [|a l IH]; simpl; [reflexivity|]. destruct (f a); [discriminate|]. exact IH.
Qed.

Lemma defined_once_split x a s b :
  defined_once x (a ++ s :: b) = true -> assigns x s = true ->
  existsb (assigns x) a = false /\ existsb (assigns x) b = false.
Proof.
  unfold defined_once. intros H Hs. apply Nat.eqb_eq in H. rewrite filter_app in H. cbn [filter] in H.
  rewrite Hs, app_length in H. cbn [List.length] in H.
  split; apply filter_nil_existsb; apply length_zero_iff_nil; lia.
Qed.

Lemma align_up_1 x : align_up x 1 = x.
Proof. reflexivity. Qed.

Ltac split_ex H :=
  match type of H with
  | existsb _ (_ ++ _) = false =>
      let H1 := fresh H in
      let H2 := fresh H in
      rewrite existsb_app in H; apply orb_false_iff in H; destruct H as [H1 H2]; split_ex H1; split_ex H2
  | existsb ?f (?a :: ?l) = false =>
      let H1 := fresh H in
      let H2 := fresh H in
      change (f a || existsb f l = false) in H; apply orb_false_iff in H; destruct H as [H1 H2]; split_ex H2
  | _ => idtac
  end.

Section LinkSteps.
  Variables (env : list (string * Z)) (senv : list osec) (ext : list (string * Z)) (final : bool).

  Notation top := (exec_top_stmt env senv ext final).
  Notation runl := (run env senv ext final).

  Lemma top_align_sym st sym n v :
    sym <> "."%string -> lookup sym (l_syms st) = Some v ->
    top st (SAlign sym n) = set_sym sym (align_up v (Z.of_N n)) false st.
  Proof.
    intros Hd Hv. cbn [exec_top_stmt]. apply String.eqb_neq in Hd. rewrite Hd.
    rewrite (sym_lookup_defined _ _ _ _ _ Hv). reflexivity.
  Qed.

  Lemma top_align_dot st n : top st (SAlign "." n) = set_dot (align_up (l_dot st) (Z.of_N n)) st.
  Proof. reflexivity. Qed.

  Lemma top_sym_sym st x y v :
    x <> "."%string -> lookup y (l_syms st) = Some v ->
    top st (linker_symbol x (ESym y)) = set_sym x v false st.
  Proof.
    intros Hd Hv. unfold linker_symbol. cbn [exec_top_stmt]. apply String.eqb_neq in Hd. rewrite Hd.
    cbn [eval_expr]. rewrite (sym_lookup_defined _ _ _ _ _ Hv). reflexivity.
  Qed.

  Lemma top_sym_dot st x :
    x <> "."%string -> top st (linker_symbol x EDot) = set_sym x (l_dot st) false st.
  Proof.
    intros Hd. unfold linker_symbol. cbn [exec_top_stmt]. apply String.eqb_neq in Hd. rewrite Hd. reflexivity.
  Qed.

  Lemma top_abssub st x a b va vb :
    x <> "."%string -> lookup a (l_syms st) = Some va -> lookup b (l_syms st) = Some vb ->
    top st (linker_symbol x (EAbsSub a b)) = set_sym x (va - vb) false st.
  Proof.
    intros Hd Ha Hb. unfold linker_symbol. cbn [exec_top_stmt]. apply String.eqb_neq in Hd. rewrite Hd.
    cbn [eval_expr]. rewrite (sym_lookup_defined _ _ _ _ _ Ha), (sym_lookup_defined _ _ _ _ _ Hb). reflexivity.
  Qed.

  Lemma top_sub st x a b va vb :
    x <> "."%string -> lookup a (l_syms st) = Some va -> lookup b (l_syms st) = Some vb ->
    top st (linker_symbol x (ESub a b)) = set_sym x (va - vb) false st.
  Proof.
    intros Hd Ha Hb. unfold linker_symbol. cbn [exec_top_stmt]. apply String.eqb_neq in Hd. rewrite Hd.
    cbn [eval_expr]. rewrite (sym_lookup_defined _ _ _ _ _ Ha), (sym_lookup_defined _ _ _ _ _ Hb). reflexivity.
  Qed.

  Lemma top_romadd st sec v o :
    lookup "__romPos" (l_syms st) = Some v -> find_sec sec (l_secs st) = Some o ->
    top st (SRomAdd sec) = set_sym "__romPos" (v + os_size o) false st.
  Proof.
    intros Hv Ho. cbn [exec_top_stmt]. rewrite (sym_lookup_defined _ _ _ _ _ Hv).
    unfold sec_lookup. rewrite Ho. reflexivity.
  Qed.

  (* the pair "__romPos = ALIGN(__romPos, a); . = ALIGN(., a);" *)
  Lemma run_align_pair a st r :
    val st "__romPos" = Some r ->
    val (runl (align_pair a) st) "__romPos" = Some (align_up r (align_z a)) /\
    l_secs (runl (align_pair a) st) = l_secs st /\
    l_dot (runl (align_pair a) st) = align_up (l_dot st) (align_z a) /\
    (forall x, x <> "__romPos"%string -> val (runl (align_pair a) st) x = val st x).
  Proof.
    intro Hr. destruct a as [n|]; cbn [align_pair align_z].
    - rewrite run_cons, run_one, (top_align_sym st "__romPos" n r) by (assumption || discriminate).
      rewrite top_align_dot. unfold val. cbn [l_syms set_dot set_sym l_secs l_dot]. repeat split.
      intros x Hx. cbn [lookup]. apply String.eqb_neq in Hx. rewrite Hx. reflexivity.
    - rewrite run_nil, !align_up_1. auto.
  Qed.

  (* ---------- one segment ---------- *)

  Definition foot_class (stg : settings) (seg : segment) : list stmt :=
    (match sg_vram_class seg with
     | Some cn => [SBlank; SMaxSelf (vram_class_end (linker_symbols_style stg) cn)
                                    (segment_vram_end (linker_symbols_style stg) (sg_name seg))]
     | None => [] end ++ [SBlank])%list.

  Lemma seg_foot_split stg seg :
    let sty := linker_symbols_style stg in
    let name := sg_name seg in
    seg_foot stg seg =
    ((SRomAdd (alloc_name seg) :: align_pair (segment_end_align seg) ++
      sym_end_size (segment_vram_start sty name) (segment_vram_end sty name) (segment_vram_size sty name) EDot) ++
     linker_symbol (segment_rom_end sty name) (ESym "__romPos") ::
     linker_symbol (segment_rom_size sty name) (EAbsSub (segment_rom_end sty name) (segment_rom_start sty name)) ::
     foot_class stg seg)%list.
  Proof.
    cbv zeta. unfold seg_foot, sym_end_size, foot_class, align_pair, alloc_name. cbv zeta.
    destruct (segment_end_align seg); reflexivity.
  Qed.

  Lemma seg_head_split stg seg :
    let sty := linker_symbols_style stg in
    let name := sg_name seg in
    seg_head stg seg =
    (align_pair (segment_start_align seg) ++
     linker_symbol (segment_rom_start sty name) (ESym "__romPos") ::
     [linker_symbol (segment_vram_start sty name) (EAddr (alloc_name seg))])%list.
  Proof. reflexivity. Qed.

  Lemma rf_align_pair_secs a : flat_map makes_sec (align_pair a) = [].
  Proof. destruct a; reflexivity. Qed.

  Theorem segment_rom_general stg seg cls a1 addr sub body1 b1 s2 st0 r :
    let sty := linker_symbols_style stg in
    let name := sg_name seg in
    let RS := segment_rom_start sty name in
    let RE := segment_rom_end sty name in
    let RZ := segment_rom_size sty name in
    let L1 := (cls ++ seg_head stg seg ++ a1 ++ [SOutSec (alloc_name seg) addr (Some RS) false sub body1] ++ b1)%list in
    let L := (L1 ++ [SBlank] ++ s2 ++ [SBlank] ++ seg_foot stg seg)%list in
    let st1 := runl L1 st0 in
    let st' := runl L st0 in
    val st0 "__romPos" = Some r ->
    find_sec (alloc_name seg) (l_secs st0) = None ->
    ~ In (alloc_name seg) (flat_map makes_sec (cls ++ a1)) ->
    no_assign "__romPos" (cls ++ a1 ++ body1 ++ b1 ++ s2) = true ->
    rom_names_distinct sty name L = true ->
    ~ In (LForwardRef (alloc_name seg)) (l_errors st') ->
    sizes_ok st0 ->
    let rs := align_up r (align_z (segment_start_align seg)) in
    exists o,
      find_sec (alloc_name seg) (l_secs st1) = Some o /\
      find_sec (alloc_name seg) (l_secs st') = Some o /\
      os_lma o = Some rs /\ os_noload o = false /\ 0 <= os_size o /\
      let re := align_up (rs + os_size o) (align_z (segment_end_align seg)) in
      val st' "__romPos" = Some re /\ val st' RS = Some rs /\ val st' RE = Some re /\ val st' RZ = Some (re - rs).
  Proof.
    intros sty name RS RE RZ L1 L st1 st' Hr Hfresh Hnosec Hrf Hdist Herr Hsz rs.
    set (VS := segment_vram_start sty name). set (VE := segment_vram_end sty name).
    set (VZ := segment_vram_size sty name).
    set (osec1 := SOutSec (alloc_name seg) addr (Some RS) false sub body1) in *.
    set (F1 := (SRomAdd (alloc_name seg) :: align_pair (segment_end_align seg) ++ sym_end_size VS VE VZ EDot)%list).
    set (sRS := linker_symbol RS (ESym "__romPos")).
    set (sVS := linker_symbol VS (EAddr (alloc_name seg))).
    set (sRE := linker_symbol RE (ESym "__romPos")).
    set (sRZ := linker_symbol RZ (EAbsSub RE RS)).
    (* the three decompositions of L *)
    assert (EL : L = ((cls ++ align_pair (segment_start_align seg)) ++ sRS ::
                      (sVS :: a1 ++ osec1 :: b1 ++ SBlank :: s2 ++ SBlank :: F1 ++ sRE :: sRZ :: foot_class stg seg))%list).
    { unfold L, L1. rewrite seg_foot_split, seg_head_split. cbv zeta. fold sty name RS RE RZ VS VE VZ.
      fold F1 sRS sVS sRE sRZ. repeat rewrite <- app_assoc. reflexivity. }
    assert (EL2 : L = ((cls ++ align_pair (segment_start_align seg) ++ sRS :: sVS :: a1 ++ osec1 :: b1 ++ SBlank :: s2
                        ++ SBlank :: F1) ++ sRE :: (sRZ :: foot_class stg seg))%list).
    { rewrite EL. repeat rewrite <- app_assoc. cbn [app]. repeat rewrite <- app_assoc. cbn [app].
      repeat (f_equal; try (repeat rewrite <- app_assoc; cbn [app])). }
    assert (EL3 : L = ((cls ++ align_pair (segment_start_align seg) ++ sRS :: sVS :: a1 ++ osec1 :: b1 ++ SBlank :: s2
                        ++ SBlank :: F1 ++ [sRE]) ++ sRZ :: foot_class stg seg)%list).
    { rewrite EL2. repeat rewrite <- app_assoc. cbn [app]. repeat rewrite <- app_assoc. cbn [app].
      repeat (f_equal; try (repeat rewrite <- app_assoc; cbn [app])). }
    unfold rom_names_distinct in Hdist. apply andb_true_iff in Hdist. destruct Hdist as [Hdist HdZ].
    apply andb_true_iff in Hdist. destruct Hdist as [HdS HdE].
    assert (Hself : forall x e, assigns x (linker_symbol x e) = true) by (intros; apply String.eqb_refl).
    rewrite EL in HdS. apply defined_once_split in HdS; [|apply Hself]. destruct HdS as [_ HS].
    rewrite EL2 in HdE. apply defined_once_split in HdE; [|apply Hself]. destruct HdE as [_ HE].
    rewrite EL3 in HdZ. apply defined_once_split in HdZ; [|apply Hself]. destruct HdZ as [_ HZ].
    split_ex HS. split_ex HE.
    apply negb_true_iff in Hrf. split_ex Hrf.
    assert (S_vs : assigns RS sVS = false) by assumption.
    assert (S_a1 : existsb (assigns RS) a1 = false) by assumption.
    assert (S_o1 : assigns RS osec1 = false) by assumption.
    assert (S_b1 : existsb (assigns RS) b1 = false) by assumption.
    assert (S_s2 : existsb (assigns RS) s2 = false) by assumption.
    assert (S_F1 : existsb (assigns RS) F1 = false) by assumption.
    assert (S_re : assigns RS sRE = false) by assumption.
    assert (S_rz : assigns RS sRZ = false) by assumption.
    assert (S_fc : existsb (assigns RS) (foot_class stg seg) = false) by assumption.
    assert (E_rz : assigns RE sRZ = false) by assumption.
    assert (E_fc : existsb (assigns RE) (foot_class stg seg) = false) by assumption.
    assert (Z_fc : existsb (assigns RZ) (foot_class stg seg) = false) by assumption.
    assert (R_cls : existsb (assigns "__romPos") cls = false) by assumption.
    assert (R_a1 : existsb (assigns "__romPos") a1 = false) by assumption.
    assert (R_body1 : existsb (assigns "__romPos") body1 = false) by assumption.
    assert (R_b1 : existsb (assigns "__romPos") b1 = false) by assumption.
    assert (R_s2 : existsb (assigns "__romPos") s2 = false) by assumption.
    unfold F1 in S_F1. split_ex S_F1.
    assert (S_ves : existsb (assigns RS) (sym_end_size VS VE VZ EDot) = false) by assumption.
    assert (EL1 : L1 = ((cls ++ align_pair (segment_start_align seg)) ++ sRS :: sVS :: a1 ++ osec1 :: b1)%list).
    { unfold L1. rewrite seg_head_split. cbv zeta. fold sty name RS VS sRS sVS. repeat rewrite <- app_assoc. reflexivity. }
    assert (ELL : L = (L1 ++ SBlank :: s2 ++ SBlank :: F1 ++ sRE :: sRZ :: foot_class stg seg)%list).
    { rewrite EL, EL1. repeat rewrite <- app_assoc. cbn [app]. repeat rewrite <- app_assoc. cbn [app].
      repeat (f_equal; try (repeat rewrite <- app_assoc; cbn [app])). }
    assert (NS_rom : RS <> "__romPos"%string) by (apply (style_name_neq sty); [sn|reflexivity]).
    assert (NS_dot : RS <> "."%string) by (apply (style_name_neq sty); [sn|reflexivity]).
    assert (NE_rom : RE <> "__romPos"%string) by (apply (style_name_neq sty); [sn|reflexivity]).
    assert (NE_dot : RE <> "."%string) by (apply (style_name_neq sty); [sn|reflexivity]).
    assert (NZ_rom : RZ <> "__romPos"%string) by (apply (style_name_neq sty); [sn|reflexivity]).
    assert (NZ_dot : RZ <> "."%string) by (apply (style_name_neq sty); [sn|reflexivity]).
    assert (NVS_rom : assigns "__romPos" sVS = false) by (apply (rf_linker sty); sn).
    rewrite flat_map_app in Hnosec.
    assert (Hnosec_cls : ~ In (alloc_name seg) (flat_map makes_sec cls)) by (intro; apply Hnosec; apply in_or_app; auto).
    assert (Hnosec_a1 : ~ In (alloc_name seg) (flat_map makes_sec (sVS :: a1)))
      by (intro; apply Hnosec; apply in_or_app; auto).
    (* after the class statements *)
    set (stA := runl cls st0).
    assert (A1 : val stA "__romPos" = Some r) by (unfold stA, val; rewrite run_syms; assumption).
    assert (A2 : find_sec (alloc_name seg) (l_secs stA) = None) by (apply run_find_sec_none; assumption).
    (* after the start alignment *)
    set (stB := runl (align_pair (segment_start_align seg)) stA).
    destruct (run_align_pair (segment_start_align seg) stA r A1) as [B1 [B2 _]]. fold stB rs in B1, B2.
    assert (B3 : find_sec (alloc_name seg) (l_secs stB) = None) by (rewrite B2; assumption).
    (* ROM_START = __romPos *)
    set (stC := top stB sRS).
    assert (EC : stC = set_sym RS rs false stB) by (apply top_sym_sym; assumption).
    assert (C1 : val stC "__romPos" = Some rs) by (unfold val; rewrite EC, lookup_set_sym_other; assumption).
    assert (C2 : val stC RS = Some rs) by (unfold val; rewrite EC; apply lookup_set_sym_same).
    assert (C3 : find_sec (alloc_name seg) (l_secs stC) = None) by (rewrite EC; assumption).
    (* VRAM = ADDR(.name), the kind symbols *)
    set (stE := runl (sVS :: a1) stC).
    assert (E1 : val stE "__romPos" = Some rs).
    { unfold stE, val. rewrite run_syms; [assumption|]. cbn [existsb]. rewrite NVS_rom, R_a1. reflexivity. }
    assert (E2 : val stE RS = Some rs).
    { unfold stE, val. rewrite run_syms; [assumption|]. cbn [existsb]. rewrite S_vs, S_a1. reflexivity. }
    assert (E3 : find_sec (alloc_name seg) (l_secs stE) = None) by (apply run_find_sec_none; assumption).
    (* the allocatable output section *)
    set (stF := top stE osec1).
    assert (Est1 : st1 = runl b1 stF).
    { unfold st1, stF, stE, stC, stB, stA. rewrite EL1. repeat (rewrite run_app || rewrite run_cons). reflexivity. }
    assert (Est' : st' = runl (SBlank :: s2 ++ SBlank :: F1 ++ sRE :: sRZ :: foot_class stg seg) st1).
    { unfold st', st1. rewrite ELL, run_app. reflexivity. }
    destruct (outsec_vma env senv ext addr sub body1 stE) as [vma|e] eqn:Evma.
    2:{ exfalso. apply Herr. rewrite Est', Est1. apply run_errors_in. apply run_errors_in.
        unfold stF, osec1. cbn [exec_top_stmt]. rewrite (exec_outsec_err _ _ _ _ _ _ _ _ _ _ _ _ Evma).
        cbn [add_err l_errors]. apply in_or_app. right. left. reflexivity. }
    destruct (exec_outsec_ok env senv ext final (alloc_name seg) addr (Some RS) false sub body1 stE vma Evma)
      as [_ [Fsyms [_ [Fsecs _]]]].
    set (ss := outsec_body env senv ext final (alloc_name seg) sub body1 vma stE) in *.
    change (exec_outsec env senv ext final (alloc_name seg) addr (Some RS) false sub body1 stE) with stF in Fsyms, Fsecs.
    cbn [assigns osec1] in S_o1.
    assert (F0 : lookup RS (l_syms (s_st ss)) = Some rs).
    { unfold ss, outsec_body. rewrite sec_fold_syms by assumption. exact E2. }
    assert (F1' : val stF "__romPos" = Some rs).
    { unfold val. rewrite Fsyms. unfold ss, outsec_body. rewrite sec_fold_syms by assumption. exact E1. }
    assert (F2 : val stF RS = Some rs) by (unfold val; rewrite Fsyms; exact F0).
    set (o := OSec (alloc_name seg) vma (s_off ss) (Some rs) false (s_contents ss && negb false)).
    assert (F3 : find_sec (alloc_name seg) (l_secs stF) = Some o).
    { rewrite Fsecs, find_sec_app_none by assumption. rewrite (sym_lookup_defined _ _ _ _ _ F0).
      unfold find_sec. cbn [find os_name]. rewrite String.eqb_refl. reflexivity. }
    exists o.
    assert (G1 : val st1 "__romPos" = Some rs) by (rewrite Est1; unfold val; rewrite run_syms; assumption).
    assert (G2 : val st1 RS = Some rs) by (rewrite Est1; unfold val; rewrite run_syms; assumption).
    assert (G3 : find_sec (alloc_name seg) (l_secs st1) = Some o) by (rewrite Est1; apply run_find_sec; assumption).
    split; [exact G3|].
    split; [rewrite Est'; apply run_find_sec; exact G3|].
    split; [reflexivity|]. split; [reflexivity|].
    split.
    { cbn [os_size o]. apply outsec_body_off.
      assert (EE : stE = runl (cls ++ align_pair (segment_start_align seg) ++ sRS :: sVS :: a1) st0).
      { unfold stE, stC, stB, stA. repeat (rewrite run_app || rewrite run_cons). reflexivity. }
      rewrite EE. apply run_remaining_Forall. exact Hsz. }
    intro re.
    (* the noload part *)
    set (stH := runl (SBlank :: s2 ++ [SBlank]) st1).
    assert (H1 : val stH "__romPos" = Some rs).
    { unfold stH, val. rewrite run_syms; [assumption|]. cbn [existsb assigns]. rewrite existsb_app, R_s2. reflexivity. }
    assert (H2 : val stH RS = Some rs).
    { unfold stH, val. rewrite run_syms; [assumption|]. cbn [existsb assigns]. rewrite existsb_app, S_s2. reflexivity. }
    assert (H3 : find_sec (alloc_name seg) (l_secs stH) = Some o) by (apply run_find_sec; assumption).
    (* the foot: __romPos += SIZEOF(.name), end alignment, VRAM end and size *)
    set (stI := top stH (SRomAdd (alloc_name seg))).
    assert (EI : stI = set_sym "__romPos" (rs + os_size o) false stH) by (apply top_romadd; assumption).
    assert (I1 : val stI "__romPos" = Some (rs + os_size o)) by (unfold val; rewrite EI; apply lookup_set_sym_same).
    assert (I2 : val stI RS = Some rs).
    { unfold val. rewrite EI, lookup_set_sym_other; [assumption|]. intro E. apply NS_rom. symmetry. exact E. }
    set (stJ := runl (align_pair (segment_end_align seg)) stI).
    destruct (run_align_pair (segment_end_align seg) stI _ I1) as [J1 [_ [_ J2]]]. fold stJ re in J1, J2.
    assert (J3 : val stJ RS = Some rs) by (rewrite J2; assumption).
    set (stK := runl (sym_end_size VS VE VZ EDot) stJ).
    assert (K1 : val stK "__romPos" = Some re).
    { unfold stK, val. rewrite run_syms; [assumption|]. unfold sym_end_size. cbn [existsb].
      rewrite !(rf_linker sty) by sn. reflexivity. }
    assert (K2 : val stK RS = Some rs) by (unfold stK, val; rewrite run_syms; assumption).
    (* ROM_END = __romPos; ROM_SIZE = ABSOLUTE(ROM_END - ROM_START) *)
    set (stM := top stK sRE).
    assert (EM : stM = set_sym RE re false stK) by (apply top_sym_sym; assumption).
    cbn [assigns linker_symbol sRE] in S_re. apply String.eqb_neq in S_re.
    assert (M1 : val stM "__romPos" = Some re) by (unfold val; rewrite EM, lookup_set_sym_other; assumption).
    assert (M2 : val stM RS = Some rs) by (unfold val; rewrite EM, lookup_set_sym_other; assumption).
    assert (M3 : val stM RE = Some re) by (unfold val; rewrite EM; apply lookup_set_sym_same).
    set (stN := top stM sRZ).
    assert (EN : stN = set_sym RZ (re - rs) false stM) by (apply top_abssub; assumption).
    cbn [assigns linker_symbol sRZ] in S_rz, E_rz.
    apply String.eqb_neq in S_rz. apply String.eqb_neq in E_rz.
    assert (N1 : val stN "__romPos" = Some re) by (unfold val; rewrite EN, lookup_set_sym_other; assumption).
    assert (N2 : val stN RS = Some rs) by (unfold val; rewrite EN, lookup_set_sym_other; assumption).
    assert (N3 : val stN RE = Some re) by (unfold val; rewrite EN, lookup_set_sym_other; assumption).
    assert (N4 : val stN RZ = Some (re - rs)) by (unfold val; rewrite EN; apply lookup_set_sym_same).
    assert (Efin : st' = runl (foot_class stg seg) stN).
    { rewrite Est'. unfold stN, stM, stK, stJ, stI, stH, F1.
      repeat (rewrite run_app || rewrite run_cons). reflexivity. }
    assert (Hcls_rom : existsb (assigns "__romPos") (foot_class stg seg) = false).
    { unfold foot_class. destruct (sg_vram_class seg) as [cn|]; [|reflexivity]. cbn [app existsb assigns].
      rewrite (style_name_eqb sty); [reflexivity | sn | reflexivity]. }
    rewrite Efin. unfold val. rewrite !run_syms by assumption. auto.
  Qed.

  (* a NOLOAD output section: its contents are never loaded, whatever it receives *)
  Lemma noload_section name at_ sub body st :
    let st' := exec_outsec env senv ext final name None at_ true sub body st in
    exists o, l_secs st' = (l_secs st ++ [o])%list /\ os_name o = name /\
              os_noload o = true /\ os_contents o = false /\
              os_vma o = align_up (l_dot st) (body_align (option_map Z.of_N sub) body (l_remaining st) 1).
  Proof.
    intro st'.
    destruct (exec_outsec_ok env senv ext final name None at_ true sub body st _ eq_refl) as [_ [_ [_ [Hs _]]]].
    eexists. split; [exact Hs|]. cbn [os_name os_noload os_contents os_vma]. rewrite andb_false_r. auto.
  Qed.

  Lemma alloc_name_outsec stg seg body :
    outsec_of stg seg false body =
    SOutSec (alloc_name seg) (segment_addr (linker_symbols_style stg) seg)
            (Some (segment_rom_start (linker_symbols_style stg) (sg_name seg))) false (subalign seg)
            (opt_fill seg ++ body).
  Proof. unfold outsec_of, alloc_name. rewrite append_nil_r. reflexivity. Qed.

  Lemma noload_name_outsec stg seg body :
    outsec_of stg seg true body = SOutSec (noload_name seg) None None true (subalign seg) (opt_fill seg ++ body).
  Proof. reflexivity. Qed.

  (* the statements of an included segment, as add_segment produces them *)
  Theorem segment_rom rt stg cfg classes seg ws s ws' st0 r :
    add_segment rt stg cfg classes seg ws = Ok (s, ws') ->
    should_emit rt (sg_conds seg) = true ->
    let sty := linker_symbols_style stg in
    let name := sg_name seg in
    let st' := runl s st0 in
    val st0 "__romPos" = Some r ->
    find_sec (alloc_name seg) (l_secs st0) = None ->
    rom_names_distinct sty name s = true ->
    ~ In (LForwardRef (alloc_name seg)) (l_errors st') ->
    sizes_ok st0 ->
    let rs := align_up r (align_z (segment_start_align seg)) in
    exists o,
      find_sec (alloc_name seg) (l_secs st') = Some o /\
      os_lma o = Some rs /\ os_noload o = false /\ 0 <= os_size o /\
      let re := align_up (rs + os_size o) (align_z (segment_end_align seg)) in
      val st' "__romPos" = Some re /\
      val st' (segment_rom_start sty name) = Some rs /\
      val st' (segment_rom_end sty name) = Some re /\
      val st' (segment_rom_size sty name) = Some (re - rs).
  Proof.
    intros H Hc sty name st' Hr Hfresh Hdist Herr Hsz rs. apply add_segment_inv in H.
    destruct H as [[Hc' _] | [_ [cls [ws1 [s1 [ws2 [s2 [Ec [E1 [E2 E]]]]]]]]]]; [congruence|].
    pose proof (nf_write_segment "__romPos" eq_refl rompos_gp rompos_dot _ _ _ _ _ _ _ _ _ E1) as R1.
    pose proof (nf_write_segment "__romPos" eq_refl rompos_gp rompos_dot _ _ _ _ _ _ _ _ _ E2) as R2.
    pose proof (nf_class_part "__romPos" eq_refl _ _ _ _ _ _ Ec) as R0.
    pose proof (pl_class_part _ _ _ _ _ _ Ec) as P0.
    apply write_segment_inv in E1. destruct E1 as [body1 [_ E1]].
    rewrite alloc_name_outsec in E1.
    set (ks := sections_kind_start (linker_symbols_style stg) cfg seg false) in *.
    set (ke := sections_kind_end (linker_symbols_style stg) cfg seg false) in *.
    assert (Es : s = ((cls ++ seg_head stg seg ++ ks ++
                       [SOutSec (alloc_name seg) (segment_addr sty seg) (Some (segment_rom_start sty name)) false
                                (subalign seg) (opt_fill seg ++ body1)] ++ ke) ++
                      [SBlank] ++ s2 ++ [SBlank] ++ seg_foot stg seg)%list).
    { rewrite E, E1. repeat rewrite <- app_assoc. reflexivity. }
    subst s1. subst st'. rewrite Es in Hdist, Herr |- *. clear Es E.
    apply Forall_app in R1. destruct R1 as [R1a R1]. apply Forall_app in R1. destruct R1 as [R1b R1c].
    inversion R1b as [|x l R1b' _]; subst x l. unfold nf in R1b'. cbn [assigns] in R1b'.
    apply existsb_false_Forall in R1b'.
    destruct (segment_rom_general stg seg cls ks (segment_addr sty seg) (subalign seg) (opt_fill seg ++ body1) ke s2 st0 r)
      as [o [_ [Ho [Hl [Hn [Hz Hv]]]]]]; try assumption.
    - rewrite flat_map_app, (makes_sec_plain cls P0), (makes_sec_plain ks (pl_kind_start _ _ _ _)). intros [].
    - apply no_assign_Forall. apply Forall_app; split; [exact R0|]. apply Forall_app; split; [exact R1a|].
      apply Forall_app; split; [exact R1b'|]. apply Forall_app; split; [exact R1c | exact R2].
    - exists o. auto.
  Qed.

  (* the ROM symbols and the ROM position do not depend on the noload part: any other noload
     statements give the same values *)
  Theorem noload_independent stg seg cls a1 addr sub body1 b1 s2 s2' st0 r :
    let sty := linker_symbols_style stg in
    let name := sg_name seg in
    let RS := segment_rom_start sty name in
    let L1 := (cls ++ seg_head stg seg ++ a1 ++ [SOutSec (alloc_name seg) addr (Some RS) false sub body1] ++ b1)%list in
    let L := fun s2 => (L1 ++ [SBlank] ++ s2 ++ [SBlank] ++ seg_foot stg seg)%list in
    val st0 "__romPos" = Some r ->
    find_sec (alloc_name seg) (l_secs st0) = None ->
    ~ In (alloc_name seg) (flat_map makes_sec (cls ++ a1)) ->
    no_assign "__romPos" (cls ++ a1 ++ body1 ++ b1 ++ s2) = true ->
    no_assign "__romPos" (cls ++ a1 ++ body1 ++ b1 ++ s2') = true ->
    rom_names_distinct sty name (L s2) = true ->
    rom_names_distinct sty name (L s2') = true ->
    ~ In (LForwardRef (alloc_name seg)) (l_errors (runl (L s2) st0)) ->
    ~ In (LForwardRef (alloc_name seg)) (l_errors (runl (L s2') st0)) ->
    sizes_ok st0 ->
    forall x, In x ["__romPos"%string; RS; segment_rom_end sty name; segment_rom_size sty name] ->
              val (runl (L s2) st0) x = val (runl (L s2') st0) x.
  Proof.
    intros sty name RS L1 L Hr Hfresh Hnosec Hrf Hrf' Hd Hd' He He' Hsz x Hx.
    destruct (segment_rom_general stg seg cls a1 addr sub body1 b1 s2 st0 r Hr Hfresh Hnosec Hrf Hd He Hsz)
      as [o [Ho1 [_ [_ [_ [_ [V1 [V2 [V3 V4]]]]]]]]].
    destruct (segment_rom_general stg seg cls a1 addr sub body1 b1 s2' st0 r Hr Hfresh Hnosec Hrf' Hd' He' Hsz)
      as [o' [Ho1' [_ [_ [_ [_ [V1' [V2' [V3' V4']]]]]]]]].
    rewrite Ho1 in Ho1'. inversion Ho1'; subst o'.
    fold sty name RS L1 in V1, V2, V3, V4, V1', V2', V3', V4'.
    cbn [In] in Hx. destruct Hx as [E|[E|[E|[E|[]]]]]; subst x; unfold L; congruence.
  Qed.
End LinkSteps.

(* ---------- all the segments ---------- *)

Lemma existsb_filter_nonempty {A} (f : A -> bool) l : existsb f l = true -> (1 <= List.length (filter f l))%nat.
Proof.
  induction l as [|a l IH]; simpl; [discriminate|]. destruct (f a); simpl; [lia|]. exact IH.
Qed.

Lemma defined_once_app_l x a b :
  defined_once x (a ++ b) = true -> existsb (assigns x) a = true ->
  defined_once x a = true /\ existsb (assigns x) b = false.
Proof.
  unfold defined_once. intros H Ha. apply Nat.eqb_eq in H. rewrite filter_app, app_length in H.
  apply existsb_filter_nonempty in Ha. split.
  - apply Nat.eqb_eq. lia.
  - apply filter_nil_existsb. apply length_zero_iff_nil. lia.
Qed.

Lemma defined_once_app_r x a b :
  defined_once x (a ++ b) = true -> existsb (assigns x) b = true ->
  defined_once x b = true /\ existsb (assigns x) a = false.
Proof.
  unfold defined_once. intros H Hb. apply Nat.eqb_eq in H. rewrite filter_app, app_length in H.
  apply existsb_filter_nonempty in Hb. split.
  - apply Nat.eqb_eq. lia.
  - apply filter_nil_existsb. apply length_zero_iff_nil. lia.
Qed.

Definition rom_assigned (sty : style) (name : string) (l : list stmt) : Prop :=
  existsb (assigns (segment_rom_start sty name)) l = true /\
  existsb (assigns (segment_rom_end sty name)) l = true /\
  existsb (assigns (segment_rom_size sty name)) l = true.

Definition rom_untouched (sty : style) (name : string) (l : list stmt) : Prop :=
  existsb (assigns (segment_rom_start sty name)) l = false /\
  existsb (assigns (segment_rom_end sty name)) l = false /\
  existsb (assigns (segment_rom_size sty name)) l = false.

Lemma rnd_app_l sty name a b :
  rom_names_distinct sty name (a ++ b) = true -> rom_assigned sty name a ->
  rom_names_distinct sty name a = true /\ rom_untouched sty name b.
Proof.
  unfold rom_names_distinct. intros H [A1 [A2 A3]].
  apply andb_true_iff in H. destruct H as [H H3]. apply andb_true_iff in H. destruct H as [H1 H2].
  destruct (defined_once_app_l _ _ _ H1 A1) as [D1 U1]. destruct (defined_once_app_l _ _ _ H2 A2) as [D2 U2].
  destruct (defined_once_app_l _ _ _ H3 A3) as [D3 U3]. rewrite D1, D2, D3. repeat split; assumption.
Qed.

Lemma rnd_app_r sty name a b :
  rom_names_distinct sty name (a ++ b) = true -> rom_assigned sty name b ->
  rom_names_distinct sty name b = true /\ rom_untouched sty name a.
Proof.
  unfold rom_names_distinct. intros H [A1 [A2 A3]].
  apply andb_true_iff in H. destruct H as [H H3]. apply andb_true_iff in H. destruct H as [H1 H2].
  destruct (defined_once_app_r _ _ _ H1 A1) as [D1 U1]. destruct (defined_once_app_r _ _ _ H2 A2) as [D2 U2].
  destruct (defined_once_app_r _ _ _ H3 A3) as [D3 U3]. rewrite D1, D2, D3. repeat split; assumption.
Qed.

Lemma existsb_in_true {A} (f : A -> bool) l s : In s l -> f s = true -> existsb f l = true.
Proof. intros Hin Hs. apply existsb_exists. exists s. auto. Qed.

Lemma rom_assigned_add_segment rt stg cfg classes seg ws s ws' :
  add_segment rt stg cfg classes seg ws = Ok (s, ws') -> should_emit rt (sg_conds seg) = true ->
  rom_assigned (linker_symbols_style stg) (sg_name seg) s.
Proof.
  intros H Hc. apply add_segment_inv in H.
  destruct H as [[Hc' _] | [_ [cls [ws1 [s1 [ws2 [s2 [Ec [E1 [E2 E]]]]]]]]]]; [congruence|]. subst s.
  assert (Hself : forall x e, assigns x (linker_symbol x e) = true) by (intros; apply String.eqb_refl).
  rewrite seg_head_split, seg_foot_split. cbv zeta. repeat split.
  - eapply existsb_in_true; [|apply (Hself _ (ESym "__romPos"))].
    apply in_or_app; right. apply in_or_app; left. apply in_or_app; right. left. reflexivity.
  - eapply existsb_in_true; [|apply (Hself _ (ESym "__romPos"))].
    do 6 (apply in_or_app; right). apply in_or_app; right. left. reflexivity.
  - eapply existsb_in_true; [|apply Hself].
    do 6 (apply in_or_app; right). apply in_or_app; right. right. left. reflexivity.
Qed.

Lemma rom_assigned_app_l sty name a b : rom_assigned sty name a -> rom_assigned sty name (a ++ b).
Proof. intros [A1 [A2 A3]]. unfold rom_assigned. rewrite !existsb_app, A1, A2, A3. auto. Qed.

Lemma rom_assigned_app_r sty name a b : rom_assigned sty name b -> rom_assigned sty name (a ++ b).
Proof. intros [A1 [A2 A3]]. unfold rom_assigned. rewrite !existsb_app, A1, A2, A3, !orb_true_r. auto. Qed.

Lemma rom_assigned_fold rt stg cfg classes segs : forall ws body ws' seg,
  fold_out (add_segment rt stg cfg classes) segs ws = Ok (body, ws') ->
  In seg (included rt segs) -> rom_assigned (linker_symbols_style stg) (sg_name seg) body.
Proof.
  induction segs as [|x r IH]; intros ws body ws' seg H Hin; [contradiction|].
  apply fold_out_cons in H. destruct H as [s1 [ws1 [s2 [E1 [E2 E]]]]]. subst body.
  unfold included in Hin. cbn [filter] in Hin. destruct (should_emit rt (sg_conds x)) eqn:Hc.
  - destruct Hin as [Hin|Hin].
    + subst x. apply rom_assigned_app_l. eapply rom_assigned_add_segment; eassumption.
    + apply rom_assigned_app_r. eapply IH; eassumption.
  - apply rom_assigned_app_r. eapply IH; eassumption.
Qed.

Lemma makes_sec_write_segment rt stg cfg seg sections noload ws s ws' :
  write_segment rt stg cfg seg sections noload ws = Ok (s, ws') ->
  flat_map makes_sec s = [if noload then noload_name seg else alloc_name seg].
Proof.
  intro H. apply write_segment_inv in H. destruct H as [body [E H]]. subst.
  rewrite !flat_map_app, (makes_sec_plain _ (pl_kind_start _ _ _ _)), (makes_sec_plain _ (pl_kind_end _ _ _ _)).
  destruct noload; [reflexivity|]. rewrite alloc_name_outsec. reflexivity.
Qed.

Lemma pl_seg_foot stg seg : flat_map makes_sec (seg_foot stg seg) = [].
Proof. unfold seg_foot, sym_end_size. cbv zeta. destruct (segment_end_align seg), (sg_vram_class seg); reflexivity. Qed.

Lemma makes_sec_add_segment rt stg cfg classes seg ws s ws' :
  add_segment rt stg cfg classes seg ws = Ok (s, ws') ->
  flat_map makes_sec s = if should_emit rt (sg_conds seg) then [alloc_name seg; noload_name seg] else [].
Proof.
  intro H. apply add_segment_inv in H.
  destruct H as [[Hc [E _]] | [Hc [cls [ws1 [s1 [ws2 [s2 [Ec [E1 [E2 E]]]]]]]]]]; subst; rewrite Hc; [reflexivity|].
  rewrite !flat_map_app, (makes_sec_write_segment _ _ _ _ _ _ _ _ _ E1), (makes_sec_write_segment _ _ _ _ _ _ _ _ _ E2),
    (makes_sec_plain cls (pl_class_part _ _ _ _ _ _ Ec)), (makes_sec_plain _ (pl_seg_head _ _)), pl_seg_foot.
  reflexivity.
Qed.

Section Chain.
  Variables (env : list (string * Z)) (senv : list osec) (ext : list (string * Z)) (final : bool).
  Notation runl := (run env senv ext final).

  (* later statements that do not touch the ROM symbols leave the chain as it is *)
  Lemma RomChain_frame sty tail segs : forall st r,
    existsb (assigns "__romPos") tail = false ->
    (forall seg, In seg segs -> rom_untouched sty (sg_name seg) tail) ->
    RomChain sty st r segs -> RomChain sty (runl tail st) r segs.
  Proof.
    induction segs as [|seg rest IH]; intros st r Hrom Hun H.
    - cbn [RomChain] in *. unfold val. rewrite run_syms; assumption.
    - cbn [RomChain] in *. destruct H as [o [Ho [Hl [Hn [Hz [V1 [V2 [V3 Hrest]]]]]]]].
      destruct (Hun seg (or_introl eq_refl)) as [U1 [U2 U3]].
      exists o. split; [apply run_find_sec; assumption|]. repeat split; try assumption.
      + unfold val. rewrite run_syms; assumption.
      + unfold val. rewrite run_syms; assumption.
      + unfold val. rewrite run_syms; assumption.
      + apply IH; try assumption. intros s Hs. apply Hun. right. assumption.
  Qed.

  Theorem rom_chain_fold rt stg cfg classes segs : forall ws body ws' st0 r,
    fold_out (add_segment rt stg cfg classes) segs ws = Ok (body, ws') ->
    let sty := linker_symbols_style stg in
    val st0 "__romPos" = Some r ->
    (forall seg, In seg (included rt segs) -> find_sec (alloc_name seg) (l_secs st0) = None) ->
    NoDup (out_names (included rt segs)) ->
    (forall seg, In seg (included rt segs) -> rom_names_distinct sty (sg_name seg) body = true) ->
    (forall n, ~ In (LForwardRef n) (l_errors (runl body st0))) ->
    sizes_ok st0 ->
    RomChain sty (runl body st0) r (included rt segs).
  Proof.
    induction segs as [|seg rest IH]; intros ws body ws' st0 r H sty Hr Hfresh Hnd Hdist Herr Hsz.
    - apply fold_out_nil in H. destruct H; subst. exact Hr.
    - apply fold_out_cons in H. destruct H as [s1 [ws1 [body_r [E1 [E2 E]]]]]. subst body.
      unfold included in *. cbn [filter] in *. destruct (should_emit rt (sg_conds seg)) eqn:Hc.
      + (* an emitted segment *)
        pose proof (rom_assigned_add_segment _ _ _ _ _ _ _ _ E1 Hc) as Hass.
        destruct (rnd_app_l _ _ _ _ (Hdist seg (or_introl eq_refl)) Hass) as [Hd1 [U1 [U2 U3]]].
        rewrite run_app in *.
        set (st1 := runl s1 st0) in *.
        destruct (segment_rom env senv ext final rt stg cfg classes seg ws s1 ws1 st0 r E1 Hc Hr
                    (Hfresh seg (or_introl eq_refl)) Hd1) as [o [Ho [Hl [Hn [Hz [V0 [V1 [V2 V3]]]]]]]].
        { fold st1. intro Hin. apply (Herr (alloc_name seg)). apply run_errors_in. exact Hin. }
        { exact Hsz. }
        fold st1 sty in Ho, V0, V1, V2, V3.
        cbn [RomChain]. exists o. split; [apply run_find_sec; exact Ho|].
        split; [exact Hl|]. split; [exact Hn|]. split; [exact Hz|].
        split; [unfold val; rewrite run_syms; assumption|].
        split; [unfold val; rewrite run_syms; assumption|].
        split; [unfold val; rewrite run_syms; assumption|].
        cbn [out_names flat_map app] in Hnd. inversion Hnd as [|x l Hn1 Hnd1]; subst x l.
        inversion Hnd1 as [|x l Hn2 Hnd2]; subst x l.
        apply (IH ws1 body_r ws' st1); try assumption.
        * intros seg' Hin. apply run_find_sec_none; [apply Hfresh; right; assumption|].
          rewrite (makes_sec_add_segment _ _ _ _ _ _ _ _ E1), Hc.
          assert (Hin' : In (alloc_name seg') (out_names (filter (fun s => should_emit rt (sg_conds s)) rest))).
          { unfold out_names. apply in_flat_map. exists seg'. split; [assumption|left; reflexivity]. }
          intros [Ea|[Ea|[]]].
          -- apply Hn1. right. rewrite Ea. exact Hin'.
          -- apply Hn2. rewrite Ea. exact Hin'.
        * intros seg' Hin.
          apply (rnd_app_r _ _ s1 body_r (Hdist seg' (or_intror Hin))).
          eapply rom_assigned_fold; eassumption.
        * unfold st1. apply run_remaining_Forall. exact Hsz.
      + (* an excluded segment emits nothing *)
        rewrite (add_segment_excluded _ _ _ _ _ _ Hc) in E1. apply ok_inj in E1. inversion E1; subst s1 ws1.
        cbn [app] in *. eapply IH; eassumption.
  Qed.

  (* the head of the SECTIONS block sets the ROM position to 0 *)
  Lemma run_begin stg st :
    let st' := runl (begin_sections_body stg) st in
    val st' "__romPos" = Some 0 /\ l_secs st' = l_secs st /\ l_remaining st' = l_remaining st /\
    l_errors st' = l_errors st /\ l_dot st' = l_dot st.
  Proof.
    cbv zeta. rewrite begin_sections_rom, run_cons. unfold rom_init. cbn [exec_top_stmt String.eqb Ascii.eqb Bool.eqb].
    cbn [eval_expr]. rewrite eval_raw_0x0, assign_ok, run_app. unfold hardcoded_gp_stmts.
    destruct (hardcoded_gp_value stg) as [v|]; cbn; auto.
  Qed.

  Theorem rom_chain_sections rt stg cfg classes segs ws body ws' st0 :
    fold_out (add_segment rt stg cfg classes) segs ws = Ok (body, ws') ->
    let sty := linker_symbols_style stg in
    let all := (begin_sections_body stg ++ body ++ end_sections_body stg classes ws')%list in
    (forall seg, In seg (included rt segs) -> find_sec (alloc_name seg) (l_secs st0) = None) ->
    NoDup (out_names (included rt segs)) ->
    (forall seg, In seg (included rt segs) -> rom_names_distinct sty (sg_name seg) all = true) ->
    (forall n, ~ In (LForwardRef n) (l_errors (runl all st0))) ->
    sizes_ok st0 ->
    RomChain sty (runl all st0) 0 (included rt segs).
  Proof.
    intros H sty all Hfresh Hnd Hdist Herr Hsz. unfold all in *. rewrite !run_app in *.
    destruct (run_begin stg st0) as [B1 [B2 [B3 [B4 B5]]]].
    set (stb := runl (begin_sections_body stg) st0) in *.
    assert (Hd2 : forall seg, In seg (included rt segs) ->
                    rom_names_distinct sty (sg_name seg) body = true /\
                    rom_untouched sty (sg_name seg) (end_sections_body stg classes ws')).
    { intros seg Hin. pose proof (rom_assigned_fold _ _ _ _ _ _ _ _ _ H Hin) as Hass.
      destruct (rnd_app_r _ _ _ _ (Hdist seg Hin) (rom_assigned_app_l _ _ _ _ Hass)) as [D _].
      apply (rnd_app_l _ _ _ _ D Hass). }
    apply RomChain_frame.
    - apply existsb_false_Forall. apply nf_end_sections; solve [reflexivity | discriminate].
    - intros seg Hin. apply (Hd2 seg Hin).
    - eapply rom_chain_fold; try eassumption.
      + intros seg Hin. rewrite B2. apply Hfresh. assumption.
      + intros seg Hin. apply (Hd2 seg Hin).
      + intros n Hin. apply (Herr n). apply run_errors_in. exact Hin.
      + unfold sizes_ok. rewrite B3. exact Hsz.
  Qed.
End Chain.

(* ---------- ROM addresses never go backwards ---------- *)

Lemma RomChain_lower sty st l b l3 : forall r,
  RomChain sty st r (l ++ b :: l3) ->
  exists sb, val st (segment_rom_start sty (sg_name b)) = Some sb /\ r <= sb.
Proof.
  induction l as [|a l IH]; intros r H; cbn [app RomChain] in H;
    destruct H as [o [_ [_ [_ [Hz [V1 [_ [_ Hrest]]]]]]]].
  - eexists. split; [exact V1|]. apply align_up_le.
  - destruct (IH _ Hrest) as [sb [Vb Hb]]. exists sb. split; [exact Vb|].
    pose proof (align_up_le r (align_z (segment_start_align a))).
    pose proof (align_up_le (align_up r (align_z (segment_start_align a)) + os_size o) (align_z (segment_end_align a))).
    lia.
Qed.

Lemma rom_monotone sty st l1 a l2 b l3 : forall r,
  RomChain sty st r (l1 ++ a :: l2 ++ b :: l3) ->
  exists sa ea sb,
    val st (segment_rom_start sty (sg_name a)) = Some sa /\
    val st (segment_rom_end sty (sg_name a)) = Some ea /\
    val st (segment_rom_start sty (sg_name b)) = Some sb /\
    r <= sa /\ sa <= ea /\ ea <= sb.
Proof.
  induction l1 as [|x l1 IH]; intros r H; cbn [app RomChain] in H;
    destruct H as [o [_ [_ [_ [Hz [V1 [V2 [_ Hrest]]]]]]]].
  - destruct (RomChain_lower _ _ _ _ _ _ Hrest) as [sb [Vb Hb]].
    eexists _, _, sb. split; [exact V1|]. split; [exact V2|]. split; [exact Vb|].
    pose proof (align_up_le r (align_z (segment_start_align a))).
    pose proof (align_up_le (align_up r (align_z (segment_start_align a)) + os_size o) (align_z (segment_end_align a))).
    lia.
  - destruct (IH _ Hrest) as [sa [ea [sb [Va [Ve [Vb [H1 [H2 H3]]]]]]]]. exists sa, ea, sb.
    repeat split; try assumption.
    pose proof (align_up_le r (align_z (segment_start_align x))).
    pose proof (align_up_le (align_up r (align_z (segment_start_align x)) + os_size o) (align_z (segment_end_align x))).
    lia.
Qed.

(* ---------- script level, whole SECTIONS blocks ---------- *)

Definition quiet (s : stmt) : Prop := header_of s = [] /\ rom_add_of s = [].

Lemma headers_quiet l : Forall quiet l -> headers l = [] /\ rom_adds l = [].
Proof.
  induction 1 as [|a l [Ha Hb] Hl [IH1 IH2]]; [split; reflexivity|]. unfold headers, rom_adds in *. simpl.
  rewrite Ha, Hb, IH1, IH2. split; reflexivity.
Qed.

Lemma quiet_end_sections st classes ws : Forall quiet (end_sections_body st classes ws).
Proof.
  rewrite end_sections_layout.
  assert (Hparts : Forall (Forall quiet)
                     [tail_sizes st classes ws; tail_allow st; tail_extra st; tail_discard st]).
  { repeat constructor.
    - apply Forall_map_intro. intro cn. split; reflexivity.
    - apply Forall_map_intro. intro cn. split; reflexivity.
    - apply Forall_map_intro. intro cn. split; reflexivity.
    - unfold tail_discard. destruct (orb _ _); repeat constructor. }
  induction Hparts as [|p r Hp Hr IH]; [constructor|]. simpl. destruct p as [|y p]; [exact IH|].
  apply Forall_app; split; [exact Hp|]. destruct (sep_concat r); [constructor|].
  constructor; [split; reflexivity | exact IH].
Qed.

Lemma quiet_begin st : Forall quiet (begin_sections_body st).
Proof.
  rewrite begin_sections_rom. constructor; [split; reflexivity|]. unfold hardcoded_gp_stmts.
  destruct (hardcoded_gp_value st); repeat constructor.
Qed.

Lemma quiet_single_head st cfg seg : Forall quiet (single_head st cfg seg).
Proof.
  rewrite single_head_shape. destruct (section_syms cfg), (hardcoded_gp_value st), (sg_fixed_vram seg);
    repeat constructor.
Qed.

Theorem script_multi rt stg cfg classes segs ws s ws' :
  single_segment_mode stg = false ->
  add_all_segments rt stg cfg classes segs ws = Ok (s, ws') ->
  exists all rest,
    s = [SSections all] /\ all = rom_init :: rest /\
    filter (assigns "__romPos") all = rom_init :: flat_map segment_rom_stmts (included rt segs) /\
    headers all = flat_map (segment_headers (linker_symbols_style stg)) (included rt segs) /\
    rom_adds all = map alloc_name (included rt segs).
Proof.
  intros Hm H. apply add_all_segments_inv in H. destruct H as [[Hs _] | [_ [body [E H]]]]; [congruence|]. subst s.
  eexists _, _. split; [reflexivity|]. split; [rewrite begin_sections_rom; reflexivity|].
  split; [eapply rom_stmts_sections; eassumption|].
  destruct (headers_fold _ _ _ _ _ _ _ _ E) as [A B].
  destruct (headers_quiet _ (quiet_begin stg)) as [A1 B1].
  destruct (headers_quiet _ (quiet_end_sections stg classes ws')) as [A2 B2].
  rewrite !headers_app, !rom_adds_app, A, B, A1, B1, A2, B2, !app_nil_r. split; reflexivity.
Qed.

Lemma nf_write_single_segment x (Hx1 : ends_ok x = false) (Hx2 : x <> "_gp"%string) (Hx3 : x <> "."%string)
      rt st cfg seg sections noload ws s ws' :
  write_single_segment rt st cfg seg sections noload ws = Ok (s, ws') -> Forall (nf x) s.
Proof.
  intro H. apply write_single_segment_inv in H. destruct H as [body [E H]]. subst.
  fa; [apply nf_kind_start; assumption | | apply nf_kind_end; assumption].
  eapply nf_single_groups; eassumption.
Qed.

(* single-segment mode: no ROM bookkeeping at all, no address and no AT on any header, the noload
   sections marked NOLOAD *)
Theorem script_single rt stg cfg classes seg ws s ws' :
  add_single_segment rt stg cfg classes seg ws = Ok (s, ws') ->
  exists all,
    s = [SSections all] /\
    filter (assigns "__romPos") all = [] /\
    headers all = (map (fun sec => (sec, None, None, false)) (alloc_sections seg) ++
                   map (fun sec => (sec, None, None, true)) (noload_sections seg))%list /\
    rom_adds all = [].
Proof.
  intro H. apply add_single_segment_inv in H. destruct H as [s1 [ws1 [s2 [E1 [E2 E]]]]]. subst s.
  eexists. split; [reflexivity|].
  pose proof (nf_write_single_segment "__romPos" eq_refl rompos_gp rompos_dot _ _ _ _ _ _ _ _ _ E1) as R1.
  pose proof (nf_write_single_segment "__romPos" eq_refl rompos_gp rompos_dot _ _ _ _ _ _ _ _ _ E2) as R2.
  destruct (headers_write_single _ _ _ _ _ _ _ _ _ E1) as [A1 B1].
  destruct (headers_write_single _ _ _ _ _ _ _ _ _ E2) as [A2 B2].
  destruct (headers_quiet _ (quiet_single_head stg cfg seg)) as [A0 B0].
  destruct (headers_quiet _ (quiet_end_sections stg classes ws')) as [A3 B3].
  split.
  - rewrite !filter_app, (rf_filter s1 R1), (rf_filter s2 R2).
    rewrite (rf_filter (end_sections_body stg classes ws')) by (apply nf_end_sections; solve [reflexivity|discriminate]).
    rewrite single_head_shape.
    destruct (section_syms cfg), (hardcoded_gp_value stg), (sg_fixed_vram seg); reflexivity.
  - rewrite !headers_app, !rom_adds_app, A0, A1, A2, A3, B0, B1, B2, B3, !app_nil_r. split; reflexivity.
Qed.

Lemma script_segment rt stg cfg classes seg ws s ws' :
  add_segment rt stg cfg classes seg ws = Ok (s, ws') ->
  filter (assigns "__romPos") s = (if should_emit rt (sg_conds seg) then segment_rom_stmts seg else []) /\
  headers s = (if should_emit rt (sg_conds seg) then segment_headers (linker_symbols_style stg) seg else []) /\
  rom_adds s = (if should_emit rt (sg_conds seg) then [alloc_name seg] else []).
Proof.
  intro H. split.
  - exact (rom_stmts_add_segment rt stg cfg classes seg ws s ws' H).
  - exact (headers_add_segment rt stg cfg classes seg ws s ws' H).
Qed.

Lemma generated_name_not_special sty s :
  style_name sty s -> s <> "__romPos"%string /\ s <> "."%string /\ s <> "_gp"%string.
Proof. intro H. repeat split; apply (style_name_neq sty s _ H); reflexivity. Qed.
