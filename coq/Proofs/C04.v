(* C04 - to be filled *)
