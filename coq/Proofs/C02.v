(* C02 - to be filled *)
