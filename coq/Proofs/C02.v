(* C02: lemmas.  The first half relates emit_sff to the declarative description of Spec/C01.v and
   is reused by C01. *)
From Slinky Require Import Model.Types Model.Runtime Model.Style Model.Script Model.Writer Model.LdSem.
From Slinky Require Import Spec.C09 Spec.C02.
From Slinky Require Import Proofs.LdLemmas Proofs.C06 Proofs.C18 Proofs.C09.
From Coq Require Import Lia ZArith Sorted.

(* ====================================================================== *)
(* induction principles for the mutual descriptions                        *)
(* ====================================================================== *)

Scheme Expands_mind := Minimality for Expands Sort Prop
  with ExpandsKeys_mind := Minimality for ExpandsKeys Sort Prop
  with ExpandsMembers_mind := Minimality for ExpandsMembers Sort Prop.
Combined Scheme Expands_mutind from Expands_mind, ExpandsKeys_mind, ExpandsMembers_mind.

Scheme EntryStmts_mind := Minimality for EntryStmts Sort Prop
  with KeysStmts_mind := Minimality for KeysStmts Sort Prop
  with FileStmts_mind := Minimality for FileStmts Sort Prop
  with KidsStmts_mind := Minimality for KidsStmts Sort Prop.
Combined Scheme EntryStmts_mutind from EntryStmts_mind, KeysStmts_mind, FileStmts_mind, KidsStmts_mind.

(* ====================================================================== *)
(* emit_sff meets the description                                          *)
(* ====================================================================== *)

Section Sound.
  Variable rt : runtime.
  Variable sty : style.
  Variable cfg : wcfg.
  Variable seg : segment.
  Variable sections : list string.

  Local Notation ES := (EntryStmts rt sty cfg seg sections).
  Local Notation KS := (KeysStmts rt sty cfg seg sections).
  Local Notation FS := (FileStmts rt sty cfg seg sections).
  Local Notation Kids := (KidsStmts rt sty cfg seg sections).
  Local Notation Exp := (Expands cfg seg sections).
  Local Notation ExpK := (ExpandsKeys cfg seg sections).
  Local Notation ExpM := (ExpandsMembers cfg seg sections).

  (* [entry_members] reads the table the entry consults in the model *)
  Lemma entry_members_for f k :
    entry_members cfg seg f k =
    if reference_partial cfg then [] else
    match lookup k (subgroups_for seg f) with Some others => others | None => [] end.
  Proof.
    unfold entry_members, members, subgroups_for.
    destruct (fi_kind f); destruct (reference_partial cfg); reflexivity.
  Qed.

  Lemma KS_app f base l1 s1 l2 s2 : KS f l1 base s1 -> KS f l2 base s2 -> KS f (l1 ++ l2) base (s1 ++ s2).
  Proof.
    intros H1 H2. revert s1 H1. induction l1 as [|k ks IH]; intros s1 H1.
    - inversion H1; subst. exact H2.
    - inversion H1; subst. rewrite <- app_assoc. simpl. constructor; [assumption|]. apply IH. assumption.
  Qed.

  (* the children of a group *)
  Lemma kids_sound files k nb :
    Forall (fun c => forall n stack section base ws s ws',
                emit_sff rt sty cfg seg sections c n stack section base ws = Ok (s, ws') -> ES c section base s) files ->
    forall ws s ws',
      group_fold rt sty cfg seg sections k files nb ws = Ok (s, ws') -> Kids files k nb s.
  Proof.
    unfold group_fold. induction 1 as [|c r Hc Hr IH]; intros ws s ws' H.
    - apply fold_out_nil in H. destruct H; subst. constructor.
    - apply fold_out_cons in H. destruct H as [s1 [ws1 [s2 [E1 [E2 E]]]]]. subst.
      constructor; [eapply Hc; eassumption | eapply IH; eassumption].
  Qed.

  (* emit_file *)
  Lemma file_sound f k base :
    Forall (fun c => forall n stack section base ws s ws',
                emit_sff rt sty cfg seg sections c n stack section base ws = Ok (s, ws') -> ES c section base s)
           (fi_files f) ->
    forall ws s ws', emit_file_of rt sty cfg seg sections f k base ws = Ok (s, ws') -> FS f k base s.
  Proof.
    intros IH ws s ws' H. unfold emit_file_of, emit_file_gen in H.
    destruct (should_emit rt (fi_conds f)) eqn:He; cbn [negb] in H.
    2:{ apply ok_inj in H. inversion H; subst. apply FS_excluded. exact He. }
    destruct (fi_kind f) eqn:Ek.
    - apply bind_ok in H. destruct H as [p [Ep H]]. apply ok_inj in H. inversion H; subst.
      replace [SInput (keeps (fi_keep f) k) (display (push base p)) None k (wildcard_sections seg)]
        with (own_stmts rt sty seg f k base) by (unfold own_stmts; rewrite Ek, Ep; reflexivity).
      apply FS_leaf; [exact He | congruence | unfold path_ok; rewrite Ek; eauto].
    - apply bind_ok in H. destruct H as [p [Ep H]]. apply ok_inj in H. inversion H; subst.
      replace [SInput (keeps (fi_keep f) k) (display (push base p)) (Some (fi_subfile f)) k (wildcard_sections seg)]
        with (own_stmts rt sty seg f k base) by (unfold own_stmts; rewrite Ek, Ep; reflexivity).
      apply FS_leaf; [exact He | congruence | unfold path_ok; rewrite Ek; eauto].
    - apply ok_inj in H. inversion H; subst.
      replace (if String.eqb (fi_section f) k then [SDotAdd (fi_pad_amount f)] else [])
        with (own_stmts rt sty seg f k base) by (unfold own_stmts; rewrite Ek; reflexivity).
      apply FS_leaf; [exact He | congruence | unfold path_ok; rewrite Ek; exact I].
    - apply ok_inj in H. inversion H; subst.
      replace (if String.eqb (fi_section f) k
               then [SAssign false false true (linker_offset sty (fi_linker_offset_name f)) EDot] else [])
        with (own_stmts rt sty seg f k base) by (unfold own_stmts; rewrite Ek; reflexivity).
      apply FS_leaf; [exact He | congruence | unfold path_ok; rewrite Ek; exact I].
    - apply bind_ok in H. destruct H as [d [Ed H]].
      eapply FS_group; [exact He | exact Ek | exact Ed |]. eapply kids_sound; eassumption.
  Qed.

  (* the chain of sub-group expansions of one file *)
  Lemma chain_sound f :
    Forall (fun c => forall n stack section base ws s ws',
                emit_sff rt sty cfg seg sections c n stack section base ws = Ok (s, ws') -> ES c section base s)
           (fi_files f) ->
    forall n stack section base ws s ws',
      emit_sff rt sty cfg seg sections f n stack section base ws = Ok (s, ws') ->
      exists keys, Exp f section keys /\ KS f keys base s.
  Proof.
    intro IHf. induction n as [|n IHn]; intros stack section base ws s ws' H.
    - rewrite emit_sff_O in H. discriminate.
    - rewrite emit_sff_S in H. destruct (mem_str section stack); [discriminate|].
      unfold chain_step in H.
      assert (Hkeys : forall ks ws s ws',
                 fold_out (fun k ws =>
                    do o1 <- emit_file_of rt sty cfg seg sections f k base ws;
                    do o2 <- (if reference_partial cfg then Ok ([], snd o1) else
                              match lookup k (subgroups_for seg f) with
                              | Some others =>
                                  fold_out (fun other ws => emit_sff rt sty cfg seg sections f n (section :: stack) other base ws)
                                           others (snd o1)
                              | None => Ok ([], snd o1)
                              end);
                    Ok ((fst o1 ++ fst o2)%list, snd o2)) ks ws = Ok (s, ws') ->
                 exists keys, ExpK f ks keys /\ KS f keys base s).
      { clear H ws s ws'. induction ks as [|k ks IHks]; intros ws s ws' H.
        - apply fold_out_nil in H. destruct H; subst. exists []. split; constructor.
        - apply fold_out_cons in H. destruct H as [s1 [ws1 [s2 [E1 [E2 E]]]]]. subst.
          destruct (IHks _ _ _ E2) as [keys2 [X2 K2]].
          apply bind_ok_out in E1. destruct E1 as [a [wa [Ea E1]]]. cbn [fst snd] in E1.
          apply bind_ok_out in E1. destruct E1 as [b [wb [Eb E1]]]. cbn [fst snd] in E1.
          assert (Hothers : forall others wa b wb,
                     fold_out (fun other ws => emit_sff rt sty cfg seg sections f n (section :: stack) other base ws)
                              others wa = Ok (b, wb) ->
                     exists keysm, ExpM f others keysm /\ KS f keysm base b).
          { induction others as [|o others IHo]; intros wa0 b0 wb0 Eb0.
            - apply fold_out_nil in Eb0. destruct Eb0; subst. exists []. split; constructor.
            - apply fold_out_cons in Eb0. destruct Eb0 as [t1 [w1 [t2 [F1 [F2 F]]]]]. subst.
              destruct (IHn _ _ _ _ _ _ F1) as [ko [Xo Ko]].
              destruct (IHo _ _ _ F2) as [kr [Xr Kr]].
              exists (ko ++ kr). split; [constructor; assumption | apply KS_app; assumption]. }
          assert (Hm : exists keysm, ExpM f (entry_members cfg seg f k) keysm /\ KS f keysm base b).
          { rewrite entry_members_for. destruct (reference_partial cfg).
            - apply ok_inj in Eb. inversion Eb; subst. exists []. split; constructor.
            - destruct (lookup k (subgroups_for seg f)) as [others|].
              + eapply Hothers. exact Eb.
              + apply ok_inj in Eb. inversion Eb; subst. exists []. split; constructor. }
          destruct Hm as [keysm [Xm Km]].
          apply ok_inj in E1. inversion E1; subst.
          exists (k :: keysm ++ keys2). split; [constructor; assumption|].
          rewrite <- app_assoc. constructor; [eapply file_sound; eassumption|]. apply KS_app; assumption. }
      destruct (Hkeys _ _ _ _ H) as [keys [X K]]. exists keys. split; [constructor; exact X | exact K].
  Qed.

  (* C02_order *)
  Lemma emit_sff_sound f : forall n stack section base ws s ws',
    emit_sff rt sty cfg seg sections f n stack section base ws = Ok (s, ws') -> ES f section base s.
  Proof.
    induction f as [p k sf pa sec lon so files d c kp IHfiles] using file_info_ind'.
    intros n stack section base ws s ws' H.
    destruct (chain_sound (FileInfo p k sf pa sec lon so files d c kp) IHfiles _ _ _ _ _ _ _ H) as [keys [X K]].
    econstructor; eassumption.
  Qed.

  (* the files of a segment, for one section: the entries in list order under the segment's directory *)
  Lemma emit_section_sound base_path section ws s ws' :
    emit_section rt sty cfg seg sections base_path section ws = Ok (s, ws') ->
    exists b, (exists b0, escape_path rt base_path = Ok b0 /\
                          (if reference_partial cfg then b = b0
                           else exists d, escape_path rt (sg_dir seg) = Ok d /\ b = push b0 d)) /\
              Kids (sg_files seg) section b s.
  Proof.
    unfold emit_section. intro H. apply bind_ok in H. destruct H as [b0 [E0 H]].
    apply bind_ok in H. destruct H as [b [Eb H]]. exists b. split.
    - exists b0. split; [exact E0|]. destruct (reference_partial cfg).
      + apply ok_inj in Eb. auto.
      + apply bind_ok in Eb. destruct Eb as [d [Ed Eb]]. apply ok_inj in Eb. eauto.
    - clear Eb. revert ws s ws' H. induction (sg_files seg) as [|f r IH]; intros ws s ws' H.
      + apply fold_out_nil in H. destruct H; subst. constructor.
      + apply fold_out_cons in H. destruct H as [s1 [ws1 [s2 [E1 [E2 E]]]]]. subst.
        constructor; [eapply emit_sff_sound; eassumption | eapply IH; eassumption].
  Qed.

  (* ---------- reading the description ---------- *)

  (* an entry that is not a group: one own_stmts per section of its expansion, in order *)
  Lemma keys_leaf f keys base l :
    KS f keys base l -> fi_kind f <> KGroup ->
    l = flat_map (fun k => if should_emit rt (fi_conds f) then own_stmts rt sty seg f k base else []) keys.
  Proof.
    intros H Hk. induction H as [|f k ks base l1 l2 H1 H2 IH]; [reflexivity|].
    cbn [flat_map]. rewrite <- IH by assumption. f_equal.
    inversion H1; subst.
    - rewrite H. reflexivity.
    - rewrite H. reflexivity.
    - contradiction.
  Qed.

  Lemma entry_leaf f section base l :
    ES f section base l -> fi_kind f <> KGroup ->
    exists keys, Exp f section keys /\
      l = flat_map (fun k => if should_emit rt (fi_conds f) then own_stmts rt sty seg f k base else []) keys.
  Proof.
    intros H Hk. inversion H; subst. exists keys. split; [assumption|]. apply keys_leaf; assumption.
  Qed.

  (* an included group: for every section of its own expansion, in order, its children in list order *)
  Lemma keys_group f keys base l d :
    KS f keys base l -> should_emit rt (fi_conds f) = true -> fi_kind f = KGroup ->
    escape_path rt (fi_dir f) = Ok d ->
    exists ls, Forall2 (fun k lk => Kids (fi_files f) k (push base d) lk) keys ls /\ l = List.concat ls.
  Proof.
    intros H He Hk Hd. induction H as [|f k ks base l1 l2 H1 H2 IH].
    - exists []. split; constructor.
    - destruct (IH He Hk Hd) as [ls [F E]]. subst. exists (l1 :: ls). split; [|reflexivity].
      constructor; [|exact F]. inversion H1; subst; congruence.
  Qed.

  (* the expansion: every section of [here], each directly followed by the expansions of its
     sub-group members *)
  Lemma expands_shape f section l :
    Exp f section l ->
    exists ls, Forall2 (fun k lk => exists lm, ExpM f (entry_members cfg seg f k) lm /\ lk = k :: lm)
                       (here sections f section) ls /\ l = List.concat ls.
  Proof.
    intro H. inversion H as [s l0 HK]; subst. clear H.
    induction HK as [|k ks l1 l2 Hm Hk IH].
    - exists []. split; constructor.
    - destruct IH as [ls [F E]]. subst. exists ((k :: l1) :: ls). split; [|reflexivity].
      constructor; [exists l1; auto | exact F].
  Qed.

  Lemma members_shape f ms l :
    ExpM f ms l -> exists ls, Forall2 (Exp f) ms ls /\ l = List.concat ls.
  Proof.
    induction 1 as [|s ss l1 l2 H1 H2 IH].
    - exists []. split; constructor.
    - destruct IH as [ls [F E]]. subst. exists (l1 :: ls). split; [constructor; assumption | reflexivity].
  Qed.
End Sound.

(* ====================================================================== *)
(* the output sections of a script, in order                               *)
(* ====================================================================== *)

Definition not_outsec (s : stmt) : Prop := match s with SOutSec _ _ _ _ _ _ => False | _ => True end.

Lemma not_outsec_none l : Forall not_outsec l -> outsec_names l = [].
Proof.
  induction 1 as [|x r Hx Hr IH]; [reflexivity|]. unfold outsec_names in *. simpl. rewrite IH.
  destruct x; simpl in *; try contradiction; reflexivity.
Qed.

Lemma outsec_names_app a b : outsec_names (a ++ b) = outsec_names a ++ outsec_names b.
Proof. apply flat_map_app. Qed.

Ltac no_leaf :=
  repeat match goal with
         | |- Forall _ (_ ++ _) => apply Forall_app; split
         | |- Forall _ (match ?x with _ => _ end) => destruct x
         | |- Forall _ (if ?x then _ else _) => destruct x
         | |- Forall _ (_ :: _) => constructor
         | |- Forall _ [] => constructor
         | |- Forall _ (map _ _) => apply Forall_map_intro; intro
         | |- Forall _ (flat_map _ _) => apply Forall_flat_map_intro; intro
         | |- not_outsec _ => exact I
         end.

Lemma no_gp rt seg section : Forall not_outsec (gp_stmt rt seg section).
Proof. unfold gp_stmt. no_leaf. Qed.
Lemma no_section_start rt sty cfg seg section : Forall not_outsec (section_symbol_start rt sty cfg seg section).
Proof. unfold section_symbol_start, opt_align. destruct (section_syms cfg); [|constructor]. no_leaf; apply no_gp. Qed.
Lemma no_section_end sty cfg seg section : Forall not_outsec (section_symbol_end sty cfg seg section).
Proof. unfold section_symbol_end, opt_align, sym_end_size. no_leaf. Qed.
Lemma no_kind_start sty cfg seg noload : Forall not_outsec (sections_kind_start sty cfg seg noload).
Proof. unfold sections_kind_start. no_leaf. Qed.
Lemma no_kind_end sty cfg seg noload : Forall not_outsec (sections_kind_end sty cfg seg noload).
Proof. unfold sections_kind_end, sym_end_size. no_leaf. Qed.
Lemma no_seg_head st seg : Forall not_outsec (seg_head st seg).
Proof. unfold seg_head. no_leaf. Qed.
Lemma no_seg_foot st seg : Forall not_outsec (seg_foot st seg).
Proof. unfold seg_foot, sym_end_size. cbv zeta. no_leaf. Qed.
Lemma no_class_start st c cn : Forall not_outsec (class_start_stmts st c cn).
Proof. unfold class_start_stmts. no_leaf. Qed.
Lemma no_begin st : Forall not_outsec (begin_sections_body st).
Proof. unfold begin_sections_body, hardcoded_gp_stmts. no_leaf. Qed.
Lemma no_end st classes ws : Forall not_outsec (end_sections_body st classes ws).
Proof. unfold end_sections_body, blank_if. cbv zeta. no_leaf. Qed.
Lemma no_single_head st cfg seg : Forall not_outsec (single_head st cfg seg).
Proof.
  unfold single_head, hardcoded_gp_stmts. apply Forall_app; split.
  - destruct (section_syms cfg); [|constructor]. destruct (hardcoded_gp_value st); no_leaf.
  - no_leaf.
Qed.

Lemma write_segment_outsecs rt st cfg seg sections noload ws s ws' :
  write_segment rt st cfg seg sections noload ws = Ok (s, ws') ->
  outsec_names s = [("." ++ sg_name seg ++ (if noload then ".noload" else ""))%string].
Proof.
  intro H. apply write_segment_inv in H. destruct H as [body [_ E]]. subst.
  rewrite !outsec_names_app, (not_outsec_none _ (no_kind_start _ _ _ _)), (not_outsec_none _ (no_kind_end _ _ _ _)).
  reflexivity.
Qed.

Lemma add_segment_outsecs rt st cfg classes seg ws s ws' :
  add_segment rt st cfg classes seg ws = Ok (s, ws') ->
  outsec_names s = if should_emit rt (sg_conds seg) then segment_outsecs seg else [].
Proof.
  intro H. apply add_segment_inv in H.
  destruct H as [[Hex [E _]] | [Hin [cls [ws1 [s1 [ws2 [s2 [Ec [E1 [E2 E]]]]]]]]]]; subst; rewrite ?Hex, ?Hin;
    [reflexivity|].
  assert (Hcls : Forall not_outsec cls).
  { apply class_part_inv in Ec. destruct Ec as [[E _] | [cn [c [_ [_ [_ [E _]]]]]]]; subst;
      [constructor | apply no_class_start]. }
  rewrite !outsec_names_app, (not_outsec_none _ Hcls), (not_outsec_none _ (no_seg_head _ _)),
    (not_outsec_none _ (no_seg_foot _ _)), (write_segment_outsecs _ _ _ _ _ _ _ _ _ E1),
    (write_segment_outsecs _ _ _ _ _ _ _ _ _ E2).
  unfold segment_outsecs. rewrite str_app_nil_r. reflexivity.
Qed.

Lemma fold_add_segment_outsecs rt st cfg classes segs : forall ws s ws',
  fold_out (add_segment rt st cfg classes) segs ws = Ok (s, ws') ->
  outsec_names s = flat_map segment_outsecs (emitted_segments rt segs).
Proof.
  induction segs as [|seg r IH]; intros ws s ws' H.
  - apply fold_out_nil in H. destruct H; subst. reflexivity.
  - apply fold_out_cons in H. destruct H as [s1 [ws1 [s2 [E1 [E2 E]]]]]. subst.
    rewrite outsec_names_app, (add_segment_outsecs _ _ _ _ _ _ _ _ E1), (IH _ _ _ E2).
    unfold emitted_segments. cbn [filter]. destruct (should_emit rt (sg_conds seg)); reflexivity.
Qed.

Lemma single_groups_outsecs rt st cfg seg sections noload rest : forall ws s ws',
  single_groups rt st cfg seg sections noload rest ws = Ok (s, ws') -> outsec_names s = rest.
Proof.
  induction rest as [|section rest IH]; intros ws s ws' H.
  - apply ok_inj in H. inversion H; subst. reflexivity.
  - apply single_groups_cons in H. destruct H as [s1 [ws1 [s2 [E1 [E2 E]]]]]. subst.
    rewrite !outsec_names_app, (not_outsec_none _ (no_section_start _ _ _ _ _)),
      (not_outsec_none _ (no_section_end _ _ _ _)), (IH _ _ _ E2).
    destruct rest; reflexivity.
Qed.

Lemma write_single_outsecs rt st cfg seg sections noload ws s ws' :
  write_single_segment rt st cfg seg sections noload ws = Ok (s, ws') -> outsec_names s = sections.
Proof.
  intro H. apply write_single_segment_inv in H. destruct H as [body [Hb E]]. subst.
  rewrite !outsec_names_app, (not_outsec_none _ (no_kind_start _ _ _ _)), (not_outsec_none _ (no_kind_end _ _ _ _)),
    (single_groups_outsecs _ _ _ _ _ _ _ _ _ _ Hb), app_nil_r. reflexivity.
Qed.

(* C02_segments_in_order *)
Lemma segments_in_order rt st cfg classes segs ws s ws' :
  add_all_segments rt st cfg classes segs ws = Ok (s, ws') ->
  exists body, s = [SSections body] /\
    if single_segment_mode st
    then exists seg, segs = [seg] /\ outsec_names body = alloc_sections seg ++ noload_sections seg
    else outsec_names body = flat_map segment_outsecs (emitted_segments rt segs).
Proof.
  intro H. apply add_all_segments_inv in H.
  destruct H as [[Hm [seg [Es H]]] | [Hm [body [Hb E]]]]; rewrite Hm.
  - apply add_single_segment_inv in H. destruct H as [s1 [ws1 [s2 [E1 [E2 E]]]]]. subst.
    eexists. split; [reflexivity|]. exists seg. split; [reflexivity|].
    rewrite !outsec_names_app, (not_outsec_none _ (no_single_head _ _ _)), (not_outsec_none _ (no_end _ _ _)),
      (write_single_outsecs _ _ _ _ _ _ _ _ _ E1), (write_single_outsecs _ _ _ _ _ _ _ _ _ E2).
    simpl. rewrite app_nil_r. reflexivity.
  - subst. eexists. split; [reflexivity|].
    rewrite !outsec_names_app, (not_outsec_none _ (no_begin _)), (not_outsec_none _ (no_end _ _ _)),
      (fold_add_segment_outsecs _ _ _ _ _ _ _ _ Hb), app_nil_r. reflexivity.
Qed.

(* C02_groups_in_order: the body of a half is one group per configured section, in list order *)
Lemma groups_in_order rt st cfg seg sections rest : forall ws body ws',
  part_groups rt st cfg seg sections rest ws = Ok (body, ws') ->
  exists chunks, body = List.concat chunks /\
                 Forall2 (is_group_of rt st cfg seg sections) rest chunks.
Proof.
  induction rest as [|section rest IH]; intros ws body ws' H.
  - apply ok_inj in H. inversion H; subst. exists []. split; constructor.
  - apply part_groups_cons in H. destruct H as [s1 [ws1 [s2 [E1 [E2 E]]]]]. subst.
    destruct (IH _ _ _ E2) as [chunks [Ec F]]. subst.
    exists ((section_symbol_start rt (linker_symbols_style st) cfg seg section ++ s1 ++
             section_symbol_end (linker_symbols_style st) cfg seg section ++
             (match rest with [] => [] | _ => [SBlank] end)) :: chunks).
    split; [simpl; rewrite <- !app_assoc; reflexivity|]. constructor; [|exact F].
    exists s1, ws, ws1, (match rest with [] => [] | _ => [SBlank] end).
    split; [exact E1|]. split; [destruct rest; auto | reflexivity].
Qed.

(* ====================================================================== *)
(* link level                                                              *)
(* ====================================================================== *)

Local Open Scope Z_scope.

(* C02_addresses_monotone *)
Lemma addresses_monotone env senv ext final vma sub outsec body ss :
  nonneg_sizes (l_remaining (s_st ss)) ->
  exists new,
    l_placed (s_st (fold_left (exec_sec_stmt env senv ext final vma sub outsec) body ss)) =
    l_placed (s_st ss) ++ new /\
    nondecreasing (map pl_addr new) /\
    s_off ss <= s_off (fold_left (exec_sec_stmt env senv ext final vma sub outsec) body ss).
Proof.
  intro Hn. destruct (sec_fold env ext senv final vma sub outsec body ss Hn) as [L [_ [new [P [_ S]]]]].
  exists new. repeat split; assumption.
Qed.

(* what is placed by a later part of a body lies above what an earlier part placed *)
Lemma addresses_monotone_split env senv ext final vma sub outsec pre post ss :
  nonneg_sizes (l_remaining (s_st ss)) ->
  exists new1 new2,
    l_placed (s_st (fold_left (exec_sec_stmt env senv ext final vma sub outsec) (pre ++ post) ss)) =
    l_placed (s_st ss) ++ new1 ++ new2 /\
    l_placed (s_st (fold_left (exec_sec_stmt env senv ext final vma sub outsec) pre ss)) =
    l_placed (s_st ss) ++ new1 /\
    forall p q, In p new1 -> In q new2 -> pl_addr p <= pl_addr q.
Proof.
  intro Hn. rewrite fold_X_app.
  destruct (sec_fold env ext senv final vma sub outsec pre ss Hn) as [L1 [N1 [new1 [P1 [R1 _]]]]].
  destruct (sec_fold env ext senv final vma sub outsec post _ N1) as [L2 [_ [new2 [P2 [R2 _]]]]].
  exists new1, new2. split; [rewrite P2, P1, app_assoc; reflexivity|]. split; [exact P1|].
  intros p q Hp Hq. rewrite Forall_forall in R1, R2. specialize (R1 p Hp). specialize (R2 q Hq). lia.
Qed.

(* the ROM position never moves backwards: ALIGN rounds up, `__romPos += SIZEOF(sec)` adds the size
   of a section laid out in this pass, which is not negative *)
Lemma rom_add_monotone env senv ext final st sec o v :
  sym_lookup "__romPos" st env ext = Some v ->
  find_sec sec (l_secs st) = Some o -> 0 <= os_size o ->
  lookup "__romPos" (l_syms (exec_top_stmt env senv ext final st (SRomAdd sec))) = Some (v + os_size o) /\
  v <= v + os_size o.
Proof.
  intros Hv Ho Hs. cbn [exec_top_stmt]. rewrite Hv. unfold sec_lookup. rewrite Ho.
  split; [apply lookup_set_sym_same | lia].
Qed.

Lemma rom_align_monotone env senv ext final st a v :
  sym_lookup "__romPos" st env ext = Some v ->
  lookup "__romPos" (l_syms (exec_top_stmt env senv ext final st (SAlign "__romPos" a))) =
  Some (align_up v (Z.of_N a)) /\ v <= align_up v (Z.of_N a).
Proof.
  intro Hv. cbn [exec_top_stmt]. change (String.eqb "__romPos" ".") with false. cbv iota. rewrite Hv.
  split; [apply lookup_set_sym_same | apply align_up_le].
Qed.

(* pads and linker offsets sit only in their own section *)
Lemma own_pad_iff rt sty seg f k base s :
  fi_kind f = KPad ->
  (In s (own_stmts rt sty seg f k base) <-> fi_section f = k /\ s = SDotAdd (fi_pad_amount f)).
Proof.
  intro Hk. unfold own_stmts. rewrite Hk. destruct (String.eqb (fi_section f) k) eqn:E.
  - apply String.eqb_eq in E. simpl. split; [intros [H|[]]; auto | intros [_ H]; auto].
  - apply String.eqb_neq in E. simpl. split; [contradiction | intros [H _]; contradiction].
Qed.

Lemma own_offset_iff rt sty seg f k base s :
  fi_kind f = KLinkerOffset ->
  (In s (own_stmts rt sty seg f k base) <->
   fi_section f = k /\ s = SAssign false false true (linker_offset sty (fi_linker_offset_name f)) EDot).
Proof.
  intro Hk. unfold own_stmts. rewrite Hk. destruct (String.eqb (fi_section f) k) eqn:E.
  - apply String.eqb_eq in E. simpl. split; [intros [H|[]]; auto | intros [_ H]; auto].
  - apply String.eqb_neq in E. simpl. split; [contradiction | intros [H _]; contradiction].
Qed.

Lemma own_input rt sty seg f k base :
  (fi_kind f = KObject \/ fi_kind f = KArchive) -> path_ok rt f ->
  exists p, escape_path rt (fi_path f) = Ok p /\
            own_stmts rt sty seg f k base =
            [SInput (keeps (fi_keep f) k) (display (push base p)) (member_of f) k (wildcard_sections seg)].
Proof.
  intros Hk Hp. unfold path_ok, own_stmts, member_of in *.
  destruct Hk as [Hk|Hk]; rewrite Hk in *; destruct Hp as [p Ep]; exists p; rewrite Ep; auto.
Qed.

(* the children of a group / the files of a segment: one contribution per entry, in list order *)
Lemma kids_entries rt sty cfg seg sections files k base l :
  KidsStmts rt sty cfg seg sections files k base l ->
  exists ls, Forall2 (fun c lc => EntryStmts rt sty cfg seg sections c k base lc) files ls /\ l = List.concat ls.
Proof.
  induction 1 as [|c r k base l1 l2 H1 H2 IH].
  - exists []. split; constructor.
  - destruct IH as [ls [F E]]. subst. exists (l1 :: ls). split; [constructor; assumption | reflexivity].
Qed.
