(* C18: lemmas.  The first half is infrastructure about the writer (monad inversion, the shape of
   emit_sff, inversion lemmas of the segment-level functions) reused by C17, C12, C13 and C11. *)
From Slinky Require Import Model.Types Model.Runtime Model.Style Model.Script Model.Writer Model.Exports.
From Slinky Require Import Spec.C18 Proofs.C06.
From Coq Require Import Lia.

(* ====================================================================== *)
(* the result monad                                                        *)
(* ====================================================================== *)

Lemma bind_ok {A B} (r : res A) (f : A -> res B) b :
  bind r f = Ok b -> exists a, r = Ok a /\ f a = Ok b.
Proof. destruct r as [a|e]; simpl; intro H; [exists a; auto | discriminate]. Qed.

Lemma bind_ok_out {B} (r : res out) (f : out -> res B) b :
  bind r f = Ok b -> exists s ws, r = Ok (s, ws) /\ f (s, ws) = Ok b.
Proof. destruct r as [[s ws]|e]; simpl; intro H; [exists s, ws; auto | discriminate]. Qed.

Lemma ok_inj {A} (a b : A) : Ok a = Ok b -> a = b.
Proof. intro H; inversion H; reflexivity. Qed.

(* ====================================================================== *)
(* keep_first                                                              *)
(* ====================================================================== *)

Lemma filter_filter {A} (P Q : A -> bool) l :
  filter P (filter Q l) = filter (fun y => Q y && P y)%bool l.
Proof.
  induction l as [|x r IH]; simpl; [reflexivity|].
  destruct (Q x); simpl; [destruct (P x); rewrite IH; reflexivity | assumption].
Qed.

Lemma flat_map_if_map {A B} (p : A -> bool) (f : A -> B) l :
  flat_map (fun x => if p x then [f x] else []) l = map f (filter p l).
Proof.
  induction l as [|x r IH]; simpl; [reflexivity|]. destruct (p x); simpl; rewrite IH; reflexivity.
Qed.

Section KeepFirstLemmas.
  Context {A : Type} (eqb : A -> A -> bool).
  Hypothesis eqb_spec : forall a b, eqb a b = true <-> a = b.

  Lemma eqb_sym_kf a b : eqb a b = eqb b a.
  Proof.
    destruct (eqb a b) eqn:E1, (eqb b a) eqn:E2; try reflexivity.
    - apply eqb_spec in E1. subst. assert (eqb b b = true) by (apply eqb_spec; reflexivity). congruence.
    - apply eqb_spec in E2. subst. assert (eqb a a = true) by (apply eqb_spec; reflexivity). congruence.
  Qed.

  Lemma existsb_eqb_true x y acc : existsb (eqb x) acc = true -> eqb x y = true -> existsb (eqb y) acc = true.
  Proof. intros H E. apply eqb_spec in E. subst. assumption. Qed.

  (* the IndexSet discipline: insert at the end unless already present *)
  Definition add_new (x : A) (acc : list A) : list A :=
    if existsb (eqb x) acc then acc else acc ++ [x].

  Lemma fold_add_keep_first l : forall acc,
    fold_left (fun acc x => add_new x acc) l acc =
    acc ++ filter (fun y => negb (existsb (eqb y) acc)) (keep_first eqb l).
  Proof.
    induction l as [|x r IH]; intro acc; simpl.
    - rewrite app_nil_r. reflexivity.
    - rewrite IH. unfold add_new. destruct (existsb (eqb x) acc) eqn:E; simpl.
      + f_equal. rewrite filter_filter. apply filter_ext. intro y.
        destruct (existsb (eqb y) acc) eqn:Ey; simpl; [rewrite andb_false_r; reflexivity|].
        destruct (eqb x y) eqn:Exy; [|reflexivity].
        rewrite (existsb_eqb_true x y acc E Exy) in Ey. discriminate.
      + rewrite <- app_assoc. simpl. f_equal. f_equal. rewrite filter_filter. apply filter_ext. intro y.
        rewrite existsb_app. simpl. rewrite orb_false_r, negb_orb, (eqb_sym_kf y x). apply andb_comm.
  Qed.

  Lemma fold_add_keep_first_nil l :
    fold_left (fun acc x => add_new x acc) l [] = keep_first eqb l.
  Proof.
    rewrite fold_add_keep_first. simpl. induction (keep_first eqb l) as [|y r IH]; simpl; congruence.
  Qed.
End KeepFirstLemmas.

Lemma mem_str_existsb x l : mem_str x l = existsb (String.eqb x) l.
Proof. induction l as [|y r IH]; simpl; [reflexivity|]. destruct (String.eqb x y); simpl; auto. Qed.

Lemma class_names_keep_first l : forall seen,
  class_names l seen = filter (fun y => negb (mem_str y seen)) (keep_first String.eqb (map vc_name l)).
Proof.
  induction l as [|c r IH]; intro seen; simpl; [reflexivity|].
  destruct (mem_str (vc_name c) seen) eqn:E; simpl.
  - rewrite IH, filter_filter. apply filter_ext. intro y.
    destruct (mem_str y seen) eqn:Ey; simpl; [rewrite andb_false_r; reflexivity|].
    destruct (String.eqb (vc_name c) y) eqn:Exy; [|reflexivity].
    apply String.eqb_eq in Exy. subst. congruence.
  - f_equal. rewrite IH, filter_filter. apply filter_ext. intro y. simpl.
    rewrite (String.eqb_sym y (vc_name c)). destruct (String.eqb (vc_name c) y); reflexivity.
Qed.

Lemma class_names_nil l : class_names l [] = keep_first String.eqb (map vc_name l).
Proof.
  rewrite class_names_keep_first. simpl.
  induction (keep_first String.eqb (map vc_name l)) as [|y r IH]; simpl; congruence.
Qed.

(* ====================================================================== *)
(* emit_sff: unfolding and the combinator class it lives in                *)
(* ====================================================================== *)

(* emit_file, with the treatment of the files of a group as a parameter *)
Definition emit_file_gen (group : list file_info -> string -> wstate -> res out)
           (rt : runtime) (sty : style) (seg : segment) (f : file_info) (k base : string) (ws : wstate)
  : res out :=
  if negb (should_emit rt (fi_conds f)) then Ok ([], ws) else
  match fi_kind f with
  | KObject =>
      do p <- escape_path rt (fi_path f);
      Ok ([SInput (keeps (fi_keep f) k) (display (push base p)) None k (wildcard_sections seg)],
          add_path (push base p) ws)
  | KArchive =>
      do p <- escape_path rt (fi_path f);
      Ok ([SInput (keeps (fi_keep f) k) (display (push base p)) (Some (fi_subfile f)) k
                  (wildcard_sections seg)],
          add_path (push base p) ws)
  | KPad => Ok (if String.eqb (fi_section f) k then [SDotAdd (fi_pad_amount f)] else [], ws)
  | KLinkerOffset =>
      Ok (if String.eqb (fi_section f) k
          then [SAssign false false true (linker_offset sty (fi_linker_offset_name f)) EDot]
          else [], ws)
  | KGroup =>
      do d <- escape_path rt (fi_dir f);
      group (fi_files f) (push base d) ws
  end.

Definition group_raw rt sty cfg seg sections (k : string) : list file_info -> string -> wstate -> res out :=
  fun l nb ws =>
    (fix kids (l : list file_info) (ws : wstate) : res out :=
       match l with
       | [] => Ok ([], ws)
       | c :: r =>
           do o1 <- emit_sff rt sty cfg seg sections c (chain_fuel seg) [] k nb ws;
           do o2 <- kids r (snd o1);
           Ok ((fst o1 ++ fst o2)%list, snd o2)
       end) l ws.

Definition group_fold rt sty cfg seg sections (k : string) : list file_info -> string -> wstate -> res out :=
  fun l nb ws =>
    fold_out (fun c ws => emit_sff rt sty cfg seg sections c (chain_fuel seg) [] k nb ws) l ws.

Lemma group_eq rt sty cfg seg sections k l nb ws :
  group_raw rt sty cfg seg sections k l nb ws = group_fold rt sty cfg seg sections k l nb ws.
Proof.
  unfold group_raw, group_fold. revert ws. induction l as [|c r IH]; intro ws; [reflexivity|].
  cbn [fold_out].
  destruct (emit_sff rt sty cfg seg sections c (chain_fuel seg) [] k nb ws) as [o1|e]; [|reflexivity].
  cbn [bind]. rewrite IH. reflexivity.
Qed.

(* emit_file as the model has it, the group case being a fold_out *)
Definition emit_file_of rt sty cfg seg sections (f : file_info) (k base : string) : wstate -> res out :=
  emit_file_gen (group_fold rt sty cfg seg sections k) rt sty seg f k base.

Lemma emit_file_gen_ext g1 g2 rt sty seg f k base ws :
  (forall l nb ws, g1 l nb ws = g2 l nb ws) ->
  emit_file_gen g1 rt sty seg f k base ws = emit_file_gen g2 rt sty seg f k base ws.
Proof.
  intro H. unfold emit_file_gen. destruct (negb (should_emit rt (fi_conds f))); [reflexivity|].
  destruct (fi_kind f); try reflexivity.
  destruct (escape_path rt (fi_dir f)); simpl; [apply H | reflexivity].
Qed.

(* the sub-group table consulted by an entry: the segment's one, except for a group (empty) *)
Lemma subgroups_for_sub seg f k others :
  lookup k (subgroups_for seg f) = Some others -> lookup k (sections_subgroups seg) = Some others.
Proof. unfold subgroups_for. destruct (fi_kind f); try (intro H; exact H); discriminate. Qed.

Lemma subgroups_for_leaf seg f : fi_kind f <> KGroup -> subgroups_for seg f = sections_subgroups seg.
Proof. unfold subgroups_for. destruct (fi_kind f); try reflexivity. intro H. elim H. reflexivity. Qed.

Lemma subgroups_for_group seg f : fi_kind f = KGroup -> subgroups_for seg f = [].
Proof. unfold subgroups_for. intros ->. reflexivity. Qed.

(* one step of the chain of sub-group expansions *)
Definition chain_step (ef : string -> string -> wstate -> res out)
           (rec : string -> string -> wstate -> res out)
           (cfg : wcfg) (seg : segment) (f : file_info) (sections : list string)
           (section base : string) (ws : wstate) : res out :=
  fold_out (fun k ws =>
      do o1 <- ef k base ws;
      do o2 <- (if reference_partial cfg then Ok ([], snd o1) else
                match lookup k (subgroups_for seg f) with
                | Some others => fold_out (fun other ws => rec other base ws) others (snd o1)
                | None => Ok ([], snd o1)
                end);
      Ok ((fst o1 ++ fst o2)%list, snd o2)) (sections_here f section sections) ws.

Lemma emit_sff_S_raw rt sty cfg seg sections f n stack section base ws :
  emit_sff rt sty cfg seg sections f (S n) stack section base ws =
  if mem_str section stack then Err (ESubgroupCycle (sg_name seg) section) else
  chain_step (fun k => emit_file_gen (group_raw rt sty cfg seg sections k) rt sty seg f k)
             (emit_sff rt sty cfg seg sections f n (section :: stack)) cfg seg f sections section base ws.
Proof. destruct f. reflexivity. Qed.

Lemma emit_sff_O rt sty cfg seg sections f stack section base ws :
  emit_sff rt sty cfg seg sections f O stack section base ws =
  Err (ECrash "emit_section_for_file: recursion bound").
Proof. destruct f. reflexivity. Qed.

Lemma fold_out_ext {A} (f g : A -> wstate -> res out) l :
  (forall x ws, f x ws = g x ws) -> forall ws, fold_out f l ws = fold_out g l ws.
Proof.
  intro H. induction l as [|x r IH]; intro ws; simpl; [reflexivity|].
  rewrite H. destruct (g x ws) as [o1|e]; simpl; [rewrite IH|]; reflexivity.
Qed.

Lemma emit_sff_S rt sty cfg seg sections f n stack section base ws :
  emit_sff rt sty cfg seg sections f (S n) stack section base ws =
  if mem_str section stack then Err (ESubgroupCycle (sg_name seg) section) else
  chain_step (emit_file_of rt sty cfg seg sections f)
             (emit_sff rt sty cfg seg sections f n (section :: stack)) cfg seg f sections section base ws.
Proof.
  rewrite emit_sff_S_raw. destruct (mem_str section stack); [reflexivity|].
  unfold chain_step. apply fold_out_ext. intros k ws0. unfold emit_file_of.
  rewrite (emit_file_gen_ext (group_raw rt sty cfg seg sections k) (group_fold rt sty cfg seg sections k));
    [reflexivity|]. intros. apply group_eq.
Qed.

(* nested induction on file trees *)
Fixpoint file_info_ind' (P : file_info -> Prop)
         (H : forall p k sf pa sec lon so files d c kp,
             Forall P files -> P (FileInfo p k sf pa sec lon so files d c kp))
         (f : file_info) : P f :=
  match f with
  | FileInfo p k sf pa sec lon so files d c kp =>
      H p k sf pa sec lon so files d c kp
        ((fix go (l : list file_info) : Forall P l :=
            match l with
            | [] => Forall_nil P
            | x :: r => Forall_cons x (file_info_ind' P H x) (go r)
            end) files)
  end.

(* sequencing of two writer actions *)
Definition seq_out (g1 g2 : wstate -> res out) : wstate -> res out :=
  fun ws => do o1 <- g1 ws; do o2 <- g2 (snd o1); Ok ((fst o1 ++ fst o2)%list, snd o2).

(* the writer actions emit_sff is made of: the five leaves of emit_file, failure, sequencing.
   [offs] bounds the linker offset names that may be defined *)
Inductive emitter (sty : style) (wild : bool) (offs : string -> Prop) : (wstate -> res out) -> Prop :=
| em_nil : emitter sty wild offs (fun ws => Ok ([], ws))
| em_err e : emitter sty wild offs (fun _ => Err e)
| em_input keep path member k :
    emitter sty wild offs (fun ws => Ok ([SInput keep (display path) member k wild], add_path path ws))
| em_pad n : emitter sty wild offs (fun ws => Ok ([SDotAdd n], ws))
| em_off name :
    offs name ->
    emitter sty wild offs (fun ws => Ok ([SAssign false false true (linker_offset sty name) EDot], ws))
| em_seq g1 g2 : emitter sty wild offs g1 -> emitter sty wild offs g2 -> emitter sty wild offs (seq_out g1 g2)
| em_ext g1 g2 : (forall ws, g1 ws = g2 ws) -> emitter sty wild offs g1 -> emitter sty wild offs g2.

Lemma emitter_mono sty wild (offs offs' : string -> Prop) g :
  (forall n, offs n -> offs' n) -> emitter sty wild offs g -> emitter sty wild offs' g.
Proof.
  intro H. induction 1 as [| e | keep path member k | n | name Hn | g1 g2 H1 IH1 H2 IH2 | g1 g2 Hext H1 IH1].
  - apply em_nil.
  - apply em_err.
  - apply em_input.
  - apply em_pad.
  - apply em_off. apply H. exact Hn.
  - apply em_seq; assumption.
  - eapply em_ext; eassumption.
Qed.

Lemma fold_out_emitter {A} sty wild offs (f : A -> wstate -> res out) l :
  Forall (fun x => emitter sty wild offs (f x)) l -> emitter sty wild offs (fold_out f l).
Proof.
  induction 1 as [|x r Hx Hr IH].
  - eapply em_ext; [|apply em_nil]. reflexivity.
  - eapply em_ext; [|apply (em_seq _ _ _ _ _ Hx IH)]. reflexivity.
Qed.

Definition offs_of (rt : runtime) (f : file_info) : string -> Prop :=
  fun name => In name (file_offset_names rt f).

Lemma emit_file_of_emitter rt sty cfg seg sections f k base :
  Forall (fun c => forall n stack section base,
              emitter sty (wildcard_sections seg) (offs_of rt c)
                      (emit_sff rt sty cfg seg sections c n stack section base))
         (fi_files f) ->
  emitter sty (wildcard_sections seg) (offs_of rt f) (emit_file_of rt sty cfg seg sections f k base).
Proof.
  intro IH. unfold emit_file_of, emit_file_gen.
  destruct (should_emit rt (fi_conds f)) eqn:He; simpl; [|apply em_nil].
  destruct (fi_kind f) eqn:Ek.
  - destruct (escape_path rt (fi_path f)) as [p|e]; simpl; [apply em_input | apply em_err].
  - destruct (escape_path rt (fi_path f)) as [p|e]; simpl; [apply em_input | apply em_err].
  - destruct (String.eqb (fi_section f) k); [apply em_pad | apply em_nil].
  - destruct (String.eqb (fi_section f) k); [|apply em_nil]. apply em_off.
    unfold offs_of. destruct f. simpl in *. rewrite He, Ek. left; reflexivity.
  - destruct (escape_path rt (fi_dir f)) as [d|e]; simpl; [|apply em_err].
    unfold group_fold.
    apply (fold_out_emitter sty (wildcard_sections seg) (offs_of rt f)
             (fun c ws => emit_sff rt sty cfg seg sections c (chain_fuel seg) [] k (push base d) ws)).
    rewrite Forall_forall in IH. apply Forall_forall. intros c Hc.
    apply (emitter_mono sty (wildcard_sections seg) (offs_of rt c)); [|apply IH; exact Hc].
    intros name Hn. unfold offs_of in *. destruct f. simpl in *. rewrite He, Ek.
    apply in_flat_map. exists c. split; assumption.
Qed.

Lemma emit_sff_emitter rt sty cfg seg sections f : forall n stack section base,
  emitter sty (wildcard_sections seg) (offs_of rt f)
          (emit_sff rt sty cfg seg sections f n stack section base).
Proof.
  induction f as [p k sf pa sec lon so files d c kp IHfiles] using file_info_ind'.
  set (f := FileInfo p k sf pa sec lon so files d c kp) in *.
  induction n as [|n IHn]; intros stack section base.
  - eapply em_ext; [|apply (em_err _ _ _ (ECrash "emit_section_for_file: recursion bound"))].
    intro ws. symmetry. apply emit_sff_O.
  - eapply em_ext; [intro ws; symmetry; apply emit_sff_S|].
    destruct (mem_str section stack); [apply em_err|].
    unfold chain_step. apply fold_out_emitter. apply Forall_forall. intros k0 _.
    eapply em_ext; [|apply em_seq with
        (g1 := emit_file_of rt sty cfg seg sections f k0 base)
        (g2 := fun ws => if reference_partial cfg then Ok ([], ws) else
                 match lookup k0 (subgroups_for seg f) with
                 | Some others =>
                     fold_out (fun other ws => emit_sff rt sty cfg seg sections f n (section :: stack) other base ws)
                              others ws
                 | None => Ok ([], ws)
                 end)].
    + reflexivity.
    + apply emit_file_of_emitter. exact IHfiles.
    + destruct (reference_partial cfg); [apply em_nil|].
      destruct (lookup k0 (subgroups_for seg f)) as [others|]; [|apply em_nil].
      apply (fold_out_emitter sty (wildcard_sections seg) (offs_of rt f)
               (fun other ws => emit_sff rt sty cfg seg sections f n (section :: stack) other base ws)).
      apply Forall_forall. intros other _. apply (IHn (section :: stack) other base).
Qed.

Definition offs_of_segment (rt : runtime) (seg : segment) : string -> Prop :=
  fun name => In name (segment_offset_names rt seg).

Lemma emit_section_emitter rt sty cfg seg sections base section :
  emitter sty (wildcard_sections seg) (offs_of_segment rt seg)
          (emit_section rt sty cfg seg sections base section).
Proof.
  assert (Hfiles : forall sec b, Forall (fun f => emitter sty (wildcard_sections seg) (offs_of_segment rt seg)
            (fun ws => emit_sff rt sty cfg seg sections f (chain_fuel seg) [] sec b ws)) (sg_files seg)).
  { intros sec b. apply Forall_forall. intros f Hf.
    apply (emitter_mono sty (wildcard_sections seg) (offs_of rt f)); [|apply emit_sff_emitter].
    intros name Hn. unfold offs_of_segment, segment_offset_names. apply in_flat_map. exists f. split; assumption. }
  unfold emit_section.
  destruct (escape_path rt base) as [b0|e]; simpl; [|apply em_err].
  destruct (reference_partial cfg); simpl.
  - apply (fold_out_emitter sty (wildcard_sections seg) (offs_of_segment rt seg)
             (fun f ws => emit_sff rt sty cfg seg sections f (chain_fuel seg) [] section b0 ws)).
    apply Hfiles.
  - destruct (escape_path rt (sg_dir seg)) as [d|e]; simpl; [|apply em_err].
    apply (fold_out_emitter sty (wildcard_sections seg) (offs_of_segment rt seg)
             (fun f ws => emit_sff rt sty cfg seg sections f (chain_fuel seg) [] section (push b0 d) ws)).
    apply Hfiles.
Qed.

(* a property of writer actions that holds of the leaves and is preserved by sequencing holds of
   every emitter: the relational form used most often *)
Section EmitterRel.
  Variables (sty : style) (wild : bool) (offs : string -> Prop).
  Variable R : wstate -> list stmt -> wstate -> Prop.
  Hypothesis R_nil : forall ws, R ws [] ws.
  Hypothesis R_app : forall ws s1 ws1 s2 ws2, R ws s1 ws1 -> R ws1 s2 ws2 -> R ws (s1 ++ s2) ws2.
  Hypothesis R_input : forall ws keep path member k,
      R ws [SInput keep (display path) member k wild] (add_path path ws).
  Hypothesis R_pad : forall ws n, R ws [SDotAdd n] ws.
  Hypothesis R_off : forall ws name,
      offs name -> R ws [SAssign false false true (linker_offset sty name) EDot] ws.

  Lemma emitter_rel g : emitter sty wild offs g -> forall ws s ws', g ws = Ok (s, ws') -> R ws s ws'.
  Proof.
    induction 1 as [| e | keep path member k | n | name Hn | g1 g2 H1 IH1 H2 IH2 | g1 g2 Hext H1 IH1];
      intros ws s ws' H.
    - apply ok_inj in H. inversion H; subst. apply R_nil.
    - discriminate.
    - apply ok_inj in H. inversion H; subst. apply R_input.
    - apply ok_inj in H. inversion H; subst. apply R_pad.
    - apply ok_inj in H. inversion H; subst. apply R_off. exact Hn.
    - unfold seq_out in H. apply bind_ok_out in H. destruct H as [s1 [w1 [E1 H]]]. simpl in H.
      apply bind_ok_out in H. destruct H as [s2 [w2 [E2 H]]]. simpl in H.
      apply ok_inj in H. inversion H; subst. eapply R_app; eauto.
    - rewrite <- Hext in H. eauto.
  Qed.
End EmitterRel.

(* ====================================================================== *)
(* inversion of the segment-level functions                                *)
(* ====================================================================== *)

Definition class_part (st : settings) (classes : list vram_class) (seg : segment) (ws : wstate) : res out :=
  match sg_vram_class seg with
  | Some cn =>
      match class_get classes cn with
      | None => Err (EMissingVramClassForSegment (sg_name seg) cn)
      | Some c =>
          if mem_str cn (ws_emitted ws) then Ok ([], ws)
          else Ok (class_start_stmts st c cn, mark_emitted cn ws)
      end
  | None => Ok ([], ws)
  end.

Definition seg_head (st : settings) (seg : segment) : list stmt :=
  (match segment_start_align seg with
   | Some a => [SAlign "__romPos" a; SAlign "." a] | None => [] end) ++
  [linker_symbol (segment_rom_start (linker_symbols_style st) (sg_name seg)) (ESym "__romPos");
   linker_symbol (segment_vram_start (linker_symbols_style st) (sg_name seg)) (EAddr ("." ++ sg_name seg))].

Definition seg_foot (st : settings) (seg : segment) : list stmt :=
  let sty := linker_symbols_style st in
  let name := sg_name seg in
  [SRomAdd ("." ++ name)] ++
  (match segment_end_align seg with
   | Some a => [SAlign "__romPos" a; SAlign "." a] | None => [] end) ++
  sym_end_size (segment_vram_start sty name) (segment_vram_end sty name)
               (segment_vram_size sty name) EDot ++
  sym_end_size (segment_rom_start sty name) (segment_rom_end sty name)
               (segment_rom_size sty name) (ESym "__romPos") ++
  (match sg_vram_class seg with
   | Some cn => [SBlank; SMaxSelf (vram_class_end sty cn) (segment_vram_end sty name)]
   | None => [] end) ++
  [SBlank].

Lemma class_part_inv st classes seg ws cls ws1 :
  class_part st classes seg ws = Ok (cls, ws1) ->
  (cls = [] /\ ws1 = ws) \/
  (exists cn c, sg_vram_class seg = Some cn /\ class_get classes cn = Some c /\
                mem_str cn (ws_emitted ws) = false /\
                cls = class_start_stmts st c cn /\ ws1 = mark_emitted cn ws).
Proof.
  unfold class_part. destruct (sg_vram_class seg) as [cn|] eqn:Ecn.
  - destruct (class_get classes cn) as [c|] eqn:Ec; [|discriminate].
    destruct (mem_str cn (ws_emitted ws)) eqn:E; intro H; apply ok_inj in H; inversion H; subst.
    + left; auto.
    + right. exists cn, c. repeat split; auto.
  - intro H; apply ok_inj in H; inversion H; subst. left; auto.
Qed.

Lemma add_segment_inv rt st cfg classes seg ws s ws' :
  add_segment rt st cfg classes seg ws = Ok (s, ws') ->
  (should_emit rt (sg_conds seg) = false /\ s = [] /\ ws' = ws) \/
  (should_emit rt (sg_conds seg) = true /\
   exists cls ws1 s1 ws2 s2,
     class_part st classes seg ws = Ok (cls, ws1) /\
     write_segment rt st cfg seg (alloc_sections seg) false ws1 = Ok (s1, ws2) /\
     write_segment rt st cfg seg (noload_sections seg) true ws2 = Ok (s2, ws') /\
     s = cls ++ seg_head st seg ++ s1 ++ [SBlank] ++ s2 ++ [SBlank] ++ seg_foot st seg).
Proof.
  unfold add_segment. destruct (should_emit rt (sg_conds seg)); simpl.
  - intro H. right. split; [reflexivity|].
    change (match sg_vram_class seg with
            | Some cn => match class_get classes cn with
                         | Some c => if mem_str cn (ws_emitted ws) then Ok ([], ws)
                                     else Ok (class_start_stmts st c cn, mark_emitted cn ws)
                         | None => Err (EMissingVramClassForSegment (sg_name seg) cn)
                         end
            | None => Ok ([], ws) end) with (class_part st classes seg ws) in H.
    apply bind_ok_out in H. destruct H as [cls [ws1 [E0 H]]]. cbn [fst snd] in H.
    apply bind_ok_out in H. destruct H as [s1 [ws2 [E1 H]]]. cbn [fst snd] in H.
    apply bind_ok_out in H. destruct H as [s2 [ws3 [E2 H]]]. cbn [fst snd] in H.
    apply ok_inj in H. inversion H; subst. exists cls, ws1, s1, ws2, s2.
    repeat split; try assumption. unfold seg_head, seg_foot.
    repeat rewrite <- app_assoc. reflexivity.
  - intro H. apply ok_inj in H. inversion H; subst. left; auto.
Qed.

Definition outsec_of (st : settings) (seg : segment) (noload : bool) (body : list stmt) : stmt :=
  SOutSec ("." ++ sg_name seg ++ (if noload then ".noload" else ""))
          (if noload then None else segment_addr (linker_symbols_style st) seg)
          (if noload then None else Some (segment_rom_start (linker_symbols_style st) (sg_name seg)))
          noload (subalign seg) (opt_fill seg ++ body).

Lemma write_segment_inv rt st cfg seg sections noload ws s ws' :
  write_segment rt st cfg seg sections noload ws = Ok (s, ws') ->
  exists body,
    part_groups rt st cfg seg sections sections ws = Ok (body, ws') /\
    s = sections_kind_start (linker_symbols_style st) cfg seg noload ++
        [outsec_of st seg noload body] ++
        sections_kind_end (linker_symbols_style st) cfg seg noload.
Proof.
  unfold write_segment. intro H. apply bind_ok_out in H. destruct H as [body [w [E H]]].
  cbn [fst snd] in H. apply ok_inj in H. inversion H; subst. exists body. split; [assumption|reflexivity].
Qed.

Lemma part_groups_cons rt st cfg seg sections section rest ws s ws' :
  part_groups rt st cfg seg sections (section :: rest) ws = Ok (s, ws') ->
  exists s1 ws1 s2,
    emit_section rt (linker_symbols_style st) cfg seg sections (base_path st) section ws = Ok (s1, ws1) /\
    part_groups rt st cfg seg sections rest ws1 = Ok (s2, ws') /\
    s = section_symbol_start rt (linker_symbols_style st) cfg seg section ++ s1 ++
        section_symbol_end (linker_symbols_style st) cfg seg section ++
        (match rest with [] => [] | _ => [SBlank] end) ++ s2.
Proof.
  cbn [part_groups]. intro H. apply bind_ok_out in H. destruct H as [s1 [ws1 [E1 H]]]. cbn [fst snd] in H.
  apply bind_ok_out in H. destruct H as [s2 [ws2 [E2 H]]]. cbn [fst snd] in H.
  apply ok_inj in H. inversion H; subst. exists s1, ws1, s2. auto.
Qed.

Lemma single_groups_cons rt st cfg seg sections noload section rest ws s ws' :
  single_groups rt st cfg seg sections noload (section :: rest) ws = Ok (s, ws') ->
  exists s1 ws1 s2,
    emit_section rt (linker_symbols_style st) cfg seg sections (base_path st) section ws = Ok (s1, ws1) /\
    single_groups rt st cfg seg sections noload rest ws1 = Ok (s2, ws') /\
    s = section_symbol_start rt (linker_symbols_style st) cfg seg section ++
        [SOutSec section None None noload (subalign seg) (opt_fill seg ++ s1)] ++
        section_symbol_end (linker_symbols_style st) cfg seg section ++
        (match rest with [] => [] | _ => [SBlank] end) ++ s2.
Proof.
  cbn [single_groups]. intro H. apply bind_ok_out in H. destruct H as [s1 [ws1 [E1 H]]]. cbn [fst snd] in H.
  apply bind_ok_out in H. destruct H as [s2 [ws2 [E2 H]]]. cbn [fst snd] in H.
  apply ok_inj in H. inversion H; subst. exists s1, ws1, s2. auto.
Qed.

Lemma write_single_segment_inv rt st cfg seg sections noload ws s ws' :
  write_single_segment rt st cfg seg sections noload ws = Ok (s, ws') ->
  exists body,
    single_groups rt st cfg seg sections noload sections ws = Ok (body, ws') /\
    s = sections_kind_start (linker_symbols_style st) cfg seg noload ++ body ++
        sections_kind_end (linker_symbols_style st) cfg seg noload.
Proof.
  unfold write_single_segment. intro H. apply bind_ok_out in H. destruct H as [body [w [E H]]].
  cbn [fst snd] in H. apply ok_inj in H. inversion H; subst. exists body. split; [assumption|reflexivity].
Qed.

Definition single_head (st : settings) (cfg : wcfg) (seg : segment) : list stmt :=
  (if section_syms cfg
   then match hardcoded_gp_stmts st with [] => [] | l => l ++ [SBlank] end
   else []) ++
  (match sg_fixed_vram seg with
   | Some v => [SAssign false false false "." (EHex8 v); SBlank]
   | None => [] end).

Lemma add_single_segment_inv rt st cfg classes seg ws s ws' :
  add_single_segment rt st cfg classes seg ws = Ok (s, ws') ->
  exists s1 ws1 s2,
    write_single_segment rt st cfg seg (alloc_sections seg) false ws = Ok (s1, ws1) /\
    write_single_segment rt st cfg seg (noload_sections seg) true ws1 = Ok (s2, ws') /\
    s = [SSections (single_head st cfg seg ++ s1 ++ [SBlank] ++ s2 ++ [SBlank] ++
                    end_sections_body st classes ws')].
Proof.
  unfold add_single_segment. intro H. apply bind_ok_out in H. destruct H as [s1 [ws1 [E1 H]]].
  cbn [fst snd] in H. apply bind_ok_out in H. destruct H as [s2 [ws2 [E2 H]]]. cbn [fst snd] in H.
  apply ok_inj in H. inversion H; subst. exists s1, ws1, s2. repeat split; try assumption.
  unfold single_head. repeat rewrite <- app_assoc. reflexivity.
Qed.

Lemma fold_out_cons {A} (f : A -> wstate -> res out) x r ws s ws' :
  fold_out f (x :: r) ws = Ok (s, ws') ->
  exists s1 ws1 s2, f x ws = Ok (s1, ws1) /\ fold_out f r ws1 = Ok (s2, ws') /\ s = s1 ++ s2.
Proof.
  cbn [fold_out]. intro H. apply bind_ok_out in H. destruct H as [s1 [ws1 [E1 H]]]. cbn [fst snd] in H.
  apply bind_ok_out in H. destruct H as [s2 [ws2 [E2 H]]]. cbn [fst snd] in H.
  apply ok_inj in H. inversion H; subst. exists s1, ws1, s2. auto.
Qed.

Lemma fold_out_nil {A} (f : A -> wstate -> res out) ws s ws' :
  fold_out f [] ws = Ok (s, ws') -> s = [] /\ ws' = ws.
Proof. cbn [fold_out]. intro H. apply ok_inj in H. inversion H; auto. Qed.

(* a relation that holds of each step and is closed under sequencing holds of the fold *)
Lemma fold_out_rel {A} (R : wstate -> list stmt -> wstate -> Prop) (f : A -> wstate -> res out) l :
  (forall ws, R ws [] ws) ->
  (forall ws s1 ws1 s2 ws2, R ws s1 ws1 -> R ws1 s2 ws2 -> R ws (s1 ++ s2) ws2) ->
  (forall x ws s ws', In x l -> f x ws = Ok (s, ws') -> R ws s ws') ->
  forall ws s ws', fold_out f l ws = Ok (s, ws') -> R ws s ws'.
Proof.
  intros Rnil Rapp. induction l as [|x r IH]; intros Hf ws s ws' H.
  - apply fold_out_nil in H. destruct H; subst. apply Rnil.
  - apply fold_out_cons in H. destruct H as [s1 [ws1 [s2 [E1 [E2 E]]]]]. subst.
    eapply Rapp; [eapply Hf; [left; reflexivity | eassumption]|].
    apply IH; [|assumption]. intros y w t w' Hin. apply Hf. right; assumption.
Qed.

Lemma add_all_segments_inv rt st cfg classes segs ws s ws' :
  add_all_segments rt st cfg classes segs ws = Ok (s, ws') ->
  (single_segment_mode st = true /\ exists seg, segs = [seg] /\
     add_single_segment rt st cfg classes seg ws = Ok (s, ws')) \/
  (single_segment_mode st = false /\ exists body,
     fold_out (add_segment rt st cfg classes) segs ws = Ok (body, ws') /\
     s = [SSections (begin_sections_body st ++ body ++ end_sections_body st classes ws')]).
Proof.
  unfold add_all_segments. destruct (single_segment_mode st).
  - destruct segs as [|seg [|seg2 r]]; try discriminate. intro H. left. split; [reflexivity|].
    exists seg. auto.
  - intro H. apply bind_ok_out in H. destruct H as [body [w [E H]]]. cbn [fst snd] in H.
    apply ok_inj in H. inversion H; subst. right. split; [reflexivity|]. exists body. auto.
Qed.

Lemma gen_normal_inv d rt w :
  gen_normal d rt = Ok w ->
  exists s ws',
    add_all_segments rt (doc_settings d) cfg_normal (doc_vram_classes d) (doc_segments d) ws0 = Ok (s, ws') /\
    w = WriterOut (version_stmts rt ++ s ++ tail_stmts rt d) (ws_paths ws').
Proof.
  unfold gen_normal. intro H. apply bind_ok_out in H. destruct H as [s [ws' [E H]]]. cbn [fst snd] in H.
  apply ok_inj in H. subst. exists s, ws'. auto.
Qed.

(* the partial writer *)
Lemma partial_segment_inv d rt folder seg ws subs s ws' subs' :
  partial_segment d rt folder seg (ws, subs) = Ok (s, (ws', subs')) ->
  (should_emit rt (sg_conds seg) = false /\ s = [] /\ ws' = ws /\ subs' = subs) \/
  (should_emit rt (sg_conds seg) = true /\
   exists sub wsub,
     add_single_segment rt (doc_settings d) cfg_sub_partial (doc_vram_classes d) seg ws0 = Ok (sub, wsub) /\
     add_segment rt (doc_settings d) cfg_main_partial (doc_vram_classes d)
                 (clone_with_new_files seg [new_object (push folder (sg_name seg ++ ".o"))]) ws = Ok (s, ws') /\
     subs' = subs ++ [(sg_name seg, WriterOut (version_stmts rt ++ sub) (ws_paths wsub))]).
Proof.
  unfold partial_segment. destruct (should_emit rt (sg_conds seg)); simpl.
  - intro H. right. split; [reflexivity|].
    apply bind_ok_out in H. destruct H as [sub [wsub [E1 H]]]. cbn [fst snd] in H.
    apply bind_ok_out in H. destruct H as [s1 [ws1 [E2 H]]]. cbn [fst snd] in H.
    apply ok_inj in H. inversion H; subst. exists sub, wsub. auto.
  - intro H. apply ok_inj in H. inversion H; subst. left; auto.
Qed.

Lemma partial_segments_cons d rt folder seg r acc s acc' :
  partial_segments d rt folder (seg :: r) acc = Ok (s, acc') ->
  exists s1 acc1 s2,
    partial_segment d rt folder seg acc = Ok (s1, acc1) /\
    partial_segments d rt folder r acc1 = Ok (s2, acc') /\ s = s1 ++ s2.
Proof.
  cbn [partial_segments]. intro H. apply bind_ok in H. destruct H as [[s1 acc1] [E1 H]]. cbn [fst snd] in H.
  apply bind_ok in H. destruct H as [[s2 acc2] [E2 H]]. cbn [fst snd] in H.
  apply ok_inj in H. inversion H; subst. exists s1, acc1, s2. auto.
Qed.

Lemma gen_partial_inv d rt p :
  gen_partial d rt = Ok p ->
  exists folder body ws subs,
    partial_build_segments_folder (doc_settings d) = Some folder /\
    partial_segments d rt folder (doc_segments d) (ws0, []) = Ok (body, (ws, subs)) /\
    p = PartialOut
          (WriterOut (version_stmts rt ++
                      [SSections (begin_sections_body (doc_settings d) ++ body ++
                                  end_sections_body (doc_settings d) (doc_vram_classes d) ws)] ++
                      tail_stmts rt d) (ws_paths ws)) subs.
Proof.
  unfold gen_partial. destruct (partial_build_segments_folder (doc_settings d)) as [folder|]; [|discriminate].
  intro H. apply bind_ok in H. destruct H as [[body [ws subs]] [E H]]. cbn [fst snd] in H.
  apply ok_inj in H. subst. exists folder, body, ws, subs. auto.
Qed.

(* ====================================================================== *)
(* C18: the tail of SECTIONS                                               *)
(* ====================================================================== *)

Lemma tail_sizes_eq st classes ws :
  flat_map (fun cn => if mem_str cn (ws_emitted ws)
                      then [linker_symbol (vram_class_size (linker_symbols_style st) cn)
                                          (ESub (vram_class_end (linker_symbols_style st) cn)
                                                (vram_class_start (linker_symbols_style st) cn))]
                      else []) (class_names classes []) = tail_sizes st classes ws.
Proof.
  rewrite (flat_map_if_map (fun cn => mem_str cn (ws_emitted ws)) (class_size_stmt (linker_symbols_style st))).
  rewrite class_names_nil. reflexivity.
Qed.

Lemma end_sections_layout st classes ws :
  end_sections_body st classes ws =
  sep_concat [tail_sizes st classes ws; tail_allow st; tail_extra st; tail_discard st].
Proof.
  unfold end_sections_body. cbv zeta. rewrite tail_sizes_eq.
  unfold tail_allow, tail_extra, tail_discard.
  destruct (tail_sizes st classes ws) as [|s0 sz];
    destruct (sections_allowlist st) as [|a0 al];
    destruct (sections_allowlist_extra st) as [|e0 el];
    destruct (orb (discard_wildcard_section st) (nonempty (sections_denylist st)));
    simpl; rewrite ?app_nil_r; try reflexivity;
    repeat (rewrite <- app_assoc; simpl); reflexivity.
Qed.

Lemma strip_blank_app a b : strip_blank (a ++ b) = strip_blank a ++ strip_blank b.
Proof. unfold strip_blank. apply filter_app. Qed.

Lemma strip_sep_concat parts : strip_blank (sep_concat parts) = strip_blank (List.concat parts).
Proof.
  induction parts as [|p r IH]; [reflexivity|]. simpl. rewrite strip_blank_app. destruct p as [|x p].
  - exact IH.
  - rewrite strip_blank_app. f_equal. rewrite <- IH. destruct (sep_concat r); reflexivity.
Qed.

Lemma strip_blank_id l : Forall (fun s => is_blank s = false) l -> strip_blank l = l.
Proof.
  induction 1 as [|x r Hx Hr IH]; [reflexivity|]. unfold strip_blank in *. simpl. rewrite Hx. simpl.
  rewrite IH. reflexivity.
Qed.

Lemma Forall_map_intro {A B} (P : B -> Prop) (f : A -> B) l : (forall x, P (f x)) -> Forall P (map f l).
Proof. intro H. induction l; simpl; constructor; auto. Qed.

Ltac fa := repeat match goal with |- Forall _ (_ ++ _) => apply Forall_app; split end.

Lemma end_sections_strip st classes ws :
  strip_blank (end_sections_body st classes ws) =
  tail_sizes st classes ws ++ tail_allow st ++ tail_extra st ++ tail_discard st.
Proof.
  rewrite end_sections_layout, strip_sep_concat. simpl. rewrite app_nil_r.
  apply strip_blank_id. fa.
  - apply Forall_map_intro. reflexivity.
  - apply Forall_map_intro. reflexivity.
  - apply Forall_map_intro. reflexivity.
  - unfold tail_discard. destruct (orb _ _); repeat constructor.
Qed.

Lemma tail_discard_iff st :
  (DiscardWanted st -> tail_discard st = [SDiscard (sections_denylist st) (discard_wildcard_section st)]) /\
  (~ DiscardWanted st -> tail_discard st = []).
Proof.
  unfold DiscardWanted, tail_discard. split.
  - intros [H|H].
    + rewrite H. reflexivity.
    + apply nonempty_spec in H. rewrite H, orb_true_r. reflexivity.
  - intro H. destruct (discard_wildcard_section st) eqn:E1; [exfalso; apply H; left; reflexivity|].
    destruct (nonempty (sections_denylist st)) eqn:E2; [|reflexivity].
    exfalso. apply H. right. apply nonempty_spec. assumption.
Qed.

(* the four parts are made of the statements they should be made of *)
Lemma tail_parts_kinds st classes ws :
  Forall no_tail_stmt (tail_sizes st classes ws) /\
  Forall (fun s => exists sect, s = SSingleEntry sect) (tail_allow st ++ tail_extra st).
Proof.
  split.
  - apply Forall_map_intro. reflexivity.
  - apply Forall_app; split; apply Forall_map_intro; intro x; exists x; reflexivity.
Qed.

(* ---------- nothing before the tail is an allowlist entry or a discard block ---------- *)

Lemma no_tail_forallb l : forallb no_tail_deep l = true <-> Forall no_tail_stmt l.
Proof. rewrite forallb_forall, Forall_forall. reflexivity. Qed.

Ltac nt_leaf :=
  repeat match goal with
         | |- Forall _ (_ ++ _) => apply Forall_app; split
         | |- Forall _ (match ?x with _ => _ end) => destruct x
         | |- Forall _ (if ?x then _ else _) => destruct x
         | |- Forall _ (_ :: _) => constructor
         | |- Forall _ [] => constructor
         | |- no_tail_stmt _ => reflexivity
         end.

Lemma nt_opt_align a : Forall no_tail_stmt (opt_align a).
Proof. unfold opt_align. nt_leaf. Qed.

Lemma nt_gp_stmt rt seg section : Forall no_tail_stmt (gp_stmt rt seg section).
Proof. unfold gp_stmt. nt_leaf. Qed.

Lemma nt_section_symbol_start rt sty cfg seg section :
  Forall no_tail_stmt (section_symbol_start rt sty cfg seg section).
Proof.
  unfold section_symbol_start. destruct (section_syms cfg); [|constructor].
  fa; try apply nt_opt_align; try apply nt_gp_stmt. nt_leaf.
Qed.

Lemma nt_section_symbol_end sty cfg seg section :
  Forall no_tail_stmt (section_symbol_end sty cfg seg section).
Proof.
  unfold section_symbol_end. destruct (section_syms cfg); [|constructor].
  fa; try apply nt_opt_align. unfold sym_end_size. nt_leaf.
Qed.

Lemma nt_kind_start sty cfg seg noload : Forall no_tail_stmt (sections_kind_start sty cfg seg noload).
Proof. unfold sections_kind_start. nt_leaf. Qed.

Lemma nt_kind_end sty cfg seg noload : Forall no_tail_stmt (sections_kind_end sty cfg seg noload).
Proof. unfold sections_kind_end, sym_end_size. nt_leaf. Qed.

Lemma nt_opt_fill seg : Forall no_tail_stmt (opt_fill seg).
Proof. unfold opt_fill. nt_leaf. Qed.

Lemma nt_seg_head st seg : Forall no_tail_stmt (seg_head st seg).
Proof. unfold seg_head. nt_leaf. Qed.

Lemma nt_seg_foot st seg : Forall no_tail_stmt (seg_foot st seg).
Proof. unfold seg_foot, sym_end_size. cbv zeta. nt_leaf. Qed.

Lemma nt_class_start st c cn : Forall no_tail_stmt (class_start_stmts st c cn).
Proof.
  unfold class_start_stmts. apply Forall_app; split; [|nt_leaf].
  destruct (vc_fixed_vram c); [nt_leaf|]. destruct (vc_fixed_symbol c); [nt_leaf|].
  constructor; [reflexivity|]. apply Forall_map_intro. reflexivity.
Qed.

Lemma nt_hardcoded_gp st : Forall no_tail_stmt (hardcoded_gp_stmts st).
Proof. unfold hardcoded_gp_stmts. nt_leaf. Qed.

Lemma nt_begin st : Forall no_tail_stmt (begin_sections_body st).
Proof.
  unfold begin_sections_body. fa; try apply nt_hardcoded_gp; nt_leaf.
Qed.

Lemma nt_single_head st cfg seg : Forall no_tail_stmt (single_head st cfg seg).
Proof.
  unfold single_head. apply Forall_app; split.
  - destruct (section_syms cfg); [|constructor].
    pose proof (nt_hardcoded_gp st) as H. destruct (hardcoded_gp_stmts st); [constructor|].
    apply Forall_app; split; [assumption|nt_leaf].
  - nt_leaf.
Qed.

Lemma nt_version rt : Forall no_tail_stmt (version_stmts rt).
Proof. unfold version_stmts. nt_leaf. Qed.

Lemma Forall_flat_map_intro {A B} (P : B -> Prop) (f : A -> list B) l :
  (forall x, Forall P (f x)) -> Forall P (flat_map f l).
Proof. intro H. induction l; simpl; [constructor|]. apply Forall_app; split; auto. Qed.

Lemma nt_tail_stmts rt d : Forall no_tail_stmt (tail_stmts rt d).
Proof.
  unfold tail_stmts, entry_stmts, assignment_stmts, required_stmts, assert_stmts.
  fa.
  - nt_leaf.
  - destruct (doc_symbol_assignments d); [constructor|]. constructor; [reflexivity|].
    apply Forall_flat_map_intro. intro x0. nt_leaf.
  - destruct (doc_required_symbols d); [constructor|]. constructor; [reflexivity|].
    apply Forall_flat_map_intro. intro x0. nt_leaf.
  - destruct (doc_asserts d); [constructor|]. constructor; [reflexivity|].
    apply Forall_flat_map_intro. intro x0. nt_leaf.
Qed.

Lemma nt_emitter sty wild offs g : emitter sty wild offs g ->
  forall ws s ws', g ws = Ok (s, ws') -> Forall no_tail_stmt s.
Proof.
  apply (emitter_rel sty wild offs (fun _ s _ => Forall no_tail_stmt s)); intros; try (repeat constructor).
  apply Forall_app; split; assumption.
Qed.

Lemma nt_emit_section rt sty cfg seg sections base section ws s ws' :
  emit_section rt sty cfg seg sections base section ws = Ok (s, ws') -> Forall no_tail_stmt s.
Proof. apply (nt_emitter sty (wildcard_sections seg) (offs_of_segment rt seg)). apply emit_section_emitter. Qed.

Lemma nt_part_groups rt st cfg seg sections rest : forall ws s ws',
  part_groups rt st cfg seg sections rest ws = Ok (s, ws') -> Forall no_tail_stmt s.
Proof.
  induction rest as [|section rest IH]; intros ws s ws' H.
  - apply ok_inj in H. inversion H; subst. constructor.
  - apply part_groups_cons in H. destruct H as [s1 [ws1 [s2 [E1 [E2 E]]]]]. subst.
    fa.
    + apply nt_section_symbol_start.
    + eapply nt_emit_section; eassumption.
    + apply nt_section_symbol_end.
    + nt_leaf.
    + eapply IH; eassumption.
Qed.

Lemma nt_write_segment rt st cfg seg sections noload ws s ws' :
  write_segment rt st cfg seg sections noload ws = Ok (s, ws') -> Forall no_tail_stmt s.
Proof.
  intro H. apply write_segment_inv in H. destruct H as [body [E H]]. subst.
  fa; [apply nt_kind_start | | apply nt_kind_end].
  constructor; [|constructor]. unfold no_tail_stmt, outsec_of. cbn [no_tail_deep].
  apply no_tail_forallb. apply Forall_app; split; [apply nt_opt_fill|].
  eapply nt_part_groups; eassumption.
Qed.

Lemma nt_single_groups rt st cfg seg sections noload rest : forall ws s ws',
  single_groups rt st cfg seg sections noload rest ws = Ok (s, ws') -> Forall no_tail_stmt s.
Proof.
  induction rest as [|section rest IH]; intros ws s ws' H.
  - apply ok_inj in H. inversion H; subst. constructor.
  - apply single_groups_cons in H. destruct H as [s1 [ws1 [s2 [E1 [E2 E]]]]]. subst.
    fa.
    + apply nt_section_symbol_start.
    + constructor; [|constructor]. unfold no_tail_stmt. cbn [no_tail_deep]. apply no_tail_forallb.
      apply Forall_app; split; [apply nt_opt_fill|]. eapply nt_emit_section; eassumption.
    + apply nt_section_symbol_end.
    + nt_leaf.
    + eapply IH; eassumption.
Qed.

Lemma nt_write_single_segment rt st cfg seg sections noload ws s ws' :
  write_single_segment rt st cfg seg sections noload ws = Ok (s, ws') -> Forall no_tail_stmt s.
Proof.
  intro H. apply write_single_segment_inv in H. destruct H as [body [E H]]. subst.
  fa; [apply nt_kind_start | | apply nt_kind_end].
  eapply nt_single_groups; eassumption.
Qed.

Lemma nt_add_segment rt st cfg classes seg ws s ws' :
  add_segment rt st cfg classes seg ws = Ok (s, ws') -> Forall no_tail_stmt s.
Proof.
  intro H. apply add_segment_inv in H.
  destruct H as [[_ [E _]] | [_ [cls [ws1 [s1 [ws2 [s2 [Ec [E1 [E2 E]]]]]]]]]]; subst; [constructor|].
  fa.
  - apply class_part_inv in Ec. destruct Ec as [[E _] | [cn [c [_ [_ [_ [E _]]]]]]]; subst;
      [constructor | apply nt_class_start].
  - apply nt_seg_head.
  - eapply nt_write_segment; eassumption.
  - nt_leaf.
  - eapply nt_write_segment; eassumption.
  - nt_leaf.
  - apply nt_seg_foot.
Qed.

Lemma nt_fold_add_segment rt st cfg classes segs ws s ws' :
  fold_out (add_segment rt st cfg classes) segs ws = Ok (s, ws') -> Forall no_tail_stmt s.
Proof.
  apply (fold_out_rel (fun _ s _ => Forall no_tail_stmt s)).
  - constructor.
  - intros. apply Forall_app; split; assumption.
  - intros seg w t w' _ H. eapply nt_add_segment; eassumption.
Qed.

(* the three modes *)
Lemma tail_last_single rt st cfg classes seg ws s ws' :
  add_single_segment rt st cfg classes seg ws = Ok (s, ws') ->
  exists body, s = [SSections body] /\ EndsWithTail st classes body.
Proof.
  intro H. apply add_single_segment_inv in H. destruct H as [s1 [ws1 [s2 [E1 [E2 E]]]]]. subst.
  eexists. split; [reflexivity|].
  exists (single_head st cfg seg ++ s1 ++ [SBlank] ++ s2 ++ [SBlank]), ws'. split.
  - repeat rewrite <- app_assoc. reflexivity.
  - fa.
    + apply nt_single_head.
    + eapply nt_write_single_segment; eassumption.
    + nt_leaf.
    + eapply nt_write_single_segment; eassumption.
    + nt_leaf.
Qed.

Lemma tail_last_multi rt st cfg classes segs ws s ws' :
  single_segment_mode st = false ->
  add_all_segments rt st cfg classes segs ws = Ok (s, ws') ->
  exists body, s = [SSections body] /\ EndsWithTail st classes body.
Proof.
  intros Hm H. apply add_all_segments_inv in H. destruct H as [[Hs _] | [_ [body [E H]]]]; [congruence|].
  subst. eexists. split; [reflexivity|]. exists (begin_sections_body st ++ body), ws'. split.
  - rewrite <- app_assoc. reflexivity.
  - apply Forall_app; split; [apply nt_begin | eapply nt_fold_add_segment; eassumption].
Qed.

Lemma tail_last_all rt st cfg classes segs ws s ws' :
  add_all_segments rt st cfg classes segs ws = Ok (s, ws') ->
  exists body, s = [SSections body] /\ EndsWithTail st classes body.
Proof.
  destruct (single_segment_mode st) eqn:Hm; intro H.
  - apply add_all_segments_inv in H. destruct H as [[_ [seg [_ H]]] | [Hs _]]; [|congruence].
    eapply tail_last_single; eassumption.
  - eapply tail_last_multi; eassumption.
Qed.

Lemma tail_last_normal d rt w :
  gen_normal d rt = Ok w ->
  exists body, wo_script w = version_stmts rt ++ [SSections body] ++ tail_stmts rt d /\
               EndsWithTail (doc_settings d) (doc_vram_classes d) body.
Proof.
  intro H. apply gen_normal_inv in H. destruct H as [s [ws' [E H]]]. subst.
  apply tail_last_all in E. destruct E as [body [E Hb]]. subst. exists body. split; [reflexivity|assumption].
Qed.

Definition SubScriptOk (rt : runtime) (d : document) (sub : string * writer_out) : Prop :=
  exists body, wo_script (snd sub) = version_stmts rt ++ [SSections body] /\
               EndsWithTail (doc_settings d) (doc_vram_classes d) body.

Lemma partial_segments_tail d rt folder segs : forall ws subs s ws' subs',
  partial_segments d rt folder segs (ws, subs) = Ok (s, (ws', subs')) ->
  Forall no_tail_stmt s /\ (Forall (SubScriptOk rt d) subs -> Forall (SubScriptOk rt d) subs').
Proof.
  induction segs as [|seg r IH]; intros ws subs s ws' subs' H.
  - apply ok_inj in H. inversion H; subst. split; [constructor|auto].
  - apply partial_segments_cons in H. destruct H as [s1 [[ws1 subs1] [s2 [E1 [E2 E]]]]]. subst.
    apply IH in E2. destruct E2 as [Hs2 Hsub2].
    apply partial_segment_inv in E1.
    destruct E1 as [[_ [E [Ew Es]]] | [_ [sub [wsub [Ea [Eb Es]]]]]]; subst.
    + split; [exact Hs2 | exact Hsub2].
    + split.
      * apply Forall_app; split; [eapply nt_add_segment; eassumption | exact Hs2].
      * intro Hsubs. apply Hsub2. apply Forall_app; split; [assumption|]. constructor; [|constructor].
        apply tail_last_single in Ea. destruct Ea as [body [E Hb]]. subst.
        exists body. split; [reflexivity | assumption].
Qed.

Lemma tail_last_partial d rt p :
  gen_partial d rt = Ok p ->
  (exists body, wo_script (po_main p) = version_stmts rt ++ [SSections body] ++ tail_stmts rt d /\
                EndsWithTail (doc_settings d) (doc_vram_classes d) body) /\
  Forall (SubScriptOk rt d) (po_subs p).
Proof.
  intro H. apply gen_partial_inv in H. destruct H as [folder [body [ws [subs [Ef [E H]]]]]]. subst.
  apply partial_segments_tail in E. destruct E as [Hs Hsub]. split.
  - eexists. split; [reflexivity|]. exists (begin_sections_body (doc_settings d) ++ body), ws. split.
    + rewrite <- app_assoc. reflexivity.
    + apply Forall_app; split; [apply nt_begin | assumption].
  - apply Hsub. constructor.
Qed.

Lemma nt_outside rt d : Forall no_tail_stmt (version_stmts rt) /\ Forall no_tail_stmt (tail_stmts rt d).
Proof. split; [apply nt_version | apply nt_tail_stmts]. Qed.
