(* C02DocPartial (and the C01 range statement it goes through): the link-level half of C02 for the MAIN
   script of a partial build.  ROM positions: a corollary of partial_rom_chain (Proofs/DocPartial.v).
   Placements: document_blocks (Proofs/C01Doc.v) redone for the statements of ANY configuration, in the
   style of the any-cfg lemmas of Proofs/DocPartial.v, then instantiated on the clones. *)
From Slinky Require Import Model.Types Model.Generated Model.Runtime Model.Style Model.Script Model.Writer Model.LdSem.
From Slinky Require Import Spec.C17 Spec.C18 Spec.C04 Spec.C03 Spec.C09 Spec.C01 Spec.C05 Spec.C10 Spec.C11
  Spec.DocLevel Spec.DocWf Spec.DocPartial Spec.C01Doc.
From Slinky Require Import Proofs.C06 Proofs.C18 Proofs.C17 Proofs.LdLemmas Proofs.C09 Proofs.C01 Proofs.C05 Proofs.C04
  Proofs.C03 Proofs.C10 Proofs.C11 Proofs.DocLevel Proofs.DocWf Proofs.DocPartial Proofs.C01Doc.
From Coq Require Import Lia ZArith.
Local Open Scope Z_scope.

(* ====================================================================== *)
(* 1. ROM positions never decrease in segment order                        *)
(* ====================================================================== *)

Theorem partial_rom_monotone env senv ext final d rt p u :
  gen_partial d rt = Ok p -> doc_link_wf_partial d rt = true ->
  Forall (fun x => 0 <= u_size x) u ->
  let sty := linker_symbols_style (doc_settings d) in
  let segs := included rt (doc_segments d) in
  let st' := exec_script env senv ext final (wo_script (po_main p)) (init_state u) in
  (forall seg, In seg segs -> ~ In (LForwardRef (alloc_name seg)) (l_errors st')) ->
  RomMonotone sty st' 0 segs.
Proof.
  intros Hg Hwf Hu sty segs st' Herr. apply RomChain_monotone.
  apply (partial_rom_chain env senv ext final d rt p u Hg Hwf Hu Herr).
Qed.

Theorem partial_rom_monotone_layout d rt p u ext0 :
  gen_partial d rt = Ok p -> doc_link_wf_partial d rt = true ->
  Forall (fun x => 0 <= u_size x) u ->
  let sty := linker_symbols_style (doc_settings d) in
  let segs := included rt (doc_segments d) in
  let st' := layout (wo_script (po_main p)) u ext0 in
  (forall seg, In seg segs -> ~ In (LForwardRef (alloc_name seg)) (l_errors st')) ->
  RomMonotone sty st' 0 segs.
Proof. intros Hg Hwf Hu sty segs st'. unfold st', layout. apply partial_rom_monotone; assumption. Qed.

(* ====================================================================== *)
(* 2. the placements of both output sections, any configuration            *)
(* ====================================================================== *)

Section AnyCfgBlocks.
  Variables (rt : runtime) (stg : settings) (cfg : wcfg) (classes : list vram_class) (segs : list segment).
  Variables (tl body : list stmt) (ws' : wstate).
  Variables (env : list (string * Z)) (senv : list osec) (ext : list (string * Z)) (final : bool).
  Notation runl := (run env senv ext final).
  Notation sty := (linker_symbols_style stg).
  Notation isegs := (included rt segs).
  Notation fin := (end_sections_body stg classes ws' ++ tl)%list.
  Notation all := (begin_sections_body stg ++ body ++ end_sections_body stg classes ws' ++ tl)%list.

  Hypothesis E : fold_out (add_segment rt stg cfg classes) segs ws0 = Ok (body, ws').
  Hypothesis Hwf : link_wf_stmts rt stg classes segs tl body ws' = true.
  Hypothesis Htl : flat_map makes_sec tl = [].
  Hypothesis Hfresh : forall n, In n (out_names isegs) -> ~ In n (aux_section_names stg).

  Theorem any_blocks u seg :
    Forall (fun x => 0 <= u_size x) u ->
    In seg isegs ->
    let st' := runl all (init_state u) in
    ~ In (LForwardRef (alloc_name seg)) (l_errors st') ->
    (exists o, find_sec (alloc_name seg) (l_secs st') = Some o /\ os_noload o = false /\ 0 <= os_size o /\
       Forall (in_range u (os_vma o) (os_vma o + os_size o) (alloc_name seg)) (placed_in (alloc_name seg) st') /\
       nondecreasing (map pl_addr (placed_in (alloc_name seg) st'))) /\
    (exists o, find_sec (noload_name seg) (l_secs st') = Some o /\ os_noload o = true /\ 0 <= os_size o /\
       Forall (in_range u (os_vma o) (os_vma o + os_size o) (noload_name seg)) (placed_in (noload_name seg) st') /\
       nondecreasing (map pl_addr (placed_in (noload_name seg) st'))).
  Proof.
    intros Hu Hin st' Herr.
    destruct (link_wf_stmts_inv _ _ _ _ _ _ _ Hwf) as (Hnd & _ & _ & _).
    unfold st' in *. clear st'.
    destruct (fold_segment_split _ _ _ _ _ _ _ _ _ E Hin Hnd) as (b1 & wsa & s1 & wsb & b2 & Ea & Eb & _ & _).
    assert (Hina : In (alloc_name seg) (out_names isegs)).
    { unfold out_names. apply in_flat_map. exists seg. split; [exact Hin | left; reflexivity]. }
    assert (Hinb : In (noload_name seg) (out_names isegs)).
    { unfold out_names. apply in_flat_map. exists seg. split; [exact Hin | right; left; reflexivity]. }
    apply filter_In in Hin. destruct Hin as [_ Hc].
    apply add_segment_inv in Ea.
    destruct Ea as [[Hc' _] | [_ [cls [ws1 [s1a [ws2 [s2a [Ec [E1 [E2 Es1]]]]]]]]]]; [congruence|].
    apply write_segment_inv in E1. destruct E1 as [body1 [Hg1 E1]]. rewrite alloc_name_outsec in E1.
    apply write_segment_inv in E2. destruct E2 as [body2 [Hg2 E2]]. rewrite noload_name_outsec in E2.
    set (ks := sections_kind_start sty cfg seg false) in *.
    set (ke := sections_kind_end sty cfg seg false) in *.
    set (ks2 := sections_kind_start sty cfg seg true) in *.
    set (ke2 := sections_kind_end sty cfg seg true) in *.
    set (O1 := SOutSec (alloc_name seg) (segment_addr sty seg) (Some (segment_rom_start sty (sg_name seg))) false
                       (subalign seg) (opt_fill seg ++ body1)) in *.
    set (O2 := SOutSec (noload_name seg) None None true (subalign seg) (opt_fill seg ++ body2)) in *.
    set (A1 := (begin_sections_body stg ++ b1 ++ cls ++ seg_head stg seg ++ ks)%list).
    set (B1 := (ke ++ [SBlank] ++ s2a ++ [SBlank] ++ seg_foot stg seg ++ b2 ++ fin)%list).
    set (A2 := (begin_sections_body stg ++ b1 ++ cls ++ seg_head stg seg ++ s1a ++ [SBlank] ++ ks2)%list).
    set (B2 := (ke2 ++ [SBlank] ++ seg_foot stg seg ++ b2 ++ fin)%list).
    assert (EL1 : all = (A1 ++ O1 :: B1)%list).
    { unfold A1, B1. rewrite Eb, Es1, E1. repeat (rewrite <- app_assoc; cbn [app]). reflexivity. }
    assert (EL2 : all = (A2 ++ O2 :: B2)%list).
    { unfold A2, B2. rewrite Eb, Es1, E2. repeat (rewrite <- app_assoc; cbn [app]). reflexivity. }
    (* the output sections the whole list creates: those of the included segments, then the auxiliary ones *)
    assert (Hmk : flat_map makes_sec all = (out_names isegs ++ aux_section_names stg)%list).
    { rewrite !flat_map_app, makes_sec_begin, (makes_sec_fold _ _ _ _ _ _ _ _ E),
        makes_sec_end_sections, Htl, app_nil_r. reflexivity. }
    assert (Hs1 : ~ In (alloc_name seg) (flat_map makes_sec A1) /\ ~ In (alloc_name seg) (flat_map makes_sec B1)).
    { apply (once_split (alloc_name seg) (out_names isegs) (aux_section_names stg));
        [exact Hnd | exact Hina | apply (Hfresh _ Hina) |].
      rewrite <- Hmk, EL1, flat_map_app. reflexivity. }
    assert (Hs2 : ~ In (noload_name seg) (flat_map makes_sec A2) /\ ~ In (noload_name seg) (flat_map makes_sec B2)).
    { apply (once_split (noload_name seg) (out_names isegs) (aux_section_names stg));
        [exact Hnd | exact Hinb | apply (Hfresh _ Hinb) |].
      rewrite <- Hmk, EL2, flat_map_app. reflexivity. }
    split.
    - rewrite EL1 in Herr |- *.
      apply (outsec_block env senv ext final (alloc_name seg) (segment_addr sty seg)
                          (Some (segment_rom_start sty (sg_name seg))) false (subalign seg) (opt_fill seg ++ body1)
                          A1 B1 (init_state u)).
      + exact Hu.
      + constructor.
      + reflexivity.
      + apply Hs1.
      + apply Hs1.
      + intros e Ev. apply Herr. rewrite run_app, run_cons. apply run_errors_in.
        unfold O1. cbn [exec_top_stmt]. rewrite (exec_outsec_err _ _ _ _ _ _ _ _ _ _ _ _ Ev).
        cbn [add_err l_errors]. apply in_or_app. right. left. reflexivity.
    - rewrite EL2.
      apply (outsec_block env senv ext final (noload_name seg) None None true (subalign seg) (opt_fill seg ++ body2)
                          A2 B2 (init_state u)).
      + exact Hu.
      + constructor.
      + reflexivity.
      + apply Hs2.
      + apply Hs2.
      + intros e Ev. cbn [outsec_vma] in Ev. discriminate Ev.
  Qed.
End AnyCfgBlocks.

(* ====================================================================== *)
(* 3. the main script                                                      *)
(* ====================================================================== *)

Section PartialBlocks.
  Variables (env : list (string * Z)) (senv : list osec) (ext : list (string * Z)) (final : bool).

  Theorem partial_blocks d rt p u seg :
    gen_partial d rt = Ok p -> doc_link_wf_partial d rt = true -> doc_outsecs_fresh d rt = true ->
    Forall (fun x => 0 <= u_size x) u ->
    In seg (included rt (doc_segments d)) ->
    let st' := exec_script env senv ext final (wo_script (po_main p)) (init_state u) in
    ~ In (LForwardRef (alloc_name seg)) (l_errors st') ->
    (exists o, find_sec (alloc_name seg) (l_secs st') = Some o /\ os_noload o = false /\ 0 <= os_size o /\
       Forall (in_range u (os_vma o) (os_vma o + os_size o) (alloc_name seg)) (placed_in (alloc_name seg) st') /\
       nondecreasing (map pl_addr (placed_in (alloc_name seg) st'))) /\
    (exists o, find_sec (noload_name seg) (l_secs st') = Some o /\ os_noload o = true /\ 0 <= os_size o /\
       Forall (in_range u (os_vma o) (os_vma o + os_size o) (noload_name seg)) (placed_in (noload_name seg) st') /\
       nondecreasing (map pl_addr (placed_in (noload_name seg) st'))).
  Proof.
    intros Hg Hwf Hfresh Hu Hin st' Herr.
    destruct (partial_exec d rt p Hg Hwf) as (folder & body & ws' & Ef & E & Hwc & _ & _ & Hexec).
    unfold st' in *. rewrite Hexec in *. clear Hexec st'.
    assert (Hin' : In (partial_clone folder seg) (included rt (map (partial_clone folder) (doc_segments d)))).
    { rewrite included_clone. apply in_map. exact Hin. }
    assert (Hfr : forall n, In n (out_names (included rt (map (partial_clone folder) (doc_segments d)))) ->
                            ~ In n (aux_section_names (doc_settings d))).
    { intros n Hn. rewrite included_clone, out_names_clone in Hn. exact (fresh_names d rt n Hfresh Hn). }
    exact (any_blocks rt (doc_settings d) cfg_main_partial (doc_vram_classes d) _ _ _ _
                      env senv ext final E Hwc (makes_sec_tail rt d) Hfr u (partial_clone folder seg) Hu Hin' Herr).
  Qed.

  (* C01: every placement of the main script lies inside its segment *)
  Theorem partial_in_segment_range d rt p u seg :
    gen_partial d rt = Ok p -> doc_link_wf_partial d rt = true -> doc_outsecs_fresh d rt = true ->
    Forall (fun x => 0 <= u_size x) u ->
    In seg (included rt (doc_segments d)) ->
    let sty := linker_symbols_style (doc_settings d) in
    let st' := exec_script env senv ext final (wo_script (po_main p)) (init_state u) in
    (forall s, In s (included rt (doc_segments d)) -> ~ In (LForwardRef (alloc_name s)) (l_errors st')) ->
    InSegmentRange sty u st' seg.
  Proof.
    intros Hg Hwf Hfresh Hu Hin sty st' Herr.
    destruct (partial_vram env senv ext final d rt p u Hg Hwf Hu Herr) as [V _].
    destruct (VramChain_in _ _ _ seg _ _ V Hin) as (o1 & o2 & ve & F1 & F2 & VE & Z1 & Z2 & L1 & L2).
    destruct (partial_blocks d rt p u seg Hg Hwf Hfresh Hu Hin (Herr seg Hin))
      as [(o1' & F1' & _ & _ & R1 & _) (o2' & F2' & _ & _ & R2 & _)].
    fold st' in F1', F2', R1, R2. fold st' sty in F1, F2, VE.
    rewrite F1 in F1'. inversion F1'; subst o1'. rewrite F2 in F2'. inversion F2'; subst o2'.
    apply in_range_within in R1. apply in_range_within in R2.
    exists o1, o2, ve. repeat (split; [assumption|]).
    apply Forall_app. split.
    - eapply within_weaken; [| |exact R1]; lia.
    - eapply within_weaken; [| |exact R2]; lia.
  Qed.

  (* C02: addresses never decrease within a segment *)
  Theorem partial_vram_order d rt p u seg :
    gen_partial d rt = Ok p -> doc_link_wf_partial d rt = true -> doc_outsecs_fresh d rt = true ->
    Forall (fun x => 0 <= u_size x) u ->
    In seg (included rt (doc_segments d)) ->
    let st' := exec_script env senv ext final (wo_script (po_main p)) (init_state u) in
    (forall s, In s (included rt (doc_segments d)) -> ~ In (LForwardRef (alloc_name s)) (l_errors st')) ->
    VramOrderWithin st' seg.
  Proof.
    intros Hg Hwf Hfresh Hu Hin st' Herr.
    destruct (partial_in_segment_range d rt p u seg Hg Hwf Hfresh Hu Hin Herr)
      as (o1 & o2 & ve & F1 & F2 & VE & Z1 & Z2 & L1 & L2 & R1 & R2 & _).
    fold st' in F1, F2, R1, R2.
    destruct (partial_blocks d rt p u seg Hg Hwf Hfresh Hu Hin (Herr seg Hin))
      as [(o1' & _ & _ & _ & _ & M1) (o2' & _ & _ & _ & _ & M2)].
    split; [exact M1|]. split; [exact M2|].
    intros x y Hx Hy. rewrite Forall_forall in R1, R2.
    destruct (R1 x Hx) as [a [Ha [_ [A1 B1]]]]. destruct (R2 y Hy) as [b [_ [_ [A2 _]]]].
    rewrite Forall_forall in Hu. specialize (Hu a Ha). cbv beta in Hu. lia.
  Qed.

  Theorem partial_vram_order_sections d rt p u seg :
    gen_partial d rt = Ok p -> doc_link_wf_partial d rt = true -> doc_outsecs_fresh d rt = true ->
    Forall (fun x => 0 <= u_size x) u ->
    In seg (included rt (doc_segments d)) ->
    let st' := exec_script env senv ext final (wo_script (po_main p)) (init_state u) in
    ~ In (LForwardRef (alloc_name seg)) (l_errors st') ->
    nondecreasing (map pl_addr (placed_in (alloc_name seg) st')) /\
    nondecreasing (map pl_addr (placed_in (noload_name seg) st')).
  Proof.
    intros Hg Hwf Hfresh Hu Hin st' Herr.
    destruct (partial_blocks d rt p u seg Hg Hwf Hfresh Hu Hin Herr)
      as [(o1' & _ & _ & _ & _ & M1) (o2' & _ & _ & _ & _ & M2)].
    split; assumption.
  Qed.
End PartialBlocks.

Theorem partial_in_segment_range_layout d rt p u ext0 seg :
  gen_partial d rt = Ok p -> doc_link_wf_partial d rt = true -> doc_outsecs_fresh d rt = true ->
  Forall (fun x => 0 <= u_size x) u ->
  In seg (included rt (doc_segments d)) ->
  let sty := linker_symbols_style (doc_settings d) in
  let st' := layout (wo_script (po_main p)) u ext0 in
  (forall s, In s (included rt (doc_segments d)) -> ~ In (LForwardRef (alloc_name s)) (l_errors st')) ->
  InSegmentRange sty u st' seg.
Proof.
  intros Hg Hwf Hfresh Hu Hin sty st'. unfold st', layout. apply partial_in_segment_range; assumption.
Qed.

Theorem partial_vram_order_layout d rt p u ext0 seg :
  gen_partial d rt = Ok p -> doc_link_wf_partial d rt = true -> doc_outsecs_fresh d rt = true ->
  Forall (fun x => 0 <= u_size x) u ->
  In seg (included rt (doc_segments d)) ->
  let st' := layout (wo_script (po_main p)) u ext0 in
  (forall s, In s (included rt (doc_segments d)) -> ~ In (LForwardRef (alloc_name s)) (l_errors st')) ->
  VramOrderWithin st' seg.
Proof.
  intros Hg Hwf Hfresh Hu Hin st'. unfold st', layout. apply partial_vram_order; assumption.
Qed.
