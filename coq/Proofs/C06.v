From Slinky Require Import Model.Types Model.Runtime Model.Script Model.Writer Model.Exports Spec.C06.
From Coq Require Import Lia.

Lemma pair_matches_spec rt kv : pair_matches rt kv = true <-> Matches rt kv.
Proof.
  unfold pair_matches, Matches. destruct (opt_get rt (fst kv)) as [v|].
  - rewrite String.eqb_eq. split; intro H; [subst; reflexivity | inversion H; reflexivity].
  - split; intro H; discriminate.
Qed.

Lemma existsb_some rt l : existsb (pair_matches rt) l = true <-> SomeMatch rt l.
Proof.
  rewrite existsb_exists. unfold SomeMatch. split; intros [kv [Hin Hm]]; exists kv; split; auto;
    apply pair_matches_spec; assumption.
Qed.

Lemma forallb_all rt l : forallb (pair_matches rt) l = true <-> AllMatch rt l.
Proof.
  rewrite forallb_forall. unfold AllMatch. split; intros H kv Hin; apply pair_matches_spec; auto.
Qed.

Lemma nonempty_spec {A} (l : list A) : nonempty l = true <-> l <> [].
Proof. destruct l; simpl; split; intro H; try discriminate; try congruence. Qed.

Lemma nonempty_false {A} (l : list A) : nonempty l = false <-> l = [].
Proof. destruct l; simpl; split; intro H; try discriminate; try congruence. Qed.

Lemma SomeMatch_nil rt : ~ SomeMatch rt [].
Proof. intros [kv [[] _]]. Qed.

(* the Rust control flow computes exactly the documented predicate *)
Lemma should_emit_iff rt c : should_emit rt c = true <-> Included rt c.
Proof.
  unfold should_emit, Included.
  destruct (existsb (pair_matches rt) (exc_any c)) eqn:Hea.
  { split; [discriminate|]. intros [H _]. exfalso. apply H. apply existsb_some. assumption. }
  assert (Hnea : ~ SomeMatch rt (exc_any c)).
  { intro H. apply existsb_some in H. congruence. }
  destruct (nonempty (exc_all c) && forallb (pair_matches rt) (exc_all c))%bool eqn:Hel.
  { split; [discriminate|]. intros [_ [H _]]. exfalso. apply H.
    apply andb_true_iff in Hel. destruct Hel as [H1 H2]. split;
      [apply nonempty_spec; assumption | apply forallb_all; assumption]. }
  assert (Hnel : ~ (exc_all c <> [] /\ AllMatch rt (exc_all c))).
  { intros [H1 H2]. apply nonempty_spec in H1. apply forallb_all in H2. rewrite H1, H2 in Hel. discriminate. }
  destruct (nonempty (inc_any c)) eqn:Hia; destruct (nonempty (inc_all c)) eqn:Hil; simpl.
  - (* both lists given *)
    destruct (existsb (pair_matches rt) (inc_any c)) eqn:Hsome; simpl.
    + split; [|reflexivity]. intros _. repeat split; auto. right; left. apply existsb_some; assumption.
    + destruct (forallb (pair_matches rt) (inc_all c)) eqn:Hall; simpl.
      * split; [|reflexivity]. intros _. repeat split; auto. right; right.
        split; [apply nonempty_spec; assumption | apply forallb_all; assumption].
      * split; [discriminate|]. intros [_ [_ [[H _]|[H|[_ H]]]]].
        -- apply nonempty_spec in Hia. contradiction.
        -- apply existsb_some in H. congruence.
        -- apply forallb_all in H. congruence.
  - (* only include_if_any *)
    apply nonempty_false in Hil.
    destruct (existsb (pair_matches rt) (inc_any c)) eqn:Hsome; simpl.
    + split; [|reflexivity]. intros _. repeat split; auto. right; left. apply existsb_some; assumption.
    + split; [discriminate|]. intros [_ [_ [[H _]|[H|[H _]]]]].
      * apply nonempty_spec in Hia. contradiction.
      * apply existsb_some in H. congruence.
      * contradiction.
  - (* only include_if_all *)
    apply nonempty_false in Hia.
    destruct (forallb (pair_matches rt) (inc_all c)) eqn:Hall; simpl.
    + split; [|reflexivity]. intros _. repeat split; auto. right; right.
      split; [apply nonempty_spec; assumption | apply forallb_all; assumption].
    + split; [discriminate|]. intros [_ [_ [[_ H]|[H|[_ H]]]]].
      * apply nonempty_spec in Hil. contradiction.
      * rewrite Hia in H. exfalso. eapply SomeMatch_nil; eassumption.
      * apply forallb_all in H. congruence.
  - (* no include list *)
    apply nonempty_false in Hia. apply nonempty_false in Hil.
    split; [|reflexivity]. intros _. repeat split; auto.
Qed.

(* ---------- an excluded entry leaves no trace: top-level lists ---------- *)

Lemma strip_app l1 l2 : strip_blank_lines (l1 ++ l2) = strip_blank_lines l1 ++ strip_blank_lines l2.
Proof. unfold strip_blank_lines. apply filter_app. Qed.

Lemma render_app a b : render (a ++ b) = render a ++ render b.
Proof. unfold render. apply flat_map_app. Qed.

Lemma render_blank_strip l : strip_blank_lines (render (SBlank :: l)) = strip_blank_lines (render l).
Proof. reflexivity. Qed.

Section TopLevel.
  Variable rt : runtime.

  Definition assign_body (l : list symbol_assignment) : list stmt :=
    flat_map (fun a => if should_emit rt (sa_conds a)
                       then [SAssign (sa_provide a) (sa_hidden a) false (sa_name a) (ERaw (sa_value a))]
                       else []) l.

  Lemma assignment_stmts_strip l :
    strip_blank_lines (render (assignment_stmts rt l)) = strip_blank_lines (render (assign_body l)).
  Proof. destruct l; reflexivity. Qed.

  Lemma assign_body_delete l1 a l2 :
    should_emit rt (sa_conds a) = false -> assign_body (l1 ++ a :: l2) = assign_body (l1 ++ l2).
  Proof.
    intro H. unfold assign_body. rewrite !flat_map_app. simpl. rewrite H. reflexivity.
  Qed.

  Lemma assignment_no_trace l1 a l2 :
    should_emit rt (sa_conds a) = false ->
    strip_blank_lines (render (assignment_stmts rt (l1 ++ a :: l2))) =
    strip_blank_lines (render (assignment_stmts rt (l1 ++ l2))).
  Proof. intro H. rewrite !assignment_stmts_strip, assign_body_delete; auto. Qed.

  Definition required_body (l : list required_symbol) : list stmt :=
    flat_map (fun r => if should_emit rt (rq_conds r)
                       then [SExtern (rq_name r);
                             SAssert ("DEFINED(" ++ rq_name r ++ ")") (required_msg (rq_name r))]
                       else []) l.

  Lemma required_no_trace l1 a l2 :
    should_emit rt (rq_conds a) = false ->
    strip_blank_lines (render (required_stmts rt (l1 ++ a :: l2))) =
    strip_blank_lines (render (required_stmts rt (l1 ++ l2))).
  Proof.
    intro H.
    assert (E : forall l, strip_blank_lines (render (required_stmts rt l)) =
                          strip_blank_lines (render (required_body l))) by (destruct l; reflexivity).
    rewrite !E. unfold required_body. rewrite !flat_map_app. simpl. rewrite H. reflexivity.
  Qed.

  Definition assert_body (l : list assert_entry) : list stmt :=
    flat_map (fun a => if should_emit rt (ae_conds a)
                       then [SAssert (ae_check a) (ae_error_message a)] else []) l.

  Lemma assert_no_trace l1 a l2 :
    should_emit rt (ae_conds a) = false ->
    strip_blank_lines (render (assert_stmts rt (l1 ++ a :: l2))) =
    strip_blank_lines (render (assert_stmts rt (l1 ++ l2))).
  Proof.
    intro H.
    assert (E : forall l, strip_blank_lines (render (assert_stmts rt l)) =
                          strip_blank_lines (render (assert_body l))) by (destruct l; reflexivity).
    rewrite !E. unfold assert_body. rewrite !flat_map_app. simpl. rewrite H. reflexivity.
  Qed.
End TopLevel.

(* ---------- segments ---------- *)

Lemma fold_out_app {A} (f : A -> wstate -> res out) l1 l2 ws :
  fold_out f (l1 ++ l2) ws =
  (do o1 <- fold_out f l1 ws; do o2 <- fold_out f l2 (snd o1); Ok ((fst o1 ++ fst o2)%list, snd o2)).
Proof.
  revert ws. induction l1 as [|x l1 IH]; intro ws; simpl.
  - destruct (fold_out f l2 ws) as [[s w]|e]; reflexivity.
  - destruct (f x ws) as [[s1 w1]|e]; simpl; [|reflexivity].
    rewrite IH. destruct (fold_out f l1 w1) as [[s2 w2]|e]; simpl; [|reflexivity].
    destruct (fold_out f l2 w2) as [[s3 w3]|e]; simpl; [|reflexivity].
    rewrite app_assoc. reflexivity.
Qed.

Lemma fold_out_skip {A} (f : A -> wstate -> res out) l1 x l2 ws :
  (forall ws, f x ws = Ok ([], ws)) ->
  fold_out f (l1 ++ x :: l2) ws = fold_out f (l1 ++ l2) ws.
Proof.
  intro H. rewrite !fold_out_app. destruct (fold_out f l1 ws) as [[s1 w1]|e]; simpl; [|reflexivity].
  rewrite H. simpl. destruct (fold_out f l2 w1) as [[s2 w2]|e]; reflexivity.
Qed.

(* an excluded segment contributes nothing to the ordinary script, whatever follows it *)
Lemma add_segment_excluded rt st cfg classes seg ws :
  should_emit rt (sg_conds seg) = false -> add_segment rt st cfg classes seg ws = Ok ([], ws).
Proof. intro H. unfold add_segment. rewrite H. reflexivity. Qed.

Lemma segments_no_trace rt st cfg classes l1 seg l2 ws :
  should_emit rt (sg_conds seg) = false ->
  fold_out (add_segment rt st cfg classes) (l1 ++ seg :: l2) ws =
  fold_out (add_segment rt st cfg classes) (l1 ++ l2) ws.
Proof. intro H. apply fold_out_skip. intro ws'. apply add_segment_excluded. assumption. Qed.

(* ... and produces no partial script and no reference to a partial object *)
Lemma partial_segment_excluded d rt folder seg acc :
  should_emit rt (sg_conds seg) = false -> partial_segment d rt folder seg acc = Ok ([], acc).
Proof. intro H. unfold partial_segment. rewrite H. reflexivity. Qed.

Lemma partial_segments_no_trace d rt folder l1 seg l2 acc :
  should_emit rt (sg_conds seg) = false ->
  partial_segments d rt folder (l1 ++ seg :: l2) acc = partial_segments d rt folder (l1 ++ l2) acc.
Proof.
  intro H. revert acc. induction l1 as [|x l1 IH]; intro acc; simpl.
  - rewrite partial_segment_excluded by assumption. simpl.
    destruct (partial_segments d rt folder l2 acc) as [[s a]|e]; reflexivity.
  - destruct (partial_segment d rt folder x acc) as [[s1 a1]|e]; simpl; [|reflexivity].
    rewrite IH. reflexivity.
Qed.

(* gp_info: an excluded gp_info emits no _gp *)
Lemma gp_excluded rt seg g section :
  sg_gp_info seg = Some g -> should_emit rt (gp_conds g) = false -> gp_stmt rt seg section = [].
Proof. intros Hg H. unfold gp_stmt. rewrite Hg, H. reflexivity. Qed.
