(* C03: lemmas.  Script level (the address expression, single-segment mode) and link level (where LdSem
   places the two output sections of a segment and what the VRAM symbols get). *)
From Slinky Require Import Model.Types Model.Generated Model.Parse Model.Runtime Model.Style Model.Script Model.Writer Model.LdSem.
From Slinky Require Import Spec.C17 Spec.C04 Spec.C03 Proofs.C06 Proofs.C18 Proofs.C17 Proofs.LdLemmas Proofs.C04.
From Coq Require Import Lia ZArith.

(* ====================================================================== *)
(* script level                                                            *)
(* ====================================================================== *)

Lemma addr_spec sty seg : at_most_one_addr seg -> AddrSpec sty seg (segment_addr sty seg).
Proof.
  unfold at_most_one_addr, addr_fields, AddrSpec, segment_addr.
  destruct (sg_fixed_vram seg) as [v|], (sg_fixed_symbol seg) as [s|], (sg_follows_segment seg) as [f|],
    (sg_vram_class seg) as [c|]; cbn [is_some b2n]; intro H; try lia;
    repeat split; intros; try discriminate; try congruence.
Qed.

Lemma combo_ok a b f1 f2 u : combo a b f1 f2 = Ok u -> andb a b = false.
Proof. unfold combo. destruct (andb a b); [discriminate|reflexivity]. Qed.

Lemma parse_segment_at_most_one st s seg : parse_segment st s = Ok seg -> at_most_one_addr seg.
Proof.
  unfold parse_segment. intro H.
  apply bind_ok in H. destruct H as [u1 [_ H]].
  apply bind_ok in H. destruct H as [u2 [_ H]].
  apply bind_ok in H. destruct H as [files [_ H]].
  apply bind_ok in H. destruct H as [fv [_ H]].
  apply bind_ok in H. destruct H as [fs [_ H]].
  apply bind_ok in H. destruct H as [fo [_ H]].
  apply bind_ok in H. destruct H as [vc [_ H]].
  apply bind_ok in H. destruct H as [c1 [C1 H]]. apply combo_ok in C1.
  apply bind_ok in H. destruct H as [c2 [C2 H]]. apply combo_ok in C2.
  apply bind_ok in H. destruct H as [c3 [C3 H]]. apply combo_ok in C3.
  apply bind_ok in H. destruct H as [c4 [C4 H]]. apply combo_ok in C4.
  apply bind_ok in H. destruct H as [c5 [C5 H]]. apply combo_ok in C5.
  apply bind_ok in H. destruct H as [c6 [C6 H]]. apply combo_ok in C6.
  repeat (apply bind_ok in H; destruct H as [? [_ H]]).
  apply ok_inj in H. subst seg. unfold at_most_one_addr, addr_fields. cbn [sg_fixed_vram sg_fixed_symbol
    sg_follows_segment sg_vram_class].
  destruct fv, fs, fo, vc; cbn in *; try discriminate; lia.
Qed.

Lemma class_pass_down_addr classes seg :
  sg_fixed_vram (class_pass_down classes seg) = sg_fixed_vram seg /\
  sg_fixed_symbol (class_pass_down classes seg) = sg_fixed_symbol seg /\
  sg_follows_segment (class_pass_down classes seg) = sg_follows_segment seg /\
  sg_vram_class (class_pass_down classes seg) = sg_vram_class seg.
Proof.
  unfold class_pass_down. destruct (sg_vram_class seg) as [cn|] eqn:E; [|rewrite E; auto].
  destruct (find_class cn classes) as [c|]; [|rewrite E; auto].
  unfold pass_down_segment. destruct (vc_keep c); [rewrite E; auto| |];
    (destruct (sg_keep seg); [cbn; rewrite E; auto | rewrite E; auto | rewrite E; auto]).
Qed.

Lemma map_res_Forall {A B} (f : A -> res B) (P : B -> Prop) :
  (forall x y, f x = Ok y -> P y) -> forall l l', map_res f l = Ok l' -> Forall P l'.
Proof.
  intro Hf. induction l as [|x l IH]; intros l' H; simpl in H.
  - apply ok_inj in H. subst. constructor.
  - apply bind_ok in H. destruct H as [y [Ey H]]. apply bind_ok in H. destruct H as [ys [Eys H]].
    apply ok_inj in H. subst. constructor; [eapply Hf; eassumption | apply IH; assumption].
Qed.

(* every segment of a parsed document sets at most one of the four address fields *)
Lemma parse_at_most_one d doc : parse d = Ok doc -> Forall at_most_one_addr (doc_segments doc).
Proof.
  unfold parse. destruct (serde_ok d); [|discriminate]. unfold unserialize_document. intro H.
  apply bind_ok in H. destruct H as [sto [_ H]].
  apply bind_ok in H. destruct H as [st [_ H]].
  apply bind_ok in H. destruct H as [u [_ H]].
  apply bind_ok in H. destruct H as [scl [_ H]].
  apply bind_ok in H. destruct H as [classes [_ H]].
  apply bind_ok in H. destruct H as [segments [Es H]].
  repeat (apply bind_ok in H; destruct H as [? [_ H]]).
  apply ok_inj in H. subst doc. cbn [doc_segments].
  apply (map_res_Forall _ at_most_one_addr (parse_segment_at_most_one st)) in Es.
  induction Es as [|seg l Hs Hl IH]; simpl; constructor; [|assumption].
  unfold at_most_one_addr, addr_fields in *.
  destruct (class_pass_down_addr classes seg) as [E1 [E2 [E3 E4]]]. rewrite E1, E2, E3, E4. assumption.
Qed.

(* ---------- a property of statements that holds of everything the section groups contain ---------- *)

Section StmtPass.
  Variable P : stmt -> Prop.
  Hypothesis P_blank : P SBlank.
  Hypothesis P_fill : forall n, P (SFill n).
  Hypothesis P_input : forall k p m s w, P (SInput k p m s w).
  Hypothesis P_dotadd : forall n, P (SDotAdd n).
  Hypothesis P_aligndot : forall n, P (SAlign "." n).
  Hypothesis P_linker : forall sty sym e, style_name sty sym -> P (linker_symbol sym e).
  Hypothesis P_gp : forall p h off, P (SAssign p h false "_gp" (EDotPlus off)).
  Hypothesis P_outsec : forall name addr at_ noload sub body, Forall P body -> P (SOutSec name addr at_ noload sub body).

  Ltac gp_leaf :=
    repeat match goal with
           | |- Forall _ (_ ++ _) => apply Forall_app; split
           | |- Forall _ (match ?x with _ => _ end) => destruct x
           | |- Forall _ (if ?x then _ else _) => destruct x
           | |- Forall _ (_ :: _) => constructor
           | |- Forall _ [] => constructor
           | |- P (linker_symbol _ _) => eapply P_linker; sn
           | |- P (SAlign "." _) => apply P_aligndot
           | |- P (SAssign _ _ false "_gp" _) => apply P_gp
           | |- P SBlank => apply P_blank
           | |- P (SFill _) => apply P_fill
           end.

  Lemma gp_opt_align a : Forall P (opt_align a).
  Proof. unfold opt_align. gp_leaf. Qed.

  Lemma gp_gp_stmt rt seg section : Forall P (gp_stmt rt seg section).
  Proof. unfold gp_stmt. gp_leaf. Qed.

  Lemma gp_section_symbol_start rt sty cfg seg section : Forall P (section_symbol_start rt sty cfg seg section).
  Proof.
    unfold section_symbol_start. destruct (section_syms cfg); [|constructor].
    fa; try apply gp_opt_align; try apply gp_gp_stmt. gp_leaf.
  Qed.

  Lemma gp_section_symbol_end sty cfg seg section : Forall P (section_symbol_end sty cfg seg section).
  Proof.
    unfold section_symbol_end. destruct (section_syms cfg); [|constructor].
    fa; try apply gp_opt_align. unfold sym_end_size. gp_leaf.
  Qed.

  Lemma gp_kind_start sty cfg seg noload : Forall P (sections_kind_start sty cfg seg noload).
  Proof. unfold sections_kind_start. gp_leaf. Qed.

  Lemma gp_kind_end sty cfg seg noload : Forall P (sections_kind_end sty cfg seg noload).
  Proof. unfold sections_kind_end, sym_end_size. gp_leaf. Qed.

  Lemma gp_opt_fill seg : Forall P (opt_fill seg).
  Proof. unfold opt_fill. gp_leaf. Qed.

  Lemma gp_emitter sty wild offs g : emitter sty wild offs g ->
    forall ws s ws', g ws = Ok (s, ws') -> Forall P s.
  Proof.
    apply (emitter_rel sty wild offs (fun _ s _ => Forall P s)); intros.
    - constructor.
    - apply Forall_app; split; assumption.
    - repeat constructor. apply P_input.
    - repeat constructor. apply P_dotadd.
    - constructor; [|constructor]. apply (P_linker sty). sn.
  Qed.

  Lemma gp_emit_section rt sty cfg seg sections base section ws s ws' :
    emit_section rt sty cfg seg sections base section ws = Ok (s, ws') -> Forall P s.
  Proof. apply (gp_emitter sty (wildcard_sections seg) (offs_of_segment rt seg)). apply emit_section_emitter. Qed.

  Lemma gp_part_groups rt st cfg seg sections rest : forall ws s ws',
    part_groups rt st cfg seg sections rest ws = Ok (s, ws') -> Forall P s.
  Proof.
    induction rest as [|section rest IH]; intros ws s ws' H.
    - apply ok_inj in H. inversion H; subst. constructor.
    - apply part_groups_cons in H. destruct H as [s1 [ws1 [s2 [E1 [E2 E]]]]]. subst.
      fa.
      + apply gp_section_symbol_start.
      + eapply gp_emit_section; eassumption.
      + apply gp_section_symbol_end.
      + gp_leaf.
      + eapply IH; eassumption.
  Qed.

  Lemma gp_write_segment rt st cfg seg sections noload ws s ws' :
    write_segment rt st cfg seg sections noload ws = Ok (s, ws') -> Forall P s.
  Proof.
    intro H. apply write_segment_inv in H. destruct H as [body [E H]]. subst.
    fa; [apply gp_kind_start | | apply gp_kind_end].
    constructor; [|constructor]. apply P_outsec. apply Forall_app; split; [apply gp_opt_fill|].
    eapply gp_part_groups; eassumption.
  Qed.

  Lemma gp_single_groups rt st cfg seg sections noload rest : forall ws s ws',
    single_groups rt st cfg seg sections noload rest ws = Ok (s, ws') -> Forall P s.
  Proof.
    induction rest as [|section rest IH]; intros ws s ws' H.
    - apply ok_inj in H. inversion H; subst. constructor.
    - apply single_groups_cons in H. destruct H as [s1 [ws1 [s2 [E1 [E2 E]]]]]. subst.
      fa.
      + apply gp_section_symbol_start.
      + constructor; [|constructor]. apply P_outsec.
        apply Forall_app; split; [apply gp_opt_fill|]. eapply gp_emit_section; eassumption.
      + apply gp_section_symbol_end.
      + gp_leaf.
      + eapply IH; eassumption.
  Qed.

  Lemma gp_write_single_segment rt st cfg seg sections noload ws s ws' :
    write_single_segment rt st cfg seg sections noload ws = Ok (s, ws') -> Forall P s.
  Proof.
    intro H. apply write_single_segment_inv in H. destruct H as [body [E H]]. subst.
    fa; [apply gp_kind_start | | apply gp_kind_end].
    eapply gp_single_groups; eassumption.
  Qed.
End StmtPass.

(* ---------- single-segment mode ---------- *)

Definition nodot (s : stmt) : Prop := sets_dot s = false.

Lemma nodot_linker sty sym e : style_name sty sym -> nodot (linker_symbol sym e).
Proof. intro H. unfold nodot, linker_symbol. cbn [sets_dot]. apply (style_name_eqb sty); [assumption|reflexivity]. Qed.

Lemma nodot_outsec name addr at_ noload sub body : Forall nodot body -> nodot (SOutSec name addr at_ noload sub body).
Proof. intro H. unfold nodot. cbn [sets_dot]. apply existsb_false_Forall. exact H. Qed.

Lemma nodot_write_single rt st cfg seg sections noload ws s ws' :
  write_single_segment rt st cfg seg sections noload ws = Ok (s, ws') -> Forall nodot s.
Proof.
  apply (gp_write_single_segment nodot); try reflexivity.
  - apply nodot_linker.
  - apply nodot_outsec.
Qed.

Lemma nodot_write_segment rt st cfg seg sections noload ws s ws' :
  write_segment rt st cfg seg sections noload ws = Ok (s, ws') -> Forall nodot s.
Proof.
  apply (gp_write_segment nodot); try reflexivity.
  - apply nodot_linker.
  - apply nodot_outsec.
Qed.

Lemma nodot_end_sections st classes ws : Forall nodot (end_sections_body st classes ws).
Proof.
  rewrite end_sections_layout.
  assert (Hparts : Forall (Forall nodot)
                     [tail_sizes st classes ws; tail_allow st; tail_extra st; tail_discard st]).
  { repeat constructor.
    - apply Forall_map_intro. intro cn. apply (nodot_linker (linker_symbols_style st)). sn.
    - apply Forall_map_intro. reflexivity.
    - apply Forall_map_intro. reflexivity.
    - unfold tail_discard. destruct (orb _ _); repeat constructor. }
  induction Hparts as [|p r Hp Hr IH]; [constructor|]. simpl. destruct p as [|y p]; [exact IH|].
  apply Forall_app; split; [exact Hp|]. destruct (sep_concat r); [constructor|].
  constructor; [reflexivity | exact IH].
Qed.

(* single-segment mode: ". = fixed_vram" once, in the head, before every output section; no header
   has an address *)
Theorem single_start_once rt stg cfg classes seg ws s ws' :
  add_single_segment rt stg cfg classes seg ws = Ok (s, ws') ->
  exists rest,
    s = [SSections (single_head stg cfg seg ++ rest)] /\
    filter sets_dot (single_head stg cfg seg) = single_start seg /\
    headers (single_head stg cfg seg) = [] /\
    existsb sets_dot rest = false /\
    Forall (fun h => snd (fst (fst h)) = None) (headers rest).
Proof.
  intro H. pose proof (script_single _ _ _ _ _ _ _ _ H) as [all [Eall [_ [Hh _]]]].
  apply add_single_segment_inv in H. destruct H as [s1 [ws1 [s2 [E1 [E2 E]]]]]. subst s.
  eexists. split; [reflexivity|].
  destruct (headers_quiet _ (quiet_single_head stg cfg seg)) as [A0 _].
  split; [|split; [exact A0|split]].
  - rewrite single_head_shape. unfold single_start.
    destruct (section_syms cfg), (hardcoded_gp_value stg), (sg_fixed_vram seg); reflexivity.
  - apply existsb_false_Forall. fa.
    + eapply nodot_write_single; eassumption.
    + repeat constructor.
    + eapply nodot_write_single; eassumption.
    + repeat constructor.
    + apply nodot_end_sections.
  - assert (Ea : all = single_head stg cfg seg ++ s1 ++ [SBlank] ++ s2 ++ [SBlank] ++ end_sections_body stg classes ws')
      by (inversion Eall; reflexivity).
    rewrite Ea, headers_app, A0 in Hh. cbn [app] in Hh |- *. rewrite Hh.
    apply Forall_app; split; apply Forall_map_intro; reflexivity.
Qed.

(* ====================================================================== *)
(* link level                                                              *)
(* ====================================================================== *)

Local Open Scope Z_scope.

Section Link.
  Variables (env : list (string * Z)) (senv : list osec) (ext : list (string * Z)) (final : bool).

  Notation top := (exec_top_stmt env senv ext final).
  Notation runl := (run env senv ext final).

  (* ---------- one output section ---------- *)

  Theorem outsec_start name addr at_ noload sub body st vma :
    outsec_vma env senv ext addr sub body st = Ok vma ->
    sizes_ok st ->
    let st' := exec_outsec env senv ext final name addr at_ noload sub body st in
    exists o, l_secs st' = (l_secs st ++ [o])%list /\ os_name o = name /\ os_vma o = vma /\
              os_noload o = noload /\ 0 <= os_size o /\ l_dot st' = os_vma o + os_size o /\ sizes_ok st'.
  Proof.
    intros Hv Hsz st'.
    destruct (exec_outsec_ok env senv ext final name addr at_ noload sub body st vma Hv)
      as [Hd [_ [_ [Hs [_ [Hr _]]]]]].
    eexists. split; [exact Hs|]. cbn [os_name os_vma os_noload os_size]. repeat split; try assumption.
    - apply outsec_body_off. assumption.
    - unfold sizes_ok, st'. rewrite Hr. unfold outsec_body.
      destruct (sec_fold_remaining env senv ext final vma (option_map Z.of_N sub) name body (SState 0 false st)) as [f E].
      rewrite E. apply Forall_filter. exact Hsz.
  Qed.

  Lemma outsec_failed name addr at_ noload sub body st e :
    outsec_vma env senv ext addr sub body st = Err e ->
    exec_outsec env senv ext final name addr at_ noload sub body st = add_err (LForwardRef name) st.
  Proof. apply exec_outsec_err. Qed.

  (* X_VRAM = ADDR(.X) *)
  Theorem vram_symbol st x sec o :
    x <> "."%string -> sec_lookup sec st senv = Some o ->
    top st (linker_symbol x (EAddr sec)) = set_sym x (os_vma o) false st.
  Proof.
    intros Hd Ho. unfold linker_symbol. cbn [exec_top_stmt]. apply String.eqb_neq in Hd. rewrite Hd.
    cbn [eval_expr]. rewrite Ho. reflexivity.
  Qed.

  Theorem set_dot_literal st p h r v :
    top st (SAssign p h r "." (EHex8 v)) = set_dot (Z.of_N v) st.
  Proof. reflexivity. Qed.

  (* ---------- statements that keep "." and create no section ---------- *)

  Lemma keeps_dot_no_sec s : keeps_dot s = true -> makes_sec s = [].
  Proof. destruct s; try reflexivity; discriminate. Qed.

  Lemma top_keeps st s :
    keeps_dot s = true ->
    l_dot (top st s) = l_dot st /\ l_secs (top st s) = l_secs st /\ (sizes_ok st -> sizes_ok (top st s)).
  Proof.
    intro H. split; [apply top_dot; assumption|]. split.
    - destruct (top_secs env senv ext final st s) as [new [E F]]. rewrite (keeps_dot_no_sec s H) in F.
      destruct new as [|o new]; [rewrite app_nil_r in E; exact E|]. inversion F as [|x l Hx _]. destruct Hx.
    - intro Hsz. unfold sizes_ok. destruct (top_remaining env senv ext final st s) as [f E]. rewrite E.
      apply Forall_filter. exact Hsz.
  Qed.

  Lemma run_keeps l : forall st,
    forallb keeps_dot l = true ->
    l_dot (runl l st) = l_dot st /\ l_secs (runl l st) = l_secs st /\ (sizes_ok st -> sizes_ok (runl l st)).
  Proof.
    induction l as [|s l IH]; intros st H; [auto|]. cbn [forallb] in H. apply andb_true_iff in H.
    destruct H as [H1 H2]. rewrite run_cons. destruct (IH (top st s) H2) as [A [B C]].
    destruct (top_keeps st s H1) as [A1 [B1 C1]]. rewrite A, B, A1, B1. auto.
  Qed.

  Lemma run_align_pair_dot a st :
    l_dot (runl (align_pair a) st) = align_up (l_dot st) (align_z a) /\
    l_secs (runl (align_pair a) st) = l_secs st /\ (sizes_ok st -> sizes_ok (runl (align_pair a) st)).
  Proof.
    destruct a as [n|]; cbn [align_pair align_z]; [|rewrite run_nil, align_up_1; auto].
    rewrite run_cons, run_one. destruct (top_keeps st (SAlign "__romPos" n) eq_refl) as [A [B C]].
    rewrite top_align_dot. cbn [set_dot l_dot l_secs]. rewrite A, B. repeat split. intro Hsz. apply C in Hsz. exact Hsz.
  Qed.

  (* ---------- one segment ---------- *)

  Lemma keeps_dot_linker sty sym e : style_name sty sym -> keeps_dot (linker_symbol sym e) = true.
  Proof.
    intro H. unfold linker_symbol. cbn [keeps_dot]. rewrite (style_name_eqb sty sym "." H); reflexivity.
  Qed.

  Lemma keeps_foot_class stg seg : forallb keeps_dot (foot_class stg seg) = true.
  Proof. unfold foot_class. destruct (sg_vram_class seg); reflexivity. Qed.

  Theorem segment_vram_general stg seg cls a1 addr at1 sub body1 b1 a2 at2 sub2 body2 b2 st0 :
    let sty := linker_symbols_style stg in
    let name := sg_name seg in
    let VS := segment_vram_start sty name in
    let VE := segment_vram_end sty name in
    let VZ := segment_vram_size sty name in
    let O1 := SOutSec (alloc_name seg) addr at1 false sub body1 in
    let O2 := SOutSec (noload_name seg) None at2 true sub2 body2 in
    let pre := (cls ++ seg_head stg seg ++ a1)%list in
    let L := (pre ++ O1 :: b1 ++ [SBlank] ++ a2 ++ O2 :: b2 ++ [SBlank] ++ seg_foot stg seg)%list in
    let stE := runl pre st0 in
    let st' := runl L st0 in
    forallb keeps_dot (cls ++ a1 ++ b1 ++ a2 ++ b2) = true ->
    vram_names_distinct sty name L = true ->
    ~ In (LForwardRef (alloc_name seg)) (l_errors st') ->
    sizes_ok st0 ->
    exists o1 o2 A2,
      l_dot stE = align_up (l_dot st0) (align_z (segment_start_align seg)) /\
      outsec_vma env senv ext addr sub body1 stE = Ok (os_vma o1) /\
      l_secs st' = (l_secs st0 ++ [o1; o2])%list /\
      os_name o1 = alloc_name seg /\ os_noload o1 = false /\ 0 <= os_size o1 /\
      os_name o2 = noload_name seg /\ os_noload o2 = true /\ os_contents o2 = false /\ 0 <= os_size o2 /\
      os_vma o2 = align_up (os_vma o1 + os_size o1) A2 /\ os_vma o1 + os_size o1 <= os_vma o2 /\
      let ve := align_up (os_vma o2 + os_size o2) (align_z (segment_end_align seg)) in
      l_dot st' = ve /\ val st' VE = Some ve /\
      (forall v, val st' VS = Some v -> val st' VZ = Some (ve - v)) /\
      (forall o, sec_lookup (alloc_name seg) st0 senv = Some o -> val st' VS = Some (os_vma o)).
  Proof.
    intros sty name VS VE VZ O1 O2 pre L stE st' Hk Hdist Herr Hsz.
    set (RS := segment_rom_start sty name). set (RE := segment_rom_end sty name).
    set (RZ := segment_rom_size sty name).
    set (sRS := linker_symbol RS (ESym "__romPos")).
    set (sVS := linker_symbol VS (EAddr (alloc_name seg))).
    set (sVE := linker_symbol VE EDot).
    set (sVZ := linker_symbol VZ (EAbsSub VE VS)).
    set (sRE := linker_symbol RE (ESym "__romPos")).
    set (sRZ := linker_symbol RZ (EAbsSub RE RS)).
    set (A := (cls ++ align_pair (segment_start_align seg) ++ [sRS])%list).
    set (M := (a1 ++ O1 :: b1 ++ SBlank :: a2 ++ O2 :: b2 ++ SBlank :: SRomAdd (alloc_name seg) ::
               align_pair (segment_end_align seg))%list).
    set (T := (sRE :: sRZ :: foot_class stg seg)%list).
    assert (EL : L = (A ++ sVS :: M ++ sVE :: sVZ :: T)%list).
    { unfold L, pre, A, M, T. rewrite seg_foot_split, seg_head_split. cbv zeta. unfold sym_end_size.
      fold sty name RS RE RZ VS VE VZ. fold sRS sVS sVE sVZ sRE sRZ.
      repeat (rewrite <- app_assoc; cbn [app]). reflexivity. }
    assert (EL2 : L = ((A ++ sVS :: M) ++ sVE :: sVZ :: T)%list).
    { rewrite EL. repeat (rewrite <- app_assoc; cbn [app]). reflexivity. }
    assert (EL3 : L = ((A ++ sVS :: M ++ [sVE]) ++ sVZ :: T)%list).
    { rewrite EL. repeat (rewrite <- app_assoc; cbn [app]). reflexivity. }
    unfold vram_names_distinct in Hdist. apply andb_true_iff in Hdist. destruct Hdist as [Hdist HdZ].
    apply andb_true_iff in Hdist. destruct Hdist as [HdS HdE].
    assert (Hself : forall x e, assigns x (linker_symbol x e) = true) by (intros; apply String.eqb_refl).
    rewrite EL in HdS. apply defined_once_split in HdS; [|apply Hself]. destruct HdS as [_ HS].
    rewrite EL2 in HdE. apply defined_once_split in HdE; [|apply Hself]. destruct HdE as [_ HE].
    rewrite EL3 in HdZ. apply defined_once_split in HdZ; [|apply Hself]. destruct HdZ as [_ HZ].
    fold VS in HS. fold VE in HE. fold VZ in HZ.
    assert (NVS : VS <> "."%string) by (apply (style_name_neq sty); [sn|reflexivity]).
    assert (NVE : VE <> "."%string) by (apply (style_name_neq sty); [sn|reflexivity]).
    assert (NVZ : VZ <> "."%string) by (apply (style_name_neq sty); [sn|reflexivity]).
    (* keeps_dot of the parts *)
    rewrite !forallb_app in Hk. repeat (apply andb_true_iff in Hk; destruct Hk as [?Hk Hk]).
    rename Hk0 into Kcls, Hk1 into Ka1, Hk2 into Kb1, Hk3 into Ka2, Hk into Kb2.
    (* A *)
    set (stA := runl A st0).
    assert (PA : l_dot stA = align_up (l_dot st0) (align_z (segment_start_align seg)) /\
                 l_secs stA = l_secs st0 /\ sizes_ok stA).
    { unfold stA, A. rewrite !run_app. destruct (run_keeps cls st0 Kcls) as [A1 [A2 A3]].
      destruct (run_align_pair_dot (segment_start_align seg) (runl cls st0)) as [B1 [B2 B3]].
      destruct (run_keeps [sRS] (runl (align_pair (segment_start_align seg)) (runl cls st0))) as [C1 [C2 C3]].
      { cbn [forallb]. unfold sRS. rewrite (keeps_dot_linker sty) by sn. reflexivity. }
      rewrite C1, C2, B1, B2, A1, A2. repeat split. apply C3, B3, A3, Hsz. }
    destruct PA as [A1 [A2 A3]].
    set (stS := top stA sVS).
    assert (KVS : keeps_dot sVS = true) by (unfold sVS; apply (keeps_dot_linker sty); sn).
    assert (KVE : keeps_dot sVE = true) by (unfold sVE; apply (keeps_dot_linker sty); sn).
    assert (KVZ : keeps_dot sVZ = true) by (unfold sVZ; apply (keeps_dot_linker sty); sn).
    destruct (top_keeps stA sVS KVS) as [S1 [S2 S3]]. fold stS in S1, S2, S3.
    (* a1 *)
    assert (EE : stE = runl a1 stS).
    { unfold stE, pre, stS, stA, A. rewrite seg_head_split. cbv zeta. fold sty name RS VS sRS sVS.
      repeat (rewrite run_app || rewrite run_cons). reflexivity. }
    destruct (run_keeps a1 stS Ka1) as [E1 [E2 E3]]. rewrite <- EE in E1, E2, E3.
    specialize (S3 A3). specialize (E3 S3).
    assert (Est' : st' = runl T (top (top (runl (align_pair (segment_end_align seg))
                       (runl (b2 ++ [SBlank; SRomAdd (alloc_name seg)])
                          (top (runl (b1 ++ SBlank :: a2) (top stE O1)) O2))) sVE) sVZ)).
    { unfold st'. rewrite EL, EE. unfold M, stS, stA.
      repeat (rewrite run_app || rewrite run_cons). reflexivity. }
    (* the allocatable section *)
    destruct (outsec_vma env senv ext addr sub body1 stE) as [vma|e] eqn:Evma.
    2:{ exfalso. apply Herr. rewrite Est'. repeat (apply run_errors_in || (rewrite run_cons; apply run_errors_in)).
        assert (Hin : In (LForwardRef (alloc_name seg)) (l_errors (top stE O1))).
        { unfold O1. cbn [exec_top_stmt]. rewrite (exec_outsec_err _ _ _ _ _ _ _ _ _ _ _ _ Evma).
          cbn [add_err l_errors]. apply in_or_app. right. left. reflexivity. }
        set (stF := top stE O1) in *.
        assert (H1 : In (LForwardRef (alloc_name seg)) (l_errors (top (runl (b1 ++ SBlank :: a2) stF) O2))).
        { destruct (top_errors env senv ext final (runl (b1 ++ SBlank :: a2) stF) O2) as [new E]. rewrite E.
          apply in_or_app. left. apply run_errors_in. exact Hin. }
        set (stH := top (runl (b1 ++ SBlank :: a2) stF) O2) in *.
        assert (H2 : In (LForwardRef (alloc_name seg))
                        (l_errors (runl (align_pair (segment_end_align seg)) (runl (b2 ++ [SBlank; SRomAdd (alloc_name seg)]) stH))))
          by (apply run_errors_in; apply run_errors_in; exact H1).
        set (stJ := runl (align_pair (segment_end_align seg)) (runl (b2 ++ [SBlank; SRomAdd (alloc_name seg)]) stH)) in *.
        change (top (top stJ sVE) sVZ) with (runl [sVE; sVZ] stJ). apply run_errors_in. exact H2. }
    destruct (outsec_start (alloc_name seg) addr at1 false sub body1 stE vma Evma E3)
      as [o1 [F2 [Fn [Fv [Fl [Fz [F1 F3]]]]]]].
    change (exec_outsec env senv ext final (alloc_name seg) addr at1 false sub body1 stE) with (top stE O1) in F1, F2, F3.
    set (stF := top stE O1) in *.
    (* between the two sections *)
    assert (Kmid : forallb keeps_dot (b1 ++ SBlank :: a2) = true).
    { rewrite forallb_app. cbn [forallb keeps_dot]. rewrite Kb1, Ka2. reflexivity. }
    destruct (run_keeps (b1 ++ SBlank :: a2) stF Kmid) as [G1 [G2 G3]]. specialize (G3 F3).
    set (stG := runl (b1 ++ SBlank :: a2) stF) in *.
    (* the noload section *)
    set (AL2 := body_align (option_map Z.of_N sub2) body2 (l_remaining stG) 1).
    destruct (outsec_start (noload_name seg) None at2 true sub2 body2 stG (align_up (l_dot stG) AL2) eq_refl G3)
      as [o2 [H2 [Hn [Hv [Hl [Hz [H1 H3]]]]]]].
    assert (Hc : os_contents o2 = false).
    { destruct (noload_section env senv ext final (noload_name seg) at2 sub2 body2 stG) as [o2' [Es [_ [_ [Hc _]]]]].
      rewrite H2 in Es. apply app_inj_tail in Es. destruct Es as [_ Es]. subst o2'. exact Hc. }
    change (exec_outsec env senv ext final (noload_name seg) None at2 true sub2 body2 stG) with (top stG O2) in H1, H2, H3.
    set (stH := top stG O2) in *.
    (* the rest up to the end alignment *)
    assert (Kend : forallb keeps_dot (b2 ++ [SBlank; SRomAdd (alloc_name seg)]) = true).
    { rewrite forallb_app, Kb2. reflexivity. }
    destruct (run_keeps (b2 ++ [SBlank; SRomAdd (alloc_name seg)]) stH Kend) as [I1 [I2 I3]]. specialize (I3 H3).
    set (stI := runl (b2 ++ [SBlank; SRomAdd (alloc_name seg)]) stH) in *.
    destruct (run_align_pair_dot (segment_end_align seg) stI) as [J1 [J2 _]].
    set (stJ := runl (align_pair (segment_end_align seg)) stI) in *.
    set (ve := align_up (os_vma o2 + os_size o2) (align_z (segment_end_align seg))).
    assert (J1' : l_dot stJ = ve) by (rewrite J1, I1, H1; reflexivity).
    set (stK := top stJ sVE) in *.
    assert (EK : stK = set_sym VE ve false stJ) by (unfold stK, sVE; rewrite top_sym_dot, J1' by assumption; reflexivity).
    set (stL := top stK sVZ) in *.
    assert (KT : forallb keeps_dot T = true).
    { unfold T, sRE, sRZ. cbn [forallb]. rewrite !(keeps_dot_linker sty) by sn. apply keeps_foot_class. }
    destruct (run_keeps T stL KT) as [T1 [T2 _]].
    destruct (top_keeps stK sVZ KVZ) as [L1 [L2 _]]. fold stL in L1, L2.
    (* symbols *)
    assert (VEfin : val st' VE = Some ve).
    { rewrite Est'. fold stF stG stH stI stJ stK. unfold val.
      change (runl T stL) with (runl (sVZ :: T) stK).
      rewrite (run_syms env senv ext final (sVZ :: T) VE stK HE).
      rewrite EK. apply lookup_set_sym_same. }
    assert (VSfin : val st' VS = val stS VS).
    { unfold st', val. rewrite EL, run_app, run_cons. fold stA stS. apply run_syms. assumption. }
    assert (VSK : val stK VS = val stS VS).
    { assert (EKK : stK = runl (M ++ [sVE]) stS).
      { unfold stK, stJ, stI, stH, stG, stF, M. rewrite EE.
        repeat (rewrite run_app || rewrite run_cons). reflexivity. }
      rewrite EKK. unfold val. apply run_syms. rewrite existsb_app in HS. apply orb_false_iff in HS.
      destruct HS as [HS1 HS2]. cbn [existsb] in HS2. apply orb_false_iff in HS2. destruct HS2 as [HS2 _].
      rewrite existsb_app, HS1. cbn [existsb]. rewrite HS2. reflexivity. }
    exists o1, o2, AL2.
    split; [rewrite E1, S1, A1; reflexivity|].
    split; [rewrite Fv; reflexivity|].
    split.
    { rewrite Est'. fold stF stG stH stI stJ stK stL. rewrite T2, L2.
      unfold stK. destruct (top_keeps stJ sVE KVE) as [_ [K2 _]].
      rewrite K2, J2, I2, H2, G2, F2, E2, S2, A2. rewrite <- app_assoc. reflexivity. }
    split; [exact Fn|]. split; [exact Fl|]. split; [exact Fz|].
    split; [exact Hn|]. split; [exact Hl|]. split; [exact Hc|]. split; [exact Hz|].
    split; [rewrite Hv, G1, F1; reflexivity|].
    split; [rewrite Hv, G1, F1; apply align_up_le|].
    cbv zeta. fold ve.
    split.
    { rewrite Est'. fold stF stG stH stI stJ stK stL. rewrite T1, L1, EK. exact J1'. }
    split; [exact VEfin|].
    split.
    - intros v Hv'. rewrite VSfin, <- VSK in Hv'.
      assert (EL' : stL = set_sym VZ (ve - v) false stK).
      { unfold stL, sVZ. apply top_abssub; try assumption. rewrite EK. apply lookup_set_sym_same. }
      rewrite Est'. fold stF stG stH stI stJ stK stL. unfold val. rewrite run_syms by assumption.
      rewrite EL'. apply lookup_set_sym_same.
    - intros o Ho. rewrite VSfin.
      assert (Ho' : sec_lookup (alloc_name seg) stA senv = Some o).
      { unfold sec_lookup in *. rewrite A2. exact Ho. }
      unfold stS, sVS. rewrite (vram_symbol stA VS (alloc_name seg) o NVS Ho'). apply lookup_set_sym_same.
  Qed.

  (* ---------- what add_segment emits ---------- *)

  Lemma kd_kind_start sty cfg seg noload : forallb keeps_dot (sections_kind_start sty cfg seg noload) = true.
  Proof.
    unfold sections_kind_start. destruct (kind_syms cfg); [|reflexivity]. cbn [forallb].
    rewrite (keeps_dot_linker sty) by sn. reflexivity.
  Qed.

  Lemma kd_kind_end sty cfg seg noload : forallb keeps_dot (sections_kind_end sty cfg seg noload) = true.
  Proof.
    unfold sections_kind_end, sym_end_size. destruct (kind_syms cfg); [|reflexivity]. cbn [forallb].
    rewrite !(keeps_dot_linker sty) by sn. reflexivity.
  Qed.

  Lemma forallb_map_true {A B} (f : B -> bool) (g : A -> B) l : (forall x, f (g x) = true) -> forallb f (map g l) = true.
  Proof. intro H. induction l; simpl; [reflexivity|]. rewrite H. assumption. Qed.

  Lemma kd_class_start stg c cn : forallb keeps_dot (class_start_stmts stg c cn) = true.
  Proof.
    unfold class_start_stmts. rewrite forallb_app. apply andb_true_iff. split.
    - destruct (vc_fixed_vram c); [|destruct (vc_fixed_symbol c)]; cbn [forallb];
        rewrite (keeps_dot_linker (linker_symbols_style stg)) by sn; try reflexivity.
      apply forallb_map_true. reflexivity.
    - cbn [forallb]. rewrite (keeps_dot_linker (linker_symbols_style stg)) by sn. reflexivity.
  Qed.

  Lemma kd_class_part stg classes seg ws cls ws1 :
    class_part stg classes seg ws = Ok (cls, ws1) -> forallb keeps_dot cls = true.
  Proof.
    intro Ec. apply class_part_inv in Ec. destruct Ec as [[E _] | [cn [c [_ [_ [_ [E _]]]]]]]; subst;
      [reflexivity | apply kd_class_start].
  Qed.

  (* the symbols assigned before the allocatable section of a segment is reached *)
  Definition prefix_names (stg : settings) (cfg : wcfg) (seg : segment) : list string :=
    let sty := linker_symbols_style stg in
    ["__romPos"%string; "."%string; segment_rom_start sty (sg_name seg); segment_vram_start sty (sg_name seg);
     segment_vram_start sty (kind_name seg false)] ++
    match sg_vram_class seg with
    | Some cn => [vram_class_start sty cn; vram_class_end sty cn]
    | None => []
    end.

  Lemma prefix_frame stg classes cfg seg ws cls ws1 x :
    class_part stg classes seg ws = Ok (cls, ws1) ->
    ~ In x (prefix_names stg cfg seg) ->
    existsb (assigns x) (cls ++ seg_head stg seg ++ sections_kind_start (linker_symbols_style stg) cfg seg false) = false.
  Proof.
    intros Ec Hx. unfold prefix_names in Hx. cbv zeta in Hx.
    assert (N : forall y, In y (["__romPos"%string; "."%string; segment_rom_start (linker_symbols_style stg) (sg_name seg);
                                 segment_vram_start (linker_symbols_style stg) (sg_name seg);
                                 segment_vram_start (linker_symbols_style stg) (kind_name seg false)] ++
                                match sg_vram_class seg with
                                | Some cn => [vram_class_start (linker_symbols_style stg) cn;
                                              vram_class_end (linker_symbols_style stg) cn]
                                | None => [] end) -> String.eqb y x = false).
    { intros y Hy. apply String.eqb_neq. intro E. subst y. contradiction. }
    rewrite !existsb_app. repeat (apply orb_false_iff; split).
    - apply class_part_inv in Ec. destruct Ec as [[Ecls _] | [cn [c [Hcn [_ [_ [Ecls _]]]]]]]; subst cls; [reflexivity|].
      rewrite Hcn in N.
      assert (N1 : String.eqb (vram_class_start (linker_symbols_style stg) cn) x = false)
        by (apply N; apply in_or_app; right; simpl; tauto).
      assert (N2 : String.eqb (vram_class_end (linker_symbols_style stg) cn) x = false)
        by (apply N; apply in_or_app; right; simpl; tauto).
      unfold class_start_stmts. rewrite existsb_app. apply orb_false_iff. split.
      + destruct (vc_fixed_vram c); [|destruct (vc_fixed_symbol c)]; cbn [existsb assigns linker_symbol];
          rewrite N1; try reflexivity.
        cbn [orb]. induction (vc_follows_classes c) as [|o l IH]; [reflexivity|]. cbn [map existsb assigns].
        rewrite N1. exact IH.
      + cbn [existsb assigns linker_symbol]. rewrite N2. reflexivity.
    - unfold seg_head. rewrite existsb_app. apply orb_false_iff. split.
      + destruct (segment_start_align seg); [|reflexivity]. cbn [existsb assigns].
        rewrite (N "__romPos"%string), (N "."%string) by (apply in_or_app; left; simpl; tauto). reflexivity.
      + cbn [existsb assigns linker_symbol].
        rewrite !N by (apply in_or_app; left; simpl; tauto). reflexivity.
    - unfold sections_kind_start. destruct (kind_syms cfg); [|reflexivity]. cbn [existsb assigns linker_symbol].
      rewrite N by (apply in_or_app; left; simpl; tauto). reflexivity.
  Qed.

  Theorem segment_vram rt stg cfg classes seg ws s ws' st0 :
    add_segment rt stg cfg classes seg ws = Ok (s, ws') ->
    should_emit rt (sg_conds seg) = true ->
    let sty := linker_symbols_style stg in
    let name := sg_name seg in
    let st' := runl s st0 in
    vram_names_distinct sty name s = true ->
    ~ In (LForwardRef (alloc_name seg)) (l_errors st') ->
    sizes_ok st0 ->
    exists cls ws1 body1 o1 o2 A2,
      class_part stg classes seg ws = Ok (cls, ws1) /\
      let stE := runl (cls ++ seg_head stg seg ++ sections_kind_start sty cfg seg false) st0 in
      l_dot stE = align_up (l_dot st0) (align_z (segment_start_align seg)) /\
      outsec_vma env senv ext (segment_addr sty seg) (subalign seg) body1 stE = Ok (os_vma o1) /\
      l_secs st' = (l_secs st0 ++ [o1; o2])%list /\
      os_name o1 = alloc_name seg /\ os_noload o1 = false /\ 0 <= os_size o1 /\
      os_name o2 = noload_name seg /\ os_noload o2 = true /\ os_contents o2 = false /\ 0 <= os_size o2 /\
      os_vma o2 = align_up (os_vma o1 + os_size o1) A2 /\ os_vma o1 + os_size o1 <= os_vma o2 /\
      let ve := align_up (os_vma o2 + os_size o2) (align_z (segment_end_align seg)) in
      l_dot st' = ve /\ val st' (segment_vram_end sty name) = Some ve /\
      (forall v, val st' (segment_vram_start sty name) = Some v ->
                 val st' (segment_vram_size sty name) = Some (ve - v)) /\
      (forall o, sec_lookup (alloc_name seg) st0 senv = Some o ->
                 val st' (segment_vram_start sty name) = Some (os_vma o)).
  Proof.
    intros H Hc sty name st' Hdist Herr Hsz. apply add_segment_inv in H.
    destruct H as [[Hc' _] | [_ [cls [ws1 [s1 [ws2 [s2 [Ec [E1 [E2 E]]]]]]]]]]; [congruence|].
    pose proof (kd_class_part _ _ _ _ _ _ Ec) as K0.
    apply write_segment_inv in E1. destruct E1 as [body1 [_ E1]]. rewrite alloc_name_outsec in E1.
    apply write_segment_inv in E2. destruct E2 as [body2 [_ E2]]. rewrite noload_name_outsec in E2.
    set (ks := sections_kind_start (linker_symbols_style stg) cfg seg false) in *.
    set (ke := sections_kind_end (linker_symbols_style stg) cfg seg false) in *.
    set (ks2 := sections_kind_start (linker_symbols_style stg) cfg seg true) in *.
    set (ke2 := sections_kind_end (linker_symbols_style stg) cfg seg true) in *.
    set (RS := segment_rom_start sty name).
    assert (Es : s = ((cls ++ seg_head stg seg ++ ks) ++
                      SOutSec (alloc_name seg) (segment_addr sty seg) (Some RS) false (subalign seg) (opt_fill seg ++ body1) ::
                      ke ++ [SBlank] ++ ks2 ++
                      SOutSec (noload_name seg) None None true (subalign seg) (opt_fill seg ++ body2) ::
                      ke2 ++ [SBlank] ++ seg_foot stg seg)%list).
    { rewrite E, E1, E2. repeat (rewrite <- app_assoc; cbn [app]). reflexivity. }
    subst st'. rewrite Es in Hdist, Herr |- *.
    destruct (segment_vram_general stg seg cls ks (segment_addr sty seg) (Some RS) (subalign seg) (opt_fill seg ++ body1)
                ke ks2 None (subalign seg) (opt_fill seg ++ body2) ke2 st0)
      as [o1 [o2 [A2 [C1 [C2 C3]]]]]; try assumption.
    { rewrite !forallb_app, K0. unfold ks, ke, ks2, ke2. rewrite !kd_kind_start, !kd_kind_end. reflexivity. }
    exists cls, ws1, (opt_fill seg ++ body1), o1, o2, A2.
    split; [exact Ec|]. cbv zeta. fold ks. split; [exact C1|]. split; [exact C2|]. exact C3.
  Qed.

  (* ---------- the start address by kind of request ---------- *)

  Theorem requested_start sty seg sub body stE vma :
    at_most_one_addr seg ->
    outsec_vma env senv ext (segment_addr sty seg) sub body stE = Ok vma ->
    (forall v, sg_fixed_vram seg = Some v -> vma = Z.of_N v) /\
    (forall s, sg_fixed_symbol seg = Some s -> eval_raw env ext stE s = Ok vma) /\
    (forall f, sg_follows_segment seg = Some f -> sym_lookup (segment_vram_end sty f) stE env ext = Some vma) /\
    (forall c, sg_vram_class seg = Some c -> sym_lookup (vram_class_start sty c) stE env ext = Some vma) /\
    (sg_fixed_vram seg = None -> sg_fixed_symbol seg = None -> sg_follows_segment seg = None ->
     sg_vram_class seg = None ->
     vma = align_up (l_dot stE) (body_align (option_map Z.of_N sub) body (l_remaining stE) 1)).
  Proof.
    intros Hone Hv. destruct (addr_spec sty seg Hone) as [S1 [S2 [S3 [S4 S5]]]]. repeat split.
    - intros v E. rewrite (S1 v E) in Hv. cbn in Hv. apply ok_inj in Hv. symmetry. exact Hv.
    - intros s E. rewrite (S2 s E) in Hv. exact Hv.
    - intros f E. rewrite (S3 f E) in Hv. cbn [outsec_vma eval_expr] in Hv.
      destruct (sym_lookup (segment_vram_end sty f) stE env ext); [|discriminate]. apply ok_inj in Hv. congruence.
    - intros c E. rewrite (S4 c E) in Hv. cbn [outsec_vma eval_expr] in Hv.
      destruct (sym_lookup (vram_class_start sty c) stE env ext); [|discriminate]. apply ok_inj in Hv. congruence.
    - intros E1 E2 E3 E4. rewrite (S5 E1 E2 E3 E4) in Hv. cbn [outsec_vma] in Hv. apply ok_inj in Hv.
      symmetry. exact Hv.
  Qed.

  (* the text of fixed_symbol, when it is a plain symbol name, evaluates to the value of that symbol *)
  Lemma eval_raw_plain_symbol st s v :
    defined_arg s = None -> split_on " " s = [s] -> parse_num s = None ->
    sym_lookup s st env ext = Some v -> eval_raw env ext st s = Ok v.
  Proof.
    intros Hd Hs Hn Hv. unfold eval_raw. rewrite Hd, Hs. unfold atom. rewrite Hn, Hv. reflexivity.
  Qed.

  (* symbols the statements in between do not assign keep their value, whoever defines them *)
  Lemma sym_lookup_frame l st x :
    existsb (assigns x) l = false -> sym_lookup x (runl l st) env ext = sym_lookup x st env ext.
  Proof. intro H. unfold sym_lookup. rewrite (run_syms env senv ext final l x st H). reflexivity. Qed.

  (* a segment without address request placed right after another one starts where that one ended:
     at the previous VRAM_END, rounded up to its own start alignment and to what its contents need *)
  Theorem default_start_after rt stg cfg classes a b ws sa ws1 sb ws2 st0 :
    add_segment rt stg cfg classes a ws = Ok (sa, ws1) ->
    add_segment rt stg cfg classes b ws1 = Ok (sb, ws2) ->
    should_emit rt (sg_conds a) = true -> should_emit rt (sg_conds b) = true ->
    sg_fixed_vram b = None -> sg_fixed_symbol b = None -> sg_follows_segment b = None -> sg_vram_class b = None ->
    let sty := linker_symbols_style stg in
    let st1 := runl sa st0 in
    let st2 := runl (sa ++ sb) st0 in
    vram_names_distinct sty (sg_name a) sa = true ->
    vram_names_distinct sty (sg_name b) sb = true ->
    (forall n, ~ In (LForwardRef n) (l_errors st2)) ->
    sizes_ok st0 ->
    exists ve oa1 oa2 ob1 ob2 A,
      val st1 (segment_vram_end sty (sg_name a)) = Some ve /\ l_dot st1 = ve /\
      l_secs st2 = (l_secs st0 ++ [oa1; oa2; ob1; ob2])%list /\
      os_name ob1 = alloc_name b /\
      os_vma ob1 = align_up (align_up ve (align_z (segment_start_align b))) A.
  Proof.
    intros Ha Hb Hca Hcb F1 F2 F3 F4 sty st1 st2 Da Db Herr Hsz.
    assert (E2 : st2 = runl sb st1) by (unfold st2, st1; apply run_app).
    destruct (segment_vram rt stg cfg classes a ws sa ws1 st0 Ha Hca Da) as
      (clsa & wa & ba & oa1 & oa2 & Aa & _ & _ & _ & Sa & _ & _ & _ & _ & _ & _ & _ & _ & _ & Dota & VEa & _).
    { fold st1. intro Hin. apply (Herr (alloc_name a)). rewrite E2. apply run_errors_in. exact Hin. }
    { exact Hsz. }
    fold st1 in Sa, Dota, VEa.
    destruct (segment_vram rt stg cfg classes b ws1 sb ws2 st1 Hb Hcb Db) as
      (clsb & wb & bb & ob1 & ob2 & Ab & Ecb & Dotb & Vb & Sb & Nb & _).
    { rewrite <- E2. apply Herr. }
    { unfold st1. apply run_remaining_Forall. exact Hsz. }
    cbv zeta in Dotb, Vb. unfold segment_addr in Vb. rewrite F1, F2, F3, F4 in Vb. fold sty in Dotb, Vb.
    cbn [outsec_vma] in Vb. apply ok_inj in Vb. rewrite Dotb in Vb.
    eexists _, oa1, oa2, ob1, ob2, _. split; [exact VEa|]. split; [exact Dota|].
    split; [rewrite E2, Sb, Sa, <- app_assoc; reflexivity|]. split; [exact Nb|].
    rewrite <- Vb, Dota. reflexivity.
  Qed.

  (* ---------- the named parts of the property, read off segment_vram ---------- *)

  Theorem noload_follows rt stg cfg classes seg ws s ws' st0 :
    add_segment rt stg cfg classes seg ws = Ok (s, ws') ->
    should_emit rt (sg_conds seg) = true ->
    let sty := linker_symbols_style stg in
    let st' := runl s st0 in
    vram_names_distinct sty (sg_name seg) s = true ->
    ~ In (LForwardRef (alloc_name seg)) (l_errors st') ->
    sizes_ok st0 ->
    exists o1 o2,
      l_secs st' = (l_secs st0 ++ [o1; o2])%list /\
      os_name o1 = alloc_name seg /\ os_name o2 = noload_name seg /\
      os_noload o1 = false /\ os_noload o2 = true /\
      0 <= os_size o1 /\ os_vma o1 + os_size o1 <= os_vma o2.
  Proof.
    intros H Hc sty st' Hd He Hsz.
    destruct (segment_vram rt stg cfg classes seg ws s ws' st0 H Hc Hd He Hsz)
      as (cls & ws1 & b1 & o1 & o2 & A2 & _ & _ & _ & S & N1 & L1 & Z1 & N2 & L2 & _ & _ & _ & F & _).
    exists o1, o2. repeat split; assumption.
  Qed.

  Theorem vram_end rt stg cfg classes seg ws s ws' st0 :
    add_segment rt stg cfg classes seg ws = Ok (s, ws') ->
    should_emit rt (sg_conds seg) = true ->
    let sty := linker_symbols_style stg in
    let name := sg_name seg in
    let st' := runl s st0 in
    vram_names_distinct sty name s = true ->
    ~ In (LForwardRef (alloc_name seg)) (l_errors st') ->
    sizes_ok st0 ->
    exists o1 o2,
      l_secs st' = (l_secs st0 ++ [o1; o2])%list /\ os_name o2 = noload_name seg /\
      let ve := align_up (os_vma o2 + os_size o2) (align_z (segment_end_align seg)) in
      l_dot st' = ve /\ val st' (segment_vram_end sty name) = Some ve /\
      (forall v, val st' (segment_vram_start sty name) = Some v ->
                 val st' (segment_vram_size sty name) = Some (ve - v)).
  Proof.
    intros H Hc sty name st' Hd He Hsz.
    destruct (segment_vram rt stg cfg classes seg ws s ws' st0 H Hc Hd He Hsz)
      as (cls & ws1 & b1 & o1 & o2 & A2 & _ & _ & _ & S & _ & _ & _ & N2 & _ & _ & _ & _ & _ & D & V & Z & _).
    exists o1, o2. repeat split; assumption.
  Qed.

  Theorem default_start rt stg cfg classes seg ws s ws' st0 :
    add_segment rt stg cfg classes seg ws = Ok (s, ws') ->
    should_emit rt (sg_conds seg) = true ->
    sg_fixed_vram seg = None -> sg_fixed_symbol seg = None -> sg_follows_segment seg = None ->
    sg_vram_class seg = None ->
    let sty := linker_symbols_style stg in
    let st' := runl s st0 in
    vram_names_distinct sty (sg_name seg) s = true ->
    ~ In (LForwardRef (alloc_name seg)) (l_errors st') ->
    sizes_ok st0 ->
    exists o1 o2 A,
      l_secs st' = (l_secs st0 ++ [o1; o2])%list /\ os_name o1 = alloc_name seg /\
      os_vma o1 = align_up (align_up (l_dot st0) (align_z (segment_start_align seg))) A.
  Proof.
    intros H Hc F1 F2 F3 F4 sty st' Hd He Hsz.
    destruct (segment_vram rt stg cfg classes seg ws s ws' st0 H Hc Hd He Hsz)
      as (cls & ws1 & b1 & o1 & o2 & A2 & _ & Dot & V & S & N1 & _).
    cbv zeta in Dot, V. unfold segment_addr in V. rewrite F1, F2, F3, F4 in V. cbn [outsec_vma] in V.
    apply ok_inj in V. rewrite Dot in V. eexists o1, o2, _. split; [exact S|]. split; [exact N1|].
    symmetry. exact V.
  Qed.
End Link.

Lemma header_placement rt stg cfg classes seg ws s ws' :
  add_segment rt stg cfg classes seg ws = Ok (s, ws') ->
  headers s = (if should_emit rt (sg_conds seg) then segment_headers (linker_symbols_style stg) seg else []).
Proof. intro H. exact (proj1 (headers_add_segment rt stg cfg classes seg ws s ws' H)). Qed.

Lemma outsec_failed_some env senv ext final name e at_ noload sub body st err :
  eval_expr env senv ext st (l_dot st) e = Err err ->
  exec_outsec env senv ext final name (Some e) at_ noload sub body st = add_err (LForwardRef name) st.
Proof. exact (outsec_failed env senv ext final name (Some e) at_ noload sub body st err). Qed.
