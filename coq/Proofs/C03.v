(* C03 - to be filled *)
