(* General lemmas about LdSem (the model of GNU ld's script evaluation), shared by the link-level
   theorems of several properties. *)
From Slinky Require Import Model.Types Model.Script Model.LdSem.
From Coq Require Import Lia ZArith.
Local Open Scope Z_scope.

Ltac Zify.zify_post_hook ::= Z.div_mod_to_equations.

(* ---------- align_up ---------- *)

Lemma align_up_le x a : x <= align_up x a.
Proof.
  unfold align_up. destruct (a <=? 1) eqn:E; [lia|]. apply Z.leb_gt in E.
  assert (H := Z.div_mod (x + a - 1) a). nia.
Qed.

Lemma align_up_multiple x a : 1 < a -> (align_up x a) mod a = 0.
Proof.
  intro H. unfold align_up. destruct (a <=? 1) eqn:E; [apply Z.leb_le in E; lia|].
  apply Z_mod_mult.
Qed.

Lemma align_up_divide x a : 0 < a -> (a | align_up x a).
Proof.
  intro H. unfold align_up. destruct (a <=? 1) eqn:E.
  - apply Z.leb_le in E. assert (a = 1) by lia. subst. apply Z.divide_1_l.
  - apply Z.divide_factor_r.
Qed.

Lemma align_up_lt x a : 0 < a -> align_up x a < x + a.
Proof.
  intro H. unfold align_up. destruct (a <=? 1) eqn:E; [lia|]. apply Z.leb_gt in E.
  assert (H1 := Z.div_mod (x + a - 1) a). assert (H2 := Z.mod_pos_bound (x + a - 1) a). nia.
Qed.

Lemma align_up_fix x a : 0 < a -> (a | x) -> align_up x a = x.
Proof.
  intros H [k Hk]. unfold align_up. destruct (a <=? 1) eqn:E; [reflexivity|]. apply Z.leb_gt in E.
  subst x. replace (k * a + a - 1) with (a - 1 + k * a) by lia.
  rewrite Z.div_add by lia. rewrite Z.div_small by lia. lia.
Qed.

Lemma align_up_mono x y a : x <= y -> align_up x a <= align_up y a.
Proof.
  intro H. unfold align_up. destruct (a <=? 1) eqn:E; [lia|]. apply Z.leb_gt in E.
  apply Z.mul_le_mono_nonneg_r; [lia|]. apply Z.div_le_mono; lia.
Qed.

(* the least multiple: anything >= x that is a multiple of a is >= align_up x a *)
Lemma align_up_least x a m : 0 < a -> x <= m -> (a | m) -> align_up x a <= m.
Proof.
  intros Ha Hx Hm. rewrite <- (align_up_fix m a Ha Hm). apply align_up_mono. assumption.
Qed.

(* aligning twice: when one alignment divides the other (always the case for powers of two) the
   result is a multiple of both *)
Lemma align_up_twice_divides x a b :
  0 < a -> 0 < b -> ((a | b) \/ (b | a)) ->
  (a | align_up (align_up x a) b) /\ (b | align_up (align_up x a) b).
Proof.
  intros Ha Hb [Hab|Hba]; split; try (apply align_up_divide; assumption).
  - eapply Z.divide_trans; [exact Hab|]. apply align_up_divide. assumption.
  - rewrite align_up_fix; [apply align_up_divide; assumption|assumption|].
    eapply Z.divide_trans; [exact Hba|]. apply align_up_divide. assumption.
Qed.

Lemma pow2_divides_or n m : (2 ^ Z.of_nat n | 2 ^ Z.of_nat m) \/ (2 ^ Z.of_nat m | 2 ^ Z.of_nat n).
Proof.
  destruct (Nat.le_ge_cases n m) as [H|H]; [left|right].
  - exists (2 ^ (Z.of_nat m - Z.of_nat n)). rewrite <- Z.pow_add_r by lia. f_equal. lia.
  - exists (2 ^ (Z.of_nat n - Z.of_nat m)). rewrite <- Z.pow_add_r by lia. f_equal. lia.
Qed.

(* ---------- state updates ---------- *)

Lemma lookup_set_sym_same s v p st : lookup s (l_syms (set_sym s v p st)) = Some v.
Proof. simpl. rewrite String.eqb_refl. reflexivity. Qed.

Lemma lookup_set_sym_other s s' v p st :
  s <> s' -> lookup s' (l_syms (set_sym s v p st)) = lookup s' (l_syms st).
Proof.
  intro H. simpl. destruct (String.eqb s' s) eqn:E; [apply String.eqb_eq in E; congruence|reflexivity].
Qed.

Lemma set_sym_dot s v p st : l_dot (set_sym s v p st) = l_dot st.
Proof. reflexivity. Qed.

Lemma add_err_syms e st : l_syms (add_err e st) = l_syms st.
Proof. reflexivity. Qed.

Lemma add_err_dot e st : l_dot (add_err e st) = l_dot st.
Proof. reflexivity. Qed.

(* a value defined in this pass wins over the previous pass and the objects *)
Lemma sym_lookup_defined s v st env ext :
  lookup s (l_syms st) = Some v -> sym_lookup s st env ext = Some v.
Proof. intro H. unfold sym_lookup. rewrite H. reflexivity. Qed.

(* ---------- placing input sections ---------- *)

(* offsets never decrease, every placed address respects the effective alignment and lies between
   the offset before and after, when sizes are non-negative *)
Lemma place_spec vma sub outsec l :
  forall off acc c off' acc' c',
    Forall (fun u => 0 <= u_size u) l ->
    place vma sub outsec l off acc c = (off', acc', c') ->
    off <= off' /\
    exists new, acc' = (acc ++ new)%list /\ List.length new = List.length l /\
      Forall (fun p => vma + off <= pl_addr p /\ pl_addr p <= vma + off' /\ pl_outsec p = outsec) new.
Proof.
  induction l as [|u r IH]; intros off acc c off' acc' c' Hs H; simpl in H.
  - inversion H; subst. split; [lia|]. exists []. rewrite app_nil_r. repeat split; constructor.
  - inversion Hs as [|? ? Hu Hr]; subst.
    set (a := match sub with Some s => s | None => u_align u end) in *.
    set (addr := align_up (vma + off) a) in *.
    assert (Ha : vma + off <= addr) by apply align_up_le.
    specialize (IH _ _ _ _ _ _ Hr H). destruct IH as [Hle [new [Hacc [Hlen Hall]]]].
    split; [lia|].
    exists (Placement (u_marker u) addr outsec :: new). rewrite Hacc, <- app_assoc. simpl.
    split; [reflexivity|]. split; [lia|]. constructor.
    + simpl. repeat split; lia.
    + eapply Forall_impl; [|exact Hall]. intros p [H1 [H2 H3]]. simpl in *. repeat split; try lia; assumption.
Qed.

Lemma place_subalign vma s outsec l :
  forall off acc c off' acc' c',
    0 < s ->
    place vma (Some s) outsec l off acc c = (off', acc', c') ->
    exists new, acc' = (acc ++ new)%list /\ Forall (fun p => (s | pl_addr p)) new.
Proof.
  induction l as [|u r IH]; intros off acc c off' acc' c' Hs H; simpl in H.
  - inversion H; subst. exists []. rewrite app_nil_r. split; [reflexivity|constructor].
  - specialize (IH _ _ _ _ _ _ Hs H). destruct IH as [new [Hacc Hall]].
    exists (Placement (u_marker u) (align_up (vma + off) s) outsec :: new).
    rewrite Hacc, <- app_assoc. split; [reflexivity|]. constructor; [|assumption].
    simpl. apply align_up_divide. assumption.
Qed.
