From Slinky Require Import Model.Types Model.Parse Model.Runtime Model.Style Model.Script Model.Writer Spec.C14.
From Coq Require Import Lia.

(* ====================================================================== *)
(* generic helpers                                                        *)
(* ====================================================================== *)

Lemma bind_ok {A B} (r : res A) (f : A -> res B) b :
  bind r f = Ok b -> exists a, r = Ok a /\ f a = Ok b.
Proof. destruct r as [a|e]; simpl; intro H; [exists a; auto | discriminate]. Qed.

(* one step through a [do x <- r; k] that succeeded *)
Ltac bind_inv H :=
  match type of H with
  | bind ?r ?f = Ok ?b =>
      let a := fresh "a" in let E := fresh "E" in
      destruct r as [a|?] eqn:E; [cbn [bind] in H | discriminate H]
  end.

Lemma map_res_Forall2 {A B} (f : A -> res B) l :
  forall l', map_res f l = Ok l' -> Forall2 (fun x y => f x = Ok y) l l'.
Proof.
  induction l as [|x r IH]; intros l' H; simpl in H.
  - inversion H. constructor.
  - bind_inv H. bind_inv H. inversion H; subst. constructor; auto.
Qed.

(* ---------- induction principles for the two nested types ---------- *)

Definition an_all (P : file_serial -> Prop) (x : an (list file_serial)) : Prop :=
  match x with Value l => Forall P l | _ => True end.

Section FileSerialInd.
  Variable P : file_serial -> Prop.
  Hypothesis Hstep : forall u p k sf pa s lon so files d c kp,
      an_all P files -> P (FileSerial u p k sf pa s lon so files d c kp).

  Fixpoint file_serial_nested_ind (fs : file_serial) : P fs :=
    match fs with
    | FileSerial u p k sf pa s lon so files d c kp =>
        Hstep u p k sf pa s lon so files d c kp
          (match files return an_all P files with
           | Value l =>
               (fix go (l : list file_serial) : Forall P l :=
                  match l with
                  | [] => Forall_nil P
                  | x :: r => Forall_cons x (file_serial_nested_ind x) (go r)
                  end) l
           | Absent => I
           | Null => I
           end)
    end.
End FileSerialInd.

Section FileInfoInd.
  Variable P : file_info -> Prop.
  Hypothesis Hstep : forall f, Forall P (fi_files f) -> P f.

  Fixpoint file_info_nested_ind (f : file_info) : P f :=
    match f as f0 return P f0 with
    | FileInfo p k sf pa s lon so files d c kp =>
        Hstep (FileInfo p k sf pa s lon so files d c kp)
          ((fix go (l : list file_info) : Forall P l :=
              match l with
              | [] => Forall_nil P
              | x :: r => Forall_cons x (file_info_nested_ind x) (go r)
              end) files)
    end.
End FileInfoInd.

(* ====================================================================== *)
(* the parsed tree obeys the rule                                         *)
(* ====================================================================== *)

Lemma parse_go_eq l :
  (fix go (l : list file_serial) : res (list file_info) :=
     match l with
     | [] => Ok []
     | x :: r => do y <- parse_file x; do ys <- go r; Ok (y :: ys)
     end) l = map_res parse_file l.
Proof.
  induction l as [|x r IH]; [reflexivity|]. cbn [map_res]. rewrite <- IH. reflexivity.
Qed.

Lemma kind_from_path_not_group p : kind_from_path p <> KGroup.
Proof.
  unfold kind_from_path. destruct (extension_of p) as [e|]; [|discriminate].
  destruct (String.eqb e "a"); discriminate.
Qed.

(* what a successful parse_file says about kind, keep_sections and the entries below *)
Lemma parse_file_shape fs f :
  parse_file fs = Ok f ->
  fi_keep f = keep_of_skeep (fs_keep fs) /\
  ((fs_kind fs = Value KGroup /\ fi_kind f = KGroup /\
    exists l fl, fs_files fs = Value l /\ map_res parse_file l = Ok fl /\
                 fi_files f = (if keep_is_absent (keep_of_skeep (fs_keep fs)) then fl
                               else map (pass_down_file (keep_of_skeep (fs_keep fs))) fl)) \/
   (fs_kind fs <> Value KGroup /\ fi_kind f <> KGroup /\ fi_files f = [])).
Proof.
  intro H. destruct fs as [u p k sf pa s lon so files d c kp].
  cbn [parse_file fs_unknown fs_path fs_kind fs_subfile fs_pad_amount fs_section
       fs_linker_offset_name fs_section_order fs_files fs_dir fs_conds fs_keep] in *.
  bind_inv H. rename a into ko, E into Eko.
  bind_inv H. rename E into Epk. destruct a as [path kind].
  do 5 bind_inv H.
  bind_inv H. rename a4 into fl, E4 into Efl.
  bind_inv H. bind_inv H. inversion H; subst f; clear H.
  cbn [fi_keep fi_kind fi_files]. split; [reflexivity|].
  destruct (is_group kind) eqn:G.
  - left. assert (kind = KGroup) by (destruct kind; try discriminate G; reflexivity). subst kind.
    split; [|split; [reflexivity|]].
    + destruct ko as [k0|].
      * destruct (is_objlike k0) eqn:Ob.
        -- bind_inv Epk. destruct (is_empty _); [discriminate|]. inversion Epk; subst. discriminate Ob.
        -- destruct (has_value p); [discriminate|]. inversion Epk; subst.
           destruct k as [| |k1]; simpl in Eko; try discriminate. inversion Eko; subst. reflexivity.
      * bind_inv Epk. destruct (is_empty _); [discriminate|]. inversion Epk as [[Hp Hk]].
        exfalso. exact (kind_from_path_not_group _ Hk).
    + destruct files as [| |l]; try discriminate Efl. rewrite parse_go_eq in Efl.
      exists l, fl. split; [reflexivity|]. split; [exact Efl|].
      cbn [andb]. destruct (keep_is_absent (keep_of_skeep kp)); reflexivity.
  - right. split; [|split].
    + intro Hk. subst k. simpl in Eko. inversion Eko; subst ko. simpl in Epk.
      destruct (has_value p); [discriminate|]. inversion Epk; subst. discriminate G.
    + intro Hk. subst kind. discriminate G.
    + bind_inv Efl. inversion Efl; subst. reflexivity.
Qed.

Lemma pass_down_absent f : pass_down_file KAbsent f = f.
Proof. destruct f; reflexivity. Qed.

Lemma map_pass_down_absent l : map (pass_down_file KAbsent) l = l.
Proof. induction l as [|x r IH]; simpl; [reflexivity|]. rewrite pass_down_absent, IH. reflexivity. Qed.

Lemma kt_of_eq f : kt_of f = KT (fi_keep f) (map kt_of (fi_files f)).
Proof. destruct f; reflexivity. Qed.

(* the tree after one push-down pass *)
Lemma kt_of_pass_down inh f :
  kt_of (pass_down_file inh f) =
  KT (explicit_or (fi_keep f) inh)
     (match fi_keep f with
      | KAbsent => if is_group (fi_kind f) then map kt_of (map (pass_down_file inh) (fi_files f))
                   else map kt_of (fi_files f)
      | _ => map kt_of (fi_files f)
      end).
Proof.
  destruct inh as [|b|w].
  - rewrite pass_down_absent, map_pass_down_absent, kt_of_eq.
    destruct (fi_keep f); [destruct (is_group (fi_kind f))|..]; reflexivity.
  - destruct f as [p k sf pa s lon so files d c kp].
    destruct kp; [destruct k|..]; reflexivity.
  - destruct f as [p k sf pa s lon so files d c kp].
    destruct kp; [destruct k|..]; reflexivity.
Qed.

Definition file_tree_ok (fs : file_serial) : Prop :=
  forall f inh, parse_file fs = Ok f -> kt_of (pass_down_file inh f) = spec_kt inh fs.

Lemma children_tree l :
  Forall file_tree_ok l ->
  forall fl inh, map_res parse_file l = Ok fl ->
                 map kt_of (map (pass_down_file inh) fl) = map (spec_kt inh) l.
Proof.
  induction 1 as [|x r Hx _ IH]; intros fl inh H; simpl in H.
  - inversion H. reflexivity.
  - bind_inv H. bind_inv H. inversion H; subst. simpl. rewrite (Hx a inh E), (IH a0 inh eq_refl). reflexivity.
Qed.

Lemma explicit_or_absent_r k : explicit_or k KAbsent = k.
Proof. destruct k; reflexivity. Qed.

Lemma file_tree fs : file_tree_ok fs.
Proof.
  induction fs as [u p k sf pa s lon so files d c kp IH] using file_serial_nested_ind.
  intros f inh H. rewrite kt_of_pass_down.
  destruct (parse_file_shape _ _ H) as [Hkeep [(Hsk & Hfk & l & fl & Hfs & Hmr & Hff) | (Hsk & Hfk & Hff)]];
    cbn [fs_keep fs_kind fs_files] in *.
  - subst k files. cbn [an_all] in IH. cbn [spec_kt fs_keep fs_kind fs_files].
    rewrite Hkeep, Hfk, Hff. cbn [is_group file_kind_eqb].
    destruct (keep_of_skeep kp) as [|b|w] eqn:K; cbn [keep_is_absent explicit_or].
    + rewrite (children_tree l IH fl inh Hmr). reflexivity.
    + rewrite (children_tree l IH fl (KAll b) Hmr). reflexivity.
    + rewrite (children_tree l IH fl (KWhich w) Hmr). reflexivity.
  - cbn [spec_kt fs_keep fs_kind fs_files]. rewrite Hkeep, Hff. cbn [map].
    assert (Hnil : match k with
                   | Value KGroup => match files with
                                     | Value l => map (spec_kt (explicit_or (keep_of_skeep kp) inh)) l
                                     | _ => []
                                     end
                   | _ => []
                   end = []).
    { destruct k as [| |[]]; try reflexivity. congruence. }
    rewrite Hnil. destruct (keep_of_skeep kp); [destruct (is_group (fi_kind f))|..]; reflexivity.
Qed.

Lemma file_tree_parsed fs f : parse_file fs = Ok f -> kt_of f = spec_kt KAbsent fs.
Proof. intro H. rewrite <- (pass_down_absent f). apply file_tree. exact H. Qed.

(* the files of a segment (or of a group) after the conditional pass the parsers apply *)
Lemma files_tree l fl inh :
  map_res parse_file l = Ok fl ->
  map kt_of (if keep_is_absent inh then fl else map (pass_down_file inh) fl) = map (spec_kt inh) l.
Proof.
  intro H. rewrite <- (children_tree l (proj2 (Forall_forall _ _) (fun x _ => file_tree x)) fl inh H).
  destruct inh; cbn [keep_is_absent]; try reflexivity. rewrite map_pass_down_absent. reflexivity.
Qed.

(* the recursive rule is "the nearest explicit value" *)
Lemma spec_is_nearest fs : forall ancestors, spec_kt (nearest ancestors) fs = nearest_kt ancestors fs.
Proof.
  induction fs as [u p k sf pa s lon so files d c kp IH] using file_serial_nested_ind.
  intro ancs. cbn [spec_kt nearest_kt fs_keep fs_kind fs_files nearest]. f_equal.
  destruct k as [| |[]]; try reflexivity. destruct files as [| |l]; try reflexivity.
  cbn [an_all] in IH. change (explicit_or (keep_of_skeep kp) (nearest ancs))
    with (nearest (keep_of_skeep kp :: ancs)).
  induction IH as [|x r Hx _ IHr]; cbn [map]; [reflexivity|]. rewrite Hx, IHr. reflexivity.
Qed.

(* ---------- segments ---------- *)

Lemma parse_segment_shape st ss seg :
  parse_segment st ss = Ok seg ->
  exists fl, map_res parse_file (serial_files ss) = Ok fl /\
             sg_files seg = (if keep_is_absent (keep_of_skeep (ss_keep ss)) then fl
                             else map (pass_down_file (keep_of_skeep (ss_keep ss))) fl) /\
             sg_keep seg = keep_of_skeep (ss_keep ss) /\
             get_non_null_no_default (ss_vram_class ss) "vram_class" = Ok (sg_vram_class seg).
Proof.
  intro H. unfold parse_segment in H. cbv zeta in H.
  repeat bind_inv H. inversion H; subst seg; clear H.
  cbn [sg_files sg_keep sg_vram_class].
  match goal with E : map_res parse_file _ = Ok ?fl |- _ => exists fl end.
  unfold serial_files. auto.
Qed.

Lemma segment_tree st ss seg :
  parse_segment st ss = Ok seg ->
  sg_keep seg = keep_of_skeep (ss_keep ss) /\
  map kt_of (sg_files seg) = map (spec_kt (keep_of_skeep (ss_keep ss))) (serial_files ss).
Proof.
  intro H. destruct (parse_segment_shape _ _ _ H) as (fl & Hfl & Hfiles & Hkeep & _).
  split; [exact Hkeep|]. rewrite Hfiles. apply files_tree. exact Hfl.
Qed.

(* ---------- vram classes ---------- *)

Lemma nearest_two a b : nearest [a; b] = explicit_or a b.
Proof. cbn [nearest]. rewrite explicit_or_absent_r. reflexivity. Qed.

(* on the parsed records: the third pass *)
Lemma class_pass_down_tree classes st ss seg :
  parse_segment st ss = Ok seg ->
  let inh := nearest [keep_of_skeep (ss_keep ss); class_keep classes (sg_vram_class seg)] in
  sg_keep (class_pass_down classes seg) = inh /\
  map kt_of (sg_files (class_pass_down classes seg)) = map (spec_kt inh) (serial_files ss).
Proof.
  intros H inh. subst inh. rewrite nearest_two.
  destruct (parse_segment_shape _ _ _ H) as (fl & Hfl & Hfiles & Hkeep & _).
  assert (Hsame : forall ck, explicit_or (keep_of_skeep (ss_keep ss)) ck = keep_of_skeep (ss_keep ss) \/
                             (keep_of_skeep (ss_keep ss) = KAbsent /\ ck = KAbsent) ->
            sg_keep seg = explicit_or (keep_of_skeep (ss_keep ss)) ck /\
            map kt_of (sg_files seg) =
            map (spec_kt (explicit_or (keep_of_skeep (ss_keep ss)) ck)) (serial_files ss)).
  { intros ck Hck. assert (Heq : explicit_or (keep_of_skeep (ss_keep ss)) ck = keep_of_skeep (ss_keep ss)).
    { destruct Hck as [Hck|[H1 H2]]; [exact Hck|]. rewrite H1, H2. reflexivity. }
    rewrite Heq. split; [exact Hkeep|]. rewrite Hfiles. apply files_tree. exact Hfl. }
  unfold class_pass_down, class_keep.
  destruct (sg_vram_class seg) as [cn|].
  2:{ apply Hsame. destruct (keep_of_skeep (ss_keep ss)); auto. }
  destruct (find_class cn classes) as [cl|].
  2:{ apply Hsame. destruct (keep_of_skeep (ss_keep ss)); auto. }
  unfold pass_down_segment. rewrite Hkeep.
  destruct (vc_keep cl) as [|b|w] eqn:Ck.
  - apply Hsame. destruct (keep_of_skeep (ss_keep ss)); auto.
  - destruct (keep_of_skeep (ss_keep ss)) eqn:K; try (apply Hsame; auto).
    cbn [segment_with_keep_files sg_keep sg_files explicit_or]. split; [reflexivity|].
    rewrite Hfiles. cbn [keep_is_absent]. apply (files_tree _ _ (KAll b) Hfl).
  - destruct (keep_of_skeep (ss_keep ss)) eqn:K; try (apply Hsame; auto).
    cbn [segment_with_keep_files sg_keep sg_files explicit_or]. split; [reflexivity|].
    rewrite Hfiles. cbn [keep_is_absent]. apply (files_tree _ _ (KWhich w) Hfl).
Qed.

Lemma parse_class_shape c vc :
  parse_class c = Ok vc ->
  vc_name vc = opt_str (plain_str (vs_name c)) /\ vc_keep vc = keep_of_skeep (vs_keep c).
Proof.
  intro H. unfold parse_class in H. cbv zeta in H. repeat bind_inv H.
  inversion H; subst. split; reflexivity.
Qed.

Lemma class_keep_parsed scl :
  forall cl cn, map_res parse_class scl = Ok cl ->
  class_keep cl (Some cn) = class_keep_serial scl (Value cn).
Proof.
  induction scl as [|c r IH]; intros cl cn H; simpl in H.
  - inversion H. reflexivity.
  - bind_inv H. bind_inv H. inversion H; subst.
    destruct (parse_class_shape _ _ E) as [Hn Hk].
    specialize (IH a0 cn eq_refl). unfold class_keep, class_keep_serial, find_class in *.
    cbn [find]. rewrite Hn. destruct (String.eqb (opt_str (plain_str (vs_name c))) cn).
    + exact Hk.
    + exact IH.
Qed.

Lemma Forall2_map_r {A B C} (R : A -> C -> Prop) (g : B -> C) l l' :
  Forall2 (fun x y => R x (g y)) l l' -> Forall2 R l (map g l').
Proof. induction 1; simpl; constructor; auto. Qed.

Lemma Forall2_impl {A B} (R1 R2 : A -> B -> Prop) l l' :
  (forall x y, R1 x y -> R2 x y) -> Forall2 R1 l l' -> Forall2 R2 l l'.
Proof. intros Hi H. induction H; constructor; auto. Qed.

Definition segment_rule (d : document_serial) (ss : segment_serial) (seg : segment) : Prop :=
  sg_keep seg = segment_inherited d ss /\
  map kt_of (sg_files seg) = map (spec_kt (segment_inherited d ss)) (serial_files ss).

Lemma document_tree d doc :
  unserialize_document d = Ok doc ->
  Forall2 (segment_rule d) (serial_segments d) (doc_segments doc).
Proof.
  intro H. unfold unserialize_document in H. cbv zeta in H.
  do 3 bind_inv H. bind_inv H. rename a2 into scl, E2 into Escl.
  bind_inv H. rename a2 into cl, E2 into Ecl.
  bind_inv H. rename a2 into segs, E2 into Esegs.
  repeat bind_inv H. inversion H; subst doc; clear H. cbn [doc_segments].
  apply Forall2_map_r. unfold serial_segments.
  eapply Forall2_impl; [|apply map_res_Forall2; exact Esegs].
  intros ss seg Hps. unfold segment_rule, segment_inherited.
  assert (Hcls : class_keep cl (sg_vram_class seg) =
                 class_keep_serial (serial_classes d) (ss_vram_class ss)).
  { destruct (parse_segment_shape _ _ _ Hps) as (_ & _ & _ & _ & Hvc).
    assert (Hscl : serial_classes d = scl).
    { unfold serial_classes. destruct (ds_vram_classes d); simpl in Escl; congruence. }
    rewrite Hscl. destruct (ss_vram_class ss) as [| |cn]; simpl in Hvc; try discriminate;
      inversion Hvc; try reflexivity.
    apply class_keep_parsed. exact Ecl. }
  rewrite <- Hcls. apply (class_pass_down_tree cl _ _ _ Hps).
Qed.

Lemma document_tree_parse d doc :
  parse d = Ok doc -> Forall2 (segment_rule d) (serial_segments d) (doc_segments doc).
Proof. unfold parse. destruct (serde_ok d); [apply document_tree | discriminate]. Qed.

(* ====================================================================== *)
(* emission: the KEEP flag of every input-section statement               *)
(* ====================================================================== *)

Lemma fold_out_ext {A} (f g : A -> wstate -> res out) l :
  (forall x ws, In x l -> f x ws = g x ws) -> forall ws, fold_out f l ws = fold_out g l ws.
Proof.
  induction l as [|x r IH]; intros H ws; simpl; [reflexivity|].
  rewrite (H x ws (or_introl eq_refl)). destruct (g x ws) as [o1|e]; simpl; [|reflexivity].
  rewrite IH; [reflexivity|]. intros y ws' Hy. apply H. right. exact Hy.
Qed.

Lemma kids_eq (F : file_info -> wstate -> res out) l :
  forall ws,
  (fix kids (l : list file_info) (ws : wstate) : res out :=
     match l with
     | [] => Ok ([], ws)
     | c :: r => do o1 <- F c ws; do o2 <- kids r (snd o1); Ok ((fst o1 ++ fst o2)%list, snd o2)
     end) l ws = fold_out F l ws.
Proof.
  induction l as [|c r IH]; intro ws; [reflexivity|]. cbn [fold_out]. 
  destruct (F c ws) as [o1|e]; cbn [bind]; [|reflexivity]. rewrite <- IH. reflexivity.
Qed.

(* the sub-group table consulted by an entry: the segment's one, except for a group (empty) *)
Lemma subgroups_for_sub seg f k others :
  lookup k (subgroups_for seg f) = Some others -> lookup k (sections_subgroups seg) = Some others.
Proof. unfold subgroups_for. destruct (fi_kind f); try (intro H; exact H); discriminate. Qed.

Lemma subgroups_for_leaf seg f : fi_kind f <> KGroup -> subgroups_for seg f = sections_subgroups seg.
Proof. unfold subgroups_for. destruct (fi_kind f); try reflexivity. intro H. elim H. reflexivity. Qed.

Lemma subgroups_for_group seg f : fi_kind f = KGroup -> subgroups_for seg f = [].
Proof. unfold subgroups_for. intros ->. reflexivity. Qed.

(* one unfolding of the nested fixpoint *)
Lemma emit_sff_S rt sty cfg seg sections f n stack section base ws :
  emit_sff rt sty cfg seg sections f (S n) stack section base ws =
  if mem_str section stack then Err (ESubgroupCycle (sg_name seg) section) else
  fold_out
    (fun k ws =>
       do o1 <- emit_file_of rt sty cfg seg sections f base k ws;
       do o2 <- (if reference_partial cfg then Ok ([], snd o1) else
                 match lookup k (subgroups_for seg f) with
                 | Some others =>
                     fold_out (fun other ws =>
                                 emit_sff rt sty cfg seg sections f n (section :: stack) other base ws)
                              others (snd o1)
                 | None => Ok ([], snd o1)
                 end);
       Ok ((fst o1 ++ fst o2)%list, snd o2))
    (sections_here f section sections) ws.
Proof.
  destruct f as [p k sf pa s lon so files d c kp].
  cbn [emit_sff]. destruct (mem_str section stack); [reflexivity|].
  apply fold_out_ext. intros k0 ws0 _. unfold emit_file_of. cbn [fi_kind fi_conds fi_keep fi_path fi_subfile fi_files fi_dir fi_section fi_pad_amount fi_linker_offset_name].
  destruct (negb (should_emit rt c)); [reflexivity|].
  destruct k; try reflexivity.
  destruct (escape_path rt d) as [d0|e]; [|reflexivity]. cbn [bind].
  rewrite <- (kids_eq (fun c0 ws => emit_sff rt sty cfg seg sections c0 (chain_fuel seg) [] k0
                                             (push base d0) ws)).
  reflexivity.
Qed.

Lemma emit_sff_O rt sty cfg seg sections f stack section base ws :
  emit_sff rt sty cfg seg sections f 0 stack section base ws =
  Err (ECrash "emit_section_for_file: recursion bound").
Proof. destruct f; reflexivity. Qed.

Lemma fold_out_Forall {A} (P : stmt -> Prop) (f : A -> wstate -> res out) l :
  (forall x ws o, In x l -> f x ws = Ok o -> Forall P (fst o)) ->
  forall ws o, fold_out f l ws = Ok o -> Forall P (fst o).
Proof.
  induction l as [|x r IH]; intros H ws o Hf; simpl in Hf.
  - inversion Hf. constructor.
  - apply bind_ok in Hf. destruct Hf as [o1 [E1 Hf]].
    apply bind_ok in Hf. destruct Hf as [o2 [E2 Hf]]. inversion Hf; subst; cbn [fst].
    apply Forall_app. split.
    + eapply H; [left; reflexivity | exact E1].
    + eapply IH; [|exact E2]. intros y ws' o' Hy Hfy. eapply H; [right; exact Hy | exact Hfy].
Qed.

(* a property of everything [emit_file_of] emits for [f] holds of everything [emit_sff] emits *)
Lemma emit_sff_Forall (P : stmt -> Prop) rt sty cfg seg sections f :
  (forall base k ws o, emit_file_of rt sty cfg seg sections f base k ws = Ok o -> Forall P (fst o)) ->
  forall n stack section base ws o,
    emit_sff rt sty cfg seg sections f n stack section base ws = Ok o -> Forall P (fst o).
Proof.
  intros Hfile. induction n as [|n IHn]; intros stack section base ws o H.
  - rewrite emit_sff_O in H. discriminate.
  - rewrite emit_sff_S in H. destruct (mem_str section stack); [discriminate|].
    eapply fold_out_Forall; [|exact H]. intros k ws1 o1 _ Hk. cbv beta in Hk.
    apply bind_ok in Hk. destruct Hk as [oa [Ea Hk]].
    apply bind_ok in Hk. destruct Hk as [ob [Eb Hk]]. inversion Hk; subst; cbn [fst].
    apply Forall_app. split; [eapply Hfile; exact Ea|].
    destruct (reference_partial cfg); [inversion Eb; constructor|].
    destruct (lookup k (subgroups_for seg f)) as [others|]; [|inversion Eb; constructor].
    eapply fold_out_Forall; [|exact Eb]. intros other ws2 o2 _ Ho. eapply IHn. exact Ho.
Qed.

Lemma emit_sff_object_inputs rt sty cfg seg sections f n stack section base ws o :
  objlike f ->
  emit_sff rt sty cfg seg sections f n stack section base ws = Ok o ->
  Forall (input_of f) (fst o).
Proof.
  intros Hobj. apply emit_sff_Forall. intros base0 k ws0 o0 H. unfold emit_file_of in H.
  destruct (negb (should_emit rt (fi_conds f))); [inversion H; constructor|].
  destruct Hobj as [K|K]; rewrite K in H; apply bind_ok in H; destruct H as [p [_ H]];
    inversion H; subst; cbn [fst]; constructor; [|constructor| |constructor];
    unfold input_of; eauto.
Qed.

Lemma emit_sff_inputs rt sty cfg seg sections f :
  forall n stack section base ws o,
    emit_sff rt sty cfg seg sections f n stack section base ws = Ok o ->
    Forall (input_rule f) (fst o).
Proof.
  induction f as [f IHf] using file_info_nested_ind.
  apply emit_sff_Forall. intros base k ws o H. unfold emit_file_of in H.
  destruct (negb (should_emit rt (fi_conds f))); [inversion H; constructor|].
  destruct (fi_kind f) eqn:K.
  - apply bind_ok in H. destruct H as [p [_ H]]. inversion H; subst; cbn [fst].
    constructor; [|constructor]. intros _. exists f. split; [apply below_self|].
    split; [left; exact K|]. unfold input_of. eauto.
  - apply bind_ok in H. destruct H as [p [_ H]]. inversion H; subst; cbn [fst].
    constructor; [|constructor]. intros _. exists f. split; [apply below_self|].
    split; [right; exact K|]. unfold input_of. eauto.
  - inversion H; subst; cbn [fst]. destruct (String.eqb (fi_section f) k); constructor;
      [intro Hi; discriminate Hi | constructor].
  - inversion H; subst; cbn [fst]. destruct (String.eqb (fi_section f) k); constructor;
      [intro Hi; discriminate Hi | constructor].
  - apply bind_ok in H. destruct H as [d [_ H]].
    eapply fold_out_Forall; [|exact H]. intros c ws1 o1 Hin Hc. cbv beta in Hc.
    rewrite Forall_forall in IHf. specialize (IHf c Hin _ _ _ _ _ _ Hc).
    eapply Forall_impl; [|exact IHf]. intros s Hs Hi. destruct (Hs Hi) as (g & Hb & Hg).
    exists g. split; [|exact Hg]. eapply below_child; eassumption.
Qed.

(* ---------- the partial scripts ---------- *)

Lemma emit_section_cfg rt sty cfg1 cfg2 seg sections base section ws :
  reference_partial cfg1 = reference_partial cfg2 ->
  emit_section rt sty cfg1 seg sections base section ws =
  emit_section rt sty cfg2 seg sections base section ws.
Proof.
  destruct cfg1 as [r1 k1 s1], cfg2 as [r2 k2 s2]. cbn [reference_partial]. intro H. subst r2.
  reflexivity.
Qed.

Lemma emit_section_sub_partial rt sty seg sections base section ws :
  emit_section rt sty cfg_sub_partial seg sections base section ws =
  emit_section rt sty cfg_normal seg sections base section ws.
Proof. apply emit_section_cfg. reflexivity. Qed.

Lemma input_of_absent g s : fi_keep g = KAbsent -> input_of g s -> unkept_input s.
Proof.
  intros Hk (path & member & k & wild & Hs). rewrite Hk in Hs. exists path, member, k, wild. exact Hs.
Qed.

(* the main partial script: the stand-in object of a segment is never wrapped *)
Lemma main_partial_unkept rt sty cfg seg p sections base section ws o :
  emit_section rt sty cfg (clone_with_new_files seg [new_object p]) sections base section ws = Ok o ->
  Forall unkept_input (fst o).
Proof.
  intro H. unfold emit_section in H.
  apply bind_ok in H. destruct H as [b0 [_ H]]. apply bind_ok in H. destruct H as [b [_ H]].
  eapply fold_out_Forall; [|exact H]. cbn [clone_with_new_files sg_files].
  intros f ws1 o1 [Hf|[]] Hemit. subst f. cbv beta in Hemit.
  eapply Forall_impl;
    [|exact (emit_sff_object_inputs _ _ _ _ _ (new_object p) _ _ _ _ _ _ (or_introl eq_refl) Hemit)].
  intros s Hs. exact (input_of_absent (new_object p) s eq_refl Hs).
Qed.

(* ---------- the text ---------- *)

Lemma append_assoc (a b c : string) : ((a ++ b) ++ c)%string = (a ++ (b ++ c))%string.
Proof. induction a as [|x a IH]; simpl; [reflexivity|]. rewrite IH. reflexivity. Qed.

Lemma render_input_keep path member sect wild :
  render_input true path member sect wild = ("KEEP(" ++ input_text path member sect wild ++ ");")%string /\
  render_input false path member sect wild = (input_text path member sect wild ++ ";")%string.
Proof.
  unfold render_input, input_text. split.
  - destruct member, wild; repeat (progress (rewrite ?append_assoc; cbn [append])); reflexivity.
  - destruct member, wild; repeat (progress (rewrite ?append_assoc; cbn [append])); reflexivity.
Qed.

(* ====================================================================== *)
(* example data: values at class, segment, outer group, inner group, file *)
(* ====================================================================== *)

Definition ex_cs : conds_serial := mkCondsSerial Absent Absent Absent Absent.

Definition ex_obj (p : string) (k : skeep) : file_serial :=
  FileSerial [] (Value p) Absent Absent Absent Absent Absent Absent Absent Absent ex_cs k.

Definition ex_group (l : list file_serial) (k : skeep) : file_serial :=
  FileSerial [] Absent (Value KGroup) Absent Absent Absent Absent Absent (Value l) Absent ex_cs k.

Definition ex_seg (name : string) (files : list file_serial) (fixed : an N) (class : an string)
           (k : skeep) : segment_serial :=
  SegmentSerial [] (Value name) (Some files) fixed Absent Absent class Absent Absent ex_cs
                (Value [".data"; ".rodata"]) (Value [".bss"]) Absent Absent Absent Absent Absent
                Absent Absent Absent Absent Absent k.

Definition ex_settings : settings_serial :=
  SettingsSerial [] Absent Absent Absent Absent Absent Absent Absent Absent Absent Absent Absent
                 Absent Absent (Value "ld/partial") (Value "build/segments") Absent Absent Absent
                 Absent Absent Absent Absent Absent Absent Absent Absent Absent.

Definition ex_doc : document_serial :=
  DocumentSerial []
    (Value ex_settings)
    (Value [ClassSerial [] (Value "cls") (Value 2147483648%N) Absent Absent (SKList [".rodata"]);
            (* a second class of the same name is never consulted *)
            ClassSerial [] (Value "cls") (Value 2147483648%N) Absent Absent (SKBool true)])
    (Some
       [ex_seg "a"
          [ex_obj "a1.o" SKAbsent;
           ex_group [ex_obj "g1.o" SKAbsent;
                     ex_group [ex_obj "g2.o" SKAbsent; ex_obj "g2b.o" (SKBool false)] (SKList [".data"]);
                     ex_group [ex_obj "g3.o" SKAbsent] SKAbsent]
                    (SKBool true)]
          Absent (Value "cls") SKAbsent;
        ex_seg "b"
          [ex_obj "b1.o" SKAbsent;
           ex_group [ex_obj "b2.o" (SKList [".bss"])] SKAbsent]
          Absent (Value "cls") (SKBool false);
        ex_seg "c" [ex_obj "c1.o" SKAbsent; ex_group [ex_obj "c2.o" SKAbsent] SKAbsent]
          (Value 4096%N) Absent SKAbsent])
    Absent Absent Absent Absent.

Definition doc_trees (r : res document) : list (keep * list ktree) :=
  match r with
  | Ok doc => map (fun s => (sg_keep s, map kt_of (sg_files s))) (doc_segments doc)
  | Err _ => []
  end.

Definition spec_trees (d : document_serial) : list (keep * list ktree) :=
  map (fun ss => (segment_inherited d ss, map (spec_kt (segment_inherited d ss)) (serial_files ss)))
      (serial_segments d).

(* the input-section statements of a script, in order *)
Fixpoint inputs_of_stmt (s : stmt) : list stmt :=
  match s with
  | SInput _ _ _ _ _ => [s]
  | SOutSec _ _ _ _ _ body =>
      (fix go (l : list stmt) : list stmt :=
         match l with [] => [] | x :: r => (inputs_of_stmt x ++ go r)%list end) body
  | SSections body =>
      (fix go (l : list stmt) : list stmt :=
         match l with [] => [] | x :: r => (inputs_of_stmt x ++ go r)%list end) body
  | _ => []
  end.

Definition input_lines (l : list stmt) : list string := render (flat_map inputs_of_stmt l).

Definition ex_rt : runtime := Runtime [] false.

Definition ex_normal_lines : list string :=
  match parse ex_doc with
  | Ok doc => match gen_normal doc ex_rt with Ok w => input_lines (wo_script w) | Err _ => [] end
  | Err _ => []
  end.

Definition ex_partial_lines : list string * list (string * list string) :=
  match parse ex_doc with
  | Ok doc => match gen_partial doc ex_rt with
              | Ok p => (input_lines (wo_script (po_main p)),
                         map (fun s => (fst s, input_lines (wo_script (snd s)))) (po_subs p))
              | Err _ => ([], [])
              end
  | Err _ => ([], [])
  end.
