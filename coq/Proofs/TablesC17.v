(* Translator obligations for the format! templates used by C17: tools/rs2v.py regenerates the named templates
   t_sb_<fn>_<k> (script_buffer.rs) and t_lw_<fn>_<k> (linker_writer.rs) from the Rust source on every run - named after
   the enclosing function and the ordinal of the template inside it, so that an edit elsewhere in the file leaves them
   alone; the lemmas below tie the rendering of the script AST (Model/Script.v) to those templates and pin their format
   specs.  A change of one of these format strings in the Rust breaks the lemma the next time a check runs. *)
From Slinky Require Import Model.Types Model.Generated Model.Style Model.Script.
Local Open Scope string_scope.

Lemma str_app_nil_r (s : string) : s ++ "" = s.
Proof. induction s as [|c s IH]; simpl; [reflexivity | rewrite IH; reflexivity]. Qed.

Lemma str_app_assoc (x y z : string) : (x ++ y) ++ z = x ++ y ++ z.
Proof. induction x as [|c x IH]; simpl; [reflexivity | rewrite IH; reflexivity]. Qed.

Lemma sb_assign p h sym v :
  render_assign p h sym v =
  fmt (match p, h with true, true => t_sb_write_symbol_assignment_0 | true, false => t_sb_write_symbol_assignment_1
                   | false, true => t_sb_write_symbol_assignment_2 | false, false => t_sb_write_symbol_assignment_3 end)
      [sym; v].
Proof. destruct p, h; reflexivity. Qed.

Lemma sb_assert ind c m :
  render_stmt ind (SAssert c m) = [indent_str ind ++ fmt t_sb_write_assert_0 [c; m]].
Proof. reflexivity. Qed.

Lemma sb_extern ind n :
  render_stmt ind (SExtern n) = [indent_str ind ++ fmt t_sb_write_required_symbol_0 [n]].
Proof. reflexivity. Qed.

Lemma sb_required_cond n : ("DEFINED(" ++ n ++ ")") = fmt t_sb_write_required_symbol_1 [n].
Proof. reflexivity. Qed.

Lemma sb_required_msg n :
  fmt t_sb_write_required_symbol_2 [n] = "Required symbol '" ++ n ++ "' was not linked".
Proof. reflexivity. Qed.

Lemma lw_entry ind e : render_stmt ind (SEntry e) = [indent_str ind ++ fmt t_lw_add_entry_0 [e]].
Proof. reflexivity. Qed.

Lemma lw_hardcoded_gp ind v :
  render_stmt ind (SAssign false false false "_gp" (EHex8 v)) = [indent_str ind ++ fmt t_lw_begin_sections_0 [hex8_of_N v]].
Proof. reflexivity. Qed.

Lemma lw_hardcoded_gp_single ind v :
  render_stmt ind (SAssign false false false "_gp" (EHex8 v)) = [indent_str ind ++ fmt t_lw_add_single_segment_0 [hex8_of_N v]].
Proof. reflexivity. Qed.

Lemma lw_gp_offset off : render_expr (EDotPlus off) = fmt t_lw_write_section_symbol_start_0 [hex_of_i32 off].
Proof. unfold_tpl_lw; cbn [fmt render_expr]. rewrite str_app_nil_r. reflexivity. Qed.

(* the format specs of the templates used above ({} = Display, {:X} = upper-case hex, {:08X} = eight digits) *)
Lemma specs_C17 :
  t_sb_write_symbol_assignment_0_spec = [""; ""] /\
  t_sb_write_symbol_assignment_1_spec = [""; ""] /\
  t_sb_write_symbol_assignment_2_spec = [""; ""] /\
  t_sb_write_symbol_assignment_3_spec = [""; ""] /\
  t_sb_write_assert_0_spec = [""; ""] /\
  t_sb_write_required_symbol_0_spec = [""] /\
  t_sb_write_required_symbol_1_spec = [""] /\
  t_sb_write_required_symbol_2_spec = [""] /\
  t_lw_add_entry_0_spec = [""] /\
  t_lw_begin_sections_0_spec = [":08X"] /\
  t_lw_add_single_segment_0_spec = [":08X"] /\
  t_lw_write_section_symbol_start_0_spec = [":X"].
Proof. repeat split; reflexivity. Qed.
