(* C01 - to be filled *)
