(* C01: lemmas.  Builds on the correspondence between emit_sff and the description of Spec/C01.v
   proved in Proofs/C02.v. *)
From Slinky Require Import Model.Types Model.Runtime Model.Style Model.Script Model.Writer Model.LdSem.
From Slinky Require Import Spec.C09 Spec.C05 Spec.C02.
From Slinky Require Import Proofs.LdLemmas Proofs.C06 Proofs.C18 Proofs.C09 Proofs.C05 Proofs.C02.
From Coq Require Import Lia ZArith Sorted Permutation.

(* ====================================================================== *)
(* [here], spelled out                                                     *)
(* ====================================================================== *)

Lemma insert_sorted_perm le x l : Permutation (insert_sorted le x l) (x :: l).
Proof.
  induction l as [|y r IH]; simpl; [apply Permutation_refl|].
  destruct (le x y); [apply Permutation_refl|].
  eapply Permutation_trans; [apply perm_skip; exact IH | apply perm_swap].
Qed.

Lemma sort_by_perm le l : Permutation (sort_by le l) l.
Proof.
  induction l as [|x r IH]; simpl; [apply Permutation_refl|].
  eapply Permutation_trans; [apply insert_sorted_perm | apply perm_skip; exact IH].
Qed.

Lemma lookup_none_iff {A} k (l : list (string * A)) : lookup k l = None <-> ~ In k (map fst l).
Proof.
  induction l as [|[k' v] r IH]; simpl; [tauto|].
  destruct (String.eqb k k') eqn:E.
  - apply String.eqb_eq in E. subst. split; [discriminate | intro H; exfalso; apply H; auto].
  - apply String.eqb_neq in E. rewrite IH. split; [intros H [H1|H1]; [congruence | auto] | tauto].
Qed.

Lemma lookup_in {A} k (l : list (string * A)) v : lookup k l = Some v -> In (k, v) l.
Proof.
  induction l as [|[k' v'] r IH]; simpl; [discriminate|].
  destruct (String.eqb k k') eqn:E.
  - apply String.eqb_eq in E. intro H. inversion H; subst. auto.
  - auto.
Qed.

(* the list [here] is sorted from *)
Definition here_raw (f : file_info) (section : string) : list string :=
  (if is_some (lookup section (fi_section_order f)) then [] else [section]) ++
  map fst (filter (fun kv => String.eqb (snd kv) section) (fi_section_order f)).

Lemma here_perm sections f section :
  Permutation (here sections f section)
              (match fi_section_order f with [] => [section] | _ => here_raw f section end).
Proof.
  unfold here, sections_here, here_raw. destruct (fi_section_order f) as [|p r]; [apply Permutation_refl|].
  apply sort_by_perm.
Qed.

Lemma in_here_raw f section k :
  In k (here_raw f section) <->
  (k = section /\ lookup section (fi_section_order f) = None) \/ In (k, section) (fi_section_order f).
Proof.
  unfold here_raw. rewrite in_app_iff. split.
  - intros [H|H].
    + destruct (lookup section (fi_section_order f)); simpl in H; [contradiction|].
      destruct H as [H|[]]. left. auto.
    + apply in_map_iff in H. destruct H as [[k' d] [E H]]. simpl in E. subst.
      apply filter_In in H. destruct H as [H E]. simpl in E. apply String.eqb_eq in E. subst. right. exact H.
  - intros [[E H]|H].
    + left. rewrite H. simpl. auto.
    + right. apply in_map_iff. exists (k, section). split; [reflexivity|]. apply filter_In. split; [exact H|].
      simpl. apply String.eqb_refl.
Qed.

Lemma in_here sections f section k : In k (here sections f section) <-> here_spec f section k.
Proof.
  unfold here_spec.
  split; intro H.
  - apply (Permutation_in _ (here_perm sections f section)) in H.
    destruct (fi_section_order f) as [|p r] eqn:E; [destruct H as [H|[]]; auto|].
    rewrite <- E. apply in_here_raw. exact H.
  - apply (Permutation_in _ (Permutation_sym (here_perm sections f section))).
    destruct (fi_section_order f) as [|p r] eqn:E; [left; auto|].
    rewrite <- E in H. apply in_here_raw. exact H.
Qed.

(* ====================================================================== *)
(* C01_nothing_unlisted                                                    *)
(* ====================================================================== *)

Section Unlisted.
  Variable rt : runtime.
  Variable sty : style.
  Variable cfg : wcfg.
  Variable seg : segment.
  Variable sections : list string.

  (* every section of an expansion is reached from the section asked for *)
  Lemma expands_reaches f :
    (forall s l, Expands cfg seg sections f s l -> forall k, In k l -> Reaches cfg seg sections f s k) /\
    (forall ks l, ExpandsKeys cfg seg sections f ks l ->
                  forall k, In k l -> In k ks \/ exists k0 s, In k0 ks /\ In s (entry_members cfg seg f k0) /\
                                                            Reaches cfg seg sections f s k) /\
    (forall ms l, ExpandsMembers cfg seg sections f ms l ->
                  forall k, In k l -> exists s, In s ms /\ Reaches cfg seg sections f s k).
  Proof.
    apply Expands_mutind.
    - intros section l _ IH k Hk. destruct (IH k Hk) as [H|[k0 [s [H1 [H2 H3]]]]].
      + apply Reach_here. exact H.
      + eapply Reach_member; eassumption.
    - intros k [].
    - intros k ks l1 l2 _ IH1 _ IH2 x Hx. destruct Hx as [Hx|Hx]; [subst; left; left; reflexivity|].
      apply in_app_iff in Hx. destruct Hx as [Hx|Hx].
      + destruct (IH1 x Hx) as [s [Hs Hr]]. right. exists k, s. split; [left; reflexivity|]. auto.
      + destruct (IH2 x Hx) as [H|[k0 [s [H1 [H2 H3]]]]]; [left; right; exact H|].
        right. exists k0, s. split; [right; exact H1|]. auto.
    - intros k [].
    - intros s ss l1 l2 _ IH1 _ IH2 x Hx. apply in_app_iff in Hx. destruct Hx as [Hx|Hx].
      + exists s. split; [left; reflexivity | apply IH1; exact Hx].
      + destruct (IH2 x Hx) as [s' [Hs Hr]]. exists s'. split; [right; exact Hs | exact Hr].
  Qed.

  Local Notation NL := (names_leaf rt seg).
  Local Notation RV := (reach_via cfg seg sections).

  Definition unl_entry (f : file_info) (section base : string) (l : list stmt) : Prop :=
    forall s, In s l -> is_input s = true ->
      exists c b anc, In (c, b, anc) (leaves rt base f) /\ NL c b (input_section s) s /\
                      RV anc section (input_section s).

  Definition unl_file (f : file_info) (k base : string) (l : list stmt) : Prop :=
    forall s, In s l -> is_input s = true ->
      exists c b rest, In (c, b, f :: rest) (leaves rt base f) /\ NL c b (input_section s) s /\
                       RV rest k (input_section s).

  Definition unl_keys (f : file_info) (keys : list string) (base : string) (l : list stmt) : Prop :=
    forall s, In s l -> is_input s = true ->
      exists k, In k keys /\
      exists c b rest, In (c, b, f :: rest) (leaves rt base f) /\ NL c b (input_section s) s /\
                       RV rest k (input_section s).

  Definition unl_kids (files : list file_info) (k base : string) (l : list stmt) : Prop :=
    forall s, In s l -> is_input s = true ->
      exists c0, In c0 files /\
      exists c b anc, In (c, b, anc) (leaves rt base c0) /\ NL c b (input_section s) s /\
                      RV anc k (input_section s).

  Lemma leaves_leaf f base :
    should_emit rt (fi_conds f) = true -> (fi_kind f = KObject \/ fi_kind f = KArchive) ->
    leaves rt base f = [(f, base, [f])].
  Proof. destruct f. simpl. intros H [E|E]; rewrite H, E; reflexivity. Qed.

  Lemma leaves_group f base d c0 c b anc :
    should_emit rt (fi_conds f) = true -> fi_kind f = KGroup -> escape_path rt (fi_dir f) = Ok d ->
    In c0 (fi_files f) -> In (c, b, anc) (leaves rt (push base d) c0) ->
    In (c, b, f :: anc) (leaves rt base f).
  Proof.
    destruct f. simpl. intros H E Hd Hc0 Hin. rewrite H, E, Hd.
    apply in_map_iff. exists (c, b, anc). split; [reflexivity|]. apply in_flat_map. exists c0. auto.
  Qed.

  Lemma unlisted_all :
    (forall f section base l, EntryStmts rt sty cfg seg sections f section base l -> unl_entry f section base l) /\
    (forall f keys base l, KeysStmts rt sty cfg seg sections f keys base l -> unl_keys f keys base l) /\
    (forall f k base l, FileStmts rt sty cfg seg sections f k base l -> unl_file f k base l) /\
    (forall files k base l, KidsStmts rt sty cfg seg sections files k base l -> unl_kids files k base l).
  Proof.
    apply EntryStmts_mutind.
    - (* entry *)
      intros f section base keys l HX _ IH s Hs Hi.
      destruct (IH s Hs Hi) as [k [Hk [c [b [rest [Hl [Hn Hr]]]]]]].
      exists c, b, (f :: rest). split; [exact Hl|]. split; [exact Hn|].
      simpl. exists k. split; [|exact Hr]. destruct (expands_reaches f) as [H _]. eapply H; eassumption.
    - intros f base s [].
    - (* keys *)
      intros f k ks base l1 l2 _ IH1 _ IH2 s Hs Hi. apply in_app_iff in Hs. destruct Hs as [Hs|Hs].
      + destruct (IH1 s Hs Hi) as [c [b [rest H]]]. exists k. split; [left; reflexivity|]. exists c, b, rest. exact H.
      + destruct (IH2 s Hs Hi) as [k' [Hk' H]]. exists k'. split; [right; exact Hk' | exact H].
    - intros f k base _ s [].
    - (* leaf *)
      intros f k base He Hk Hp s Hs Hi. unfold own_stmts in Hs. unfold path_ok in Hp.
      destruct (fi_kind f) eqn:Ek; try contradiction.
      + destruct Hp as [p Ep]. rewrite Ep in Hs. destruct Hs as [Hs|[]]. subst s.
        exists f, base, []. split; [rewrite leaves_leaf by auto; left; reflexivity|].
        split; [|reflexivity]. exists p. split; [exact Ep|]. unfold member_of. rewrite Ek. reflexivity.
      + destruct Hp as [p Ep]. rewrite Ep in Hs. destruct Hs as [Hs|[]]. subst s.
        exists f, base, []. split; [rewrite leaves_leaf by auto; left; reflexivity|].
        split; [|reflexivity]. exists p. split; [exact Ep|]. unfold member_of. rewrite Ek. reflexivity.
      + destruct (String.eqb (fi_section f) k); [destruct Hs as [Hs|[]]; subst s; discriminate | contradiction].
      + destruct (String.eqb (fi_section f) k); [destruct Hs as [Hs|[]]; subst s; discriminate | contradiction].
    - (* group *)
      intros f k base d l He Hk Hd _ IH s Hs Hi.
      destruct (IH s Hs Hi) as [c0 [Hc0 [c [b [anc [Hl [Hn Hr]]]]]]].
      exists c, b, anc. split; [eapply leaves_group; eassumption|]. auto.
    - intros k base s [].
    - (* kids *)
      intros c r k base l1 l2 _ IH1 _ IH2 s Hs Hi. apply in_app_iff in Hs. destruct Hs as [Hs|Hs].
      + exists c. split; [left; reflexivity|]. apply IH1; assumption.
      + destruct (IH2 s Hs Hi) as [c0 [Hc0 H]]. exists c0. split; [right; exact Hc0 | exact H].
  Qed.

  (* every input statement among the files of a segment for one section names a leaf of the segment's
     file list, under its accumulated directory, and a section reached from the group's section *)
  Lemma nothing_unlisted base_path section ws l ws' :
    emit_section rt sty cfg seg sections base_path section ws = Ok (l, ws') ->
    exists b, forall s, In s l -> is_input s = true ->
      exists c0, In c0 (sg_files seg) /\
      exists c bc anc, In (c, bc, anc) (leaves rt b c0) /\ NL c bc (input_section s) s /\
                       RV anc section (input_section s).
  Proof.
    intro H. apply emit_section_sound in H. destruct H as [b [_ HK]]. exists b.
    destruct unlisted_all as [_ [_ [_ Hkids]]]. exact (Hkids _ _ _ _ HK).
  Qed.
End Unlisted.

(* ====================================================================== *)
(* each configured section exactly once: the sub-group forest              *)
(* ====================================================================== *)

Lemma nodup_app {A} (l1 l2 : list A) :
  NoDup l1 -> NoDup l2 -> (forall x, In x l1 -> In x l2 -> False) -> NoDup (l1 ++ l2).
Proof.
  intros H1 H2 Hd. induction H1 as [|x r Hx Hr IH]; simpl; [exact H2|].
  constructor.
  - intro H. apply in_app_iff in H. destruct H as [H|H]; [contradiction|]. apply (Hd x); [left; reflexivity | exact H].
  - apply IH. intros y Hy. apply Hd. right. exact Hy.
Qed.

Section Forest.
  Variable cfg : wcfg.
  Variable seg : segment.
  Variable f : file_info.

  Definition child (k m : string) : Prop := In m (members cfg seg k).

  (* proper descendants *)
  Inductive anc : string -> string -> Prop :=
  | anc_child a x : child a x -> anc a x
  | anc_step a p x : anc a p -> child p x -> anc a x.

  Variable rank : string -> nat.
  Hypothesis Hrank : forall k m, child k m -> (rank m < rank k)%nat.
  Hypothesis Huniq : forall p1 p2 x, child p1 x -> child p2 x -> p1 = p2.
  Hypothesis HnodupM : forall k, NoDup (members cfg seg k).

  Lemma anc_rank a b : anc a b -> (rank b < rank a)%nat.
  Proof. induction 1 as [a x H|a p x H IH Hc]; [apply Hrank; exact H | apply Hrank in Hc; lia]. Qed.

  Lemma anc_irrefl a : ~ anc a a.
  Proof. intro H. apply anc_rank in H. lia. Qed.

  Lemma anc_left a p x : child a p -> anc p x -> anc a x.
  Proof.
    intros Hc H. induction H as [p x H|p q x H IH Hq].
    - eapply anc_step; [apply anc_child; exact Hc | exact H].
    - eapply anc_step; [apply IH; exact Hc | exact Hq].
  Qed.

  Lemma anc_linear a x : anc a x -> forall b, anc b x -> a = b \/ anc a b \/ anc b a.
  Proof.
    induction 1 as [a x H|a p x H IH Hc]; intros b Hb.
    - inversion Hb as [b' x' Hb'|b' q x' Hbq Hq]; subst.
      + left. eapply Huniq; eassumption.
      + right; right. rewrite (Huniq a q x H Hq). exact Hbq.
    - inversion Hb as [b' x' Hb'|b' q x' Hbq Hq]; subst.
      + right; left. rewrite (Huniq b p x Hb' Hc). exact H.
      + rewrite (Huniq q p x Hq Hc) in Hbq. apply IH. exact Hbq.
  Qed.

  Lemma anc_last a x : anc a x -> exists p, child p x /\ (a = p \/ anc a p).
  Proof. inversion 1; subst; eauto. Qed.

  Definition closed (l : list string) : Prop := forall p x, In p l -> child p x -> In x l.
  Definition sound_from (ks l : list string) : Prop :=
    forall x, In x l -> exists k, In k ks /\ (x = k \/ anc k x).
  Definition indep (ks : list string) : Prop := forall a b, In a ks -> In b ks -> ~ anc a b.

  Lemma siblings_indep k : indep (members cfg seg k).
  Proof.
    intros a b Ha Hb H. destruct (anc_last a b H) as [p [Hp Hap]].
    assert (p = k) by (eapply Huniq; eassumption). subst p.
    pose proof (Hrank k a Ha). destruct Hap as [E|E]; [subst; lia | apply anc_rank in E; lia].
  Qed.

  Variable sections : list string.
  Hypothesis Hid : forall p m, child p m -> here sections f m = [m].
  (* f is not a group: it expands the sub-groups of the table *)
  Hypothesis Hleaf : fi_kind f <> KGroup.

  Lemma entry_members_leaf k : entry_members cfg seg f k = members cfg seg k.
  Proof. unfold entry_members. destruct (fi_kind f); try reflexivity. contradiction. Qed.

  Definition good_keys (ks l : list string) : Prop :=
    closed l /\ incl ks l /\ sound_from ks l /\ (NoDup ks -> indep ks -> NoDup l).

  Lemma forest_props :
    (forall s l, Expands cfg seg sections f s l -> here sections f s = [s] -> good_keys [s] l) /\
    (forall ks l, ExpandsKeys cfg seg sections f ks l -> good_keys ks l) /\
    (forall ms l, ExpandsMembers cfg seg sections f ms l ->
                  (forall m, In m ms -> exists p, child p m) -> good_keys ms l).
  Proof.
    apply Expands_mutind.
    - intros section l _ IH Hh. rewrite Hh in IH. exact IH.
    - split; [intros p x []|]. split; [intros x []|]. split; [intros x []|]. intros. constructor.
    - intros k ks l1 l2 _ IH1 _ IH2. rewrite entry_members_leaf in IH1.
      assert (Hpar : forall m, In m (members cfg seg k) -> exists p, child p m) by (intros m Hm; exists k; exact Hm).
      destruct (IH1 Hpar) as [C1 [I1 [S1 N1]]]. destruct IH2 as [C2 [I2 [S2 N2]]].
      assert (Hl1 : forall x, In x l1 -> anc k x).
      { intros x Hx. destruct (S1 x Hx) as [m [Hm [E|E]]]; [subst; apply anc_child; exact Hm|].
        eapply anc_left; eassumption. }
      repeat split.
      + intros p x Hp Hc. destruct Hp as [Hp|Hp].
        * subst p. right. apply in_app_iff. left. apply I1. exact Hc.
        * right. apply in_app_iff. apply in_app_iff in Hp. destruct Hp as [Hp|Hp]; [left; eapply C1 | right; eapply C2];
            eassumption.
      + intros x [Hx|Hx]; [left; exact Hx|]. right. apply in_app_iff. right. apply I2. exact Hx.
      + intros x [Hx|Hx].
        * subst x. exists k. split; [left; reflexivity | left; reflexivity].
        * apply in_app_iff in Hx. destruct Hx as [Hx|Hx].
          -- exists k. split; [left; reflexivity | right; apply Hl1; exact Hx].
          -- destruct (S2 x Hx) as [k' [Hk' H]]. exists k'. split; [right; exact Hk' | exact H].
      + intros Hnd Hind. inversion Hnd as [|? ? Hk Hks]; subst.
        assert (Hind2 : indep ks) by (intros a b Ha Hb; apply Hind; right; assumption).
        constructor.
        * intro Hx. apply in_app_iff in Hx. destruct Hx as [Hx|Hx].
          -- apply (anc_irrefl k). apply Hl1. exact Hx.
          -- destruct (S2 k Hx) as [k' [Hk' [E|E]]]; [subst; contradiction|].
             apply (Hind k' k); [right; exact Hk' | left; reflexivity | exact E].
        * apply nodup_app; [apply N1; [apply HnodupM | apply siblings_indep] | apply N2; assumption |].
          intros x Hx1 Hx2. pose proof (Hl1 x Hx1) as Hkx.
          destruct (S2 x Hx2) as [k' [Hk' [E|E]]].
          -- subst x. apply (Hind k k'); [left; reflexivity | right; exact Hk' | exact Hkx].
          -- destruct (anc_linear k x Hkx k' E) as [E'|[E'|E']].
             ++ subst. contradiction.
             ++ apply (Hind k k'); [left; reflexivity | right; exact Hk' | exact E'].
             ++ apply (Hind k' k); [right; exact Hk' | left; reflexivity | exact E'].
    - intros _. split; [intros p x []|]. split; [intros x []|]. split; [intros x []|]. intros. constructor.
    - intros s ss l1 l2 _ IH1 _ IH2 Hpar.
      assert (Hs : here sections f s = [s]).
      { destruct (Hpar s (or_introl eq_refl)) as [p Hp]. eapply Hid. exact Hp. }
      destruct (IH1 Hs) as [C1 [I1 [S1 N1]]].
      destruct (IH2 (fun m Hm => Hpar m (or_intror Hm))) as [C2 [I2 [S2 N2]]].
      assert (Hl1 : forall x, In x l1 -> x = s \/ anc s x).
      { intros x Hx. destruct (S1 x Hx) as [k [[Hk|[]] H]]. subst k. exact H. }
      repeat split.
      + intros p x Hp Hc. apply in_app_iff. apply in_app_iff in Hp.
        destruct Hp as [Hp|Hp]; [left; eapply C1 | right; eapply C2]; eassumption.
      + intros x [Hx|Hx]; apply in_app_iff; [left; apply I1; left; exact Hx | right; apply I2; exact Hx].
      + intros x Hx. apply in_app_iff in Hx. destruct Hx as [Hx|Hx].
        * exists s. split; [left; reflexivity | apply Hl1; exact Hx].
        * destruct (S2 x Hx) as [k' [Hk' H]]. exists k'. split; [right; exact Hk' | exact H].
      + intros Hnd Hind. inversion Hnd as [|? ? Hk Hks]; subst.
        assert (Hind2 : indep ss) by (intros a b Ha Hb; apply Hind; right; assumption).
        apply nodup_app.
        * apply N1; [constructor; [intros []|constructor]|]. intros a b [Ha|[]] [Hb|[]]. subst. apply anc_irrefl.
        * apply N2; assumption.
        * intros x Hx1 Hx2. destruct (S2 x Hx2) as [s' [Hs' H2]].
          destruct (Hl1 x Hx1) as [E1|E1]; destruct H2 as [E2|E2].
          -- subst. contradiction.
          -- subst x. apply (Hind s' s); [right; exact Hs' | left; reflexivity | exact E2].
          -- subst x. apply (Hind s s'); [left; reflexivity | right; exact Hs' | exact E1].
          -- destruct (anc_linear s x E1 s' E2) as [E'|[E'|E']].
             ++ subst. contradiction.
             ++ apply (Hind s s'); [left; reflexivity | right; exact Hs' | exact E'].
             ++ apply (Hind s' s); [right; exact Hs' | left; reflexivity | exact E'].
  Qed.
End Forest.

(* ====================================================================== *)
(* each configured section exactly once: section_order                     *)
(* ====================================================================== *)

Lemma nodup_map_fst_filter {A B} (g : A * B -> bool) (l : list (A * B)) :
  NoDup (map fst l) -> NoDup (map fst (filter g l)).
Proof.
  induction l as [|x r IH]; simpl; intro H; [constructor|]. inversion H as [|? ? Hx Hr]; subst.
  destruct (g x); simpl; [|apply IH; exact Hr]. constructor; [|apply IH; exact Hr].
  intro Hin. apply Hx. apply in_map_iff in Hin. destruct Hin as [y [E Hy]]. apply filter_In in Hy.
  apply in_map_iff. exists y. split; [exact E | apply Hy].
Qed.

Lemma nodup_keys_functional {B} (l : list (string * B)) k d1 d2 :
  NoDup (map fst l) -> In (k, d1) l -> In (k, d2) l -> d1 = d2.
Proof.
  induction l as [|[k' d'] r IH]; simpl; intros H H1 H2; [contradiction|]. inversion H as [|? ? Hx Hr]; subst.
  destruct H1 as [H1|H1]; destruct H2 as [H2|H2].
  - congruence.
  - inversion H1; subst. exfalso. apply Hx. apply in_map_iff. exists (k, d2). auto.
  - inversion H2; subst. exfalso. apply Hx. apply in_map_iff. exists (k, d1). auto.
  - eapply IH; eassumption.
Qed.

Lemma here_raw_nodup f section : NoDup (map fst (fi_section_order f)) -> NoDup (here_raw f section).
Proof.
  intro H. unfold here_raw. apply nodup_app.
  - destruct (lookup section (fi_section_order f)); simpl; repeat constructor. intros [].
  - apply nodup_map_fst_filter. exact H.
  - intros x Hx1 Hx2. destruct (lookup section (fi_section_order f)) eqn:E; simpl in Hx1; [contradiction|].
    destruct Hx1 as [Hx1|[]]. subst x. apply lookup_none_iff in E. apply E.
    apply in_map_iff in Hx2. destruct Hx2 as [y [Ey Hy]]. apply filter_In in Hy.
    apply in_map_iff. exists y. split; [exact Ey | apply Hy].
Qed.

Lemma here_nodup sections f section : NoDup (map fst (fi_section_order f)) -> NoDup (here sections f section).
Proof.
  intro H. eapply Permutation_NoDup; [apply Permutation_sym; apply here_perm|].
  destruct (fi_section_order f) as [|p r] eqn:E; [repeat constructor; intros []|].
  rewrite <- E in *. apply here_raw_nodup. exact H.
Qed.

Lemma here_spec_cases f section k :
  here_spec f section k ->
  (k = section /\ lookup section (fi_section_order f) = None) \/ In (k, section) (fi_section_order f).
Proof.
  unfold here_spec. destruct (fi_section_order f) as [|p r]; [|auto]. intro H. left. split; [exact H | reflexivity].
Qed.

Lemma here_disjoint sec1 sec2 f s1 s2 k :
  NoDup (map fst (fi_section_order f)) -> In k (here sec1 f s1) -> In k (here sec2 f s2) -> s1 = s2.
Proof.
  intros Hnd H1 H2. apply in_here, here_spec_cases in H1. apply in_here, here_spec_cases in H2.
  destruct H1 as [[E1 N1]|H1]; destruct H2 as [[E2 N2]|H2].
  - congruence.
  - subst k. apply lookup_none_iff in N1. exfalso. apply N1. apply in_map_iff. exists (s1, s2). auto.
  - subst k. apply lookup_none_iff in N2. exfalso. apply N2. apply in_map_iff. exists (s2, s1). auto.
  - eapply nodup_keys_functional; eassumption.
Qed.

Lemma here_configured sections seg f s k :
  WF_section_order seg f -> In s (configured seg) -> In k (here sections f s) -> In k (configured seg).
Proof.
  intros [_ Hwf] Hs H. apply in_here, here_spec_cases in H. destruct H as [[E _]|H]; [subst; exact Hs|].
  apply (Hwf _ _ H).
Qed.

Lemma here_complete seg f k :
  WF_section_order seg f -> In k (configured seg) ->
  exists s, In s (configured seg) /\ forall sections, In k (here sections f s).
Proof.
  intros [_ Hwf] Hk. destruct (lookup k (fi_section_order f)) as [d|] eqn:E.
  - apply lookup_in in E. exists d. split; [apply (Hwf _ _ E)|]. intro sections. apply in_here.
    unfold here_spec. destruct (fi_section_order f) as [|p r]; [contradiction | right; exact E].
  - exists k. split; [exact Hk|]. intro sections. apply in_here. unfold here_spec.
    destruct (fi_section_order f) as [|p r]; [reflexivity | left; auto].
Qed.

(* ====================================================================== *)
(* each configured section exactly once: assembly                          *)
(* ====================================================================== *)

Lemma filter_nil {A} (g : A -> bool) l : (forall x, In x l -> g x = false) -> filter g l = [].
Proof.
  induction l as [|x r IH]; intro H; [reflexivity|]. simpl. rewrite (H x (or_introl eq_refl)).
  apply IH. intros y Hy. apply H. right. exact Hy.
Qed.

Lemma nodup_app_disjoint {A} (l1 l2 : list A) z : NoDup (l1 ++ l2) -> In z l1 -> ~ In z l2.
Proof.
  induction l1 as [|a l1 IH]; simpl; intros H Hz Hz'; [contradiction|]. inversion H as [|? ? Ha Hr]; subst.
  destruct Hz as [Hz|Hz]; [subst; apply Ha; apply in_app_iff; right; exact Hz' | eapply IH; eassumption].
Qed.

Lemma nodup_app_l {A} (l1 l2 : list A) : NoDup (l1 ++ l2) -> NoDup l1.
Proof.
  induction l1 as [|a l1 IH]; simpl; intro H; [constructor|]. inversion H as [|? ? Ha Hr]; subst.
  constructor; [intro Hin; apply Ha; apply in_app_iff; left; exact Hin | apply IH; exact Hr].
Qed.

Lemma nodup_app_r {A} (l1 l2 : list A) : NoDup (l1 ++ l2) -> NoDup l2.
Proof. induction l1 as [|a l1 IH]; simpl; intro H; [exact H|]. inversion H; subst. auto. Qed.

Lemma nodup_flat_map_in {A B} (g : A -> list B) l e : NoDup (flat_map g l) -> In e l -> NoDup (g e).
Proof.
  induction l as [|x r IH]; simpl; intros H HE; [contradiction|]. destruct HE as [E|E].
  - subst. apply nodup_app_l in H. exact H.
  - apply IH; [|exact E]. apply nodup_app_r in H. exact H.
Qed.

Lemma nodup_flat_map_entry {A B} (g : A -> list B) l e1 e2 x :
  NoDup (flat_map g l) -> In e1 l -> In e2 l -> In x (g e1) -> In x (g e2) -> e1 = e2.
Proof.
  induction l as [|y r IH]; simpl; intros H H1 H2 X1 X2; [contradiction|].
  destruct H1 as [H1|H1]; destruct H2 as [H2|H2].
  - congruence.
  - subst y. exfalso. apply (nodup_app_disjoint _ _ x H X1). apply in_flat_map. exists e2. auto.
  - subst y. exfalso. apply (nodup_app_disjoint _ _ x H X2). apply in_flat_map. exists e1. auto.
  - apply IH; try assumption. apply nodup_app_r in H. exact H.
Qed.

Lemma Forall2_in_r {A B} (R : A -> B -> Prop) l1 l2 y :
  Forall2 R l1 l2 -> In y l2 -> exists x, In x l1 /\ R x y.
Proof.
  induction 1 as [|a b l1 l2 Hab H IH]; simpl; intro Hy; [contradiction|]. destruct Hy as [Hy|Hy].
  - subst. exists a. auto.
  - destruct (IH Hy) as [x [Hx Hr]]. exists x. auto.
Qed.

Lemma Forall2_in_l {A B} (R : A -> B -> Prop) l1 l2 x :
  Forall2 R l1 l2 -> In x l1 -> exists y, In y l2 /\ R x y.
Proof.
  induction 1 as [|a b l1 l2 Hab H IH]; simpl; intro Hx; [contradiction|]. destruct Hx as [Hx|Hx].
  - subst. exists b. auto.
  - destruct (IH Hx) as [y [Hy Hr]]. exists y. auto.
Qed.

Section EachOnce.
  Variable cfg : wcfg.
  Variable seg : segment.
  Variable f : file_info.
  Hypothesis Hsub : WF_subgroups seg.
  Hypothesis Hso : WF_section_order seg f.
  Hypothesis Hleaf : fi_kind f <> KGroup.

  Local Notation child := (child cfg seg).
  Local Notation anc := (anc cfg seg).
  Local Notation U := (configured seg).

  Lemma child_entry k m : child k m -> exists others, In (k, others) (sections_subgroups seg) /\ In m others.
  Proof.
    unfold child, members. destruct (reference_partial cfg); [intros []|].
    destruct (lookup k (sections_subgroups seg)) as [others|] eqn:E; [|intros []].
    intro H. exists others. split; [apply lookup_in; exact E | exact H].
  Qed.

  Lemma child_member k m : child k m -> In m (flat_map snd (sections_subgroups seg)).
  Proof. intro H. destruct (child_entry k m H) as [o [H1 H2]]. apply in_flat_map. exists (k, o). auto. Qed.

  Lemma child_not_configured k m : child k m -> ~ In m U.
  Proof. intro H. destruct Hsub as [_ [_ [H3 _]]]. apply H3. eapply child_member. exact H. Qed.

  Lemma child_uniq p1 p2 x : child p1 x -> child p2 x -> p1 = p2.
  Proof.
    intros H1 H2. destruct (child_entry _ _ H1) as [o1 [E1 X1]]. destruct (child_entry _ _ H2) as [o2 [E2 X2]].
    destruct Hsub as [_ [Hnd _]].
    assert (E : (p1, o1) = (p2, o2)) by (eapply (nodup_flat_map_entry snd); eassumption).
    congruence.
  Qed.

  Lemma members_nodup k : NoDup (members cfg seg k).
  Proof.
    unfold members. destruct (reference_partial cfg); [constructor|].
    destruct (lookup k (sections_subgroups seg)) as [others|] eqn:E; [|constructor].
    destruct Hsub as [_ [Hnd _]]. apply lookup_in in E. apply (nodup_flat_map_in snd _ _ Hnd E).
  Qed.

  Lemma here_member sections p m : child p m -> here sections f m = [m].
  Proof.
    intro H. pose proof (child_not_configured p m H) as Hn. destruct Hso as [_ Hwf].
    unfold here, sections_here. destruct (fi_section_order f) as [|q r] eqn:E; [reflexivity|].
    rewrite <- E in *.
    assert (L : lookup m (fi_section_order f) = None).
    { apply lookup_none_iff. intro Hin. apply in_map_iff in Hin. destruct Hin as [[k d] [Ek Hk]]. simpl in Ek. subst k.
      apply Hn. apply (Hwf _ _ Hk). }
    rewrite L. cbn [is_some].
    rewrite filter_nil; [reflexivity|]. intros [k d] Hk. simpl.
    destruct (String.eqb d m) eqn:Ed; [|reflexivity]. apply String.eqb_eq in Ed. subst d.
    exfalso. apply Hn. apply (Hwf _ _ Hk).
  Qed.

  Lemma anc_not_configured a b : anc a b -> ~ In b U.
  Proof. intro H. inversion H; subst; eapply child_not_configured; eassumption. Qed.

  Lemma anc_closure a b : InClosure cfg seg U a -> anc a b -> InClosure cfg seg U b.
  Proof.
    intros Ha H. induction H as [a x H|a p x H IH Hc].
    - apply (IC_member cfg seg U a x Ha H).
    - apply (IC_member cfg seg U p x (IH Ha) Hc).
  Qed.

  (* the sections emitted for f in the group of one configured section *)
  Lemma one_section_props rank sections s l :
    (forall k m, child k m -> (rank m < rank k)%nat) ->
    In s U -> Expands cfg seg sections f s l ->
    good_keys cfg seg (here sections f s) l /\ NoDup l.
  Proof.
    intros Hrank Hs H. inversion H as [s' l' HK]; subst.
    destruct (forest_props cfg seg f rank Hrank child_uniq members_nodup sections (here_member sections) Hleaf)
      as [_ [HKs _]].
    pose proof (HKs _ _ HK) as G. split; [exact G|]. destruct G as [_ [_ [_ N]]]. apply N.
    - apply here_nodup. apply Hso.
    - intros a b Ha Hb Hab. apply (anc_not_configured a b Hab). apply (here_configured sections seg f s b Hso Hs Hb).
  Qed.

  Lemma each_once_keys_perm W Keys :
    Permutation W U ->
    Forall2 (fun s keys => exists sections, Expands cfg seg sections f s keys) W Keys ->
    NoDup (List.concat Keys) /\
    (forall k, In k (List.concat Keys) <-> InClosure cfg seg U k).
  Proof.
    intros HV HF. destruct Hsub as [HndU [_ [_ [rank Hrank0]]]].
    assert (HndW : NoDup W) by (eapply Permutation_NoDup; [apply Permutation_sym; exact HV | exact HndU]).
    assert (HVU : forall x, In x W -> In x U) by (intros x Hx; eapply Permutation_in; eassumption).
    assert (HUV : forall x, In x U -> In x W)
      by (intros x Hx; eapply Permutation_in; [apply Permutation_sym; exact HV | exact Hx]).
    assert (Hrank : forall k m, child k m -> (rank m < rank k)%nat).
    { intros k m H. unfold Proofs.C01.child, members in H. destruct (reference_partial cfg); [contradiction|].
      destruct (lookup k (sections_subgroups seg)) as [others|] eqn:E; [|contradiction]. eapply Hrank0; eassumption. }
    (* facts about every element of the list, kept with its section *)
    assert (Hall : forall s keys, In s U -> (exists sections, Expands cfg seg sections f s keys) ->
               NoDup keys /\
               (forall x, In x keys -> exists sections k, In k (here sections f s) /\ (x = k \/ anc k x)) /\
               (forall sections k, In k (here sections f s) -> In k keys) /\
               closed cfg seg keys).
    { intros s keys Hs [sections HX]. destruct (one_section_props rank sections s keys Hrank Hs HX) as [[C [I [S _]]] N].
      split; [exact N|]. split; [|split; [|exact C]].
      - intros x Hx. destruct (S x Hx) as [k [Hk H]]. exists sections, k. auto.
      - intros sections' k Hk. apply I. apply in_here. apply in_here in Hk. exact Hk. }
    split.
    - (* no section twice *)
      assert (Hgen : forall V Ks, Forall2 (fun s keys => exists sections, Expands cfg seg sections f s keys) V Ks ->
                                  NoDup V -> incl V U -> NoDup (List.concat Ks) /\
                                  forall x, In x (List.concat Ks) ->
                                            exists s sections k, In s V /\ In k (here sections f s) /\ (x = k \/ anc k x)).
      { induction 1 as [|s keys V Ks Hsk HVK IH]; intros HndV Hincl.
        - split; [constructor | intros x []].
        - inversion HndV as [|? ? HsV HndV']; subst.
          assert (HsU : In s U) by (apply Hincl; left; reflexivity).
          destruct (Hall s keys HsU Hsk) as [N [S [_ _]]].
          destruct (IH HndV' (fun x Hx => Hincl x (or_intror Hx))) as [N2 S2].
          split.
          + simpl. apply nodup_app; [exact N | exact N2 |].
            intros x Hx1 Hx2. destruct (S x Hx1) as [sec1 [k1 [Hk1 H1]]].
            destruct (S2 x Hx2) as [s2 [sec2 [k2 [Hs2 [Hk2 H2]]]]].
            assert (Hs2U : In s2 U) by (apply Hincl; right; exact Hs2).
            assert (Hk1U : In k1 U) by (apply (here_configured sec1 seg f s k1 Hso HsU Hk1)).
            assert (Hk2U : In k2 U) by (apply (here_configured sec2 seg f s2 k2 Hso Hs2U Hk2)).
            assert (Hne : s <> s2) by (intro E; subst; contradiction).
            destruct H1 as [E1|E1]; destruct H2 as [E2|E2].
            * subst. apply Hne. eapply here_disjoint; [apply Hso | eassumption | eassumption].
            * subst x. apply (anc_not_configured _ _ E2). exact Hk1U.
            * subst x. apply (anc_not_configured _ _ E1). exact Hk2U.
            * destruct (anc_linear cfg seg child_uniq k1 x E1 k2 E2) as [E|[E|E]].
              -- subst. apply Hne. eapply here_disjoint; [apply Hso | eassumption | eassumption].
              -- apply (anc_not_configured _ _ E). exact Hk2U.
              -- apply (anc_not_configured _ _ E). exact Hk1U.
          + intros x Hx. simpl in Hx. apply in_app_iff in Hx. destruct Hx as [Hx|Hx].
            * destruct (S x Hx) as [sec1 [k1 [Hk1 H1]]]. exists s, sec1, k1. split; [left; reflexivity|]. auto.
            * destruct (S2 x Hx) as [s2 [sec2 [k2 [Hs2 H]]]]. exists s2, sec2, k2. split; [right; exact Hs2 | exact H]. }
      destruct (Hgen W Keys HF HndW HVU) as [N _]. exact N.
    - intro k. split.
      + (* only sections of the closure *)
        intro Hk. apply in_concat in Hk. destruct Hk as [keys [Hkeys Hk]].
        destruct (Forall2_in_r _ _ _ _ HF Hkeys) as [s [Hs Hsk]]. apply HVU in Hs.
        destruct (Hall s keys Hs Hsk) as [_ [S _]]. destruct (S k Hk) as [sec [k0 [Hk0 H]]].
        assert (Hc : InClosure cfg seg U k0) by (apply IC_base; apply (here_configured sec seg f s k0 Hso Hs Hk0)).
        destruct H as [E|E]; [subst; exact Hc | eapply anc_closure; eassumption].
      + (* every section of the closure *)
        intro Hk. induction Hk as [k Hk|k m Hk IH Hm].
        * destruct (here_complete seg f k Hso Hk) as [s [Hs Hh]].
          destruct (Forall2_in_l _ _ _ _ HF (HUV s Hs)) as [keys [Hkeys Hsk]].
          destruct (Hall s keys Hs Hsk) as [_ [_ [I _]]]. apply in_concat. exists keys. split; [exact Hkeys|].
          destruct Hsk as [sections _]. apply (I sections). apply Hh.
        * apply in_concat in IH. destruct IH as [keys [Hkeys Hk']].
          destruct (Forall2_in_r _ _ _ _ HF Hkeys) as [s [Hs Hsk]]. apply HVU in Hs.
          destruct (Hall s keys Hs Hsk) as [_ [_ [_ C]]]. apply in_concat. exists keys. split; [exact Hkeys|].
          eapply C; eassumption.
  Qed.

  Lemma each_once_keys Keys :
    Forall2 (fun s keys => exists sections, Expands cfg seg sections f s keys) U Keys ->
    NoDup (List.concat Keys) /\
    (forall k, In k (List.concat Keys) <-> InClosure cfg seg U k).
  Proof. apply each_once_keys_perm. apply Permutation_refl. Qed.
End EachOnce.

(* ====================================================================== *)
(* exactly one input statement per configured section (entry level)        *)
(* ====================================================================== *)

Lemma inputs_of_app a b : inputs_of (a ++ b) = inputs_of a ++ inputs_of b.
Proof. apply filter_app. Qed.

Lemma keys_inputs rt sty cfg seg sections f keys base l :
  KeysStmts rt sty cfg seg sections f keys base l ->
  (fi_kind f = KObject \/ fi_kind f = KArchive) -> should_emit rt (fi_conds f) = true ->
  inputs_of l = l /\ map input_section l = keys /\
  Forall (fun st => names_leaf rt seg f base (input_section st) st) l.
Proof.
  intros H Hk He. induction H as [|f k ks base l1 l2 H1 H2 IH]; [repeat split; constructor|].
  destruct (IH Hk He) as [I2 [M2 F2]].
  assert (H1' : exists p, escape_path rt (fi_path f) = Ok p /\
                  l1 = [SInput (keeps (fi_keep f) k) (display (push base p)) (member_of f) k (wildcard_sections seg)]).
  { inversion H1; subst.
    - congruence.
    - apply own_input; assumption.
    - destruct Hk; congruence. }
  destruct H1' as [p [Ep E1]]. subst l1. rewrite inputs_of_app, map_app, I2, M2.
  split; [reflexivity|]. split; [reflexivity|]. constructor; [|exact F2].
  exists p. split; [exact Ep | reflexivity].
Qed.

(* the groups of the configured sections taken in any order [V] *)
Lemma each_once_perm rt sty cfg seg f base V ls :
  WF_subgroups seg -> WF_section_order seg f ->
  (fi_kind f = KObject \/ fi_kind f = KArchive) -> should_emit rt (fi_conds f) = true ->
  Permutation V (configured seg) ->
  Forall2 (fun s l => exists sections, EntryStmts rt sty cfg seg sections f s base l) V ls ->
  inputs_of (List.concat ls) = List.concat ls /\
  NoDup (map input_section (List.concat ls)) /\
  (forall k, In k (map input_section (List.concat ls)) <-> InClosure cfg seg (configured seg) k) /\
  Forall (fun st => names_leaf rt seg f base (input_section st) st) (List.concat ls).
Proof.
  intros Hsub Hso Hk He HV HF.
  assert (Hng : fi_kind f <> KGroup) by (destruct Hk as [E|E]; rewrite E; discriminate).
  assert (H : exists Keys,
             Forall2 (fun s keys => exists sections, Expands cfg seg sections f s keys) V Keys /\
             inputs_of (List.concat ls) = List.concat ls /\
             map input_section (List.concat ls) = List.concat Keys /\
             Forall (fun st => names_leaf rt seg f base (input_section st) st) (List.concat ls)).
  { clear HV. induction HF as [|s l U ls' [sections Hsl] HF IH].
    - exists []. repeat split; constructor.
    - destruct IH as [Keys [F [I [M N]]]]. inversion Hsl as [f0 s0 b0 keys l0 HX HK]; subst.
      destruct (keys_inputs _ _ _ _ _ _ _ _ _ HK Hk He) as [I1 [M1 N1]].
      exists (keys :: Keys). split; [constructor; [exists sections; exact HX | exact F]|].
      simpl. rewrite inputs_of_app, map_app, I1, I, M1, M. repeat split. apply Forall_app; split; assumption. }
  destruct H as [Keys [F [I [M N]]]].
  destruct (each_once_keys_perm cfg seg f Hsub Hso Hng V Keys HV F) as [ND IFF].
  split; [exact I|]. rewrite M. split; [exact ND|]. split; [exact IFF | exact N].
Qed.

Lemma each_once rt sty cfg seg f base ls :
  WF_subgroups seg -> WF_section_order seg f ->
  (fi_kind f = KObject \/ fi_kind f = KArchive) -> should_emit rt (fi_conds f) = true ->
  Forall2 (fun s l => exists sections, EntryStmts rt sty cfg seg sections f s base l) (configured seg) ls ->
  inputs_of (List.concat ls) = List.concat ls /\
  NoDup (map input_section (List.concat ls)) /\
  (forall k, In k (map input_section (List.concat ls)) <-> InClosure cfg seg (configured seg) k) /\
  Forall (fun st => names_leaf rt seg f base (input_section st) st) (List.concat ls).
Proof.
  intros Hsub Hso Hk He. apply each_once_perm; try assumption. apply Permutation_refl.
Qed.

(* ====================================================================== *)
(* exactly one input statement per configured section, at any depth        *)
(* ====================================================================== *)

Lemma WF_section_order_deep_eq seg f :
  WF_section_order_deep seg f <->
  WF_section_order seg f /\ Forall (WF_section_order_deep seg) (fi_files f).
Proof.
  destruct f as [p k sf pa s lon so files d c kp]. cbn [WF_section_order_deep fi_files].
  assert (E : forall l,
    (fix all (l : list file_info) : Prop :=
       match l with
       | [] => True
       | c :: r => WF_section_order_deep seg c /\ all r
       end) l <-> Forall (WF_section_order_deep seg) l).
  { induction l as [|x r IH]; [split; constructor|]. rewrite IH. split.
    - intros [H1 H2]. constructor; assumption.
    - intro H. inversion H; subst. split; assumption. }
  rewrite E. reflexivity.
Qed.

Lemma filter_perm {A} (g : A -> bool) l1 l2 : Permutation l1 l2 -> Permutation (filter g l1) (filter g l2).
Proof.
  induction 1 as [|x l1 l2 H IH|x y l|l1 l2 l3 H1 IH1 H2 IH2]; simpl.
  - constructor.
  - destruct (g x); [apply perm_skip|]; exact IH.
  - destruct (g x), (g y); first [apply perm_swap | apply Permutation_refl].
  - eapply Permutation_trans; eassumption.
Qed.

Lemma Forall2_weaken {A B} (R1 R2 : A -> B -> Prop) l l' :
  (forall a b, R1 a b -> R2 a b) -> Forall2 R1 l l' -> Forall2 R2 l l'.
Proof. intros H. induction 1; constructor; auto. Qed.

Lemma Forall2_map_left {A B C} (R : B -> C -> Prop) (g : A -> B) l l' :
  Forall2 (fun x y => R (g x) y) l l' -> Forall2 R (map g l) l'.
Proof. induction 1; simpl; constructor; assumption. Qed.

(* the leaves of an entry, case by case *)
Lemma leaves_excluded rt base f : should_emit rt (fi_conds f) = false -> leaves rt base f = [].
Proof. destruct f. simpl. intro H. rewrite H. reflexivity. Qed.

Lemma leaves_one rt base f :
  should_emit rt (fi_conds f) = true -> (fi_kind f = KObject \/ fi_kind f = KArchive) ->
  leaves rt base f = [(f, base, [f])].
Proof. destruct f. simpl. intros H [E|E]; rewrite H, E; reflexivity. Qed.

Lemma leaves_other rt base f :
  should_emit rt (fi_conds f) = true -> (fi_kind f = KPad \/ fi_kind f = KLinkerOffset) ->
  leaves rt base f = [].
Proof. destruct f. simpl. intros H [E|E]; rewrite H, E; reflexivity. Qed.

Lemma leaves_group_err rt base f e :
  should_emit rt (fi_conds f) = true -> fi_kind f = KGroup -> escape_path rt (fi_dir f) = Err e ->
  leaves rt base f = [].
Proof. destruct f. simpl. intros H E Hd. rewrite H, E, Hd. reflexivity. Qed.

Lemma leaves_group_ok rt base f d :
  should_emit rt (fi_conds f) = true -> fi_kind f = KGroup -> escape_path rt (fi_dir f) = Ok d ->
  leaves rt base f = map (fun x => (fst (fst x), snd (fst x), f :: snd x))
                         (flat_map (leaves rt (push base d)) (fi_files f)).
Proof. destruct f. simpl. intros H E Hd. rewrite H, E, Hd. reflexivity. Qed.

Section Deep.
  Variable rt : runtime.
  Variable sty : style.
  Variable cfg : wcfg.
  Variable seg : segment.
  Hypothesis Hsub : WF_subgroups seg.

  Local Notation U := (configured seg).

  (* a group asks its entries exactly for the sections of [here] *)
  Lemma expandskeys_group sections f ks l :
    fi_kind f = KGroup -> ExpandsKeys cfg seg sections f ks l -> l = ks.
  Proof.
    intros Hk H. induction H as [|k ks l1 l2 Hm Hks IH]; [reflexivity|].
    unfold entry_members in Hm. rewrite Hk in Hm. inversion Hm; subst. reflexivity.
  Qed.

  Lemma expands_group sections f s l :
    fi_kind f = KGroup -> Expands cfg seg sections f s l -> l = here sections f s.
  Proof. intros Hk H. inversion H; subst. eapply expandskeys_group; eassumption. Qed.

  (* what the entries that name no input file write *)
  Lemma keys_excluded sections f keys base l :
    KeysStmts rt sty cfg seg sections f keys base l -> should_emit rt (fi_conds f) = false -> l = [].
  Proof.
    intros H He. induction H as [|f k ks base l1 l2 H1 H2 IH]; [reflexivity|].
    rewrite (IH He), app_nil_r. inversion H1; subst; [reflexivity | congruence | congruence].
  Qed.

  Lemma keys_noinput sections f keys base l :
    KeysStmts rt sty cfg seg sections f keys base l ->
    (fi_kind f = KPad \/ fi_kind f = KLinkerOffset) -> inputs_of l = [].
  Proof.
    intros H Hk. induction H as [|f k ks base l1 l2 H1 H2 IH]; [reflexivity|].
    rewrite inputs_of_app, (IH Hk), app_nil_r. inversion H1; subst.
    - reflexivity.
    - unfold own_stmts. destruct Hk as [E|E]; rewrite E; destruct (String.eqb (fi_section f) k); reflexivity.
    - destruct Hk; congruence.
  Qed.

  Lemma keys_group_err sections f keys base l e :
    KeysStmts rt sty cfg seg sections f keys base l ->
    should_emit rt (fi_conds f) = true -> fi_kind f = KGroup -> escape_path rt (fi_dir f) = Err e -> l = [].
  Proof.
    intros H He Hk Hd. induction H as [|f k ks base l1 l2 H1 H2 IH]; [reflexivity|].
    exfalso. inversion H1; subst; congruence.
  Qed.

  Lemma entries_inputs_nil f base V ls :
    (forall sections keys l, KeysStmts rt sty cfg seg sections f keys base l -> inputs_of l = []) ->
    Forall2 (fun s l => exists sections, EntryStmts rt sty cfg seg sections f s base l) V ls ->
    inputs_of (List.concat ls) = [].
  Proof.
    intros Hnil HF. induction HF as [|s l V ls [sections Hsl] HF IH]; [reflexivity|].
    simpl. rewrite inputs_of_app, IH, app_nil_r. inversion Hsl; subst. eapply Hnil. eassumption.
  Qed.

  (* an included group: the rows of its children, one per section it asks them for *)
  Lemma group_rows f base d V ls :
    should_emit rt (fi_conds f) = true -> fi_kind f = KGroup -> escape_path rt (fi_dir f) = Ok d ->
    Forall2 (fun s l => exists sections, EntryStmts rt sty cfg seg sections f s base l) V ls ->
    exists Hs rows,
      Forall2 (fun s h => exists sections, h = here sections f s) V Hs /\
      Forall2 (fun k lk => exists sections, KidsStmts rt sty cfg seg sections (fi_files f) k (push base d) lk)
              (List.concat Hs) rows /\
      List.concat ls = List.concat rows.
  Proof.
    intros He Hk Hd HF. induction HF as [|s l V ls [sections Hsl] HF IH].
    - exists [], []. repeat split; constructor.
    - destruct IH as [Hs [rows [F1 [F2 E]]]]. inversion Hsl as [f0 s0 b0 keys l0 HX HK]; subst.
      apply (expands_group sections f s keys Hk) in HX. subst keys.
      destruct (keys_group rt sty cfg seg sections f _ base l d HK He Hk Hd) as [lks [F3 E3]]. subst l.
      exists (here sections f s :: Hs), (lks ++ rows).
      split; [constructor; [exists sections; reflexivity | exact F1]|].
      split.
      + simpl. apply Forall2_app; [|exact F2]. eapply Forall2_weaken; [|exact F3].
        intros k lk H. exists sections. exact H.
      + simpl. rewrite concat_app, E. reflexivity.
  Qed.

  (* over the groups of all configured sections, an entry with a well-formed section_order is asked
     for (and a group asks its entries for) every configured section exactly once *)
  Lemma heres_perm f V Hs :
    WF_section_order seg f -> Permutation V U ->
    Forall2 (fun s h => exists sections, h = here sections f s) V Hs -> Permutation (List.concat Hs) U.
  Proof.
    intros Hso HV HF. destruct Hsub as [HndU _].
    assert (HndV : NoDup V) by (eapply Permutation_NoDup; [apply Permutation_sym; exact HV | exact HndU]).
    assert (HVU : forall x, In x V -> In x U) by (intros x Hx; eapply Permutation_in; eassumption).
    assert (HUV : forall x, In x U -> In x V)
      by (intros x Hx; eapply Permutation_in; [apply Permutation_sym; exact HV | exact Hx]).
    apply NoDup_Permutation; [|exact HndU|].
    - assert (G : forall V Hs, Forall2 (fun s h => exists sections, h = here sections f s) V Hs -> NoDup V ->
                    NoDup (List.concat Hs) /\
                    forall k, In k (List.concat Hs) -> exists s sections, In s V /\ In k (here sections f s)).
      { induction 1 as [|s h V' Hs' [sections Eh] HF' IH]; intro Hnd.
        - split; [constructor | intros k []].
        - inversion Hnd as [|? ? Hs1 Hnd']; subst. destruct (IH Hnd') as [N S]. split.
          + simpl. apply nodup_app; [apply here_nodup; apply Hso | exact N |].
            intros k Hk1 Hk2. destruct (S k Hk2) as [s2 [sec2 [Hs2 Hk2']]].
            assert (s = s2) by (eapply here_disjoint; [apply Hso | exact Hk1 | exact Hk2']).
            subst. contradiction.
          + intros k Hk. simpl in Hk. apply in_app_iff in Hk. destruct Hk as [Hk|Hk].
            * exists s, sections. split; [left; reflexivity | exact Hk].
            * destruct (S k Hk) as [s2 [sec2 [H1 H2]]]. exists s2, sec2. split; [right; exact H1 | exact H2]. }
      apply (G V Hs HF HndV).
    - intro k. split.
      + intro Hk. apply in_concat in Hk. destruct Hk as [h [Hh Hk]].
        destruct (Forall2_in_r _ _ _ _ HF Hh) as [s [Hs0 [sections E]]]. subst h.
        eapply here_configured; [exact Hso | apply HVU; exact Hs0 | exact Hk].
      + intro Hk. destruct (here_complete seg f k Hso Hk) as [s [Hs0 Hh]].
        destruct (Forall2_in_l _ _ _ _ HF (HUV s Hs0)) as [h [Hh' [sections E]]]. subst h.
        apply in_concat. exists (here sections f s). split; [exact Hh' | apply Hh].
  Qed.

  (* the rows of a list of entries: the column of the first entry and the rows of the others *)
  Lemma kids_nil_rows base V rows :
    Forall2 (fun k l => exists sections, KidsStmts rt sty cfg seg sections [] k base l) V rows ->
    List.concat rows = [].
  Proof.
    induction 1 as [|k l V rows [sections H] HF IH]; [reflexivity|]. inversion H; subst. simpl. exact IH.
  Qed.

  Lemma kids_split c r base V rows :
    Forall2 (fun k l => exists sections, KidsStmts rt sty cfg seg sections (c :: r) k base l) V rows ->
    exists col rows2,
      Forall2 (fun k l => exists sections, EntryStmts rt sty cfg seg sections c k base l) V col /\
      Forall2 (fun k l => exists sections, KidsStmts rt sty cfg seg sections r k base l) V rows2 /\
      Permutation (List.concat rows) (List.concat col ++ List.concat rows2).
  Proof.
    induction 1 as [|k l V rows [sections Hkl] HF IH].
    - exists [], []. repeat split; constructor.
    - destruct IH as [col [rows2 [F1 [F2 P]]]]. inversion Hkl as [|c0 r0 k0 b0 l1 l2 H1 H2]; subst.
      exists (l1 :: col), (l2 :: rows2).
      split; [constructor; [exists sections; exact H1 | exact F1]|].
      split; [constructor; [exists sections; exact H2 | exact F2]|].
      simpl. rewrite <- !app_assoc. apply Permutation_app_head.
      eapply Permutation_trans; [apply Permutation_app_head; exact P|].
      apply Permutation_app_swap_app.
  Qed.

  Definition once_entry (f : file_info) : Prop :=
    forall base V ls,
      WF_section_order_deep seg f -> Permutation V U ->
      Forall2 (fun s l => exists sections, EntryStmts rt sty cfg seg sections f s base l) V ls ->
      exists parts, Permutation (inputs_of (List.concat ls)) (List.concat parts) /\
                    Forall2 (leaf_once rt cfg seg) (leaves rt base f) parts.

  Lemma once_kids files :
    Forall once_entry files ->
    forall base V rows,
      Forall (WF_section_order_deep seg) files -> Permutation V U ->
      Forall2 (fun k l => exists sections, KidsStmts rt sty cfg seg sections files k base l) V rows ->
      exists parts, Permutation (inputs_of (List.concat rows)) (List.concat parts) /\
                    Forall2 (leaf_once rt cfg seg) (flat_map (leaves rt base) files) parts.
  Proof.
    induction 1 as [|c r Hc Hr IH]; intros base V rows Hwf HV HF.
    - exists []. rewrite (kids_nil_rows _ _ _ HF). split; constructor.
    - inversion Hwf as [|? ? Hwc Hwr]; subst.
      destruct (kids_split c r base V rows HF) as [col [rows2 [F1 [F2 P]]]].
      destruct (Hc base V col Hwc HV F1) as [p1 [P1 L1]].
      destruct (IH base V rows2 Hwr HV F2) as [p2 [P2 L2]].
      exists (p1 ++ p2). split.
      + rewrite concat_app. unfold inputs_of in *.
        eapply Permutation_trans; [apply filter_perm; exact P|].
        rewrite filter_app. apply Permutation_app; assumption.
      + simpl. apply Forall2_app; assumption.
  Qed.

  Lemma once_entry_all f : once_entry f.
  Proof.
    induction f as [p k sf pa sec lon so files d c kp IHfiles] using file_info_ind'.
    pose (f := FileInfo p k sf pa sec lon so files d c kp).
    assert (IH : Forall once_entry (fi_files f)) by exact IHfiles.
    change (once_entry f). clearbody f. clear IHfiles.
    intros base V ls Hwf HV HF. apply WF_section_order_deep_eq in Hwf. destruct Hwf as [Hso Hkids].
    destruct (should_emit rt (fi_conds f)) eqn:He.
    2:{ rewrite (leaves_excluded rt base f He). exists []. split; [|constructor].
        rewrite (entries_inputs_nil f base V ls); [constructor| |exact HF].
        intros sections keys l HK. rewrite (keys_excluded sections f keys base l HK He). reflexivity. }
    destruct (fi_kind f) eqn:Ek.
    - rewrite (leaves_one rt base f He (or_introl Ek)).
      destruct (each_once_perm rt sty cfg seg f base V ls Hsub Hso (or_introl Ek) He HV HF) as [I [N [IFF NL]]].
      exists [List.concat ls]. split; [simpl; rewrite app_nil_r, I; apply Permutation_refl|].
      constructor; [|constructor]. unfold leaf_once. auto.
    - rewrite (leaves_one rt base f He (or_intror Ek)).
      destruct (each_once_perm rt sty cfg seg f base V ls Hsub Hso (or_intror Ek) He HV HF) as [I [N [IFF NL]]].
      exists [List.concat ls]. split; [simpl; rewrite app_nil_r, I; apply Permutation_refl|].
      constructor; [|constructor]. unfold leaf_once. auto.
    - rewrite (leaves_other rt base f He (or_introl Ek)). exists []. split; [|constructor].
      rewrite (entries_inputs_nil f base V ls); [constructor| |exact HF].
      intros sections keys l HK. apply (keys_noinput sections f keys base l HK). left. exact Ek.
    - rewrite (leaves_other rt base f He (or_intror Ek)). exists []. split; [|constructor].
      rewrite (entries_inputs_nil f base V ls); [constructor| |exact HF].
      intros sections keys l HK. apply (keys_noinput sections f keys base l HK). right. exact Ek.
    - destruct (escape_path rt (fi_dir f)) as [d0|e] eqn:Ed.
      + rewrite (leaves_group_ok rt base f d0 He Ek Ed).
        destruct (group_rows f base d0 V ls He Ek Ed HF) as [Hs [rows [F1 [F2 E]]]].
        pose proof (heres_perm f V Hs Hso HV F1) as HV'.
        destruct (once_kids (fi_files f) IH (push base d0) (List.concat Hs) rows Hkids HV' F2) as [parts [P L]].
        exists parts. split; [rewrite E; exact P|].
        apply Forall2_map_left. eapply Forall2_weaken; [|exact L].
        intros [[c0 b0] ch] part H. exact H.
      + rewrite (leaves_group_err rt base f e He Ek Ed). exists []. split; [|constructor].
        rewrite (entries_inputs_nil f base V ls); [constructor| |exact HF].
        intros sections keys l HK. rewrite (keys_group_err sections f keys base l e HK He Ek Ed). reflexivity.
  Qed.
End Deep.

Lemma group_asks_each_once seg f V Hs :
  WF_subgroups seg -> WF_section_order seg f -> Permutation V (configured seg) ->
  Forall2 (fun s h => exists sections, h = here sections f s) V Hs ->
  Permutation (List.concat Hs) (configured seg).
Proof. intro H. exact (heres_perm seg H f V Hs). Qed.

(* an entry at the top of a segment's list, any nesting of groups below it: over the groups of all
   configured sections, every leaf below the entry gets exactly one input statement for every section
   of the closure; nothing else is an input statement *)
Lemma each_once_deep rt sty cfg seg f base ls :
  WF_subgroups seg -> WF_section_order_deep seg f ->
  Forall2 (fun s l => exists sections, EntryStmts rt sty cfg seg sections f s base l) (configured seg) ls ->
  exists parts, Permutation (inputs_of (List.concat ls)) (List.concat parts) /\
                Forall2 (leaf_once rt cfg seg) (leaves rt base f) parts.
Proof.
  intros Hsub Hwf HF. apply (once_entry_all rt sty cfg seg Hsub f base (configured seg) ls Hwf); [|exact HF].
  apply Permutation_refl.
Qed.

(* the same for a list of entries (the files of a segment, the entries of a group) *)
Lemma each_once_files rt sty cfg seg files base rows :
  WF_subgroups seg -> Forall (WF_section_order_deep seg) files ->
  Forall2 (fun s l => exists sections, KidsStmts rt sty cfg seg sections files s base l) (configured seg) rows ->
  exists parts, Permutation (inputs_of (List.concat rows)) (List.concat parts) /\
                Forall2 (leaf_once rt cfg seg) (flat_map (leaves rt base) files) parts.
Proof.
  intros Hsub Hwf HF.
  apply (once_kids rt sty cfg seg files) with (V := configured seg); try assumption.
  - apply Forall_forall. intros f _. apply once_entry_all. exact Hsub.
  - apply Permutation_refl.
Qed.

(* ... and for the writer itself: the files of a segment over the groups of all configured sections *)
Lemma each_once_segment rt sty cfg seg base_path b rows :
  WF_subgroups seg -> Forall (WF_section_order_deep seg) (sg_files seg) ->
  (exists b0, escape_path rt base_path = Ok b0 /\
              (if reference_partial cfg then b = b0
               else exists d, escape_path rt (sg_dir seg) = Ok d /\ b = push b0 d)) ->
  Forall2 (fun s l => exists sections ws ws',
               emit_section rt sty cfg seg sections base_path s ws = Ok (l, ws')) (configured seg) rows ->
  exists parts, Permutation (inputs_of (List.concat rows)) (List.concat parts) /\
                Forall2 (leaf_once rt cfg seg) (flat_map (leaves rt b) (sg_files seg)) parts.
Proof.
  intros Hsub Hwf [b0 [E0 Hb]] HF. apply each_once_files with (sty := sty); try assumption.
  eapply Forall2_weaken; [|exact HF]. intros s l [sections [ws [ws' H]]]. exists sections.
  apply emit_section_sound in H. destruct H as [b' [[b0' [E0' Hb']] HK]].
  assert (Eb : b' = b).
  { rewrite E0 in E0'. inversion E0'; subst b0'. destruct (reference_partial cfg); [congruence|].
    destruct Hb as [d [Ed Eb]]. destruct Hb' as [d' [Ed' Eb']]. rewrite Ed in Ed'. inversion Ed'; subst.
    reflexivity. }
  subst b'. exact HK.
Qed.

(* ====================================================================== *)
(* the findings                                                            *)
(* ====================================================================== *)

Definition inputs_of_doc (d : document) : list string :=
  match gen_normal d c01_rt with Ok w => script_inputs (wo_script w) | Err _ => ["<error>"] end.

(* a section_order destination that is not among the segment's sections silently drops the section:
   nothing names m.o(.data) *)
Lemma refuted_dropped_section :
  inputs_of_doc (c01_doc [c01_obj "a.o" []; c01_obj "m.o" [(".data", ".rodata")]] [".text"; ".data"] [".bss"] []) =
  ["a.o(.text)"; "m.o(.text)"; "a.o(.data)"; "a.o(.bss)"; "m.o(.bss)"].
Proof. vm_compute. reflexivity. Qed.

(* a section listed twice in alloc_sections places every file twice *)
Lemma refuted_duplicate_list :
  inputs_of_doc (c01_doc [c01_obj "a.o" []] [".text"; ".text"] [".bss"] []) =
  ["a.o(.text)"; "a.o(.text)"; "a.o(.bss)"].
Proof. vm_compute. reflexivity. Qed.

(* repaired (it was a finding: sub-groups used to be expanded once for a group and once more for each
   of its children, so an entry inside a group got two statements for every sub-group section): a
   group leaves the expansion to its entries, each statement appears once *)
Lemma group_subgroups_once :
  let g := c01_group "g" [c01_obj "a.o" []] in
  let seg := c01_seg [g] [".text"] [".bss"] [(".text", [".text.hot"])] in
  WF_subgroups seg /\ WF_section_order_deep seg g /\
  inputs_of_doc (c01_doc [g] [".text"] [".bss"] [(".text", [".text.hot"])]) =
  ["g/a.o(.text)"; "g/a.o(.text.hot)"; "g/a.o(.bss)"].
Proof.
  intros g seg. split; [|split].
  - unfold WF_subgroups, configured. simpl. split; [|split; [|split]].
    + repeat constructor; simpl; intuition discriminate.
    + repeat constructor; simpl; intuition.
    + intros m [E|[]] H. subst m. simpl in H. intuition discriminate.
    + exists (fun s => if String.eqb s ".text" then 1%nat else 0%nat). intros k others m Hl Hm.
      destruct (String.eqb k ".text") eqn:E; [|discriminate]. inversion Hl; subst. destruct Hm as [Hm|[]]. subst m.
      simpl. lia.
  - assert (W : forall f, fi_section_order f = [] -> WF_section_order seg f).
    { intros f E. unfold WF_section_order. rewrite E. split; [constructor | intros k d []]. }
    simpl. split; [apply W; reflexivity|]. split; [|exact I]. split; [apply W; reflexivity | exact I].
  - vm_compute. reflexivity.
Qed.

(* ====================================================================== *)
(* link level                                                              *)
(* ====================================================================== *)

Local Open Scope Z_scope.

Lemma filter_partition_perm {A} (g : A -> bool) l :
  Permutation l (filter g l ++ filter (fun x => negb (g x)) l).
Proof.
  induction l as [|x r IH]; simpl; [constructor|]. destruct (g x); simpl.
  - apply perm_skip. exact IH.
  - apply Permutation_cons_app. exact IH.
Qed.

(* placing a selection: placed ++ new, remaining without the selection, same markers overall *)
Lemma markers_move placed disc (remaining : list usec) g (new : list placement) :
  map pl_marker new = map u_marker (filter g remaining) ->
  Permutation (map pl_marker (placed ++ new) ++ disc ++ map u_marker (filter (fun u => negb (g u)) remaining))
              (map pl_marker placed ++ disc ++ map u_marker remaining).
Proof.
  intro Hm. rewrite map_app, Hm, <- app_assoc. apply Permutation_app_head.
  eapply Permutation_trans; [apply Permutation_app_swap_app|]. apply Permutation_app_head.
  rewrite <- map_app. apply Permutation_map. apply Permutation_sym. apply filter_partition_perm.
Qed.

Section Conservation.
  Variables env ext : list (string * Z).
  Variable senv : list osec.
  Variable final : bool.

  (* C01_not_discarded, inside an output section: an input statement moves exactly the selected
     sections from the universe to the placements *)
  Lemma input_moves vma sub outsec ss kp path member sect wild :
    let ss' := exec_sec_stmt env senv ext final vma sub outsec ss (SInput kp path member sect wild) in
    l_remaining (s_st ss') =
      filter (fun u => negb (sel false path member sect wild u)) (l_remaining (s_st ss)) /\
    l_discarded (s_st ss') = l_discarded (s_st ss) /\
    exists new, l_placed (s_st ss') = l_placed (s_st ss) ++ new /\
                map pl_marker new = map u_marker (filter (sel false path member sect wild) (l_remaining (s_st ss))) /\
                Forall (fun p => pl_outsec p = outsec) new.
  Proof.
    cbn [exec_sec_stmt].
    destruct (place vma sub outsec (filter (sel false path member sect wild) (l_remaining (s_st ss)))
                    (s_off ss) [] (s_contents ss)) as [[off' pls] c] eqn:E.
    cbn [s_st l_remaining l_discarded l_placed]. split; [reflexivity|]. split; [reflexivity|].
    exists pls. split; [reflexivity|].
    assert (G : forall l off acc c0 off1 acc1 c1,
               place vma sub outsec l off acc c0 = (off1, acc1, c1) ->
               exists new, acc1 = acc ++ new /\ map pl_marker new = map u_marker l /\
                           Forall (fun p => pl_outsec p = outsec) new).
    { induction l as [|u r IH]; intros off acc c0 off1 acc1 c1 H; simpl in H.
      - inversion H; subst. exists []. rewrite app_nil_r. repeat split; constructor.
      - destruct (IH _ _ _ _ _ _ H) as [new [E1 [E2 E3]]]. subst acc1.
        eexists (_ :: new). rewrite <- app_assoc. split; [reflexivity|]. simpl. rewrite E2.
        split; [reflexivity|]. constructor; [reflexivity | exact E3]. }
    destruct (G _ _ _ _ _ _ _ E) as [new [E1 [E2 E3]]]. simpl in E1. subst. auto.
  Qed.

  Lemma sec_stmt_conserves vma sub outsec ss s :
    Permutation (all_markers (s_st (exec_sec_stmt env senv ext final vma sub outsec ss s))) (all_markers (s_st ss)).
  Proof.
    destruct s as [t| |p h rc sym e|sym n|sym other|sec|n|n|kp path member sect wild|nm addr at_ nl sb body
                   |sect|pats wild|body|e|e|c m]; try apply Permutation_refl.
    - unfold all_markers. cbn [exec_sec_stmt s_st]. rewrite assign_placed, assign_discarded, assign_remaining.
      apply Permutation_refl.
    - cbn [exec_sec_stmt]. destruct (String.eqb sym "."); apply Permutation_refl.
    - destruct (input_moves vma sub outsec ss kp path member sect wild) as [Hr [Hd [new [Hp [Hm _]]]]].
      unfold all_markers. rewrite Hr, Hd, Hp. apply markers_move. exact Hm.
  Qed.

  Lemma sec_fold_conserves vma sub outsec body : forall ss,
    Permutation (all_markers (s_st (fold_left (exec_sec_stmt env senv ext final vma sub outsec) body ss)))
                (all_markers (s_st ss)).
  Proof.
    induction body as [|s r IH]; intro ss; simpl; [apply Permutation_refl|].
    eapply Permutation_trans; [apply IH | apply sec_stmt_conserves].
  Qed.

  Lemma outsec_conserves name addr at_ noload sub body st :
    Permutation (all_markers (exec_outsec env senv ext final name addr at_ noload sub body st)) (all_markers st).
  Proof.
    destruct (outsec_vma env senv ext addr sub body st) as [vma|e] eqn:E.
    - destruct (exec_outsec_ok env senv ext final name addr at_ noload sub body st vma E) as [_ [Hp [Hr [_ [Hd _]]]]].
      unfold all_markers at 1. rewrite Hp, Hr, Hd.
      pose proof (fold_X_discarded env ext senv final vma (option_map Z.of_N sub) name body (SState 0 false st)) as HD.
      change (l_discarded (s_st (SState 0 false st))) with (l_discarded st) in HD. rewrite <- HD.
      apply (sec_fold_conserves vma (option_map Z.of_N sub) name body (SState 0 false st)).
    - rewrite (exec_outsec_err _ _ _ _ _ _ _ _ _ _ _ e E). apply Permutation_refl.
  Qed.

  Lemma place_markers vma sub outsec l : forall off acc c0 off1 acc1 c1,
    place vma sub outsec l off acc c0 = (off1, acc1, c1) ->
    exists new, acc1 = acc ++ new /\ map pl_marker new = map u_marker l.
  Proof.
    induction l as [|u r IH]; intros off acc c0 off1 acc1 c1 H; simpl in H.
    - inversion H; subst. exists []. rewrite app_nil_r. split; reflexivity.
    - destruct (IH _ _ _ _ _ _ H) as [new [E1 E2]]. subst acc1.
      eexists (_ :: new). rewrite <- app_assoc. split; [reflexivity|]. simpl. rewrite E2. reflexivity.
  Qed.

  (* every top-level statement keeps every input section in exactly one of: placed, discarded, waiting *)
  Lemma top_stmt_conserves st s :
    Permutation (all_markers (exec_top_stmt env senv ext final st s)) (all_markers st).
  Proof.
    destruct s as [t| |p h rc sym e|sym n|sym other|sec|n|n|kp path member sect wild|nm addr at_ nl sb body
                   |sect|pats wild|body|e|e|c m]; try apply Permutation_refl.
    - cbn [exec_top_stmt]. destruct (String.eqb sym ".").
      + destruct (eval_expr env senv ext st (l_dot st) e); apply Permutation_refl.
      + unfold all_markers. rewrite assign_placed, assign_discarded, assign_remaining. apply Permutation_refl.
    - cbn [exec_top_stmt]. destruct (String.eqb sym "."); [apply Permutation_refl|].
      destruct (sym_lookup sym st env ext); apply Permutation_refl.
    - cbn [exec_top_stmt]. destruct (sym_lookup sym st env ext); destruct (sym_lookup other st env ext);
        try destruct final; apply Permutation_refl.
    - cbn [exec_top_stmt]. destruct (sym_lookup "__romPos" st env ext); destruct (sec_lookup sec st senv);
        try destruct final; apply Permutation_refl.
    - apply outsec_conserves.
    - cbn [exec_top_stmt].
      destruct (place 0 None sect (filter (sel true "" None sect false) (l_remaining st)) 0 [] false)
        as [[off' pls] c] eqn:E.
      destruct (place_markers _ _ _ _ _ _ _ _ _ _ E) as [new [E1 E2]]. simpl in E1. subst pls.
      unfold all_markers. cbn [l_placed l_discarded l_remaining]. apply markers_move. exact E2.
    - cbn [exec_top_stmt]. unfold all_markers. cbn [l_placed l_discarded l_remaining].
      apply Permutation_app_head. rewrite <- app_assoc. apply Permutation_app_head.
      rewrite <- map_app. apply Permutation_map.
      apply Permutation_sym.
      apply (filter_partition_perm (fun u => existsb (fun p => name_matches p false (u_name u)) pats || wild)%bool).
    - cbn [exec_top_stmt]. destruct (eval_raw env ext st c) as [v|e0].
      + destruct (v =? 0); apply Permutation_refl.
      + destruct e0; try destruct final; apply Permutation_refl.
  Qed.

  Lemma top_fold_conserves body : forall st,
    Permutation (all_markers (fold_left (exec_top_stmt env senv ext final) body st)) (all_markers st).
  Proof.
    induction body as [|s r IH]; intro st; simpl; [apply Permutation_refl|].
    eapply Permutation_trans; [apply IH | apply top_stmt_conserves].
  Qed.

  Lemma script_conserves script : forall st,
    Permutation (all_markers (exec_script env senv ext final script st)) (all_markers st).
  Proof.
    unfold exec_script. induction script as [|s r IH]; intro st; simpl; [apply Permutation_refl|].
    eapply Permutation_trans; [apply IH|].
    destruct s; try apply top_stmt_conserves. apply top_fold_conserves.
  Qed.
End Conservation.

(* ====================================================================== *)
(* every placed input section lies inside an output section laid out with it *)
(* ====================================================================== *)

Definition in_some_section (secs : list osec) (p : placement) : Prop :=
  exists o, In o secs /\ os_name o = pl_outsec p /\ os_vma o <= pl_addr p /\ pl_addr p <= os_vma o + os_size o.

(* what a piece of top-level execution may do to the layout *)
Definition top_post (st st' : lstate) : Prop :=
  nonneg_sizes (l_remaining st') /\
  incl (l_remaining st') (l_remaining st) /\
  (exists extra, l_discarded st' = l_discarded st ++ extra /\ incl extra (map u_marker (l_remaining st))) /\
  exists new secs, l_placed st' = l_placed st ++ new /\ l_secs st' = l_secs st ++ secs /\
                   Forall (in_some_section secs) new.

Lemma top_post_same st st' :
  nonneg_sizes (l_remaining st) ->
  l_placed st' = l_placed st -> l_secs st' = l_secs st -> l_remaining st' = l_remaining st ->
  l_discarded st' = l_discarded st -> top_post st st'.
Proof.
  intros Hn H1 H2 H3 H4. split; [rewrite H3; exact Hn|]. split; [rewrite H3; apply incl_refl|].
  split; [exists []; rewrite app_nil_r; split; [exact H4 | intros x []]|].
  exists [], []. rewrite !app_nil_r. repeat split; try assumption. constructor.
Qed.

Lemma in_some_section_mono secs1 secs2 p :
  in_some_section secs1 p \/ in_some_section secs2 p -> in_some_section (secs1 ++ secs2) p.
Proof.
  intros [[o [H1 H2]]|[o [H1 H2]]]; exists o; (split; [apply in_app_iff; auto | exact H2]).
Qed.

Lemma top_post_trans a b c : top_post a b -> top_post b c -> top_post a c.
Proof.
  intros [N1 [I1 [[x1 [D1 E1]] [new1 [secs1 [P1 [S1 F1]]]]]]] [N2 [I2 [[x2 [D2 E2]] [new2 [secs2 [P2 [S2 F2]]]]]]].
  split; [exact N2|]. split; [eapply incl_tran; eassumption|].
  split.
  - exists (x1 ++ x2). rewrite D2, D1, app_assoc. split; [reflexivity|].
    apply incl_app; [exact E1|]. eapply incl_tran; [exact E2|]. apply incl_map. exact I1.
  - exists (new1 ++ new2), (secs1 ++ secs2). rewrite P2, P1, S2, S1, !app_assoc.
    split; [reflexivity|]. split; [reflexivity|].
    apply Forall_app; split; (eapply Forall_impl; [|eassumption]); intros p Hp; apply in_some_section_mono; auto.
Qed.

Section Placed.
  Variables env ext : list (string * Z).
  Variable senv : list osec.
  Variable final : bool.

  Lemma sec_fold_remaining vma sub outsec body : forall ss,
    incl (l_remaining (s_st (fold_left (exec_sec_stmt env senv ext final vma sub outsec) body ss)))
         (l_remaining (s_st ss)).
  Proof.
    induction body as [|s r IH]; intro ss; [apply incl_refl|]. simpl. eapply incl_tran; [apply IH|].
    destruct s; try apply incl_refl; simpl.
    - rewrite assign_remaining. apply incl_refl.
    - destruct (String.eqb sym "."); apply incl_refl.
    - destruct (place vma sub outsec _ _ _ _) as [[o p] c]. simpl. apply incl_filter.
  Qed.

  Lemma top_stmt_post st s :
    nonneg_sizes (l_remaining st) -> top_post st (exec_top_stmt env senv ext final st s).
  Proof.
    intro Hn.
    destruct s as [t| |p h rc sym e|sym n|sym other|sec|n|n|kp path member sect wild|nm addr at_ nl sb body
                   |sect|pats wild|body|e|e|c m]; try (apply top_post_same; [exact Hn|reflexivity..]).
    - cbn [exec_top_stmt]. destruct (String.eqb sym ".").
      + destruct (eval_expr env senv ext st (l_dot st) e); apply top_post_same; try reflexivity; exact Hn.
      + apply top_post_same; [exact Hn | apply assign_placed | apply assign_secs | apply assign_remaining
                              | apply assign_discarded].
    - cbn [exec_top_stmt]. destruct (String.eqb sym "."); [apply top_post_same; try reflexivity; exact Hn|].
      destruct (sym_lookup sym st env ext); apply top_post_same; try reflexivity; exact Hn.
    - cbn [exec_top_stmt]. destruct (sym_lookup sym st env ext); destruct (sym_lookup other st env ext);
        try destruct final; apply top_post_same; try reflexivity; exact Hn.
    - cbn [exec_top_stmt]. destruct (sym_lookup "__romPos" st env ext); destruct (sec_lookup sec st senv);
        try destruct final; apply top_post_same; try reflexivity; exact Hn.
    - (* an output section *)
      cbn [exec_top_stmt]. destruct (outsec_vma env senv ext addr sb body st) as [vma|e] eqn:E.
      + destruct (outsec_post env senv ext final nm addr at_ nl sb body st vma Hn E)
          as [size [new [lma [c [P1 [P2 [P3 [P4 [P5 [P6 [P7 P8]]]]]]]]]]].
        split; [exact P7|]. split.
        { destruct (exec_outsec_ok env senv ext final nm addr at_ nl sb body st vma E) as [_ [_ [Hr _]]].
          rewrite Hr. apply (sec_fold_remaining vma (option_map Z.of_N sb) nm body (SState 0 false st)). }
        split; [exists []; rewrite app_nil_r; split; [exact P8 | intros x []]|].
        exists new. eexists. split; [exact P4|]. split; [exact P3|].
        eapply Forall_impl; [|exact P5]. intros p [A [B C]]. eexists. split; [left; reflexivity|].
        cbn [os_name os_vma os_size]. auto.
      + rewrite (exec_outsec_err _ _ _ _ _ _ _ _ _ _ _ e E). apply top_post_same; try reflexivity; exact Hn.
    - (* an allowlist entry *)
      cbn [exec_top_stmt].
      destruct (place 0 None sect (filter (sel true "" None sect false) (l_remaining st)) 0 [] false)
        as [[off' pls] c] eqn:E.
      apply (place_sorted 0 None sect) in E; [|apply Forall_filter; exact Hn].
      destruct E as [Hle [new [Hacc [_ [Hall _]]]]]. simpl in Hacc. subst pls.
      split; [apply Forall_filter; exact Hn|]. split; [apply incl_filter|].
      split; [exists []; rewrite app_nil_r; split; [reflexivity | intros x []]|].
      exists new. eexists. split; [reflexivity|]. split; [reflexivity|].
      eapply Forall_impl; [|exact Hall]. intros p [A [B C]]. eexists. split; [left; reflexivity|].
      cbn [os_name os_vma os_size]. repeat split; try lia. symmetry. exact C.
    - (* /DISCARD/ *)
      cbn [exec_top_stmt]. split; [apply Forall_filter; exact Hn|]. split; [apply incl_filter|].
      split.
      + eexists. split; [reflexivity|]. apply incl_map. apply incl_filter.
      + exists [], []. rewrite !app_nil_r. repeat split. constructor.
    - cbn [exec_top_stmt]. destruct (eval_raw env ext st c) as [v|e0].
      + destruct (v =? 0); apply top_post_same; try reflexivity; exact Hn.
      + destruct e0; try destruct final; apply top_post_same; try reflexivity; exact Hn.
  Qed.

  Lemma top_fold_post body : forall st,
    nonneg_sizes (l_remaining st) -> top_post st (fold_left (exec_top_stmt env senv ext final) body st).
  Proof.
    induction body as [|s r IH]; intros st Hn; simpl.
    - apply top_post_same; try reflexivity; exact Hn.
    - pose proof (top_stmt_post st s Hn) as H1. eapply top_post_trans; [exact H1|]. apply IH. apply H1.
  Qed.

  Lemma script_post script : forall st,
    nonneg_sizes (l_remaining st) -> top_post st (exec_script env senv ext final script st).
  Proof.
    unfold exec_script. induction script as [|s r IH]; intros st Hn; simpl.
    - apply top_post_same; try reflexivity; exact Hn.
    - assert (H1 : top_post st (match s with
                                | SSections body => fold_left (exec_top_stmt env senv ext final) body st
                                | _ => exec_top_stmt env senv ext final st s end)).
      { destruct s; try apply top_stmt_post; try exact Hn. apply top_fold_post. exact Hn. }
      eapply top_post_trans; [exact H1|]. apply IH. apply H1.
  Qed.
End Placed.

(* with pairwise different markers, nothing is both placed and discarded, or placed twice *)
Lemma placed_not_discarded env senv ext final script st :
  NoDup (all_markers st) ->
  let st' := exec_script env senv ext final script st in
  NoDup (all_markers st') /\
  forall p, In p (l_placed st') -> ~ In (pl_marker p) (l_discarded st') /\
                                   ~ In (pl_marker p) (map u_marker (l_remaining st')).
Proof.
  intros Hnd st'. assert (N : NoDup (all_markers st')).
  { eapply Permutation_NoDup; [apply Permutation_sym; apply script_conserves | exact Hnd]. }
  split; [exact N|]. intros p Hp. unfold all_markers in N.
  assert (Hin : In (pl_marker p) (map pl_marker (l_placed st'))) by (apply in_map; exact Hp).
  pose proof (nodup_app_disjoint _ _ (pl_marker p) N Hin) as Hd.
  split; intro H; apply Hd; apply in_app_iff; auto.
Qed.

(* ====================================================================== *)
(* examples                                                                *)
(* ====================================================================== *)

Lemma each_once_example :
  let seg := c01_seg [c01_obj "a.o" []; c01_obj "m.o" [(".data", ".text")]] [".text"; ".data"] [".bss"]
                     [(".data", [".data.x"])] in
  WF_subgroups seg /\ WF_section_order seg (c01_obj "m.o" [(".data", ".text")]) /\
  inputs_of_doc (c01_doc [c01_obj "a.o" []; c01_obj "m.o" [(".data", ".text")]] [".text"; ".data"] [".bss"]
                         [(".data", [".data.x"])]) =
  ["a.o(.text)"; "m.o(.text)"; "m.o(.data)"; "m.o(.data.x)"; "a.o(.data)"; "a.o(.data.x)"; "a.o(.bss)"; "m.o(.bss)"].
Proof.
  intro seg. split; [|split].
  - unfold WF_subgroups, configured. simpl. split; [|split; [|split]].
    + repeat constructor; simpl; intuition discriminate.
    + repeat constructor; simpl; intuition.
    + intros m [E|[]] H. subst m. simpl in H. intuition discriminate.
    + exists (fun s => if String.eqb s ".data" then 1%nat else 0%nat). intros k others m Hl Hm.
      destruct (String.eqb k ".data") eqn:E; [|discriminate]. inversion Hl; subst. destruct Hm as [Hm|[]]. subst m.
      simpl. lia.
  - unfold WF_section_order, configured. simpl. split; [repeat constructor; simpl; intuition|].
    intros k d [E|[]]. inversion E; subst. auto.
  - vm_compute. reflexivity.
Qed.

Lemma link_example :
  exists w, gen_normal (c01_doc [c01_obj "a.o" []; c01_obj "b.o" []] [".text"; ".data"] [".bss"] []) c01_rt = Ok w /\
    let st := layout (wo_script w) c09_universe [] in
    map (fun p => (pl_marker p, pl_addr p, pl_outsec p)) (l_placed st) =
      [("a_text", 0, ".s"); ("b_text", 10, ".s"); ("a_data", 16, ".s"); ("b_bss", 24, ".s.noload")] /\
    l_remaining st = [] /\ l_discarded st = [].
Proof. eexists. split; [vm_compute; reflexivity|]. vm_compute. repeat split; reflexivity. Qed.
