(* C11Exact - proofs: the main script of a partial build against the ordinary script, exactly
   (Spec/C11Exact.v).  Same route as section 4 of Proofs/DocPartial.v (part_groups, write_segment,
   add_segment, the fold over the segments), with the exact relation in place of stmts_rel; then what
   the exact relation implies (deletions, the inputs of the main script, the old relation). *)
From Slinky Require Import Model.Types Model.Generated Model.Runtime Model.Style Model.Script Model.Writer Model.LdSem.
From Slinky Require Import Spec.C17 Spec.C04 Spec.C03 Spec.C09 Spec.C05 Spec.C10 Spec.C11 Spec.DocLevel Spec.DocWf
                           Spec.DocPartial Spec.C11Exact.
From Slinky Require Import Proofs.C06 Proofs.C18 Proofs.C12 Proofs.C05 Proofs.C10 Proofs.C11 Proofs.DocLevel
                           Proofs.DocWf Proofs.DocPartial.
From Coq Require Import Lia Bool.

(* ====================================================================== *)
(* 1. the relations                                                        *)
(* ====================================================================== *)

Lemma plain_not_outsec G s : plain_stmt G s -> is_outsec s = false.
Proof. destruct s; cbn [plain_stmt is_outsec]; intro H; try reflexivity; contradiction. Qed.

Lemma stmts_rel_exact_plain sty G l : Forall (plain_stmt G) l -> stmts_rel_exact sty l l [].
Proof.
  induction 1 as [|s l Hs Hl IH]; [constructor|].
  change (@nil sec_info) with (@nil sec_info ++ @nil sec_info)%list.
  constructor; [apply sre_same; exact (plain_not_outsec _ _ Hs) | exact IH].
Qed.

Lemma stmts_rel_exact_eq sty l lm o o' : stmts_rel_exact sty l lm o -> o = o' -> stmts_rel_exact sty l lm o'.
Proof. intros H Eo. subst. exact H. Qed.

Lemma stmts_rel_exact_app sty a am o1 b bm o2 :
  stmts_rel_exact sty a am o1 -> stmts_rel_exact sty b bm o2 -> stmts_rel_exact sty (a ++ b) (am ++ bm) (o1 ++ o2).
Proof.
  intros Ha Hb. induction Ha as [|s sm o l lm ol Hs Hl IH]; [exact Hb|].
  cbn [app]. rewrite <- app_assoc. constructor; assumption.
Qed.

Lemma stmts_rel_exact_one sty s sm o : stmt_rel_exact sty s sm o -> stmts_rel_exact sty [s] [sm] o.
Proof. intro H. eapply stmts_rel_exact_eq; [constructor; [exact H | constructor] | apply app_nil_r]. Qed.

(* ---------- the frame of a group has no input, no pad ---------- *)

Lemma frame_opt_align a : forallb frame_stmt (opt_align a) = true.
Proof. destruct a; reflexivity. Qed.

Lemma frame_gp_stmt rt seg section : forallb frame_stmt (gp_stmt rt seg section) = true.
Proof.
  unfold gp_stmt. destruct (sg_gp_info seg) as [g|]; [|reflexivity].
  destruct (should_emit rt (gp_conds g) && String.eqb (gp_section g) section); reflexivity.
Qed.

Lemma frame_symbol_start rt sty cfg seg section :
  forallb frame_stmt (section_symbol_start rt sty cfg seg section) = true.
Proof.
  unfold section_symbol_start. destruct (section_syms cfg); [|reflexivity].
  rewrite !forallb_app, !frame_opt_align, frame_gp_stmt. reflexivity.
Qed.

Lemma frame_symbol_end sty cfg seg section :
  forallb frame_stmt (section_symbol_end sty cfg seg section) = true.
Proof.
  unfold section_symbol_end. destruct (section_syms cfg); [|reflexivity].
  rewrite !forallb_app, !frame_opt_align. reflexivity.
Qed.

Lemma frame_opt_fill seg : forallb frame_stmt (opt_fill seg) = true.
Proof. unfold opt_fill. destruct (fill_value seg); reflexivity. Qed.

(* ====================================================================== *)
(* 2. one half, one segment, the segments                                  *)
(* ====================================================================== *)

Section MainExact.
  Variables (rt : runtime) (st : settings) (classes : list vram_class).
  Notation sty := (linker_symbols_style st).

  (* the description of an output section of [seg] whose groups are [secs] *)
  Definition info_of (p : string) (seg : segment) (secs : list string) : sec_info :=
    SecInfo (obj_shown rt st p) (wildcard_sections seg) secs (segment_offset_names rt seg).

  Lemma part_groups_exact seg p sections secs rest : forall ws b ws' wsm bm wsm',
    part_groups rt st cfg_normal seg sections rest ws = Ok (b, ws') ->
    part_groups rt st cfg_main_partial (clone_with_new_files seg [new_object p]) sections rest wsm = Ok (bm, wsm') ->
    groups_exact sty (info_of p seg secs) rest b bm.
  Proof.
    induction rest as [|section rest IH]; intros ws b ws' wsm bm wsm' H Hm.
    - apply ok_inj in H. apply ok_inj in Hm. inversion H; inversion Hm; subst. constructor.
    - apply part_groups_cons in H. destruct H as [s1 [ws1 [s2 [E1 [E2 E]]]]].
      apply part_groups_cons in Hm. destruct Hm as [t1 [wm1 [t2 [F1 [F2 F]]]]].
      specialize (IH _ _ _ _ _ _ E2 F2).
      pose proof (group_stmts_emit_section _ _ _ _ _ _ _ _ _ _ E1) as Hfiles.
      rewrite main_emit_section in F1. apply bind_ok in F1. destruct F1 as [b0 [Eb F1]].
      apply bind_ok in F1. destruct F1 as [pe [Epe F1]]. apply ok_inj in F1. inversion F1; subst t1 wm1. clear F1.
      change (section_symbol_start rt sty cfg_main_partial (clone_with_new_files seg [new_object p]) section)
        with (section_symbol_start rt sty cfg_normal seg section) in F.
      change (section_symbol_end sty cfg_main_partial (clone_with_new_files seg [new_object p]) section)
        with (section_symbol_end sty cfg_normal seg section) in F.
      assert (Em : SInput false (display (push b0 pe)) None section (wildcard_sections seg) =
                   main_input (info_of p seg secs) section).
      { unfold main_input, info_of, obj_shown. cbn [si_obj si_wild]. rewrite Eb, Epe. reflexivity. }
      rewrite Em in F. subst b bm.
      set (pre := section_symbol_start rt sty cfg_normal seg section) in *.
      set (post := (section_symbol_end sty cfg_normal seg section ++
                    match rest with [] => [] | _ :: _ => [SBlank] end)%list).
      replace (pre ++ s1 ++ section_symbol_end sty cfg_normal seg section ++
               match rest with [] => [] | _ :: _ => [SBlank] end ++ s2)%list
        with ((pre ++ s1 ++ post) ++ s2)%list by (unfold post; rewrite <- !app_assoc; reflexivity).
      replace (pre ++ [main_input (info_of p seg secs) section] ++ section_symbol_end sty cfg_normal seg section ++
               match rest with [] => [] | _ :: _ => [SBlank] end ++ t2)%list
        with ((pre ++ [main_input (info_of p seg secs) section] ++ post) ++ t2)%list
        by (unfold post; rewrite <- !app_assoc; reflexivity).
      apply gs_cons; [|exact IH]. apply ge_intro.
      + apply frame_symbol_start.
      + unfold post. rewrite forallb_app, frame_symbol_end. destruct rest; reflexivity.
      + exact Hfiles.
  Qed.

  Lemma write_segment_exact seg p sections noload ws s ws' wsm sm wsm' :
    write_segment rt st cfg_normal seg sections noload ws = Ok (s, ws') ->
    write_segment rt st cfg_main_partial (clone_with_new_files seg [new_object p]) sections noload wsm
      = Ok (sm, wsm') ->
    stmts_rel_exact sty s sm [info_of p seg sections].
  Proof.
    intros H Hm. apply write_segment_inv in H. destruct H as [b [E Es]].
    apply write_segment_inv in Hm. destruct Hm as [bm [F Fs]]. subst s sm.
    change (sections_kind_start sty cfg_main_partial (clone_with_new_files seg [new_object p]) noload)
      with (sections_kind_start sty cfg_normal seg noload).
    change (sections_kind_end sty cfg_main_partial (clone_with_new_files seg [new_object p]) noload)
      with (sections_kind_end sty cfg_normal seg noload).
    pose proof (part_groups_exact _ _ _ sections _ _ _ _ _ _ _ E F) as Hb.
    eapply stmts_rel_exact_eq.
    - apply stmts_rel_exact_app; [exact (stmts_rel_exact_plain _ _ _ (pl_kind_start sty cfg_normal seg noload))|].
      apply stmts_rel_exact_app; [|exact (stmts_rel_exact_plain _ _ _ (pl_kind_end sty cfg_normal seg noload))].
      apply stmts_rel_exact_one. unfold outsec_of.
      change (sg_name (clone_with_new_files seg [new_object p])) with (sg_name seg).
      change (segment_addr sty (clone_with_new_files seg [new_object p])) with (segment_addr sty seg).
      change (subalign (clone_with_new_files seg [new_object p])) with (subalign seg).
      change (opt_fill (clone_with_new_files seg [new_object p])) with (opt_fill seg).
      apply sre_outsec. exists (opt_fill seg), b, bm.
      split; [apply frame_opt_fill|]. split; [reflexivity|]. split; [reflexivity|]. exact Hb.
    - reflexivity.
  Qed.

  Lemma class_part_plain seg ws cls ws1 :
    class_part st classes seg ws = Ok (cls, ws1) -> exists G, Forall (plain_stmt G) cls.
  Proof.
    intro H. apply class_part_inv in H. destruct H as [[E _] | [cn [c [_ [_ [_ [E _]]]]]]]; subst.
    - exists (fun _ => True). constructor.
    - eexists. apply pl_class_start.
  Qed.

  Lemma add_segment_exact seg p ws s ws' wsm sm wsm' :
    should_emit rt (sg_conds seg) = true ->
    ws_emitted wsm = ws_emitted ws ->
    add_segment rt st cfg_normal classes seg ws = Ok (s, ws') ->
    add_segment rt st cfg_main_partial classes (clone_with_new_files seg [new_object p]) wsm = Ok (sm, wsm') ->
    stmts_rel_exact sty s sm [seg_info rt st p seg false; seg_info rt st p seg true] /\
    ws_emitted wsm' = ws_emitted ws'.
  Proof.
    intros Hc Hem H1 H2. apply add_segment_inv in H1.
    destruct H1 as [[Hc' _] | [_ [cls [ws1 [s1 [ws2 [s2 [Ec [E1 [E2 E]]]]]]]]]]; [congruence|]. subst s.
    apply add_segment_inv in H2.
    destruct H2 as [[Hc' _] | [_ [clsm [wm1 [t1 [wm2 [t2 [Fc [F1 [F2 F]]]]]]]]]];
      [cbn [sg_conds clone_with_new_files] in Hc'; congruence|]. subst sm.
    cbn [alloc_sections noload_sections clone_with_new_files] in F1, F2.
    assert (Hcls : clsm = cls /\ ws_emitted wm1 = ws_emitted ws1).
    { unfold class_part in Ec, Fc. cbn [sg_vram_class sg_name clone_with_new_files] in Fc.
      destruct (sg_vram_class seg) as [cn|].
      - destruct (class_get classes cn) as [c|]; [|discriminate]. rewrite Hem in Fc.
        destruct (mem_str cn (ws_emitted ws)).
        + apply ok_inj in Ec. apply ok_inj in Fc. inversion Ec; inversion Fc; subst. auto.
        + apply ok_inj in Ec. apply ok_inj in Fc. inversion Ec; inversion Fc; subst. simpl. rewrite Hem. auto.
      - apply ok_inj in Ec. apply ok_inj in Fc. inversion Ec; inversion Fc; subst. auto. }
    destruct Hcls as [Hcl Hw1]. subst clsm.
    split.
    - change (seg_head st (clone_with_new_files seg [new_object p])) with (seg_head st seg).
      change (seg_foot st (clone_with_new_files seg [new_object p])) with (seg_foot st seg).
      pose proof (write_segment_exact _ _ _ _ _ _ _ _ _ _ E1 F1) as R1.
      pose proof (write_segment_exact _ _ _ _ _ _ _ _ _ _ E2 F2) as R2.
      destruct (class_part_plain _ _ _ _ Ec) as [G HG].
      assert (Hb : stmts_rel_exact sty [SBlank] [SBlank] []) by (apply (stmts_rel_exact_plain sty (fun _ => True)); repeat constructor).
      eapply stmts_rel_exact_eq.
      + apply stmts_rel_exact_app; [exact (stmts_rel_exact_plain _ _ _ HG)|].
        apply stmts_rel_exact_app; [exact (stmts_rel_exact_plain _ _ _ (pl_seg_head st seg))|].
        apply stmts_rel_exact_app; [exact R1|]. apply stmts_rel_exact_app; [exact Hb|].
        apply stmts_rel_exact_app; [exact R2|]. apply stmts_rel_exact_app; [exact Hb|].
        exact (stmts_rel_exact_plain _ _ _ (pl_seg_foot st seg)).
      + reflexivity.
    - rewrite (write_segment_emitted _ _ _ _ _ _ _ _ _ F2), (write_segment_emitted _ _ _ _ _ _ _ _ _ F1).
      rewrite (write_segment_emitted _ _ _ _ _ _ _ _ _ E2), (write_segment_emitted _ _ _ _ _ _ _ _ _ E1).
      exact Hw1.
  Qed.

  Lemma fold_exact folder segs : forall ws body ws' wsm bodym wsm',
    ws_emitted wsm = ws_emitted ws ->
    fold_out (add_segment rt st cfg_normal classes) segs ws = Ok (body, ws') ->
    fold_out (add_segment rt st cfg_main_partial classes) (map (partial_clone folder) segs) wsm = Ok (bodym, wsm') ->
    stmts_rel_exact sty body bodym (flat_map (seg_infos rt st folder) (included rt segs)) /\
    ws_emitted wsm' = ws_emitted ws'.
  Proof.
    induction segs as [|seg r IH]; intros ws body ws' wsm bodym wsm' Hem H Hm.
    - apply fold_out_nil in H. apply fold_out_nil in Hm. destruct H, Hm; subst. split; [constructor | exact Hem].
    - cbn [map] in Hm. apply fold_out_cons in H. destruct H as [s1 [ws1 [s2 [E1 [E2 E]]]]].
      apply fold_out_cons in Hm. destruct Hm as [t1 [wm1 [t2 [F1 [F2 F]]]]]. subst body bodym.
      rewrite included_cons. destruct (should_emit rt (sg_conds seg)) eqn:Hc.
      + destruct (add_segment_exact _ _ _ _ _ _ _ _ Hc Hem E1 F1) as [R1 Hem1].
        destruct (IH _ _ _ _ _ _ Hem1 E2 F2) as [R2 Hem2]. split; [|exact Hem2].
        cbn [flat_map]. apply stmts_rel_exact_app; assumption.
      + rewrite (add_segment_excluded _ _ _ _ _ _ Hc) in E1. apply ok_inj in E1. inversion E1; subst s1 ws1.
        rewrite (clone_excluded _ _ _ _ _ _ _ Hc) in F1. apply ok_inj in F1. inversion F1; subst t1 wm1.
        cbn [app]. apply (IH _ _ _ _ _ _ Hem E2 F2).
  Qed.
End MainExact.

(* ====================================================================== *)
(* 3. the two scripts                                                      *)
(* ====================================================================== *)

Theorem main_exact d rt w p :
  gen_normal d rt = Ok w -> gen_partial d rt = Ok p -> single_segment_mode (doc_settings d) = false ->
  exists folder B Bm,
    partial_build_segments_folder (doc_settings d) = Some folder /\
    wo_script w = (version_stmts rt ++ [SSections B] ++ tail_stmts rt d)%list /\
    wo_script (po_main p) = (version_stmts rt ++ [SSections Bm] ++ tail_stmts rt d)%list /\
    stmts_rel_exact (linker_symbols_style (doc_settings d)) B Bm (doc_infos d rt folder).
Proof.
  intros Hg Hp Hm. apply gen_normal_inv in Hg. destruct Hg as [s [ws' [E Hw]]].
  apply add_all_segments_inv in E. destruct E as [[Hs _] | [_ [body [E Es]]]]; [congruence|]. subst s w.
  destruct (partial_main_shape d rt p Hp) as (folder & bodym & wsm' & subs & Ef & Ep & Efold & Ew).
  destruct (fold_exact rt (doc_settings d) (doc_vram_classes d) folder (doc_segments d) ws0 body ws' ws0 bodym wsm'
                       eq_refl E Efold) as [R Hem].
  rewrite (end_sections_emitted _ _ _ _ Hem) in Ew.
  exists folder. eexists _, _. split; [exact Ef|]. split; [reflexivity|]. split; [exact Ew|].
  unfold doc_infos. eapply stmts_rel_exact_eq.
  - apply stmts_rel_exact_app; [exact (stmts_rel_exact_plain _ (fun _ => True) _ (pl_begin _ _))|].
    apply stmts_rel_exact_app; [exact R | exact (stmts_rel_exact_plain _ _ _ (pl_end_sections _ _ _))].
  - cbn [app]. apply app_nil_r.
Qed.

(* the same on what LdSem executes (the SECTIONS body spliced in) *)
Theorem main_exact_flat d rt w p :
  gen_normal d rt = Ok w -> gen_partial d rt = Ok p -> single_segment_mode (doc_settings d) = false ->
  exists folder,
    partial_build_segments_folder (doc_settings d) = Some folder /\
    stmts_rel_exact (linker_symbols_style (doc_settings d))
                    (flat_stmts (wo_script w)) (flat_stmts (wo_script (po_main p))) (doc_infos d rt folder).
Proof.
  intros Hg Hp Hm. destruct (main_exact d rt w p Hg Hp Hm) as (folder & B & Bm & Ef & Ew & Em & R).
  exists folder. split; [exact Ef|]. rewrite Ew, Em, !flat_sections_script.
  eapply stmts_rel_exact_eq.
  - apply stmts_rel_exact_app; [exact (stmts_rel_exact_plain _ (fun _ => True) _ (pl_version _ _))|].
    apply stmts_rel_exact_app; [exact R | exact (stmts_rel_exact_plain _ (fun _ => True) _ (pl_tail_stmts _ _ _))].
  - cbn [app]. apply app_nil_r.
Qed.

(* ====================================================================== *)
(* 4. what the exact relation says                                         *)
(* ====================================================================== *)

(* ---------- deletions ---------- *)

Lemma removed_refl P l : removed P l l.
Proof. induction l; constructor; assumption. Qed.

Lemma removed_all P l : Forall P l -> removed P l [].
Proof. induction 1; constructor; assumption. Qed.

Lemma removed_app P a a' b b' : removed P a a' -> removed P b b' -> removed P (a ++ b) (a' ++ b').
Proof. intros Ha Hb. induction Ha; cbn [app]; [exact Hb | constructor; assumption | constructor; assumption]. Qed.

Lemma frame_not_input s : frame_stmt s = true -> is_input s = false.
Proof. destruct s; cbn; intro H; try reflexivity; discriminate. Qed.

Lemma frame_filter_inputs l : forallb frame_stmt l = true -> filter is_input l = [].
Proof.
  induction l as [|s l IH]; [reflexivity|]. cbn [forallb filter]. intro H.
  apply andb_true_iff in H. destruct H as [Hs Hl]. rewrite (frame_not_input _ Hs). exact (IH Hl).
Qed.

Lemma frame_filter_kept l : forallb frame_stmt l = true -> filter (fun s => negb (is_input s)) l = l.
Proof.
  induction l as [|s l IH]; [reflexivity|]. cbn [forallb filter]. intro H.
  apply andb_true_iff in H. destruct H as [Hs Hl]. rewrite (frame_not_input _ Hs). cbn [negb].
  rewrite (IH Hl). reflexivity.
Qed.

(* the main body: its inputs are one per group, the partial object at the group's section; without them it
   has no input and no pad left, and it is the ordinary body with file statements deleted *)
Lemma groups_exact_facts sty i secs r rm : groups_exact sty i secs r rm ->
  filter is_input rm = map (main_input i) secs /\
  forallb frame_stmt (filter (fun s => negb (is_input s)) rm) = true /\
  removed (group_stmt sty (fun n => In n (si_offs i))) r (filter (fun s => negb (is_input s)) rm).
Proof.
  induction 1 as [|sec secs g gm b bm Hg Hr [IH1 [IH2 IH3]]].
  - split; [reflexivity|]. split; [reflexivity | constructor].
  - destruct Hg as [pre files post Hpre Hpost Hfiles].
    rewrite !filter_app, IH1, !(frame_filter_inputs _ Hpre), !(frame_filter_inputs _ Hpost),
      !(frame_filter_kept _ Hpre), !(frame_filter_kept _ Hpost).
    cbn [filter main_input is_input negb app map].
    split; [reflexivity|]. split.
    + rewrite !forallb_app, Hpre, Hpost, IH2. reflexivity.
    + rewrite <- !app_assoc. apply removed_app; [apply removed_refl|].
      change (post ++ filter (fun s => negb (is_input s)) bm)%list
        with ([] ++ post ++ filter (fun s => negb (is_input s)) bm)%list.
      apply removed_app; [apply removed_all; exact Hfiles|]. apply removed_app; [apply removed_refl | exact IH3].
Qed.

Lemma body_exact_facts sty i b bm : body_exact sty i b bm ->
  filter is_input bm = map (main_input i) (si_secs i) /\
  forallb frame_stmt (filter (fun s => negb (is_input s)) bm) = true /\
  removed (group_stmt sty (fun n => In n (si_offs i))) b (filter (fun s => negb (is_input s)) bm).
Proof.
  intros (fill & r & rm & Hf & Eb & Ebm & Hg). subst b bm.
  destruct (groups_exact_facts _ _ _ _ _ Hg) as [F1 [F2 F3]].
  rewrite !filter_app, (frame_filter_inputs _ Hf), (frame_filter_kept _ Hf), F1.
  split; [reflexivity|]. split; [rewrite forallb_app, Hf, F2; reflexivity|].
  apply removed_app; [apply removed_refl | exact F3].
Qed.

(* ---------- the exact relation implies the relation of Spec/DocPartial.v ---------- *)

Local Open Scope nat_scope.

Lemma group_stmts_defs sty offs x files : Forall (group_stmt sty offs) files ->
  defs x files = cnt x (file_defs files) /\ upds files = [].
Proof.
  induction 1 as [|s l Hs Hl [IHd IHu]]; [split; reflexivity|].
  rewrite defs_cons, upds_cons, IHd, IHu. unfold file_defs in *. cbn [flat_map]. rewrite cnt_app.
  destruct s; cbn [group_stmt] in Hs; try contradiction; cbn [def_count upd_syms cnt app]; split; try reflexivity; lia.
Qed.

Lemma groups_exact_old sty i secs r rm : groups_exact sty i secs r rm ->
  exists offs, (forall x, defs x r = defs x rm + cnt x offs) /\ upds r = upds rm.
Proof.
  induction 1 as [|sec secs g gm b bm Hg Hr [offs [IHd IHu]]].
  - exists []. split; [intro; reflexivity | reflexivity].
  - destruct Hg as [pre files post Hpre Hpost Hfiles]. exists (file_defs files ++ offs)%list. split.
    + intro x. destruct (group_stmts_defs _ _ x _ Hfiles) as [D _].
      rewrite !defs_app, cnt_app, IHd, D. change (defs x [main_input i sec]) with 0. lia.
    + destruct (group_stmts_defs _ _ "."%string _ Hfiles) as [_ U].
      rewrite !upds_app, IHu, U. reflexivity.
Qed.

Lemma body_exact_old sty i b bm : body_exact sty i b bm -> exists offs, body_rel b bm offs.
Proof.
  intros (fill & r & rm & Hf & Eb & Ebm & Hg). subst b bm.
  destruct (groups_exact_old _ _ _ _ _ Hg) as [offs [D U]]. exists offs. apply body_rel_intro.
  - intro x. rewrite !defs_app, D. lia.
  - rewrite !upds_app, U. reflexivity.
Qed.

Lemma stmts_rel_exact_old sty l lm infos : stmts_rel_exact sty l lm infos -> exists offs, stmts_rel l lm offs.
Proof.
  induction 1 as [|s sm o l lm ol Hs Hl [offs IH]]; [exists []; constructor|].
  destruct Hs as [s Hn | name addr at_ noload sub b bm i Hb].
  - exists ([] ++ offs)%list. constructor; [constructor | exact IH].
  - destruct (body_exact_old _ _ _ _ Hb) as [o Ho]. exists (o ++ offs)%list.
    constructor; [constructor; exact Ho | exact IH].
Qed.

(* ---------- shape ---------- *)

Lemma stmts_rel_exact_shape sty l lm infos : stmts_rel_exact sty l lm infos ->
  List.length l = List.length lm /\ headers l = headers lm /\
  List.length infos = List.length (filter is_outsec l).
Proof.
  induction 1 as [|s sm o l lm ol Hs Hl [IH1 [IH2 IH3]]]; [repeat split|].
  unfold headers in *. cbn [List.length flat_map filter]. rewrite IH1, IH2, app_length, IH3.
  destruct Hs as [s Hn | name addr at_ noload sub b bm i Hb].
  - rewrite Hn. repeat split.
  - repeat split.
Qed.

(* every statement of the ordinary list that is not an output section is, at the same position, a
   statement of the main list: in particular every ALIGN keeps its value, every MAX its operand, every
   "__romPos += SIZEOF(sec)" its section *)
Lemma stmts_rel_exact_nth sty l lm infos : stmts_rel_exact sty l lm infos ->
  forall n s, nth_error l n = Some s -> is_outsec s = false -> nth_error lm n = Some s.
Proof.
  induction 1 as [|s sm o l lm ol Hs Hl IH]; intros n t E Hn; [destruct n; discriminate|].
  destruct n as [|n]; cbn [nth_error] in *.
  - injection E as E. subst t. destruct Hs; [reflexivity | discriminate].
  - exact (IH n t E Hn).
Qed.

(* and an output section meets one with the same header and a body_exact body *)
Lemma stmts_rel_exact_nth_outsec sty l lm infos : stmts_rel_exact sty l lm infos ->
  forall n name addr at_ noload sub b, nth_error l n = Some (SOutSec name addr at_ noload sub b) ->
  exists bm i, nth_error lm n = Some (SOutSec name addr at_ noload sub bm) /\ In i infos /\ body_exact sty i b bm.
Proof.
  induction 1 as [|s sm o l lm ol Hs Hl IH]; intros n name addr at_ noload sub b E; [destruct n; discriminate|].
  destruct n as [|n]; cbn [nth_error] in *.
  - injection E as E. subst s. inversion Hs as [s Hn Es | name' addr' at' noload' sub' b' bm i Hb]; subst.
    + discriminate.
    + exists bm, i. split; [reflexivity|]. split; [left; reflexivity | exact Hb].
  - destruct (IH n _ _ _ _ _ _ E) as [bm [i [En [Hi Hb]]]]. exists bm, i.
    split; [exact En|]. split; [apply in_or_app; right; exact Hi | exact Hb].
Qed.

(* ---------- the sample: the old relation holds, the exact one does not ---------- *)

Lemma ex_align_old : stmts_rel [ex_align_ordinary] [ex_align_main] [].
Proof.
  apply (stmts_rel_one _ _ []). unfold ex_align_ordinary, ex_align_main. apply sr_outsec.
  split; [intro x; reflexivity | reflexivity].
Qed.

Lemma ex_align_not_exact sty infos : ~ stmts_rel_exact sty [ex_align_ordinary] [ex_align_main] infos.
Proof.
  intro H. inversion H as [|s sm o l lm ol Hs Hl]; subst. clear H Hl.
  unfold ex_align_ordinary, ex_align_main in Hs.
  inversion Hs as [s Hn Es | name addr at_ noload sub b bm i Hb]; subst.
  destruct (body_exact_facts _ _ _ _ Hb) as [_ [_ R]]. cbn [filter is_input negb] in R.
  inversion R as [| s l l' R' | s l l' Hp R']; subst; cbn [group_stmt] in *; contradiction.
Qed.
