(* C05Exact: lemmas.  The per-group induction of Proofs/DocLevel.v (groups_fold, outsec_groups,
   document_groups) redone while carrying (1) the split of l_placed - what was placed before the group,
   by the group, after the group - with the full range of every placement, (2) the position of the
   group in the body of its output section, from which [placed_between] is evaluated.
   Part 1: split_outsec / split_assign.  Part 2: evaluating placed_between.  Part 3: one group.
   Part 4: the groups of one output section.  Part 5: the output section inside a statement list.
   Part 6: any configuration (ordinary script, main script of a partial build).  Part 7: a linker
   offset inside its group. *)
From Slinky Require Import Model.Types Model.Generated Model.Runtime Model.Style Model.Script Model.Writer Model.LdSem.
From Slinky Require Import Spec.C17 Spec.C18 Spec.C04 Spec.C03 Spec.C09 Spec.C01 Spec.C05 Spec.C10 Spec.C11
  Spec.DocLevel Spec.DocWf Spec.DocPartial Spec.C01Doc Spec.C01Listed Spec.C05Exact.
From Slinky Require Import Proofs.C06 Proofs.C18 Proofs.C17 Proofs.LdLemmas Proofs.C09 Proofs.C01 Proofs.C05 Proofs.C04
  Proofs.C03 Proofs.C10 Proofs.C11 Proofs.DocLevel Proofs.DocWf Proofs.DocPartial Proofs.C01Doc Proofs.C01Listed Proofs.C02DocPartial.
From Coq Require Import Lia ZArith.
Local Open Scope Z_scope.

(* ====================================================================== *)
(* 1. finding a place in a script                                          *)
(* ====================================================================== *)

Lemma outsec_named_makes name s : ~ In name (makes_sec s) -> outsec_named name s = None.
Proof.
  destruct s; try reflexivity. cbn [makes_sec outsec_named]. intro H.
  destruct (String.eqb name0 name) eqn:E; [|reflexivity].
  apply String.eqb_eq in E. exfalso. apply H. left. exact E.
Qed.

Lemma split_outsec_found name A addr at_ nl sub body B :
  ~ In name (flat_map makes_sec A) ->
  split_outsec name (A ++ SOutSec name addr at_ nl sub body :: B) = Some (A, (addr, sub, body)).
Proof.
  induction A as [|s A IH]; intro H.
  - cbn [app split_outsec outsec_named]. rewrite String.eqb_refl. reflexivity.
  - cbn [flat_map] in H. cbn [app split_outsec].
    rewrite outsec_named_makes by (intro Hin; apply H; apply in_or_app; left; exact Hin).
    rewrite IH by (intro Hin; apply H; apply in_or_app; right; exact Hin). reflexivity.
Qed.

Lemma split_assign_found x P s T :
  existsb (assigns x) P = false -> assigns x s = true -> split_assign x (P ++ s :: T) = Some (P, s, T).
Proof.
  induction P as [|p P IH]; intros HP Hs.
  - cbn [app split_assign]. rewrite Hs. reflexivity.
  - cbn [existsb] in HP. apply orb_false_iff in HP. destruct HP as [H1 H2].
    cbn [app split_assign]. rewrite H1, (IH H2 Hs). reflexivity.
Qed.

Lemma split_assign_spec x l : forall a s b,
  split_assign x l = Some (a, s, b) ->
  l = (a ++ s :: b)%list /\ existsb (assigns x) a = false /\ assigns x s = true.
Proof.
  induction l as [|t l IH]; intros a s b H; [discriminate|]. cbn [split_assign] in H.
  destruct (assigns x t) eqn:Et.
  - inversion H; subst. split; [reflexivity|]. split; [reflexivity | exact Et].
  - destruct (split_assign x l) as [[[a' s'] b']|] eqn:El; [|discriminate]. inversion H; subst.
    destruct (IH _ _ _ eq_refl) as [E1 [E2 E3]]. split; [rewrite E1; reflexivity|].
    split; [cbn [existsb]; rewrite Et, E2; reflexivity | exact E3].
Qed.

Lemma split_assign_iff x l a s b :
  split_assign x l = Some (a, s, b) <->
  l = (a ++ s :: b)%list /\ existsb (assigns x) a = false /\ assigns x s = true.
Proof.
  split; [apply split_assign_spec|].
  intros [E [Ha Hs]]. subst l. apply split_assign_found; assumption.
Qed.

Lemma split_assign_none x l : existsb (assigns x) l = false -> split_assign x l = None.
Proof.
  induction l as [|t l IH]; intro H; [reflexivity|]. cbn [existsb] in H. apply orb_false_iff in H.
  destruct H as [H1 H2]. cbn [split_assign]. rewrite H1, (IH H2). reflexivity.
Qed.

Lemma split_assign_some x l : existsb (assigns x) l = true -> exists a s b, split_assign x l = Some (a, s, b).
Proof.
  induction l as [|t l IH]; intro H; [discriminate|]. cbn [existsb] in H. cbn [split_assign].
  destruct (assigns x t) eqn:Et; [eauto|]. cbn [orb] in H. destruct (IH H) as (a & s & b & E).
  rewrite E. eauto.
Qed.

Lemma skipn_app_length {A} (a b : list A) : skipn (List.length a) (a ++ b) = b.
Proof. induction a as [|x a IH]; [reflexivity | exact IH]. Qed.

(* ---------- counting: a symbol assigned once ---------- *)

Lemma count_one_split x P s T :
  count_assigns x (P ++ s :: T) = 1%nat -> assigns x s = true ->
  existsb (assigns x) P = false /\ existsb (assigns x) T = false.
Proof.
  intros Hc Hs. rewrite count_app, count_cons in Hc.
  destruct (assign_count x s) eqn:Es; [apply assigns_count in Es; congruence|].
  split; apply existsb_count; lia.
Qed.

Lemma count_zero_app x a b : count_assigns x (a ++ b) = 0%nat -> count_assigns x a = 0%nat /\ count_assigns x b = 0%nat.
Proof. rewrite count_app. lia. Qed.

Lemma existsb_app_false {A} (f : A -> bool) a b :
  existsb f (a ++ b) = false <-> existsb f a = false /\ existsb f b = false.
Proof. rewrite existsb_app. apply orb_false_iff. Qed.

(* ====================================================================== *)
(* 2. evaluating placed_between                                            *)
(* ====================================================================== *)

Definition noinput (s : stmt) : Prop := is_input s = false.

Section ExactExec.
  Variables (env : list (string * Z)) (senv : list osec) (ext : list (string * Z)) (final : bool).
  Notation top := (exec_top_stmt env senv ext final).
  Notation runl := (run env senv ext final).
  Notation secs vma sub name := (exec_sec_stmt env senv ext final vma sub name).

  (* a statement that is not an input statement places nothing *)
  Lemma noinput_stmt_placed vma sub name ss s :
    noinput s -> l_placed (s_st (secs vma sub name ss s)) = l_placed (s_st ss).
  Proof.
    intro Hs.
    destruct (sec_stmt_cases env senv ext final vma sub name ss s)
      as [[p [h [r [sym [e [Es E]]]]]] | [[k [path [member [sect [wild [off' [pls [c [Es [Ep E]]]]]]]]]] | [E _]]].
    - rewrite E. cbn [s_st]. apply Proofs.C04.assign_placed.
    - subst s. discriminate Hs.
    - rewrite E. reflexivity.
  Qed.

  Lemma noinput_fold_placed vma sub name l : forall ss,
    Forall noinput l -> l_placed (s_st (fold_left (secs vma sub name) l ss)) = l_placed (s_st ss).
  Proof.
    induction l as [|s l IH]; intros ss H; [reflexivity|]. inversion H as [|? ? Hs Hl]; subst.
    cbn [fold_left]. rewrite (IH _ Hl). apply noinput_stmt_placed. exact Hs.
  Qed.

  (* the shape of the script known: the value of placed_between *)
  Lemma placed_between_value L A name addr at_ nl sub body B P sS mid sE T X Y vma st0 mine :
    L = (A ++ SOutSec name addr at_ nl sub body :: B)%list ->
    ~ In name (flat_map makes_sec A) ->
    body = (P ++ sS :: mid ++ sE :: T)%list ->
    existsb (assigns X) P = false -> assigns X sS = true ->
    existsb (assigns Y) mid = false -> assigns Y sE = true ->
    outsec_vma env senv ext addr sub body (runl A st0) = Ok vma ->
    let ss1 := fold_left (secs vma (option_map Z.of_N sub) name) (P ++ [sS]) (SState 0 false (runl A st0)) in
    l_placed (s_st (fold_left (secs vma (option_map Z.of_N sub) name) mid ss1)) = (l_placed (s_st ss1) ++ mine)%list ->
    placed_between env senv ext final L st0 name X Y = Some mine.
  Proof.
    intros EL HA Eb HP HS Hmid HE Hv ss1 Hpl. unfold placed_between.
    rewrite EL, (split_outsec_found name A addr at_ nl sub body B HA).
    rewrite Eb at 1. rewrite (split_assign_found X P sS _ HP HS), (split_assign_found Y mid sE T Hmid HE).
    cbv zeta.
    change (match addr with
            | Some e => eval_expr env senv ext (runl A st0) (l_dot (runl A st0)) e
            | None => Ok (align_up (l_dot (runl A st0))
                                   (body_align (option_map Z.of_N sub) body (l_remaining (runl A st0)) 1))
            end) with (outsec_vma env senv ext addr sub body (runl A st0)).
    rewrite Hv. fold ss1. rewrite Hpl, skipn_app_length. reflexivity.
  Qed.
End ExactExec.

(* ====================================================================== *)
(* 3. one group                                                            *)
(* ====================================================================== *)

Lemma in_range_and R u lo hi lo' outsec l :
  incl R u -> lo' <= hi ->
  Forall (in_range R lo hi outsec) l -> Forall (fun p => lo' <= pl_addr p) l ->
  Forall (in_range u lo' hi outsec) l.
Proof.
  intros HR _ H1 H2. pose proof (Forall_and H1 H2) as H. eapply Forall_impl; [|exact H].
  intros p [[Ho [x [Hx [Hm [A B]]]]] C]. split; [exact Ho|]. exists x.
  split; [apply HR; exact Hx|]. split; [exact Hm|]. split; assumption.
Qed.

Section GroupExact.
  Variables (env : list (string * Z)) (senv : list osec) (ext : list (string * Z)) (final : bool).
  Variables (vma : Z) (sub : option Z) (outsec : string).
  Notation X := (exec_sec_stmt env senv ext final vma sub outsec).

  Lemma fold_remaining_incl l ss u :
    incl (l_remaining (s_st ss)) u -> incl (l_remaining (s_st (fold_left X l ss))) u.
  Proof.
    intro H. destruct (sec_fold_remaining env senv ext final vma sub outsec l ss) as [f E]. rewrite E.
    intros x Hx. apply H. apply filter_In in Hx. tauto.
  Qed.

  Lemma fold_sizes_ok l ss : sizes_ok (s_st ss) -> sizes_ok (s_st (fold_left X l ss)).
  Proof.
    intro H. unfold sizes_ok. destruct (sec_fold_remaining env senv ext final vma sub outsec l ss) as [f E].
    rewrite E. apply Forall_filter. exact H.
  Qed.

  Lemma group_exact rt sty cfg seg sections base section ws files ws' ss u :
    section_syms cfg = true ->
    emit_section rt sty cfg seg sections base section ws = Ok (files, ws') ->
    sizes_ok (s_st ss) -> incl (l_remaining (s_st ss)) u ->
    let START := segment_section_start sty (sg_name seg) section in
    let END_ := segment_section_end sty (sg_name seg) section in
    let SIZE := segment_section_size sty (sg_name seg) section in
    let G := (section_symbol_start rt sty cfg seg section ++ files ++ section_symbol_end sty cfg seg section)%list in
    let ss' := fold_left X G ss in
    exists S E new g1 al,
      lookup START (l_syms (s_st ss')) = Some S /\
      lookup END_ (l_syms (s_st ss')) = Some E /\
      lookup SIZE (l_syms (s_st ss')) = Some (E - S) /\
      vma + s_off ss <= S /\ S <= E /\ E = vma + s_off ss' /\
      l_placed (s_st ss') = (l_placed (s_st ss) ++ new)%list /\
      Forall (in_range u S E outsec) new /\
      sizes_ok (s_st ss') /\ incl (l_remaining (s_st ss')) u /\
      G = (g1 ++ linker_symbol START EDot :: (files ++ al) ++
           linker_symbol END_ EDot :: [linker_symbol SIZE (EAbsSub END_ START)])%list /\
      l_placed (s_st (fold_left X (g1 ++ [linker_symbol START EDot]) ss)) = l_placed (s_st ss) /\
      l_placed (s_st (fold_left X (g1 ++ linker_symbol START EDot :: files ++ al) ss)) =
        (l_placed (s_st ss) ++ new)%list.
  Proof.
    intros Hc Hf Hsz Hincl START END_ SIZE G ss'.
    destruct (group_bracket env senv ext final vma sub outsec rt sty cfg seg sections base section ws files ws' ss
                            Hc Hf Hsz)
      as (S & E & new & news & restsyms & L1 & L2 & L3 & B1 & B2 & B3 & P1 & P2 & _ & _ & _ & N1).
    fold START END_ SIZE G in L1, L2, L3, B3, P1, N1. fold ss' in L1, L2, L3, B3, P1, N1.
    destruct (sec_fold_range env senv ext final vma sub outsec G ss Hsz) as [new' [En F]].
    fold ss' in En, F. rewrite P1 in En. apply app_inv_head in En. subst new'.
    set (g1 := (opt_align (section_start_align seg) ++
                opt_align (lookup section (sections_start_alignment seg)) ++ gp_stmt rt seg section)%list).
    set (al := (opt_align (section_end_align seg) ++ opt_align (lookup section (sections_end_alignment seg)))%list).
    assert (Es : section_symbol_start rt sty cfg seg section = (g1 ++ [linker_symbol START EDot])%list).
    { unfold section_symbol_start, g1. rewrite Hc. repeat rewrite <- app_assoc. reflexivity. }
    assert (Ee : section_symbol_end sty cfg seg section =
                 (al ++ [linker_symbol END_ EDot; linker_symbol SIZE (EAbsSub END_ START)])%list).
    { unfold section_symbol_end, al, sym_end_size. rewrite Hc. repeat rewrite <- app_assoc. reflexivity. }
    assert (EG : G = ((g1 ++ linker_symbol START EDot :: files ++ al) ++
                      [linker_symbol END_ EDot; linker_symbol SIZE (EAbsSub END_ START)])%list).
    { unfold G. rewrite Es, Ee. repeat (rewrite <- app_assoc; cbn [app]). reflexivity. }
    exists S, E, new, g1, al.
    split; [exact L1|]. split; [exact L2|]. split; [exact L3|]. split; [exact B1|]. split; [exact B2|].
    split; [exact B3|]. split; [exact P1|].
    split.
    { apply (in_range_and (l_remaining (s_st ss)) u (vma + s_off ss) E S outsec new Hincl B2).
      - rewrite B3. exact F.
      - eapply Forall_impl; [|exact P2]. intros p [A _]. exact A. }
    split; [exact N1|]. split; [apply fold_remaining_incl; exact Hincl|].
    split.
    { rewrite EG. repeat (rewrite <- app_assoc; cbn [app]). reflexivity. }
    split.
    { rewrite <- Es. apply noinput_fold_placed. apply ni_section_symbol_start. }
    rewrite <- P1.
    assert (Ess : ss' = fold_left X [linker_symbol END_ EDot; linker_symbol SIZE (EAbsSub END_ START)]
                                  (fold_left X (g1 ++ linker_symbol START EDot :: files ++ al) ss)).
    { unfold ss'. rewrite EG. apply fold_left_app. }
    rewrite Ess. symmetry. apply noinput_fold_placed. repeat constructor.
  Qed.
End GroupExact.

(* ====================================================================== *)
(* 4. the groups of one output section                                     *)
(* ====================================================================== *)

(* GroupChainExact with an abstract relation [Q X Y mine] in the place of [made X Y = Some mine] *)
Fixpoint ChainQ (sty : style) (u : list usec) (syms : list (string * Z)) (ps : list placement)
         (Q : string -> string -> list placement -> Prop) (name : string)
         (lo : Z) (secs : list string) (hi : Z) : Prop :=
  match secs with
  | [] => lo <= hi
  | sec :: rest =>
      exists S E before mine after,
        lookup (segment_section_start sty name sec) syms = Some S /\
        lookup (segment_section_end sty name sec) syms = Some E /\
        lookup (segment_section_size sty name sec) syms = Some (E - S) /\
        lo <= S /\ S <= E /\
        ps = (before ++ mine ++ after)%list /\
        Forall (ends_at_or_below u S) before /\
        Forall (placement_within u S E) mine /\
        Forall (starts_at_or_above E) after /\
        Q (segment_section_start sty name sec) (segment_section_end sty name sec) mine /\
        ChainQ sty u syms ps Q name E rest hi
  end.

Lemma ChainQ_exact sty u syms syms' ps (Q : string -> string -> list placement -> Prop) made name secs : forall lo hi,
  (forall sec x, In sec secs -> In x (sec_syms3 sty name sec) -> lookup x syms' = lookup x syms) ->
  (forall sec mine, In sec secs ->
     Q (segment_section_start sty name sec) (segment_section_end sty name sec) mine ->
     made (segment_section_start sty name sec) (segment_section_end sty name sec) = Some mine) ->
  ChainQ sty u syms ps Q name lo secs hi -> GroupChainExact sty u syms' ps made name lo secs hi.
Proof.
  induction secs as [|sec rest IH]; intros lo hi Hs HQ H; [exact H|]. cbn [ChainQ GroupChainExact] in *.
  destruct H as (S & E & before & mine & after & L1 & L2 & L3 & B1 & B2 & P & F1 & F2 & F3 & Hq & Hrest).
  exists S, E, before, mine, after.
  split; [rewrite (Hs sec _ (or_introl eq_refl) (or_introl eq_refl)); exact L1|].
  split; [rewrite (Hs sec _ (or_introl eq_refl) (or_intror (or_introl eq_refl))); exact L2|].
  split; [rewrite (Hs sec _ (or_introl eq_refl) (or_intror (or_intror (or_introl eq_refl)))); exact L3|].
  split; [exact B1|]. split; [exact B2|]. split; [exact P|]. split; [exact F1|]. split; [exact F2|].
  split; [exact F3|]. split; [apply HQ; [left; reflexivity | exact Hq]|].
  apply IH; [intros s0 x Hin Hx; apply (Hs s0 x); [right; exact Hin | exact Hx]
            | intros s0 m Hin Hm; apply HQ; [right; exact Hin | exact Hm] | exact Hrest].
Qed.

Lemma ends_weaken u v v' l : v <= v' -> Forall (ends_at_or_below u v) l -> Forall (ends_at_or_below u v') l.
Proof.
  intros Hv H. eapply Forall_impl; [|exact H]. intros p [x [Hx [Hm Hle]]]. exists x.
  split; [exact Hx|]. split; [exact Hm|]. lia.
Qed.

Lemma starts_weaken v v' l : v' <= v -> Forall (starts_at_or_above v) l -> Forall (starts_at_or_above v') l.
Proof. intros Hv H. eapply Forall_impl; [|exact H]. intros p Hp. unfold starts_at_or_above in *. lia. Qed.

Lemma in_range_ends u lo hi n l : Forall (in_range u lo hi n) l -> Forall (ends_at_or_below u hi) l.
Proof.
  intro H. eapply Forall_impl; [|exact H]. intros p [_ [x [Hx [Hm [_ Hle]]]]]. exists x. auto.
Qed.

Lemma in_range_starts u lo hi n l : Forall (in_range u lo hi n) l -> Forall (starts_at_or_above lo) l.
Proof. intro H. eapply Forall_impl; [|exact H]. intros p [_ [x [_ [_ [Hle _]]]]]. exact Hle. Qed.

Lemma in_range_weaken_list u lo lo' hi hi' n l :
  lo' <= lo -> hi <= hi' -> Forall (in_range u lo hi n) l -> Forall (in_range u lo' hi' n) l.
Proof.
  intros H1 H2 H. eapply Forall_impl; [|exact H]. intros p Hp.
  apply (in_range_weaken u u lo lo' hi hi' n p (incl_refl _) H1 H2 Hp).
Qed.

Section GroupsExact.
  Variables (env : list (string * Z)) (senv : list osec) (ext : list (string * Z)) (final : bool).
  Variables (vma : Z) (sub : option Z) (outsec : string).
  Notation X := (exec_sec_stmt env senv ext final vma sub outsec).

  (* in the body [W] of the output section, executed from [ss0]: [mine] is what the statements between
     an assignment of [Xs] and a later assignment of [Ys] append to l_placed *)
  Definition made_in (W : list stmt) (ss0 : sstate) (Xs Ys : string) (mine : list placement) : Prop :=
    exists P sS mid sE T,
      W = (P ++ sS :: mid ++ sE :: T)%list /\ assigns Xs sS = true /\ assigns Ys sE = true /\
      l_placed (s_st (fold_left X mid (fold_left X (P ++ [sS]) ss0))) =
      (l_placed (s_st (fold_left X (P ++ [sS]) ss0)) ++ mine)%list.

  Lemma groups_fold_exact rt stg cfg seg sections u W ss0 rest : forall ws body ws' pre0 ss,
    section_syms cfg = true ->
    part_groups rt stg cfg seg sections rest ws = Ok (body, ws') ->
    W = (pre0 ++ body)%list -> ss = fold_left X pre0 ss0 ->
    (forall sec x, In sec rest -> In x (sec_syms3 (linker_symbols_style stg) (sg_name seg) sec) ->
                   count_assigns x W = 1%nat) ->
    sizes_ok (s_st ss) -> incl (l_remaining (s_st ss)) u ->
    let ss' := fold_left X body ss in
    exists new,
      l_placed (s_st ss') = (l_placed (s_st ss) ++ new)%list /\
      Forall (in_range u (vma + s_off ss) (vma + s_off ss') outsec) new /\
      s_off ss <= s_off ss' /\
      forall pfx sfx,
        Forall (ends_at_or_below u (vma + s_off ss)) pfx ->
        Forall (starts_at_or_above (vma + s_off ss')) sfx ->
        ChainQ (linker_symbols_style stg) u (l_syms (s_st ss')) (pfx ++ new ++ sfx) (made_in W ss0)
               (sg_name seg) (vma + s_off ss) rest (vma + s_off ss').
  Proof.
    induction rest as [|sec rest IH]; intros ws body ws' pre0 ss Hc H EW Ess Hcnt Hsz Hincl ss'.
    - apply ok_inj in H. inversion H; subst body ws'. subst ss'. cbn [fold_left].
      exists []. rewrite app_nil_r. split; [reflexivity|]. split; [constructor|]. split; [lia|].
      intros pfx sfx _ _. cbn [ChainQ]. lia.
    - apply part_groups_cons in H. destruct H as [s1 [ws1 [s2 [E1 [E2 E]]]]].
      set (sty := linker_symbols_style stg) in *.
      set (START := segment_section_start sty (sg_name seg) sec) in *.
      set (END_ := segment_section_end sty (sg_name seg) sec) in *.
      set (SIZE := segment_section_size sty (sg_name seg) sec) in *.
      set (G := (section_symbol_start rt sty cfg seg sec ++ s1 ++ section_symbol_end sty cfg seg sec)%list).
      set (bl := match rest with [] => [] | _ :: _ => [SBlank] end) in *.
      assert (Eb : body = (G ++ bl ++ s2)%list).
      { rewrite E. unfold G. repeat rewrite <- app_assoc. reflexivity. }
      destruct (group_exact env senv ext final vma sub outsec rt sty cfg seg sections (base_path stg) sec
                            ws s1 ws1 ss u Hc E1 Hsz Hincl)
        as (S & E' & new1 & g1 & al & L1 & L2 & L3 & B1 & B2 & B3 & P1 & R1 & N1 & I1 & EG & Q1 & Q2).
      fold START END_ SIZE G in L1, L2, L3, B3, P1, R1, N1, I1, EG, Q1, Q2.
      set (ss1 := fold_left X G ss) in *.
      assert (Ebl : fold_left X bl ss1 = ss1) by (unfold bl; destruct rest; reflexivity).
      assert (Ess1 : ss1 = fold_left X (pre0 ++ G ++ bl) ss0).
      { rewrite !fold_left_app, <- Ess. fold ss1. rewrite Ebl. reflexivity. }
      assert (EW1 : W = ((pre0 ++ G ++ bl) ++ s2)%list).
      { rewrite EW, Eb. repeat rewrite <- app_assoc. reflexivity. }
      assert (HT0 : forall x, In x (sec_syms3 sty (sg_name seg) sec) -> existsb (assigns x) s2 = false).
      { intros x Hx. apply existsb_count. pose proof (Hcnt sec x (or_introl eq_refl) Hx) as Hc1.
        rewrite EW1, !count_app in Hc1.
        pose proof (group_head_assigned rt sty cfg seg sec s1 x Hc Hx) as HG. fold G in HG. lia. }
      destruct (IH ws1 s2 ws' (pre0 ++ G ++ bl)%list ss1 Hc E2 EW1 Ess1) as (new2 & P2 & R2 & O2 & Hchain).
      { intros sec' x Hin Hx. apply (Hcnt sec' x (or_intror Hin) Hx). }
      { exact N1. }
      { exact I1. }
      set (ss2 := fold_left X s2 ss1) in *.
      assert (Ess' : ss' = ss2).
      { unfold ss', ss2. rewrite Eb, !fold_left_app. fold ss1. rewrite Ebl. reflexivity. }
      rewrite Ess'. clear Ess'.
      assert (HE : E' <= vma + s_off ss2) by lia.
      exists (new1 ++ new2)%list.
      split; [rewrite P2, P1, app_assoc; reflexivity|].
      split.
      { apply Forall_app. split.
        - apply (in_range_weaken_list u S (vma + s_off ss) E' (vma + s_off ss2) outsec new1 B1 HE R1).
        - apply (in_range_weaken_list u (vma + s_off ss1) (vma + s_off ss) (vma + s_off ss2) (vma + s_off ss2) outsec new2); [lia|lia|exact R2]. }
      split; [lia|].
      intros pfx sfx Hpfx Hsfx. cbn [ChainQ]. fold sty START END_ SIZE.
      exists S, E', pfx, new1, (new2 ++ sfx)%list.
      split; [unfold ss2; rewrite sec_fold_syms; [exact L1 | apply HT0; left; reflexivity]|].
      split; [unfold ss2; rewrite sec_fold_syms; [exact L2 | apply HT0; right; left; reflexivity]|].
      split; [unfold ss2; rewrite sec_fold_syms; [exact L3 | apply HT0; right; right; left; reflexivity]|].
      split; [exact B1|]. split; [exact B2|].
      split; [repeat rewrite <- app_assoc; reflexivity|].
      split; [apply (ends_weaken u (vma + s_off ss) S pfx B1 Hpfx)|].
      split; [eapply in_range_within; exact R1|].
      split.
      { apply Forall_app. split.
        - apply (starts_weaken (vma + s_off ss1) E'); [lia|]. eapply in_range_starts. exact R2.
        - apply (starts_weaken (vma + s_off ss2) E' sfx HE Hsfx). }
      split.
      { (* the position of the group in the body *)
        exists (pre0 ++ g1)%list, (linker_symbol START EDot), (s1 ++ al)%list, (linker_symbol END_ EDot),
               (linker_symbol SIZE (EAbsSub END_ START) :: bl ++ s2)%list.
        split; [rewrite EW, Eb, EG; repeat (rewrite <- app_assoc; cbn [app]); reflexivity|].
        split; [apply String.eqb_refl|]. split; [apply String.eqb_refl|].
        assert (E0 : fold_left X ((pre0 ++ g1) ++ [linker_symbol START EDot]) ss0 =
                     fold_left X (g1 ++ [linker_symbol START EDot]) ss).
        { rewrite <- app_assoc, fold_left_app, <- Ess. reflexivity. }
        rewrite E0, Q1, <- fold_left_app, <- app_assoc. cbn [app]. exact Q2. }
      assert (Hp' : Forall (ends_at_or_below u (vma + s_off ss1)) (pfx ++ new1)).
      { apply Forall_app. split.
        - apply (ends_weaken u (vma + s_off ss) _ pfx); [lia | exact Hpfx].
        - rewrite <- B3. eapply in_range_ends. exact R1. }
      specialize (Hchain (pfx ++ new1)%list sfx Hp' Hsfx).
      rewrite <- B3 in Hchain. repeat rewrite <- app_assoc in Hchain. repeat rewrite <- app_assoc. exact Hchain.
  Qed.
End GroupsExact.

(* ====================================================================== *)
(* 5. the output section in the middle of a statement list                 *)
(* ====================================================================== *)

Section OutsecExact.
  Variables (env : list (string * Z)) (senv : list osec) (ext : list (string * Z)) (final : bool).
  Notation top := (exec_top_stmt env senv ext final).
  Notation runl := (run env senv ext final).
  Notation secs vma sub name := (exec_sec_stmt env senv ext final vma sub name).

  Lemma opt_fill_fold vma sub name seg ss : fold_left (secs vma sub name) (opt_fill seg) ss = ss.
  Proof. unfold opt_fill. destruct (fill_value seg); reflexivity. Qed.

  Lemma run_remaining_incl l st u : incl (l_remaining st) u -> incl (l_remaining (runl l st)) u.
  Proof.
    intro H. destruct (run_remaining env senv ext final l st) as [f E]. rewrite E.
    intros x Hx. apply H. apply filter_In in Hx. tauto.
  Qed.

  (* the counts of the three symbols of a group of the section: once in its body, never elsewhere *)
  Lemma outsec_counts rt stg cfg seg sections ws gbody ws' name addr at_ noload A B :
    let sty := linker_symbols_style stg in
    section_syms cfg = true ->
    part_groups rt stg cfg seg sections sections ws = Ok (gbody, ws') ->
    (forall sec x, In sec sections -> In x (sec_syms3 sty (sg_name seg) sec) ->
       count_assigns x (A ++ SOutSec name addr at_ noload (subalign seg) (opt_fill seg ++ gbody) :: B) = 1%nat) ->
    forall sec x, In sec sections -> In x (sec_syms3 sty (sg_name seg) sec) ->
      count_assigns x (opt_fill seg ++ gbody) = 1%nat /\ count_assigns x A = 0%nat /\ count_assigns x B = 0%nat.
  Proof.
    intros sty Hc Hg Hcnt sec x Hin Hx. pose proof (Hcnt sec x Hin Hx) as H1.
    rewrite count_app, count_cons in H1. cbn [assign_count] in H1.
    change (list_sum (map (assign_count x) (opt_fill seg ++ gbody))) with (count_assigns x (opt_fill seg ++ gbody)) in H1.
    rewrite count_app, count_opt_fill in *.
    pose proof (group_syms_assigned _ _ _ _ _ _ _ _ _ Hg Hc sec Hin x Hx) as Hge. fold sty in Hge. lia.
  Qed.

  Lemma outsec_groups_exact rt stg cfg seg sections ws gbody ws' name addr at_ noload A B st0 u :
    let sty := linker_symbols_style stg in
    let O := SOutSec name addr at_ noload (subalign seg) (opt_fill seg ++ gbody) in
    let L := (A ++ O :: B)%list in
    section_syms cfg = true ->
    part_groups rt stg cfg seg sections sections ws = Ok (gbody, ws') ->
    (forall sec x, In sec sections -> In x (sec_syms3 sty (sg_name seg) sec) -> count_assigns x L = 1%nat) ->
    sizes_ok st0 -> incl (l_remaining st0) u ->
    Forall (fun p => pl_outsec p <> name) (l_placed st0) ->
    find_sec name (l_secs st0) = None ->
    ~ In name (flat_map makes_sec A) -> ~ In name (flat_map makes_sec B) ->
    (forall e, outsec_vma env senv ext addr (subalign seg) (opt_fill seg ++ gbody) (runl A st0) <> Err e) ->
    let st' := runl L st0 in
    exists o, find_sec name (l_secs st') = Some o /\ os_noload o = noload /\
      GroupChainExact sty u (l_syms st') (placed_in name st') (placed_between env senv ext final L st0 name)
                      (sg_name seg) (os_vma o) sections (os_vma o + os_size o).
  Proof.
    intros sty O L Hc Hg Hcnt Hsz Hincl Hp0 Hfresh HA HB Hvma st'.
    set (stA := runl A st0) in *.
    assert (HszA : sizes_ok stA) by (apply run_remaining_Forall; exact Hsz).
    assert (HinclA : incl (l_remaining stA) u) by (apply run_remaining_incl; exact Hincl).
    destruct (outsec_vma env senv ext addr (subalign seg) (opt_fill seg ++ gbody) stA) as [vma|e] eqn:Ev;
      [|exfalso; eapply Hvma; reflexivity].
    pose proof (exec_outsec_ok env senv ext final name addr at_ noload (subalign seg) (opt_fill seg ++ gbody)
                               stA vma Ev) as HO.
    cbv zeta in HO. destruct HO as [_ [Hsyms [_ [Hsecs [Hplaced _]]]]].
    set (subz := option_map Z.of_N (subalign seg)) in *.
    set (W := (opt_fill seg ++ gbody)%list) in *.
    set (ss0 := SState 0 false stA).
    set (stO := exec_outsec env senv ext final name addr at_ noload (subalign seg) W stA) in *.
    assert (Ess : outsec_body env senv ext final name (subalign seg) W vma stA = fold_left (secs vma subz name) gbody ss0).
    { unfold outsec_body, W. rewrite fold_left_app. fold subz ss0. rewrite opt_fill_fold. reflexivity. }
    rewrite Ess in Hsyms, Hsecs, Hplaced.
    pose proof (outsec_counts rt stg cfg seg sections ws gbody ws' name addr at_ noload A B Hc Hg Hcnt) as HcntO.
    fold sty W in HcntO.
    destruct (groups_fold_exact env senv ext final vma subz name rt stg cfg seg sections u W ss0 sections
                                ws gbody ws' (opt_fill seg) ss0 Hc Hg eq_refl
                                (eq_sym (opt_fill_fold vma subz name seg ss0))
                                (fun sec x Hin Hx => proj1 (HcntO sec x Hin Hx)) HszA HinclA)
      as (new & Pn & Rn & On & Hchain).
    set (ss := fold_left (secs vma subz name) gbody ss0) in *.
    specialize (Hchain [] [] (Forall_nil _) (Forall_nil _)).
    cbn [app s_off ss0] in Hchain, Rn, On. rewrite app_nil_r, Z.add_0_r in Hchain. rewrite Z.add_0_r in Rn.
    cbn [s_st ss0] in Pn.
    assert (Est' : st' = runl B stO).
    { unfold st', L. rewrite run_app, run_cons. reflexivity. }
    destruct (run_secs env senv ext final B stO) as [newsec [En _]].
    destruct (run_placed_elsewhere env senv ext final name A st0 Hsz HA) as [nA [EA FA]]. fold stA in EA.
    assert (HszO : sizes_ok stO).
    { change stO with (runl [O] stA). apply run_remaining_Forall. exact HszA. }
    destruct (run_placed_elsewhere env senv ext final name B stO HszO HB) as [nB [EB FB]].
    assert (Hpl : placed_in name st' = new).
    { unfold placed_in. change (fun p => String.eqb (pl_outsec p) name) with (in_sec name).
      rewrite Est', EB, Hplaced, Pn, EA, !filter_app, (filter_other _ _ Hp0), (filter_other _ _ FA),
        (filter_other _ _ FB).
      cbn [app]. rewrite app_nil_r. apply filter_same.
      eapply Forall_impl; [|exact Rn]. intros p [Ho _]. exact Ho. }
    exists (OSec name vma (s_off ss)
                 (match at_ with Some s => sym_lookup s (s_st ss) env ext | None => None end)
                 noload (s_contents ss && negb noload)).
    split.
    { rewrite Est', En, Hsecs. apply find_sec_app. rewrite find_sec_app_none by (apply run_find_sec_none; assumption).
      unfold find_sec. cbn [find os_name]. rewrite String.eqb_refl. reflexivity. }
    cbn [os_noload os_vma os_size]. split; [reflexivity|].
    rewrite Hpl.
    apply (ChainQ_exact sty u (l_syms (s_st ss)) (l_syms st') new
                        (made_in env senv ext final vma subz name W ss0)); [| |exact Hchain].
    - intros sec x Hin Hx. rewrite Est', run_syms; [rewrite Hsyms; reflexivity|].
      apply existsb_count. apply (HcntO sec x Hin Hx).
    - intros sec mine Hin (P & sS & mid & sE & T & EW & HS & HE & Hm).
      set (START := segment_section_start sty (sg_name seg) sec) in *.
      set (END_ := segment_section_end sty (sg_name seg) sec) in *.
      assert (C1 : count_assigns START W = 1%nat) by (apply (HcntO sec START Hin); left; reflexivity).
      assert (C2 : count_assigns END_ W = 1%nat) by (apply (HcntO sec END_ Hin); right; left; reflexivity).
      apply (placed_between_value env senv ext final L A name addr at_ noload (subalign seg) W B
                                  P sS mid sE T START END_ vma st0 mine eq_refl HA EW).
      + rewrite EW in C1. apply (count_one_split START P sS _ C1 HS).
      + exact HS.
      + assert (EW2 : W = ((P ++ sS :: mid) ++ sE :: T)%list).
        { rewrite EW. rewrite <- app_assoc. reflexivity. }
        rewrite EW2 in C2. destruct (count_one_split END_ _ sE T C2 HE) as [H1 _].
        apply existsb_app_false in H1. destruct H1 as [_ H1]. cbn [existsb] in H1.
        apply orb_false_iff in H1. apply H1.
      + exact HE.
      + exact Ev.
      + exact Hm.
  Qed.
End OutsecExact.

(* ====================================================================== *)
(* 6. a linker offset inside its group                                     *)
(* ====================================================================== *)

(* ---------- where a group stands in the body of its output section ---------- *)

Lemma part_groups_split rt stg cfg seg sections rest : forall ws body ws' sec,
  part_groups rt stg cfg seg sections rest ws = Ok (body, ws') -> In sec rest ->
  exists b1 wsa files wsb b2,
    emit_section rt (linker_symbols_style stg) cfg seg sections (base_path stg) sec wsa = Ok (files, wsb) /\
    body = (b1 ++ (section_symbol_start rt (linker_symbols_style stg) cfg seg sec ++ files ++
                   section_symbol_end (linker_symbols_style stg) cfg seg sec) ++ b2)%list.
Proof.
  induction rest as [|sec0 rest IH]; intros ws body ws' sec H Hin; [contradiction|].
  apply part_groups_cons in H. destruct H as [s1 [ws1 [s2 [E1 [E2 E]]]]].
  destruct Hin as [Es|Hin].
  - subst sec0. exists [], ws, s1, ws1, ((match rest with [] => [] | _ :: _ => [SBlank] end) ++ s2)%list.
    split; [exact E1|]. rewrite E. cbn [app]. repeat rewrite <- app_assoc. reflexivity.
  - destruct (IH _ _ _ sec E2 Hin) as (b1 & wsa & files & wsb & b2 & Ef & Eb).
    exists ((section_symbol_start rt (linker_symbols_style stg) cfg seg sec0 ++ s1 ++
             section_symbol_end (linker_symbols_style stg) cfg seg sec0 ++
             (match rest with [] => [] | _ :: _ => [SBlank] end)) ++ b1)%list, wsa, files, wsb, b2.
    split; [exact Ef|]. rewrite E, Eb. repeat rewrite <- app_assoc. reflexivity.
Qed.

Definition dot_align (s : stmt) : Prop := exists n, s = SAlign "." n.

Lemma dot_align_opt a : Forall dot_align (opt_align a).
Proof. destruct a; repeat constructor. eexists. reflexivity. Qed.

(* the statements of a group: what precedes START = . , then the files and the end alignments, then
   END = . and SIZE = END - START *)
Lemma group_shape rt sty cfg seg section files :
  section_syms cfg = true ->
  let START := segment_section_start sty (sg_name seg) section in
  let END_ := segment_section_end sty (sg_name seg) section in
  let SIZE := segment_section_size sty (sg_name seg) section in
  exists g1 al,
    Forall dot_align al /\
    (section_symbol_start rt sty cfg seg section ++ files ++ section_symbol_end sty cfg seg section =
     g1 ++ linker_symbol START EDot :: (files ++ al) ++
     linker_symbol END_ EDot :: [linker_symbol SIZE (EAbsSub END_ START)])%list.
Proof.
  intros Hc START END_ SIZE.
  exists (opt_align (section_start_align seg) ++
          opt_align (lookup section (sections_start_alignment seg)) ++ gp_stmt rt seg section)%list,
         (opt_align (section_end_align seg) ++ opt_align (lookup section (sections_end_alignment seg)))%list.
  split; [apply Forall_app; split; apply dot_align_opt|].
  unfold section_symbol_start, section_symbol_end, sym_end_size. rewrite Hc. fold START END_ SIZE.
  repeat (rewrite <- app_assoc; cbn [app]). reflexivity.
Qed.

(* ---------- lists ---------- *)

Lemma app_eq_mid {A} (a b c d : list A) (s : A) :
  (a ++ b = c ++ s :: d)%list ->
  (exists d', a = (c ++ s :: d')%list /\ d = (d' ++ b)%list) \/
  (exists c', c = (a ++ c')%list /\ b = (c' ++ s :: d)%list).
Proof.
  revert c. induction a as [|x a IH]; intros c H.
  - right. exists c. split; [reflexivity | exact H].
  - destruct c as [|y c]; cbn [app] in H.
    + inversion H; subst. left. exists a. split; reflexivity.
    + inversion H as [[Exy H']]. subst y. destruct (IH c H') as [[d' [E1 E2]]|[c' [E1 E2]]].
      * left. exists d'. split; [rewrite E1; reflexivity | exact E2].
      * right. exists c'. split; [rewrite E1; reflexivity | exact E2].
Qed.

Lemma split_unique x a s b a' s' b' :
  (a ++ s :: b = a' ++ s' :: b')%list ->
  existsb (assigns x) a = false -> assigns x s = true ->
  existsb (assigns x) a' = false -> assigns x s' = true ->
  a = a' /\ s = s' /\ b = b'.
Proof.
  intros E Ha Hs Ha' Hs'.
  pose proof (split_assign_found x a s b Ha Hs) as H1.
  pose proof (split_assign_found x a' s' b' Ha' Hs') as H2.
  rewrite E in H1. rewrite H1 in H2. inversion H2. auto.
Qed.

Section OffsetExact.
  Variables (env : list (string * Z)) (senv : list osec) (ext : list (string * Z)) (final : bool).
  Notation top := (exec_top_stmt env senv ext final).
  Notation runl := (run env senv ext final).
  Notation secs vma sub name := (exec_sec_stmt env senv ext final vma sub name).

  (* "x = ." inside an output section *)
  Lemma exec_assign_dot vma sub name h r x ss :
    secs vma sub name ss (SAssign false h r x EDot) =
    SState (s_off ss) (s_contents ss) (set_sym x (vma + s_off ss) false (s_st ss)).
  Proof. reflexivity. Qed.

  (* the final value of a symbol assigned as "x = ." in the body of the output section and nowhere
     after it *)
  Lemma outsec_sym_value name addr at_ noload sub W A B st0 vma Pfx h r x Sfx :
    outsec_vma env senv ext addr sub W (runl A st0) = Ok vma ->
    W = (Pfx ++ SAssign false h r x EDot :: Sfx)%list ->
    existsb (assigns x) Sfx = false -> existsb (assigns x) B = false ->
    val (runl (A ++ SOutSec name addr at_ noload sub W :: B) st0) x =
    Some (vma + s_off (fold_left (secs vma (option_map Z.of_N sub) name) Pfx (SState 0 false (runl A st0)))).
  Proof.
    intros Ev EW HS HB. unfold val. rewrite run_app, run_cons, run_syms by exact HB.
    cbn [exec_top_stmt].
    destruct (exec_outsec_ok env senv ext final name addr at_ noload sub W (runl A st0) vma Ev) as [_ [Hsyms _]].
    rewrite Hsyms. unfold outsec_body. rewrite EW, fold_left_app. cbn [fold_left].
    rewrite sec_fold_syms by exact HS. rewrite exec_assign_dot. cbn [s_st]. apply lookup_set_sym_same.
  Qed.

  Lemma assign_dot_off vma sub name h r x ss :
    s_off (secs vma sub name ss (SAssign false h r x EDot)) = s_off ss.
  Proof. reflexivity. Qed.

  Lemma assign_dot_placed vma sub name h r x ss :
    l_placed (s_st (secs vma sub name ss (SAssign false h r x EDot))) = l_placed (s_st ss).
  Proof. reflexivity. Qed.

  Lemma assign_dot_remaining vma sub name h r x ss :
    l_remaining (s_st (secs vma sub name ss (SAssign false h r x EDot))) = l_remaining (s_st ss).
  Proof. reflexivity. Qed.
End OffsetExact.

Section OffsetBetweenExact.
  Variables (env : list (string * Z)) (senv : list osec) (ext : list (string * Z)) (final : bool).
  Notation top := (exec_top_stmt env senv ext final).
  Notation runl := (run env senv ext final).
  Notation secs vma sub name := (exec_sec_stmt env senv ext final vma sub name).

  (* placed_between once the output section is found and its address known *)
  Lemma placed_between_unfold L A name addr at_ nl sub body B Xs Ys vma st0 :
    L = (A ++ SOutSec name addr at_ nl sub body :: B)%list ->
    ~ In name (flat_map makes_sec A) ->
    outsec_vma env senv ext addr sub body (runl A st0) = Ok vma ->
    placed_between env senv ext final L st0 name Xs Ys =
    match split_assign Xs body with
    | Some (bpre, sx, r1) =>
        match split_assign Ys r1 with
        | Some (mid, _, _) =>
            let ss1 := fold_left (secs vma (option_map Z.of_N sub) name) (bpre ++ [sx]) (SState 0 false (runl A st0)) in
            Some (skipn (List.length (l_placed (s_st ss1)))
                        (l_placed (s_st (fold_left (secs vma (option_map Z.of_N sub) name) mid ss1))))
        | None => None
        end
    | None => None
    end.
  Proof.
    intros EL HA Hv. unfold placed_between.
    rewrite EL, (split_outsec_found name A addr at_ nl sub body B HA).
    destruct (split_assign Xs body) as [[[bpre sx] r1]|]; [|reflexivity].
    destruct (split_assign Ys r1) as [[[mid sy] t]|]; [|reflexivity].
    cbv zeta.
    change (match addr with
            | Some e => eval_expr env senv ext (runl A st0) (l_dot (runl A st0)) e
            | None => Ok (align_up (l_dot (runl A st0))
                                   (body_align (option_map Z.of_N sub) body (l_remaining (runl A st0)) 1))
            end) with (outsec_vma env senv ext addr sub body (runl A st0)).
    rewrite Hv. reflexivity.
  Qed.

  Lemma existsb_mid_false x (a : list stmt) s b :
    existsb (assigns x) (a ++ s :: b) = false -> existsb (assigns x) b = false.
  Proof.
    intro H. apply existsb_app_false in H. destruct H as [_ H]. cbn [existsb] in H.
    apply orb_false_iff in H. apply H.
  Qed.

  Lemma outsec_offset_between rt stg cfg seg sections ws gbody ws' name addr at_ noload A B st0 u sec sym m1 m2 :
    let sty := linker_symbols_style stg in
    let O := SOutSec name addr at_ noload (subalign seg) (opt_fill seg ++ gbody) in
    let L := (A ++ O :: B)%list in
    let START := segment_section_start sty (sg_name seg) sec in
    let END_ := segment_section_end sty (sg_name seg) sec in
    section_syms cfg = true ->
    part_groups rt stg cfg seg sections sections ws = Ok (gbody, ws') ->
    (forall sec x, In sec sections -> In x (sec_syms3 sty (sg_name seg) sec) -> count_assigns x L = 1%nat) ->
    sizes_ok st0 -> incl (l_remaining st0) u ->
    ~ In name (flat_map makes_sec A) ->
    (forall e, outsec_vma env senv ext addr (subalign seg) (opt_fill seg ++ gbody) (runl A st0) <> Err e) ->
    In sec sections -> sym <> "."%string -> count_assigns sym L = 1%nat ->
    placed_between env senv ext final L st0 name START sym = Some m1 ->
    placed_between env senv ext final L st0 name sym END_ = Some m2 ->
    OffsetBetween rt sty u (runl L st0) (placed_between env senv ext final L st0 name) seg sec sym m1 m2.
  Proof.
    intros sty O L START END_ Hc Hg Hcnt Hsz Hincl HA Hvma Hsec Hdot Hsym H1 H2.
    assert (HszA : sizes_ok (runl A st0)) by (apply run_remaining_Forall; exact Hsz).
    assert (HinclA : incl (l_remaining (runl A st0)) u) by (apply run_remaining_incl; exact Hincl).
    destruct (outsec_vma env senv ext addr (subalign seg) (opt_fill seg ++ gbody) (runl A st0)) as [vma|e] eqn:Ev;
      [|exfalso; eapply Hvma; reflexivity].
    set (subz := option_map Z.of_N (subalign seg)) in *.
    set (W := (opt_fill seg ++ gbody)%list) in *.
    set (ss0 := SState 0 false (runl A st0)) in *.
    pose proof (outsec_counts rt stg cfg seg sections ws gbody ws' name addr at_ noload A B Hc Hg Hcnt) as HcntO.
    fold sty W in HcntO.
    destruct (part_groups_split _ _ _ _ _ _ _ _ _ sec Hg Hsec) as (b1 & wsa & files & wsb & b2 & Ef & Eb).
    fold sty in Ef, Eb.
    destruct (group_shape rt sty cfg seg sec files Hc) as (g1 & al & Hal & EG). cbv zeta in EG. fold START END_ in EG.
    set (SIZE := segment_section_size sty (sg_name seg) sec) in *.
    set (sS := linker_symbol START EDot) in *. set (sE := linker_symbol END_ EDot) in *.
    set (sZ := linker_symbol SIZE (EAbsSub END_ START)) in *.
    set (P := (opt_fill seg ++ b1 ++ g1)%list).
    set (R := ((files ++ al) ++ sE :: sZ :: b2)%list).
    assert (EW : W = (P ++ sS :: R)%list).
    { unfold W, P, R. rewrite Eb, EG. repeat (rewrite <- app_assoc; cbn [app]). reflexivity. }
    assert (C1 : count_assigns START W = 1%nat) by (apply (HcntO sec START Hsec); left; reflexivity).
    assert (C2 : count_assigns END_ W = 1%nat) by (apply (HcntO sec END_ Hsec); right; left; reflexivity).
    assert (B1 : existsb (assigns START) B = false).
    { apply existsb_count. apply (HcntO sec START Hsec). left; reflexivity. }
    assert (B2 : existsb (assigns END_) B = false).
    { apply existsb_count. apply (HcntO sec END_ Hsec). right; left; reflexivity. }
    assert (HsS : assigns START sS = true) by apply String.eqb_refl.
    assert (HsE : assigns END_ sE = true) by apply String.eqb_refl.
    destruct (count_one_split START P sS R (eq_ind _ (fun w => count_assigns START w = 1%nat) C1 _ EW) HsS)
      as [HP_S HR_S].
    (* the first hypothesis: [sym] is assigned after START *)
    assert (HsplitS : split_assign START W = Some (P, sS, R)) by (rewrite EW; apply split_assign_found; assumption).
    rewrite (placed_between_unfold L A name addr at_ noload (subalign seg) W B START sym vma st0 eq_refl HA Ev), HsplitS in H1.
    destruct (split_assign sym R) as [[[mid1 sx] r1]|] eqn:Es1; [|discriminate H1].
    apply split_assign_spec in Es1. destruct Es1 as [ER [Hm1 Hsx]].
    assert (EW3 : W = ((P ++ sS :: mid1) ++ sx :: r1)%list).
    { rewrite EW, ER. repeat (rewrite <- app_assoc; cbn [app]). reflexivity. }
    assert (Hsym3 : count_assigns sym W = 1%nat /\ count_assigns sym B = 0%nat).
    { unfold L, O in Hsym. rewrite count_app, count_cons in Hsym. cbn [assign_count] in Hsym.
      change (list_sum (map (assign_count sym) W)) with (count_assigns sym W) in Hsym.
      assert (Hge : (1 <= count_assigns sym W)%nat).
      { rewrite EW3. apply count_in_ge with (s := sx); [apply in_or_app; right; left; reflexivity | exact Hsx]. }
      lia. }
    destruct Hsym3 as [C3 B3]. apply existsb_count in B3.
    destruct (count_one_split sym _ sx r1 (eq_ind _ (fun w => count_assigns sym w = 1%nat) C3 _ EW3) Hsx)
      as [Hsym_pre Hsym_post].
    (* the second hypothesis: END is assigned after [sym] *)
    assert (HsplitX : split_assign sym W = Some ((P ++ sS :: mid1)%list, sx, r1))
      by (rewrite EW3; apply split_assign_found; assumption).
    rewrite (placed_between_unfold L A name addr at_ noload (subalign seg) W B sym END_ vma st0 eq_refl HA Ev), HsplitX in H2.
    destruct (split_assign END_ r1) as [[[mid2 sE'] T']|] eqn:Es2; [|discriminate H2].
    apply split_assign_spec in Es2. destruct Es2 as [Er1 [Hm2 HsE']].
    (* hence [sx] stands among the files of the group *)
    assert (EW4 : W = ((P ++ sS :: mid1 ++ sx :: mid2) ++ sE' :: T')%list).
    { rewrite EW3, Er1. repeat (rewrite <- app_assoc; cbn [app]). reflexivity. }
    destruct (count_one_split END_ _ sE' T' (eq_ind _ (fun w => count_assigns END_ w = 1%nat) C2 _ EW4) HsE')
      as [HE_pre' HE_post'].
    apply existsb_mid_false in HE_pre'.
    assert (EW5 : W = ((P ++ sS :: files ++ al) ++ sE :: sZ :: b2)%list).
    { rewrite EW. unfold R. repeat (rewrite <- app_assoc; cbn [app]). reflexivity. }
    destruct (count_one_split END_ _ sE (sZ :: b2)%list (eq_ind _ (fun w => count_assigns END_ w = 1%nat) C2 _ EW5) HsE)
      as [HE_pre HE_post].
    apply existsb_mid_false in HE_pre.
    assert (ER2 : ((files ++ al) ++ sE :: sZ :: b2 = (mid1 ++ sx :: mid2) ++ sE' :: T')%list).
    { fold R. rewrite ER, Er1. repeat (rewrite <- app_assoc; cbn [app]). reflexivity. }
    destruct (split_unique END_ _ _ _ _ _ _ ER2 HE_pre HsE HE_pre' HsE') as [Efa [EsE ET]].
    subst sE' T'.
    destruct (app_eq_mid files al mid1 mid2 sx Efa) as [[post [Efiles Emid2]]|[c' [_ Eal]]].
    2:{ exfalso. rewrite Eal in Hal. apply Forall_app in Hal. destruct Hal as [_ Hal].
        inversion Hal as [|? ? [n En] _]. subst sx. cbn [assigns] in Hsx. apply String.eqb_eq in Hsx.
        apply Hdot. symmetry. exact Hsx. }
    pose proof (group_stmts_emit_section _ _ _ _ _ _ _ _ _ _ Ef) as Hgs.
    assert (Hgx : group_stmt sty (fun n => In n (segment_offset_names rt seg)) sx).
    { rewrite Forall_forall in Hgs. apply Hgs. rewrite Efiles. apply in_or_app. right. left. reflexivity. }
    assert (Hform : exists oname, In oname (segment_offset_names rt seg) /\ sym = linker_offset sty oname /\
                                  sx = SAssign false false true sym EDot).
    { destruct sx as [t0| |p0 h0 rc0 sy0 e0|sy0 n0|sy0 other0|sec0|n0|n0|kp0 path0 member0 sect0 wild0
                      |nm0 addr0 at0 nl0 sb0 body0|sect0|pats0 wild0|body0|e0|e0|c0 msg0];
        cbn [group_stmt] in Hgx; try contradiction; try discriminate Hsx.
      destruct p0, h0, rc0, e0; try contradiction.
      destruct Hgx as [oname [Hn En]]. cbn [assigns] in Hsx. apply String.eqb_eq in Hsx. subst sy0.
      exists oname. split; [exact Hn|]. split; [rewrite linker_offset_doc; exact En | reflexivity]. }
    destruct Hform as (oname & Hon & Esym & Esx).
    (* the states *)
    cbv zeta in H1, H2. fold subz in H1, H2. fold ss0 in H1, H2.
    set (X := secs vma subz name) in *.
    set (tP := fold_left X P ss0).
    set (ssP := fold_left X (P ++ [sS]) ss0) in *.
    assert (EssP : ssP = X tP sS) by (unfold ssP, tP; rewrite fold_left_app; reflexivity).
    assert (HszP : sizes_ok (s_st ssP)) by (apply fold_sizes_ok; exact HszA).
    assert (HinP : incl (l_remaining (s_st ssP)) u) by (apply fold_remaining_incl; exact HinclA).
    set (ss_a := fold_left X mid1 ssP) in *.
    destruct (sec_fold_range env senv ext final vma subz name mid1 ssP HszP) as [na [Ena Fna]].
    fold X ss_a in Ena, Fna.
    assert (Em1 : m1 = na).
    { fold ssP ss_a in H1. rewrite Ena, skipn_app_length in H1. inversion H1. reflexivity. }
    set (ss_x := fold_left X ((P ++ sS :: mid1) ++ [sx]) ss0) in *.
    assert (Ess_a : fold_left X (P ++ sS :: mid1) ss0 = ss_a).
    { unfold ss_a. rewrite EssP. unfold tP. rewrite fold_left_app. reflexivity. }
    assert (Ess_x : ss_x = X ss_a sx) by (unfold ss_x; rewrite fold_left_app, Ess_a; reflexivity).
    assert (Hsz_a : sizes_ok (s_st ss_a)) by (apply fold_sizes_ok; exact HszP).
    assert (Hin_a : incl (l_remaining (s_st ss_a)) u) by (apply fold_remaining_incl; exact HinP).
    assert (Hoff_x : s_off ss_x = s_off ss_a) by (rewrite Ess_x, Esx; reflexivity).
    assert (Hpl_x : l_placed (s_st ss_x) = l_placed (s_st ss_a)) by (rewrite Ess_x, Esx; reflexivity).
    assert (Hrem_x : l_remaining (s_st ss_x) = l_remaining (s_st ss_a)) by (rewrite Ess_x, Esx; reflexivity).
    assert (Hsz_x : sizes_ok (s_st ss_x)) by (unfold sizes_ok; rewrite Hrem_x; exact Hsz_a).
    set (ss_b := fold_left X mid2 ss_x) in *.
    destruct (sec_fold_range env senv ext final vma subz name mid2 ss_x Hsz_x) as [nb [Enb Fnb]].
    fold X ss_b in Enb, Fnb.
    assert (Em2 : m2 = nb).
    { fold ss_x ss_b in H2. rewrite Enb, skipn_app_length in H2. inversion H2. reflexivity. }
    assert (Ess_b : fold_left X (P ++ sS :: mid1 ++ sx :: mid2) ss0 = ss_b).
    { unfold ss_b. rewrite Ess_x. rewrite <- Ess_a.
      change (P ++ sS :: mid1 ++ sx :: mid2)%list with (P ++ (sS :: mid1) ++ sx :: mid2)%list.
      rewrite app_assoc, fold_left_app. reflexivity. }
    pose proof (sec_fold_off env senv ext final vma subz name mid1 ssP HszP) as Ho1. fold X ss_a in Ho1.
    pose proof (sec_fold_off env senv ext final vma subz name mid2 ss_x Hsz_x) as Ho2. fold X ss_b in Ho2.
    assert (HoffP : s_off ssP = s_off tP) by (rewrite EssP; reflexivity).
    (* the final values *)
    assert (VS : val (runl L st0) START = Some (vma + s_off tP)).
    { apply (outsec_sym_value env senv ext final name addr at_ noload (subalign seg) W A B st0 vma P false true START R
                              Ev EW HR_S B1). }
    assert (VX : val (runl L st0) sym = Some (vma + s_off ss_a)).
    { rewrite <- Ess_a.
      apply (outsec_sym_value env senv ext final name addr at_ noload (subalign seg) W A B st0 vma
                              (P ++ sS :: mid1)%list false true sym r1 Ev); [|exact Hsym_post | exact B3].
      rewrite EW3, Esx. reflexivity. }
    assert (VE : val (runl L st0) END_ = Some (vma + s_off ss_b)).
    { rewrite <- Ess_b.
      apply (outsec_sym_value env senv ext final name addr at_ noload (subalign seg) W A B st0 vma
                              (P ++ sS :: mid1 ++ sx :: mid2)%list false true END_ (sZ :: b2)%list Ev EW4 HE_post' B2). }
    exists (vma + s_off tP), (vma + s_off ss_b), (vma + s_off ss_a), oname.
    split; [exact VS|]. split; [exact VE|]. split; [exact VX|].
    split; [lia|]. split; [lia|]. split; [exact Hon|]. split; [exact Esym|].
    split.
    { apply (placed_between_value env senv ext final L A name addr at_ noload (subalign seg) W B
                                  P sS (mid1 ++ sx :: mid2)%list sE (sZ :: b2)%list START END_ vma st0 (m1 ++ m2)%list
                                  eq_refl HA).
      - rewrite EW4. repeat (rewrite <- app_assoc; cbn [app]). reflexivity.
      - exact HP_S.
      - exact HsS.
      - exact HE_pre'.
      - exact HsE.
      - exact Ev.
      - fold subz X ss0 ssP. rewrite fold_left_app. fold ss_a. cbn [fold_left]. rewrite <- Ess_x. fold ss_b.
        rewrite Enb, Hpl_x, Ena, Em1, Em2, app_assoc. reflexivity. }
    split.
    - rewrite Em1. eapply in_range_within.
      apply (in_range_and (l_remaining (s_st ssP)) u (vma + s_off ssP) (vma + s_off ss_a) (vma + s_off tP) name na HinP);
        [lia | exact Fna |].
      eapply Forall_impl; [|exact Fna]. intros p [_ [x [_ [_ [Hlo _]]]]]. lia.
    - rewrite Em2. eapply in_range_within.
      apply (in_range_and (l_remaining (s_st ss_x)) u (vma + s_off ss_x) (vma + s_off ss_b) (vma + s_off ss_a) name nb);
        [rewrite Hrem_x; exact Hin_a | lia | exact Fnb |].
      eapply Forall_impl; [|exact Fnb]. intros p [_ [x [_ [_ [Hlo _]]]]]. lia.
  Qed.
End OffsetBetweenExact.

(* ====================================================================== *)
(* 7. a whole statement list, any configuration                            *)
(* ====================================================================== *)

(* [V ++ all]: what LdSem executes for "version; SECTIONS { begin; the segments; end }; tl" *)
Section AnyCfgExact.
  Variables (rt : runtime) (stg : settings) (cfg : wcfg) (classes : list vram_class) (segs : list segment).
  Variables (V tl body : list stmt) (ws' : wstate).
  Variables (env : list (string * Z)) (senv : list osec) (ext : list (string * Z)) (final : bool).
  Notation runl := (run env senv ext final).
  Notation sty := (linker_symbols_style stg).
  Notation isegs := (included rt segs).
  Notation fin := (end_sections_body stg classes ws' ++ tl)%list.
  Notation all := (begin_sections_body stg ++ body ++ end_sections_body stg classes ws' ++ tl)%list.

  Hypothesis E : fold_out (add_segment rt stg cfg classes) segs ws0 = Ok (body, ws').
  Hypothesis Hnd : NoDup (out_names isegs).
  Hypothesis Hseg : forall seg, In seg isegs -> seg_link_wf sty all seg = true.
  Hypothesis HVm : flat_map makes_sec V = [].
  Hypothesis HVc : forall x, count_assigns x V = 0%nat.
  Hypothesis Htl : flat_map makes_sec tl = [].
  Hypothesis Hfresh : forall n, In n (out_names isegs) -> ~ In n (aux_section_names stg).
  Hypothesis Hss : section_syms cfg = true.

  (* the two output sections of an included segment inside [V ++ all] *)
  Lemma any_split seg :
    In seg isegs ->
    exists A1 body1 B1 A2 body2 B2 ws1 ws2 wsb,
      part_groups rt stg cfg seg (alloc_sections seg) (alloc_sections seg) ws1 = Ok (body1, ws2) /\
      part_groups rt stg cfg seg (noload_sections seg) (noload_sections seg) ws2 = Ok (body2, wsb) /\
      (V ++ all = A1 ++ SOutSec (alloc_name seg) (segment_addr sty seg) (Some (segment_rom_start sty (sg_name seg)))
                                false (subalign seg) (opt_fill seg ++ body1) :: B1)%list /\
      (V ++ all = A2 ++ SOutSec (noload_name seg) None None true (subalign seg) (opt_fill seg ++ body2) :: B2)%list /\
      ~ In (alloc_name seg) (flat_map makes_sec A1) /\ ~ In (alloc_name seg) (flat_map makes_sec B1) /\
      ~ In (noload_name seg) (flat_map makes_sec A2) /\ ~ In (noload_name seg) (flat_map makes_sec B2).
  Proof.
    intro Hin.
    destruct (fold_segment_split _ _ _ _ _ _ _ _ _ E Hin Hnd) as (b1 & wsa & s1 & wsb & b2 & Ea & Eb & _ & _).
    assert (Hina : In (alloc_name seg) (out_names isegs)).
    { unfold out_names. apply in_flat_map. exists seg. split; [exact Hin | left; reflexivity]. }
    assert (Hinb : In (noload_name seg) (out_names isegs)).
    { unfold out_names. apply in_flat_map. exists seg. split; [exact Hin | right; left; reflexivity]. }
    apply filter_In in Hin. destruct Hin as [_ Hc].
    apply add_segment_inv in Ea.
    destruct Ea as [[Hc' _] | [_ [cls [ws1 [s1a [ws2 [s2a [Ec [E1 [E2 Es1]]]]]]]]]]; [congruence|].
    apply write_segment_inv in E1. destruct E1 as [body1 [Hg1 E1]]. rewrite alloc_name_outsec in E1.
    apply write_segment_inv in E2. destruct E2 as [body2 [Hg2 E2]]. rewrite noload_name_outsec in E2.
    set (ks := sections_kind_start sty cfg seg false) in *.
    set (ke := sections_kind_end sty cfg seg false) in *.
    set (ks2 := sections_kind_start sty cfg seg true) in *.
    set (ke2 := sections_kind_end sty cfg seg true) in *.
    set (O1 := SOutSec (alloc_name seg) (segment_addr sty seg) (Some (segment_rom_start sty (sg_name seg))) false
                       (subalign seg) (opt_fill seg ++ body1)) in *.
    set (O2 := SOutSec (noload_name seg) None None true (subalign seg) (opt_fill seg ++ body2)) in *.
    set (A1 := (V ++ begin_sections_body stg ++ b1 ++ cls ++ seg_head stg seg ++ ks)%list).
    set (B1 := (ke ++ [SBlank] ++ s2a ++ [SBlank] ++ seg_foot stg seg ++ b2 ++ fin)%list).
    set (A2 := (V ++ begin_sections_body stg ++ b1 ++ cls ++ seg_head stg seg ++ s1a ++ [SBlank] ++ ks2)%list).
    set (B2 := (ke2 ++ [SBlank] ++ seg_foot stg seg ++ b2 ++ fin)%list).
    assert (EL1 : (V ++ all = A1 ++ O1 :: B1)%list).
    { unfold A1, B1. rewrite Eb, Es1, E1. repeat (rewrite <- app_assoc; cbn [app]). reflexivity. }
    assert (EL2 : (V ++ all = A2 ++ O2 :: B2)%list).
    { unfold A2, B2. rewrite Eb, Es1, E2. repeat (rewrite <- app_assoc; cbn [app]). reflexivity. }
    assert (Hmk : flat_map makes_sec (V ++ all) = (out_names isegs ++ aux_section_names stg)%list).
    { rewrite !flat_map_app, HVm, makes_sec_begin, (makes_sec_fold _ _ _ _ _ _ _ _ E),
        makes_sec_end_sections, Htl, app_nil_r. reflexivity. }
    assert (Hs1 : ~ In (alloc_name seg) (flat_map makes_sec A1) /\ ~ In (alloc_name seg) (flat_map makes_sec B1)).
    { apply (once_split (alloc_name seg) (out_names isegs) (aux_section_names stg));
        [exact Hnd | exact Hina | apply (Hfresh _ Hina) |].
      rewrite <- Hmk, EL1, flat_map_app. reflexivity. }
    assert (Hs2 : ~ In (noload_name seg) (flat_map makes_sec A2) /\ ~ In (noload_name seg) (flat_map makes_sec B2)).
    { apply (once_split (noload_name seg) (out_names isegs) (aux_section_names stg));
        [exact Hnd | exact Hinb | apply (Hfresh _ Hinb) |].
      rewrite <- Hmk, EL2, flat_map_app. reflexivity. }
    exists A1, body1, B1, A2, body2, B2, ws1, ws2, wsb.
    split; [exact Hg1|]. split; [exact Hg2|]. split; [exact EL1|]. split; [exact EL2|].
    split; [apply Hs1|]. split; [apply Hs1|]. split; [apply Hs2 | apply Hs2].
  Qed.

  Lemma any_counts seg :
    In seg isegs ->
    forall sec x, In sec (seg_sections seg) -> In x (sec_syms3 sty (sg_name seg) sec) ->
                  count_assigns x (V ++ all) = 1%nat.
  Proof.
    intros Hin sec x Hs Hx. destruct (seg_wf_parts _ _ _ (Hseg seg Hin)) as [_ [_ [_ Hsecs]]].
    specialize (Hsecs sec Hs). unfold section_names_once, assigned_once_deep in Hsecs.
    apply andb_true_iff in Hsecs. destruct Hsecs as [Hsecs H3]. apply andb_true_iff in Hsecs.
    destruct Hsecs as [H1 H2]. apply Nat.eqb_eq in H1. apply Nat.eqb_eq in H2. apply Nat.eqb_eq in H3.
    rewrite count_app, HVc. cbn [Nat.add].
    destruct Hx as [Ex|[Ex|[Ex|[]]]]; subst x; assumption.
  Qed.

  Theorem any_groups_exact u seg :
    Forall (fun x => 0 <= u_size x) u ->
    In seg isegs ->
    let st' := runl (V ++ all) (init_state u) in
    ~ In (LForwardRef (alloc_name seg)) (l_errors st') ->
    SegmentGroupsExact env senv ext final sty u (V ++ all) st' seg.
  Proof.
    intros Hu Hin st' Herr.
    destruct (any_split seg Hin)
      as (A1 & body1 & B1 & A2 & body2 & B2 & ws1 & ws2 & wsb & Hg1 & Hg2 & EL1 & EL2 & FA1 & FB1 & FA2 & FB2).
    pose proof (any_counts seg Hin) as Hcnt.
    unfold st' in *. clear st'. split.
    - rewrite EL1 in Herr, Hcnt |- *.
      apply (outsec_groups_exact env senv ext final rt stg cfg seg (alloc_sections seg) ws1 body1 ws2 (alloc_name seg)
                                 (segment_addr sty seg) (Some (segment_rom_start sty (sg_name seg))) false A1 B1
                                 (init_state u) u Hss Hg1).
      + intros sec x Hs Hx. apply (Hcnt sec x); [apply in_or_app; left; exact Hs | exact Hx].
      + exact Hu.
      + apply incl_refl.
      + constructor.
      + reflexivity.
      + exact FA1.
      + exact FB1.
      + intros e Ev. apply Herr. rewrite run_app, run_cons. apply run_errors_in.
        cbn [exec_top_stmt]. rewrite (exec_outsec_err _ _ _ _ _ _ _ _ _ _ _ _ Ev).
        cbn [add_err l_errors]. apply in_or_app. right. left. reflexivity.
    - rewrite EL2 in Hcnt |- *.
      apply (outsec_groups_exact env senv ext final rt stg cfg seg (noload_sections seg) ws2 body2 wsb (noload_name seg)
                                 None None true A2 B2 (init_state u) u Hss Hg2).
      + intros sec x Hs Hx. apply (Hcnt sec x); [apply in_or_app; right; exact Hs | exact Hx].
      + exact Hu.
      + apply incl_refl.
      + constructor.
      + reflexivity.
      + exact FA2.
      + exact FB2.
      + intros e Ev. cbn [outsec_vma] in Ev. discriminate Ev.
  Qed.

  Theorem any_offset_between u seg nl sec sym m1 m2 :
    Forall (fun x => 0 <= u_size x) u ->
    In seg isegs ->
    let st' := runl (V ++ all) (init_state u) in
    let outsec := part_name seg nl in
    let START := segment_section_start sty (sg_name seg) sec in
    let END_ := segment_section_end sty (sg_name seg) sec in
    ~ In (LForwardRef (alloc_name seg)) (l_errors st') ->
    In sec (part_sections seg nl) -> sym <> "."%string -> count_assigns sym (V ++ all) = 1%nat ->
    placed_between env senv ext final (V ++ all) (init_state u) outsec START sym = Some m1 ->
    placed_between env senv ext final (V ++ all) (init_state u) outsec sym END_ = Some m2 ->
    OffsetBetween rt sty u st' (placed_between env senv ext final (V ++ all) (init_state u) outsec) seg sec sym m1 m2.
  Proof.
    intros Hu Hin st' outsec START END_ Herr Hsec Hdot Hsym H1 H2.
    destruct (any_split seg Hin)
      as (A1 & body1 & B1 & A2 & body2 & B2 & ws1 & ws2 & wsb & Hg1 & Hg2 & EL1 & EL2 & FA1 & FB1 & FA2 & FB2).
    pose proof (any_counts seg Hin) as Hcnt.
    unfold st', outsec in *. clear st' outsec. destruct nl; cbn [part_name part_sections] in *.
    - rewrite EL2 in Hcnt, Hsym, H1, H2 |- *.
      apply (outsec_offset_between env senv ext final rt stg cfg seg (noload_sections seg) ws2 body2 wsb (noload_name seg)
                                   None None true A2 B2 (init_state u) u sec sym m1 m2 Hss Hg2); try assumption.
      + intros sec0 x Hs Hx. apply (Hcnt sec0 x); [apply in_or_app; right; exact Hs | exact Hx].
      + apply incl_refl.
      + intros e Ev. cbn [outsec_vma] in Ev. discriminate Ev.
    - rewrite EL1 in Herr, Hcnt, Hsym, H1, H2 |- *.
      apply (outsec_offset_between env senv ext final rt stg cfg seg (alloc_sections seg) ws1 body1 ws2 (alloc_name seg)
                                   (segment_addr sty seg) (Some (segment_rom_start sty (sg_name seg))) false A1 B1
                                   (init_state u) u sec sym m1 m2 Hss Hg1); try assumption.
      + intros sec0 x Hs Hx. apply (Hcnt sec0 x); [apply in_or_app; left; exact Hs | exact Hx].
      + apply incl_refl.
      + intros e Ev. apply Herr. rewrite run_app, run_cons. apply run_errors_in.
        cbn [exec_top_stmt]. rewrite (exec_outsec_err _ _ _ _ _ _ _ _ _ _ _ _ Ev).
        cbn [add_err l_errors]. apply in_or_app. right. left. reflexivity.
  Qed.
End AnyCfgExact.

(* ====================================================================== *)
(* 8. the ordinary script and the main script of a partial build           *)
(* ====================================================================== *)

Lemma version_makes rt : flat_map makes_sec (version_stmts rt) = [].
Proof. unfold version_stmts. destruct (rt_emit_version_comment rt); reflexivity. Qed.

Lemma version_count rt x : count_assigns x (version_stmts rt) = 0%nat.
Proof. unfold version_stmts. destruct (rt_emit_version_comment rt); reflexivity. Qed.

(* the statements LdSem executes for the script of a well-formed document *)
Lemma doc_flat d rt w :
  gen_normal d rt = Ok w -> doc_link_wf d rt = true ->
  let stg := doc_settings d in
  let classes := doc_vram_classes d in
  exists body ws',
    fold_out (add_segment rt stg cfg_normal classes) (doc_segments d) ws0 = Ok (body, ws') /\
    NoDup (out_names (included rt (doc_segments d))) /\
    (forall seg, In seg (included rt (doc_segments d)) ->
       seg_link_wf (linker_symbols_style stg)
                   (begin_sections_body stg ++ body ++ end_sections_body stg classes ws' ++ tail_stmts rt d) seg = true) /\
    flat_stmts (wo_script w) =
      (version_stmts rt ++ begin_sections_body stg ++ body ++ end_sections_body stg classes ws' ++ tail_stmts rt d)%list.
Proof.
  intros Hg Hwf stg classes. subst stg classes.
  destruct (doc_link_wf_inv d rt Hwf) as (body & ws' & E & Hm & Hnd & Hseg & _ & _).
  exists body, ws'. split; [exact E|]. split; [exact Hnd|]. split; [exact Hseg|].
  apply gen_normal_inv in Hg. destruct Hg as [s [ws2 [E2 Hw]]].
  apply add_all_segments_inv in E2. destruct E2 as [[Hs _] | [_ [body2 [E2 Es]]]]; [congruence|].
  rewrite E in E2. apply ok_inj in E2. inversion E2; subst body2 ws2. subst s w.
  cbn [wo_script]. rewrite flat_sections_script. repeat rewrite <- app_assoc. reflexivity.
Qed.

Section DocExact.
  Variables (env : list (string * Z)) (senv : list osec) (ext : list (string * Z)) (final : bool).

  (* C05_document_groups_exact *)
  Theorem document_groups_exact d rt w u seg :
    gen_normal d rt = Ok w -> doc_link_wf d rt = true -> doc_outsecs_fresh d rt = true ->
    Forall (fun x => 0 <= u_size x) u ->
    In seg (included rt (doc_segments d)) ->
    let sty := linker_symbols_style (doc_settings d) in
    let st' := exec_script env senv ext final (wo_script w) (init_state u) in
    ~ In (LForwardRef (alloc_name seg)) (l_errors st') ->
    SegmentGroupsExact env senv ext final sty u (flat_stmts (wo_script w)) st' seg.
  Proof.
    intros Hg Hwf Hfresh Hu Hin sty st' Herr.
    destruct (doc_flat d rt w Hg Hwf) as (body & ws' & E & Hnd & Hseg & EF).
    unfold st' in *. clear st'. rewrite exec_script_flat, EF in *.
    exact (any_groups_exact rt (doc_settings d) cfg_normal (doc_vram_classes d) (doc_segments d)
                            (version_stmts rt) (tail_stmts rt d) body ws' env senv ext final
                            E Hnd Hseg (version_makes rt) (version_count rt) (makes_sec_tail rt d)
                            (fun n Hn => fresh_names d rt n Hfresh Hn) eq_refl u seg Hu Hin Herr).
  Qed.

  (* C05_document_offsets_between *)
  Theorem document_offsets_between d rt w u seg nl sec sym m1 m2 :
    gen_normal d rt = Ok w -> doc_link_wf d rt = true -> doc_outsecs_fresh d rt = true ->
    Forall (fun x => 0 <= u_size x) u ->
    In seg (included rt (doc_segments d)) ->
    let sty := linker_symbols_style (doc_settings d) in
    let L := flat_stmts (wo_script w) in
    let st' := exec_script env senv ext final (wo_script w) (init_state u) in
    let made := placed_between env senv ext final L (init_state u) (part_name seg nl) in
    ~ In (LForwardRef (alloc_name seg)) (l_errors st') ->
    In sec (part_sections seg nl) -> sym <> "."%string -> assigned_once_deep sym L = true ->
    made (segment_section_start sty (sg_name seg) sec) sym = Some m1 ->
    made sym (segment_section_end sty (sg_name seg) sec) = Some m2 ->
    OffsetBetween rt sty u st' made seg sec sym m1 m2.
  Proof.
    intros Hg Hwf Hfresh Hu Hin sty L st' made Herr Hsec Hdot Honce H1 H2.
    destruct (doc_flat d rt w Hg Hwf) as (body & ws' & E & Hnd & Hseg & EF).
    unfold assigned_once_deep in Honce. apply Nat.eqb_eq in Honce.
    unfold made, st', L in *. clear made st' L. rewrite exec_script_flat, EF in *.
    exact (any_offset_between rt (doc_settings d) cfg_normal (doc_vram_classes d) (doc_segments d)
                              (version_stmts rt) (tail_stmts rt d) body ws' env senv ext final
                              E Hnd Hseg (version_makes rt) (version_count rt) (makes_sec_tail rt d)
                              (fun n Hn => fresh_names d rt n Hfresh Hn) eq_refl u seg nl sec sym m1 m2
                              Hu Hin Herr Hsec Hdot Honce H1 H2).
  Qed.

  (* the main script of a partial build *)
  Theorem partial_groups_exact d rt p u seg :
    gen_partial d rt = Ok p -> doc_link_wf_partial d rt = true -> doc_outsecs_fresh d rt = true ->
    Forall (fun x => 0 <= u_size x) u ->
    In seg (included rt (doc_segments d)) ->
    let sty := linker_symbols_style (doc_settings d) in
    let st' := exec_script env senv ext final (wo_script (po_main p)) (init_state u) in
    ~ In (LForwardRef (alloc_name seg)) (l_errors st') ->
    SegmentGroupsExact env senv ext final sty u (flat_stmts (wo_script (po_main p))) st' seg.
  Proof.
    intros Hg Hwf Hfresh Hu Hin sty st' Herr.
    destruct (partial_exec d rt p Hg Hwf) as (folder & body & ws' & Ef & E & Hwc & _ & Ew & _).
    destruct (link_wf_stmts_inv _ _ _ _ _ _ _ Hwc) as (Hnd & Hseg & _ & _).
    assert (EF : flat_stmts (wo_script (po_main p)) =
                 (version_stmts rt ++ begin_sections_body (doc_settings d) ++ body ++
                  end_sections_body (doc_settings d) (doc_vram_classes d) ws' ++ tail_stmts rt d)%list).
    { rewrite Ew, flat_sections_script. repeat rewrite <- app_assoc. reflexivity. }
    unfold st' in *. clear st'. rewrite exec_script_flat, EF in *.
    assert (Hin' : In (partial_clone folder seg) (included rt (map (partial_clone folder) (doc_segments d)))).
    { rewrite included_clone. apply in_map. exact Hin. }
    assert (Hfr : forall n, In n (out_names (included rt (map (partial_clone folder) (doc_segments d)))) ->
                            ~ In n (aux_section_names (doc_settings d))).
    { intros n Hn. rewrite included_clone, out_names_clone in Hn. exact (fresh_names d rt n Hfresh Hn). }
    exact (any_groups_exact rt (doc_settings d) cfg_main_partial (doc_vram_classes d) _
                            (version_stmts rt) (tail_stmts rt d) body ws' env senv ext final
                            E Hnd Hseg (version_makes rt) (version_count rt) (makes_sec_tail rt d)
                            Hfr eq_refl u (partial_clone folder seg) Hu Hin' Herr).
  Qed.
End DocExact.

Theorem document_groups_exact_layout d rt w u ext0 seg :
  gen_normal d rt = Ok w -> doc_link_wf d rt = true -> doc_outsecs_fresh d rt = true ->
  Forall (fun x => 0 <= u_size x) u ->
  In seg (included rt (doc_segments d)) ->
  let sty := linker_symbols_style (doc_settings d) in
  let p1 := exec_script [] [] ext0 false (wo_script w) (init_state u) in
  let p2 := exec_script (l_syms p1) (l_secs p1) (ext0 ++ markers_of p1)%list false (wo_script w) (init_state u) in
  let st' := layout (wo_script w) u ext0 in
  ~ In (LForwardRef (alloc_name seg)) (l_errors st') ->
  SegmentGroupsExact (l_syms p2) (l_secs p2) (ext0 ++ markers_of p2)%list true sty u (flat_stmts (wo_script w)) st' seg.
Proof.
  intros Hg Hwf Hfresh Hu Hin sty p1 p2 st' Herr. unfold st', layout in *.
  apply (document_groups_exact _ _ _ _ d rt w u seg Hg Hwf Hfresh Hu Hin). exact Herr.
Qed.

Theorem document_offsets_between_layout d rt w u ext0 seg nl sec sym m1 m2 :
  gen_normal d rt = Ok w -> doc_link_wf d rt = true -> doc_outsecs_fresh d rt = true ->
  Forall (fun x => 0 <= u_size x) u ->
  In seg (included rt (doc_segments d)) ->
  let sty := linker_symbols_style (doc_settings d) in
  let L := flat_stmts (wo_script w) in
  let p1 := exec_script [] [] ext0 false (wo_script w) (init_state u) in
  let p2 := exec_script (l_syms p1) (l_secs p1) (ext0 ++ markers_of p1)%list false (wo_script w) (init_state u) in
  let st' := layout (wo_script w) u ext0 in
  let made := placed_between (l_syms p2) (l_secs p2) (ext0 ++ markers_of p2)%list true L (init_state u) (part_name seg nl) in
  ~ In (LForwardRef (alloc_name seg)) (l_errors st') ->
  In sec (part_sections seg nl) -> sym <> "."%string -> assigned_once_deep sym L = true ->
  made (segment_section_start sty (sg_name seg) sec) sym = Some m1 ->
  made sym (segment_section_end sty (sg_name seg) sec) = Some m2 ->
  OffsetBetween rt sty u st' made seg sec sym m1 m2.
Proof.
  intros Hg Hwf Hfresh Hu Hin sty L p1 p2 st' made Herr. unfold made, st', layout in *.
  apply (document_offsets_between _ _ _ _ d rt w u seg nl sec sym m1 m2 Hg Hwf Hfresh Hu Hin). exact Herr.
Qed.

Theorem partial_groups_exact_layout d rt p u ext0 seg :
  gen_partial d rt = Ok p -> doc_link_wf_partial d rt = true -> doc_outsecs_fresh d rt = true ->
  Forall (fun x => 0 <= u_size x) u ->
  In seg (included rt (doc_segments d)) ->
  let sty := linker_symbols_style (doc_settings d) in
  let script := wo_script (po_main p) in
  let p1 := exec_script [] [] ext0 false script (init_state u) in
  let p2 := exec_script (l_syms p1) (l_secs p1) (ext0 ++ markers_of p1)%list false script (init_state u) in
  let st' := layout script u ext0 in
  ~ In (LForwardRef (alloc_name seg)) (l_errors st') ->
  SegmentGroupsExact (l_syms p2) (l_secs p2) (ext0 ++ markers_of p2)%list true sty u (flat_stmts script) st' seg.
Proof.
  intros Hg Hwf Hfresh Hu Hin sty script p1 p2 st' Herr. unfold st', script, layout in *.
  apply (partial_groups_exact _ _ _ _ d rt p u seg Hg Hwf Hfresh Hu Hin). exact Herr.
Qed.
