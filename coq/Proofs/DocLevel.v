(* DocLevel: the per-segment link theorems of C03, C04, C05 and C10 composed over a whole generated
   document (multi-segment mode).  The work is the induction over the list of segments, with the
   frame facts (what later statements leave alone) that the per-segment theorems do not state. *)
From Slinky Require Import Model.Types Model.Generated Model.Runtime Model.Style Model.Script Model.Writer Model.LdSem.
From Slinky Require Import Spec.C17 Spec.C04 Spec.C03 Spec.C09 Spec.C05 Spec.C10 Spec.DocLevel.
From Slinky Require Import Proofs.C06 Proofs.C18 Proofs.C17 Proofs.LdLemmas Proofs.C09 Proofs.C05 Proofs.C04 Proofs.C03 Proofs.C10.
From Coq Require Import Lia ZArith.
Local Open Scope Z_scope.

(* ====================================================================== *)
(* 1. the shape of the script and what exec_script does with it            *)
(* ====================================================================== *)

Lemma seg_chain_of_fold rt stg classes segs : forall ws body ws',
  fold_out (add_segment rt stg cfg_normal classes) segs ws = Ok (body, ws') ->
  exists parts, seg_chain rt stg classes (included rt segs) ws parts ws' /\ body = List.concat parts.
Proof.
  induction segs as [|seg r IH]; intros ws body ws' H.
  - apply fold_out_nil in H. destruct H; subst. exists []. split; reflexivity.
  - apply fold_out_cons in H. destruct H as [s1 [ws1 [s2 [E1 [E2 E]]]]]. subst body.
    destruct (IH _ _ _ E2) as [parts [Hc Eb]]. unfold included. cbn [filter].
    destruct (should_emit rt (sg_conds seg)) eqn:Hc0.
    + exists (s1 :: parts). split.
      * cbn [seg_chain]. exists ws1. split; assumption.
      * cbn [List.concat]. rewrite Eb. reflexivity.
    + rewrite (add_segment_excluded _ _ _ _ _ _ Hc0) in E1. apply ok_inj in E1. inversion E1; subst s1 ws1.
      exists parts. split; [exact Hc | exact Eb].
Qed.

Lemma exec_script_cons env senv ext final s r st :
  exec_script env senv ext final (s :: r) st =
  exec_script env senv ext final r
    (match s with
     | SSections body => run env senv ext final body st
     | _ => exec_top_stmt env senv ext final st s
     end).
Proof. reflexivity. Qed.

Lemma exec_script_flat env senv ext final script : forall st,
  exec_script env senv ext final script st = run env senv ext final (flat_stmts script) st.
Proof.
  induction script as [|s r IH]; intro st; [reflexivity|].
  rewrite exec_script_cons, IH.
  change (flat_stmts (s :: r)) with ((match s with SSections b => b | _ => [s] end) ++ flat_stmts r)%list.
  rewrite run_app. destruct s; reflexivity.
Qed.

Definition plain_top (s : stmt) : Prop := match s with SSections _ => False | _ => True end.

Lemma flat_plain l : Forall plain_top l -> flat_stmts l = l.
Proof.
  induction 1 as [|s l Hs Hl IH]; [reflexivity|].
  change (flat_stmts (s :: l)) with ((match s with SSections b => b | _ => [s] end) ++ flat_stmts l)%list.
  rewrite IH. destruct s; try reflexivity. destruct Hs.
Qed.

Lemma flat_app a b : flat_stmts (a ++ b) = (flat_stmts a ++ flat_stmts b)%list.
Proof. apply flat_map_app. Qed.

Lemma plain_tail rt d : Forall plain_top (tail_stmts rt d).
Proof.
  unfold tail_stmts, entry_stmts, assignment_stmts, required_stmts, assert_stmts.
  fa.
  - destruct (doc_entry d); repeat constructor.
  - destruct (doc_symbol_assignments d); [constructor|]. constructor; [exact I|].
    apply Forall_flat_map_intro. intro x0. destruct (should_emit rt (sa_conds x0)); repeat constructor.
  - destruct (doc_required_symbols d); [constructor|]. constructor; [exact I|].
    apply Forall_flat_map_intro. intro x0. destruct (should_emit rt (rq_conds x0)); repeat constructor.
  - destruct (doc_asserts d); [constructor|]. constructor; [exact I|].
    apply Forall_flat_map_intro. intro x0. destruct (should_emit rt (ae_conds x0)); repeat constructor.
Qed.

Lemma plain_version rt : Forall plain_top (version_stmts rt).
Proof. unfold version_stmts. destruct (rt_emit_version_comment rt); repeat constructor. Qed.

Lemma run_version env senv ext final rt st : run env senv ext final (version_stmts rt) st = st.
Proof. unfold version_stmts. destruct (rt_emit_version_comment rt); reflexivity. Qed.

(* the statements LdSem executes for a script "version; SECTIONS { B }; tail" *)
Lemma exec_sections_script env senv ext final rt d B st :
  exec_script env senv ext final (version_stmts rt ++ [SSections B] ++ tail_stmts rt d) st =
  run env senv ext final (tail_stmts rt d) (run env senv ext final B st).
Proof.
  rewrite exec_script_flat, !flat_app, (flat_plain _ (plain_version rt)), (flat_plain _ (plain_tail rt d)).
  change (flat_stmts [SSections B]) with (B ++ [])%list. rewrite app_nil_r, !run_app, run_version. reflexivity.
Qed.

Theorem script_shape d rt w :
  gen_normal d rt = Ok w -> single_segment_mode (doc_settings d) = false ->
  let stg := doc_settings d in
  let classes := doc_vram_classes d in
  exists parts ws',
    seg_chain rt stg classes (included rt (doc_segments d)) ws0 parts ws' /\
    fold_out (add_segment rt stg cfg_normal classes) (doc_segments d) ws0 = Ok (List.concat parts, ws') /\
    wo_script w = (version_stmts rt ++
                   [SSections (begin_sections_body stg ++ List.concat parts ++ end_sections_body stg classes ws')] ++
                   tail_stmts rt d)%list /\
    forall env senv ext final st,
      exec_script env senv ext final (wo_script w) st =
      run env senv ext final (tail_stmts rt d)
          (run env senv ext final
               (begin_sections_body stg ++ List.concat parts ++ end_sections_body stg classes ws') st).
Proof.
  intros H Hm stg classes. apply gen_normal_inv in H. destruct H as [s [ws' [E Hw]]].
  apply add_all_segments_inv in E. destruct E as [[Hs _] | [_ [body [E Es]]]]; [unfold stg in *; congruence|].
  destruct (seg_chain_of_fold _ _ _ _ _ _ _ E) as [parts [Hc Eb]]. subst body s w.
  exists parts, ws'. split; [exact Hc|]. split; [exact E|]. split; [reflexivity|].
  intros env senv ext final st. cbn [wo_script]. apply exec_sections_script.
Qed.

(* ====================================================================== *)
(* well-formedness: from the boolean to the facts the proofs use           *)
(* ====================================================================== *)

Lemma mem_str_in x l : mem_str x l = true <-> In x l.
Proof.
  induction l as [|y r IH]; cbn [mem_str In]; [split; [discriminate | intros []]|].
  destruct (String.eqb x y) eqn:E.
  - apply String.eqb_eq in E. subst. split; auto.
  - apply String.eqb_neq in E. rewrite IH. split; [auto | intros [H|H]; [congruence | exact H]].
Qed.

Lemma nodup_str_NoDup l : nodup_str l = true -> NoDup l.
Proof.
  induction l as [|x r IH]; cbn [nodup_str]; intro H; [constructor|].
  apply andb_true_iff in H. destruct H as [H1 H2]. constructor; [|auto].
  intro Hin. apply mem_str_in in Hin. rewrite Hin in H1. discriminate.
Qed.

Section WfFacts.
  Variables (d : document) (rt : runtime).
  Let stg := doc_settings d.
  Let sty := linker_symbols_style stg.
  Let classes := doc_vram_classes d.
  Let segs := included rt (doc_segments d).

  Lemma doc_link_wf_inv :
    doc_link_wf d rt = true ->
    exists body ws',
      fold_out (add_segment rt stg cfg_normal classes) (doc_segments d) ws0 = Ok (body, ws') /\
      single_segment_mode stg = false /\
      NoDup (out_names segs) /\
      (forall seg, In seg segs ->
         seg_link_wf sty (begin_sections_body stg ++ body ++
                          end_sections_body stg classes ws' ++ tail_stmts rt d) seg = true) /\
      (forall cn, In cn (used_classes rt (doc_segments d)) ->
         class_link_wf sty body (end_sections_body stg classes ws' ++ tail_stmts rt d) cn = true) /\
      no_assign "__romPos" (tail_stmts rt d) = true.
  Proof.
    unfold doc_link_wf. fold stg sty classes segs.
    destruct (fold_out (add_segment rt stg cfg_normal classes) (doc_segments d) ws0) as [[body ws']|e];
      [|discriminate].
    intro H. repeat (apply andb_true_iff in H; destruct H as [H ?H]).
    exists body, ws'. split; [reflexivity|].
    split; [apply negb_true_iff; assumption|].
    split; [apply nodup_str_NoDup; assumption|].
    split; [apply forallb_forall; assumption|].
    split; [apply forallb_forall; assumption|assumption].
  Qed.

  (* the script of a well-formed document, and what exec_script does with it *)
  Lemma doc_exec w :
    gen_normal d rt = Ok w -> doc_link_wf d rt = true ->
    exists body ws',
      fold_out (add_segment rt stg cfg_normal classes) (doc_segments d) ws0 = Ok (body, ws') /\
      NoDup (out_names segs) /\
      (forall seg, In seg segs ->
         seg_link_wf sty (begin_sections_body stg ++ body ++
                          end_sections_body stg classes ws' ++ tail_stmts rt d) seg = true) /\
      (forall cn, In cn (used_classes rt (doc_segments d)) ->
         class_link_wf sty body (end_sections_body stg classes ws' ++ tail_stmts rt d) cn = true) /\
      no_assign "__romPos" (tail_stmts rt d) = true /\
      forall env senv ext final st,
        exec_script env senv ext final (wo_script w) st =
        run env senv ext final
            (begin_sections_body stg ++ body ++ end_sections_body stg classes ws' ++ tail_stmts rt d) st.
  Proof.
    intros Hg Hwf. destruct (doc_link_wf_inv Hwf) as (body & ws' & E & Hm & Hnd & Hseg & Hcls & Hrom).
    exists body, ws'. repeat (split; [assumption|]).
    intros env senv ext final st.
    apply gen_normal_inv in Hg. destruct Hg as [s [ws2 [E2 Hw]]].
    apply add_all_segments_inv in E2. destruct E2 as [[Hs _] | [_ [body2 [E2 Es]]]]; [unfold stg in *; congruence|].
    fold stg classes in E2. rewrite E in E2. apply ok_inj in E2. inversion E2; subst body2 ws2. subst s w.
    cbn [wo_script]. rewrite exec_sections_script.
    rewrite <- run_app. repeat rewrite <- app_assoc. reflexivity.
  Qed.
End WfFacts.

(* ====================================================================== *)
(* which symbols an included segment assigns                               *)
(* ====================================================================== *)

Ltac in_solve :=
  match goal with
  | |- In _ (_ ++ _) => apply in_or_app; ((left; in_solve) || (right; in_solve))
  | |- In _ (_ :: _) => (left; reflexivity) || (right; in_solve)
  end.

Definition vram_assigned (sty : style) (name : string) (l : list stmt) : Prop :=
  existsb (assigns (segment_vram_start sty name)) l = true /\
  existsb (assigns (segment_vram_end sty name)) l = true /\
  existsb (assigns (segment_vram_size sty name)) l = true.

Definition vram_untouched (sty : style) (name : string) (l : list stmt) : Prop :=
  existsb (assigns (segment_vram_start sty name)) l = false /\
  existsb (assigns (segment_vram_end sty name)) l = false /\
  existsb (assigns (segment_vram_size sty name)) l = false.

Lemma vnd_app_l sty name a b :
  vram_names_distinct sty name (a ++ b) = true -> vram_assigned sty name a ->
  vram_names_distinct sty name a = true /\ vram_untouched sty name b.
Proof.
  unfold vram_names_distinct. intros H [A1 [A2 A3]].
  apply andb_true_iff in H. destruct H as [H H3]. apply andb_true_iff in H. destruct H as [H1 H2].
  destruct (defined_once_app_l _ _ _ H1 A1) as [D1 U1]. destruct (defined_once_app_l _ _ _ H2 A2) as [D2 U2].
  destruct (defined_once_app_l _ _ _ H3 A3) as [D3 U3]. rewrite D1, D2, D3. repeat split; assumption.
Qed.

Lemma vnd_app_r sty name a b :
  vram_names_distinct sty name (a ++ b) = true -> vram_assigned sty name b ->
  vram_names_distinct sty name b = true /\ vram_untouched sty name a.
Proof.
  unfold vram_names_distinct. intros H [A1 [A2 A3]].
  apply andb_true_iff in H. destruct H as [H H3]. apply andb_true_iff in H. destruct H as [H1 H2].
  destruct (defined_once_app_r _ _ _ H1 A1) as [D1 U1]. destruct (defined_once_app_r _ _ _ H2 A2) as [D2 U2].
  destruct (defined_once_app_r _ _ _ H3 A3) as [D3 U3]. rewrite D1, D2, D3. repeat split; assumption.
Qed.

Lemma vram_assigned_add_segment rt stg cfg classes seg ws s ws' :
  add_segment rt stg cfg classes seg ws = Ok (s, ws') -> should_emit rt (sg_conds seg) = true ->
  vram_assigned (linker_symbols_style stg) (sg_name seg) s.
Proof.
  intros H Hc. apply add_segment_inv in H.
  destruct H as [[Hc' _] | [_ [cls [ws1 [s1 [ws2 [s2 [Ec [E1 [E2 E]]]]]]]]]]; [congruence|]. subst s.
  assert (Hself : forall x e, assigns x (linker_symbol x e) = true) by (intros; apply String.eqb_refl).
  unfold seg_head, seg_foot, sym_end_size. cbv zeta. repeat split.
  - eapply existsb_in_true; [|apply (Hself _ (EAddr ("." ++ sg_name seg)%string))]. in_solve.
  - eapply existsb_in_true; [|apply (Hself _ EDot)]. in_solve.
  - eapply existsb_in_true; [|apply Hself]. in_solve.
Qed.

Lemma vram_assigned_app_l sty name a b : vram_assigned sty name a -> vram_assigned sty name (a ++ b).
Proof. intros [A1 [A2 A3]]. unfold vram_assigned. rewrite !existsb_app, A1, A2, A3. auto. Qed.

Lemma vram_assigned_app_r sty name a b : vram_assigned sty name b -> vram_assigned sty name (a ++ b).
Proof. intros [A1 [A2 A3]]. unfold vram_assigned. rewrite !existsb_app, A1, A2, A3, !orb_true_r. auto. Qed.

Lemma vram_assigned_fold rt stg cfg classes segs : forall ws body ws' seg,
  fold_out (add_segment rt stg cfg classes) segs ws = Ok (body, ws') ->
  In seg (included rt segs) -> vram_assigned (linker_symbols_style stg) (sg_name seg) body.
Proof.
  induction segs as [|x r IH]; intros ws body ws' seg H Hin; [contradiction|].
  apply fold_out_cons in H. destruct H as [s1 [ws1 [s2 [E1 [E2 E]]]]]. subst body.
  unfold included in Hin. cbn [filter] in Hin. destruct (should_emit rt (sg_conds x)) eqn:Hc.
  - destruct Hin as [Hin|Hin].
    + subst x. apply vram_assigned_app_l. eapply vram_assigned_add_segment; eassumption.
    + apply vram_assigned_app_r. eapply IH; eassumption.
  - apply vram_assigned_app_r. eapply IH; eassumption.
Qed.

(* ====================================================================== *)
(* 2 / 3. the chains over the list of segments                             *)
(* ====================================================================== *)

Section DocChains.
  Variables (env : list (string * Z)) (senv : list osec) (ext : list (string * Z)) (final : bool).
  Notation runl := (run env senv ext final).

  (* ---------- ROM: C04_chain with the error hypothesis restricted to the sections it concerns ---------- *)

  Lemma rom_chain_fold' rt stg cfg classes segs : forall ws body ws' st0 r,
    fold_out (add_segment rt stg cfg classes) segs ws = Ok (body, ws') ->
    let sty := linker_symbols_style stg in
    val st0 "__romPos" = Some r ->
    (forall seg, In seg (included rt segs) -> find_sec (alloc_name seg) (l_secs st0) = None) ->
    NoDup (out_names (included rt segs)) ->
    (forall seg, In seg (included rt segs) -> rom_names_distinct sty (sg_name seg) body = true) ->
    (forall seg, In seg (included rt segs) ->
                 ~ In (LForwardRef (alloc_name seg)) (l_errors (runl body st0))) ->
    sizes_ok st0 ->
    RomChain sty (runl body st0) r (included rt segs).
  Proof.
    induction segs as [|seg rest IH]; intros ws body ws' st0 r H sty Hr Hfresh Hnd Hdist Herr Hsz.
    - apply fold_out_nil in H. destruct H; subst. exact Hr.
    - apply fold_out_cons in H. destruct H as [s1 [ws1 [body_r [E1 [E2 E]]]]]. subst body.
      unfold included in *. cbn [filter] in *. destruct (should_emit rt (sg_conds seg)) eqn:Hc.
      + pose proof (rom_assigned_add_segment _ _ _ _ _ _ _ _ E1 Hc) as Hass.
        destruct (rnd_app_l _ _ _ _ (Hdist seg (or_introl eq_refl)) Hass) as [Hd1 [U1 [U2 U3]]].
        rewrite run_app in *.
        set (st1 := runl s1 st0) in *.
        destruct (segment_rom env senv ext final rt stg cfg classes seg ws s1 ws1 st0 r E1 Hc Hr
                    (Hfresh seg (or_introl eq_refl)) Hd1) as [o [Ho [Hl [Hn [Hz Hv]]]]].
        { fold st1. intro Hin. apply (Herr seg (or_introl eq_refl)). apply run_errors_in. exact Hin. }
        { exact Hsz. }
        cbv zeta in Hv. destruct Hv as [V0 [V1 [V2 V3]]].
        fold st1 sty in Ho, V0, V1, V2, V3.
        cbn [RomChain]. exists o. split; [apply run_find_sec; exact Ho|].
        split; [exact Hl|]. split; [exact Hn|]. split; [exact Hz|].
        split; [unfold val; rewrite run_syms; assumption|].
        split; [unfold val; rewrite run_syms; assumption|].
        split; [unfold val; rewrite run_syms; assumption|].
        cbn [out_names flat_map app] in Hnd. inversion Hnd as [|x l Hn1 Hnd1]; subst x l.
        inversion Hnd1 as [|x l Hn2 Hnd2]; subst x l.
        apply (IH ws1 body_r ws' st1); try assumption.
        * intros seg' Hin. apply run_find_sec_none; [apply Hfresh; right; assumption|].
          rewrite (makes_sec_add_segment _ _ _ _ _ _ _ _ E1), Hc.
          assert (Hin' : In (alloc_name seg') (out_names (filter (fun s => should_emit rt (sg_conds s)) rest))).
          { unfold out_names. apply in_flat_map. exists seg'. split; [assumption|left; reflexivity]. }
          intros [Ea|[Ea|[]]].
          -- apply Hn1. right. rewrite Ea. exact Hin'.
          -- apply Hn2. rewrite Ea. exact Hin'.
        * intros seg' Hin.
          apply (rnd_app_r _ _ s1 body_r (Hdist seg' (or_intror Hin))).
          eapply rom_assigned_fold; eassumption.
        * intros seg' Hin. apply Herr. right. exact Hin.
        * unfold st1. apply run_remaining_Forall. exact Hsz.
      + rewrite (add_segment_excluded _ _ _ _ _ _ Hc) in E1. apply ok_inj in E1. inversion E1; subst s1 ws1.
        cbn [app] in *. eapply IH; eassumption.
  Qed.

  (* ---------- VRAM ---------- *)

  Lemma VramChain_frame sty tail segs : forall st dt,
    (forall seg, In seg segs -> vram_untouched sty (sg_name seg) tail) ->
    VramChain sty senv st dt segs -> VramChain sty senv (runl tail st) dt segs.
  Proof.
    induction segs as [|seg rest IH]; intros st dt Hun H; [exact I|].
    cbn [VramChain] in *. cbv zeta in *.
    destruct H as (o1 & o2 & A2 & F1 & F2 & N1 & Z1 & N2 & C2 & Z2 & V2 & L2 & VE & VZ & VS & DS & Hrest).
    destruct (Hun seg (or_introl eq_refl)) as [U1 [U2 U3]].
    exists o1, o2, A2.
    split; [apply run_find_sec; exact F1|]. split; [apply run_find_sec; exact F2|].
    split; [exact N1|]. split; [exact Z1|]. split; [exact N2|]. split; [exact C2|]. split; [exact Z2|].
    split; [exact V2|]. split; [exact L2|].
    split; [unfold val; rewrite run_syms; assumption|].
    split.
    { intros v Hv. unfold val in *. rewrite run_syms in Hv by assumption. rewrite run_syms by assumption.
      apply VZ. exact Hv. }
    split.
    { intros o Ho. unfold val. rewrite run_syms by assumption. apply VS. exact Ho. }
    split; [exact DS|].
    apply IH; [intros s Hs; apply Hun; right; exact Hs | exact Hrest].
  Qed.

  Lemma find_sec_two name o1 o2 :
    find_sec name [o1; o2] =
    if String.eqb (os_name o1) name then Some o1 else if String.eqb (os_name o2) name then Some o2 else None.
  Proof. reflexivity. Qed.

  Lemma vram_chain_fold rt stg cfg classes segs : forall ws body ws' st0,
    fold_out (add_segment rt stg cfg classes) segs ws = Ok (body, ws') ->
    let sty := linker_symbols_style stg in
    (forall n, In n (out_names (included rt segs)) -> find_sec n (l_secs st0) = None) ->
    NoDup (out_names (included rt segs)) ->
    (forall seg, In seg (included rt segs) -> vram_names_distinct sty (sg_name seg) body = true) ->
    (forall seg, In seg (included rt segs) ->
                 ~ In (LForwardRef (alloc_name seg)) (l_errors (runl body st0))) ->
    sizes_ok st0 ->
    exists secs,
      l_secs (runl body st0) = (l_secs st0 ++ secs)%list /\
      map os_name secs = out_names (included rt segs) /\
      VramChain sty senv (runl body st0) (l_dot st0) (included rt segs) /\
      sizes_ok (runl body st0).
  Proof.
    induction segs as [|seg rest IH]; intros ws body ws' st0 H sty Hfresh Hnd Hdist Herr Hsz.
    - apply fold_out_nil in H. destruct H; subst. exists []. rewrite app_nil_r. cbn. auto.
    - apply fold_out_cons in H. destruct H as [s1 [ws1 [body_r [E1 [E2 E]]]]]. subst body.
      unfold included in *. cbn [filter] in *. destruct (should_emit rt (sg_conds seg)) eqn:Hc.
      + pose proof (vram_assigned_add_segment _ _ _ _ _ _ _ _ E1 Hc) as Hass.
        destruct (vnd_app_l _ _ _ _ (Hdist seg (or_introl eq_refl)) Hass) as [Hd1 [U1 [U2 U3]]].
        rewrite run_app in *.
        set (st1 := runl s1 st0) in *.
        destruct (segment_vram env senv ext final rt stg cfg classes seg ws s1 ws1 st0 E1 Hc Hd1)
          as (cls & wsx & body1 & o1 & o2 & A2 & Ec & Hrest).
        { fold st1. intro Hin. apply (Herr seg (or_introl eq_refl)). apply run_errors_in. exact Hin. }
        { exact Hsz. }
        cbv zeta in Hrest.
        destruct Hrest as (Hdot & Hvma & Hsecs & N1 & L1 & Z1 & N2 & L2 & C2 & Z2 & V2 & LE2 & Hd' & VE & VZ & VS).
        fold st1 sty in Hsecs, Hd', VE, VZ, VS.
        cbn [out_names flat_map app] in Hnd, Hfresh. inversion Hnd as [|x l Hn1 Hnd1]; subst x l.
        inversion Hnd1 as [|x l Hn2 Hnd2]; subst x l.
        assert (Hsz1 : sizes_ok st1) by (unfold st1; apply run_remaining_Forall; exact Hsz).
        assert (Hne : String.eqb (alloc_name seg) (noload_name seg) = false).
        { apply String.eqb_neq. intro Ea. apply Hn1. left. symmetry. exact Ea. }
        destruct (IH ws1 body_r ws' st1 E2) as [secs_r [Hs_r [Hn_r [Hchain Hsz']]]].
        * intros n Hin. rewrite Hsecs, find_sec_app_none by (apply Hfresh; right; right; exact Hin).
          rewrite find_sec_two, N1, N2.
          destruct (String.eqb (alloc_name seg) n) eqn:Ea.
          { apply String.eqb_eq in Ea. exfalso. apply Hn1. right. rewrite Ea. exact Hin. }
          destruct (String.eqb (noload_name seg) n) eqn:Eb; [|reflexivity].
          apply String.eqb_eq in Eb. exfalso. apply Hn2. rewrite Eb. exact Hin.
        * exact Hnd2.
        * intros seg' Hin.
          apply (vnd_app_r _ _ s1 body_r (Hdist seg' (or_intror Hin))).
          eapply vram_assigned_fold; eassumption.
        * intros seg' Hin. apply Herr. right. exact Hin.
        * exact Hsz1.
        * exists (o1 :: o2 :: secs_r).
          split; [rewrite Hs_r, Hsecs, <- app_assoc; reflexivity|].
          split; [cbn [map]; rewrite N1, N2, Hn_r; reflexivity|].
          split; [|exact Hsz'].
          cbn [VramChain]. cbv zeta. exists o1, o2, A2.
          assert (Hf0 : find_sec (alloc_name seg) (l_secs st0) = None) by (apply Hfresh; left; reflexivity).
          assert (Hf0' : find_sec (noload_name seg) (l_secs st0) = None)
            by (apply Hfresh; right; left; reflexivity).
          split.
          { apply run_find_sec. rewrite Hsecs, find_sec_app_none by exact Hf0.
            rewrite find_sec_two, N1, String.eqb_refl. reflexivity. }
          split.
          { apply run_find_sec. rewrite Hsecs, find_sec_app_none by exact Hf0'.
            rewrite find_sec_two, N1, N2, Hne, String.eqb_refl. reflexivity. }
          split; [exact L1|]. split; [exact Z1|]. split; [exact L2|]. split; [exact C2|]. split; [exact Z2|].
          split; [exact V2|]. split; [exact LE2|].
          split; [unfold val; rewrite run_syms; assumption|].
          split.
          { intros v Hv. unfold val in *. rewrite run_syms in Hv by assumption. rewrite run_syms by assumption.
            apply VZ. exact Hv. }
          split.
          { intros o Ho. unfold val. rewrite run_syms by assumption. apply VS.
            unfold sec_lookup. rewrite Hf0. exact Ho. }
          split.
          { intros F1 F2 F3 F4. unfold segment_addr in Hvma. rewrite F1, F2, F3, F4 in Hvma.
            cbn [outsec_vma] in Hvma. apply ok_inj in Hvma. rewrite Hdot in Hvma.
            eexists. symmetry. exact Hvma. }
          rewrite <- Hd'. exact Hchain.
      + rewrite (add_segment_excluded _ _ _ _ _ _ Hc) in E1. apply ok_inj in E1. inversion E1; subst s1 ws1.
        cbn [app] in *. eapply IH; eassumption.
  Qed.

  Lemma VramChain_noload sty st segs : forall dt,
    VramChain sty senv st dt segs -> NoloadSections st segs.
  Proof.
    induction segs as [|seg rest IH]; intros dt H; [constructor|].
    cbn [VramChain] in H. cbv zeta in H.
    destruct H as (o1 & o2 & A2 & F1 & F2 & N1 & Z1 & N2 & C2 & Z2 & V2 & L2 & VE & VZ & VS & DS & Hrest).
    constructor; [exists o2; auto | eapply IH; exact Hrest].
  Qed.

  (* ---------- the whole script of a well-formed document ---------- *)

  Lemma seg_wf_parts sty l seg :
    seg_link_wf sty l seg = true ->
    rom_names_distinct sty (sg_name seg) l = true /\ vram_names_distinct sty (sg_name seg) l = true /\
    NoDup (seg_sections seg) /\
    (forall sec, In sec (seg_sections seg) -> section_names_once sty (sg_name seg) l sec = true).
  Proof.
    unfold seg_link_wf. intro H.
    apply andb_true_iff in H. destruct H as [H H4]. apply andb_true_iff in H. destruct H as [H H3].
    apply andb_true_iff in H. destruct H as [H1 H2].
    split; [exact H1|]. split; [exact H2|]. split; [apply nodup_str_NoDup; exact H3|].
    apply forallb_forall. exact H4.
  Qed.

  Lemma sizes_ok_init u : Forall (fun x => 0 <= u_size x) u -> sizes_ok (init_state u).
  Proof. intro H. exact H. Qed.

  Theorem document_chains d rt w u :
    gen_normal d rt = Ok w -> doc_link_wf d rt = true ->
    Forall (fun x => 0 <= u_size x) u ->
    let sty := linker_symbols_style (doc_settings d) in
    let segs := included rt (doc_segments d) in
    let st' := exec_script env senv ext final (wo_script w) (init_state u) in
    (forall seg, In seg segs -> ~ In (LForwardRef (alloc_name seg)) (l_errors st')) ->
    RomChain sty st' 0 segs /\
    VramChain sty senv st' 0 segs /\
    exists secs rest, l_secs st' = (secs ++ rest)%list /\ map os_name secs = out_names segs.
  Proof.
    intros Hg Hwf Hu sty segs st' Herr.
    destruct (doc_exec d rt w Hg Hwf) as (body & ws' & E & Hnd & Hseg & _ & Hrom & Hexec).
    set (stg := doc_settings d) in *. set (classes := doc_vram_classes d) in *.
    set (fin := (end_sections_body stg classes ws' ++ tail_stmts rt d)%list) in *.
    unfold st' in *. rewrite Hexec in *. clear Hexec st'.
    rewrite !run_app in *.
    destruct (run_begin env senv ext final stg (init_state u)) as [B1 [B2 [B3 [B4 B5]]]].
    set (stb := runl (begin_sections_body stg) (init_state u)) in *.
    (* the symbols of each segment: once in the body, never afterwards *)
    assert (Hrom2 : forall seg, In seg segs ->
                      rom_names_distinct sty (sg_name seg) body = true /\ rom_untouched sty (sg_name seg) fin).
    { intros seg Hin. destruct (seg_wf_parts _ _ _ (Hseg seg Hin)) as [D _].
      pose proof (rom_assigned_fold _ _ _ _ _ _ _ _ _ E Hin) as Hass.
      destruct (rnd_app_r _ _ _ _ D (rom_assigned_app_l _ _ _ _ Hass)) as [D' _].
      apply (rnd_app_l _ _ _ _ D' Hass). }
    assert (Hvram2 : forall seg, In seg segs ->
                      vram_names_distinct sty (sg_name seg) body = true /\ vram_untouched sty (sg_name seg) fin).
    { intros seg Hin. destruct (seg_wf_parts _ _ _ (Hseg seg Hin)) as [_ [D _]].
      pose proof (vram_assigned_fold _ _ _ _ _ _ _ _ _ E Hin) as Hass.
      destruct (vnd_app_r _ _ _ _ D (vram_assigned_app_l _ _ _ _ Hass)) as [D' _].
      apply (vnd_app_l _ _ _ _ D' Hass). }
    assert (Herr' : forall seg, In seg segs -> ~ In (LForwardRef (alloc_name seg)) (l_errors (runl body stb))).
    { intros seg Hin Hbad. apply (Herr seg Hin). apply run_errors_in. exact Hbad. }
    assert (Hszb : sizes_ok stb) by (unfold sizes_ok; rewrite B3; exact Hu).
    assert (Hfin_rom : existsb (assigns "__romPos") fin = false).
    { unfold fin. rewrite existsb_app. apply orb_false_iff. split.
      - apply existsb_false_Forall. apply nf_end_sections; solve [reflexivity | discriminate].
      - apply negb_true_iff. exact Hrom. }
    split; [|split].
    - apply RomChain_frame; [exact Hfin_rom | intros seg Hin; apply (Hrom2 seg Hin) |].
      eapply rom_chain_fold'; try eassumption.
      + intros seg Hin. rewrite B2. reflexivity.
      + intros seg Hin. apply (Hrom2 seg Hin).
    - destruct (vram_chain_fold rt stg cfg_normal classes (doc_segments d) ws0 body ws' stb E)
        as [secs [_ [_ [Hchain _]]]]; try assumption.
      + intros n Hin. rewrite B2. reflexivity.
      + intros seg Hin. apply (Hvram2 seg Hin).
      + rewrite B5 in Hchain. apply VramChain_frame; [intros seg Hin; apply (Hvram2 seg Hin) | exact Hchain].
    - destruct (vram_chain_fold rt stg cfg_normal classes (doc_segments d) ws0 body ws' stb E)
        as [secs [Hsecs [Hnames _]]]; try assumption.
      + intros n Hin. rewrite B2. reflexivity.
      + intros seg Hin. apply (Hvram2 seg Hin).
      + destruct (run_secs env senv ext final fin (runl body stb)) as [new [En _]].
        exists secs, new. rewrite En, Hsecs, B2. split; [reflexivity | exact Hnames].
  Qed.
End DocChains.

(* C04_document_rom_chain *)
Theorem document_rom_chain env senv ext final d rt w u :
  gen_normal d rt = Ok w -> doc_link_wf d rt = true ->
  Forall (fun x => 0 <= u_size x) u ->
  let sty := linker_symbols_style (doc_settings d) in
  let segs := included rt (doc_segments d) in
  let st' := exec_script env senv ext final (wo_script w) (init_state u) in
  (forall seg, In seg segs -> ~ In (LForwardRef (alloc_name seg)) (l_errors st')) ->
  RomChain sty st' 0 segs /\ NoloadSections st' segs.
Proof.
  intros Hg Hwf Hu sty segs st' Herr.
  destruct (document_chains env senv ext final d rt w u Hg Hwf Hu Herr) as [R [V _]].
  split; [exact R | eapply VramChain_noload; exact V].
Qed.

Theorem document_rom_chain_layout d rt w u ext0 :
  gen_normal d rt = Ok w -> doc_link_wf d rt = true ->
  Forall (fun x => 0 <= u_size x) u ->
  let sty := linker_symbols_style (doc_settings d) in
  let segs := included rt (doc_segments d) in
  let st' := layout (wo_script w) u ext0 in
  (forall seg, In seg segs -> ~ In (LForwardRef (alloc_name seg)) (l_errors st')) ->
  RomChain sty st' 0 segs /\ NoloadSections st' segs.
Proof. intros Hg Hwf Hu sty segs st'. unfold st', layout. apply document_rom_chain; assumption. Qed.

(* C03_document_vram *)
Theorem document_vram env senv ext final d rt w u :
  gen_normal d rt = Ok w -> doc_link_wf d rt = true ->
  Forall (fun x => 0 <= u_size x) u ->
  let sty := linker_symbols_style (doc_settings d) in
  let segs := included rt (doc_segments d) in
  let st' := exec_script env senv ext final (wo_script w) (init_state u) in
  (forall seg, In seg segs -> ~ In (LForwardRef (alloc_name seg)) (l_errors st')) ->
  VramChain sty senv st' 0 segs /\
  exists secs rest, l_secs st' = (secs ++ rest)%list /\ map os_name secs = out_names segs.
Proof.
  intros Hg Hwf Hu sty segs st' Herr.
  destruct (document_chains env senv ext final d rt w u Hg Hwf Hu Herr) as [_ [V S]]. split; assumption.
Qed.

Theorem document_vram_layout d rt w u ext0 :
  gen_normal d rt = Ok w -> doc_link_wf d rt = true ->
  Forall (fun x => 0 <= u_size x) u ->
  let sty := linker_symbols_style (doc_settings d) in
  let segs := included rt (doc_segments d) in
  let p1 := exec_script [] [] ext0 false (wo_script w) (init_state u) in
  let p2 := exec_script (l_syms p1) (l_secs p1) (ext0 ++ markers_of p1)%list false (wo_script w) (init_state u) in
  let st' := layout (wo_script w) u ext0 in
  (forall seg, In seg segs -> ~ In (LForwardRef (alloc_name seg)) (l_errors st')) ->
  VramChain sty (l_secs p2) st' 0 segs /\
  exists secs rest, l_secs st' = (secs ++ rest)%list /\ map os_name secs = out_names segs.
Proof. intros Hg Hwf Hu sty segs p1 p2 st'. unfold st', layout. apply document_vram; assumption. Qed.

(* ====================================================================== *)
(* 5. vram classes over the whole document                                 *)
(* ====================================================================== *)

Lemma in_keep_first x l : In x l -> In x (keep_first String.eqb l).
Proof.
  induction l as [|y r IH]; intro H; [contradiction|]. cbn [keep_first].
  destruct (String.eqb y x) eqn:E.
  - apply String.eqb_eq in E. left. exact E.
  - right. apply filter_In. split.
    + apply IH. destruct H as [H|H]; [apply String.eqb_neq in E; congruence | exact H].
    + rewrite E. reflexivity.
Qed.

Lemma class_get_in classes cn c : class_get classes cn = Some c -> In cn (map vc_name classes).
Proof.
  unfold class_get. intro H. apply find_some in H. destruct H as [Hin E]. apply String.eqb_eq in E.
  subst cn. apply in_map. apply in_rev. exact Hin.
Qed.

Lemma fold_class_declared rt stg cfg classes segs : forall ws body ws' seg cn,
  fold_out (add_segment rt stg cfg classes) segs ws = Ok (body, ws') ->
  In seg (included rt segs) -> sg_vram_class seg = Some cn -> exists c, class_get classes cn = Some c.
Proof.
  induction segs as [|x r IH]; intros ws body ws' seg cn H Hin Hcn; [contradiction|].
  apply fold_out_cons in H. destruct H as [s1 [ws1 [s2 [E1 [E2 E]]]]].
  unfold included in Hin. cbn [filter] in Hin. destruct (should_emit rt (sg_conds x)) eqn:Hc.
  - destruct Hin as [Hin|Hin].
    + subst x. destruct (segment_class _ _ _ _ _ _ _ _ E1 Hc) as [_ [_ [_ Hget]]]. apply Hget. exact Hcn.
    + eapply IH; eassumption.
  - eapply IH; eassumption.
Qed.

Lemma used_classes_in rt segs cn :
  In cn (used_classes rt segs) <-> exists seg, In seg (included rt segs) /\ sg_vram_class seg = Some cn.
Proof.
  unfold used_classes. rewrite in_flat_map. split; intros [seg [Hin H]]; exists seg; split; try assumption.
  - destruct (sg_vram_class seg) as [c|]; [|contradiction]. destruct H as [H|[]]. subst. reflexivity.
  - rewrite H. left. reflexivity.
Qed.

Lemma used_names_class rt segs cn : In cn (used_classes rt segs) -> names_class rt cn segs = true.
Proof.
  intro H. apply used_classes_in in H. destruct H as [seg [Hin Hcn]].
  apply filter_In in Hin. destruct Hin as [Hin Hc]. unfold names_class. apply existsb_exists.
  exists seg. split; [exact Hin|]. rewrite Hc, Hcn. cbn [opt_eqb_str andb]. apply String.eqb_refl.
Qed.

Lemma Forall2_impl_in {A B} (P Q : A -> B -> Prop) l1 : forall l2,
  (forall a b, In a l1 -> P a b -> Q a b) -> Forall2 P l1 l2 -> Forall2 Q l1 l2.
Proof.
  induction l1 as [|a l1 IH]; intros l2 H F; inversion F; subst; constructor.
  - apply H; [left; reflexivity | assumption].
  - apply IH; [|assumption]. intros a' b' Hin. apply H. right. exact Hin.
Qed.

Section DocClasses.
  Variables (env : list (string * Z)) (senv : list osec) (ext : list (string * Z)) (final : bool).
  Notation top := (exec_top_stmt env senv ext final).
  Notation runl := (run env senv ext final).

  Lemma top_sub_lookup st x a b va vb :
    x <> "."%string -> sym_lookup a st env ext = Some va -> sym_lookup b st env ext = Some vb ->
    top st (linker_symbol x (ESub a b)) = set_sym x (va - vb) false st.
  Proof.
    intros Hd Ha Hb. unfold linker_symbol. cbn [exec_top_stmt]. apply String.eqb_neq in Hd. rewrite Hd.
    cbn [eval_expr]. rewrite Ha, Hb. reflexivity.
  Qed.

  Theorem document_classes d rt w st cn :
    gen_normal d rt = Ok w -> doc_link_wf d rt = true ->
    In cn (used_classes rt (doc_segments d)) ->
    let sty := linker_symbols_style (doc_settings d) in
    let st' := exec_script env senv ext final (wo_script w) st in
    ClassSummary sty env ext st' rt (doc_segments d) cn.
  Proof.
    intros Hg Hwf Hcn sty st'.
    destruct (doc_exec d rt w Hg Hwf) as (body & ws' & E & Hnd & Hseg & Hcls & Hrom & Hexec).
    set (stg := doc_settings d) in *. set (classes := doc_vram_classes d) in *.
    set (endb := end_sections_body stg classes ws') in *. set (tl := tail_stmts rt d) in *.
    set (START := vram_class_start sty cn). set (END := vram_class_end sty cn).
    set (SIZE := vram_class_size sty cn).
    unfold st'. rewrite Hexec. clear Hexec st'. rewrite !run_app.
    set (stb := runl (begin_sections_body stg) st).
    specialize (Hcls cn Hcn). unfold class_link_wf in Hcls. fold sty START END SIZE in Hcls.
    apply andb_true_iff in Hcls. destruct Hcls as [Hcls Hsize].
    apply andb_true_iff in Hcls. destruct Hcls as [Hcls HnoS].
    apply andb_true_iff in Hcls. destruct Hcls as [Hclean HnoE].
    apply negb_true_iff in HnoS. apply negb_true_iff in HnoE.
    (* the VRAM end of each member: once in the body, never afterwards *)
    assert (Hmem : forall seg, In seg (members rt cn (doc_segments d)) ->
                     defined_once (segment_vram_end sty (sg_name seg)) body = true /\
                     existsb (assigns (segment_vram_end sty (sg_name seg))) (endb ++ tl) = false).
    { intros seg Hin. apply filter_In in Hin. destruct Hin as [Hin Hm]. unfold is_member in Hm.
      apply andb_true_iff in Hm. destruct Hm as [Hc _].
      assert (Hinc : In seg (included rt (doc_segments d))) by (apply filter_In; split; assumption).
      destruct (seg_wf_parts _ _ _ (Hseg seg Hinc)) as [_ [D _]].
      pose proof (vram_assigned_fold _ _ _ _ _ _ _ _ _ E Hinc) as Hass.
      destruct (vnd_app_r _ _ _ _ D (vram_assigned_app_l _ _ _ _ Hass)) as [D' _].
      destruct (vnd_app_l _ _ _ _ D' Hass) as [D'' [_ [U2 _]]].
      unfold vram_names_distinct in D''. apply andb_true_iff in D''. destruct D'' as [D'' _].
      apply andb_true_iff in D''. destruct D'' as [_ D'']. split; assumption. }
    destruct (class_end_is_max env senv ext final rt stg cfg_normal classes cn (doc_segments d) ws0 body ws' stb 0 E Hclean)
      as [vs [Hvs Hend]].
    { intros seg Hin. apply (Hmem seg Hin). }
    { intro Hm. discriminate Hm. }
    { intros _. reflexivity. }
    assert (Hem : mem_str cn (ws_emitted ws') = true).
    { rewrite (emitted_fold _ _ _ _ cn _ _ _ _ E). rewrite (used_names_class _ _ _ Hcn). apply orb_true_r. }
    specialize (Hend Hem). fold sty END in Hend, Hvs.
    set (stB := runl body stb) in *.
    rewrite <- run_app.
    assert (Eend : val (runl (endb ++ tl) stB) END = Some (fold_left Z.max vs 0)).
    { unfold val. rewrite run_syms by exact HnoE. exact Hend. }
    exists vs. split; [|split; [exact Eend|]].
    - eapply Forall2_impl_in; [|exact Hvs]. intros seg v Hin Hv. cbv beta in *.
      unfold val. rewrite run_syms; [exact Hv | apply (Hmem seg Hin)].
    - (* the size statement is in the tail of SECTIONS *)
      intros s0 Hs0.
      assert (Hin : In (class_size_stmt sty cn) endb).
      { unfold endb. rewrite end_sections_layout. 
        assert (Hsz : In (class_size_stmt sty cn) (tail_sizes stg classes ws')).
        { unfold tail_sizes. fold sty. apply in_map. unfold emitted_classes. apply filter_In. split; [|exact Hem].
          apply in_keep_first. apply used_classes_in in Hcn. destruct Hcn as [seg [Hinc Hc]].
          destruct (fold_class_declared _ _ _ _ _ _ _ _ _ cn E Hinc Hc) as [c Hget].
          eapply class_get_in. exact Hget. }
        cbn [sep_concat]. destruct (tail_sizes stg classes ws') as [|x0 r0]; [contradiction|].
        apply in_or_app. left. exact Hsz. }
      apply in_split in Hin. destruct Hin as [p1 [p2 Ep]].
      assert (Efin : (endb ++ tl = p1 ++ class_size_stmt sty cn :: (p2 ++ tl))%list).
      { rewrite Ep. rewrite <- app_assoc. reflexivity. }
      rewrite Efin in Hsize, HnoE, HnoS, Hs0 |- *.
      apply defined_once_split in Hsize; [|apply String.eqb_refl]. destruct Hsize as [Z1 Z2].
      rewrite existsb_app in HnoE, HnoS. apply orb_false_iff in HnoE. apply orb_false_iff in HnoS.
      destruct HnoE as [E1 E2]. destruct HnoS as [S1 S2].
      rewrite run_app, run_cons in Hs0 |- *.
      set (stS := runl p1 stB) in *.
      assert (HE : sym_lookup END stS env ext = Some (fold_left Z.max vs 0)).
      { apply sym_lookup_defined. unfold stS. rewrite run_syms by exact E1. exact Hend. }
      assert (HS : sym_lookup START stS env ext = Some s0).
      { rewrite <- Hs0. symmetry.
        change (runl (p2 ++ tl) (top stS (class_size_stmt sty cn)))
          with (runl (class_size_stmt sty cn :: p2 ++ tl) stS).
        apply sym_lookup_frame. exact S2. }
      unfold class_size_stmt. fold START END SIZE.
      rewrite (top_sub_lookup stS SIZE END START _ _ (class_size_not_dot sty cn) HE HS).
      unfold val. rewrite run_syms by exact Z2. apply lookup_set_sym_same.
  Qed.
End DocClasses.

Theorem document_classes_layout d rt w u ext0 cn :
  gen_normal d rt = Ok w -> doc_link_wf d rt = true ->
  In cn (used_classes rt (doc_segments d)) ->
  let sty := linker_symbols_style (doc_settings d) in
  let p1 := exec_script [] [] ext0 false (wo_script w) (init_state u) in
  let p2 := exec_script (l_syms p1) (l_secs p1) (ext0 ++ markers_of p1)%list false (wo_script w) (init_state u) in
  ClassSummary sty (l_syms p2) (ext0 ++ markers_of p2)%list (layout (wo_script w) u ext0) rt (doc_segments d) cn.
Proof. intros Hg Hwf Hcn sty p1 p2. unfold layout. apply document_classes; assumption. Qed.

(* ====================================================================== *)
(* 4. section groups over the whole document                               *)
(* ====================================================================== *)

(* ---------- counting assignments at any depth ---------- *)

Section StmtDeepInd.
  Variable P : stmt -> Prop.
  Hypothesis Hleaf : forall s, match s with SOutSec _ _ _ _ _ _ | SSections _ => False | _ => True end -> P s.
  Hypothesis Hout : forall n a at_ nl sub body, Forall P body -> P (SOutSec n a at_ nl sub body).
  Hypothesis Hsec : forall body, Forall P body -> P (SSections body).

  Fixpoint stmt_deep_ind (s : stmt) : P s :=
    let go := fix go (l : list stmt) : Forall P l :=
                match l with
                | [] => Forall_nil P
                | x :: r => Forall_cons x (stmt_deep_ind x) (go r)
                end in
    match s with
    | SOutSec n a at_ nl sub body => Hout n a at_ nl sub body (go body)
    | SSections body => Hsec body (go body)
    | SComment t => Hleaf (SComment t) I
    | SBlank => Hleaf SBlank I
    | SAssign p h r sym e => Hleaf (SAssign p h r sym e) I
    | SAlign sym n => Hleaf (SAlign sym n) I
    | SMaxSelf a b => Hleaf (SMaxSelf a b) I
    | SRomAdd sec => Hleaf (SRomAdd sec) I
    | SDotAdd n => Hleaf (SDotAdd n) I
    | SFill n => Hleaf (SFill n) I
    | SInput k p m sect w => Hleaf (SInput k p m sect w) I
    | SSingleEntry sect => Hleaf (SSingleEntry sect) I
    | SDiscard pats w => Hleaf (SDiscard pats w) I
    | SEntry e => Hleaf (SEntry e) I
    | SExtern e => Hleaf (SExtern e) I
    | SAssert c m => Hleaf (SAssert c m) I
    end.
End StmtDeepInd.

Lemma existsb_count_list x body :
  Forall (fun s => assigns x s = false <-> assign_count x s = 0%nat) body ->
  (existsb (assigns x) body = false <-> list_sum (map (assign_count x) body) = 0%nat).
Proof.
  induction 1 as [|s l Hs Hl IH]; [cbn; tauto|]. cbn [existsb map].
  change (list_sum (assign_count x s :: map (assign_count x) l))
    with (assign_count x s + list_sum (map (assign_count x) l))%nat.
  rewrite orb_false_iff. split.
  - intros [A B]. apply Hs in A. apply IH in B. lia.
  - intro Hsum. assert (Ha : assign_count x s = 0%nat) by lia.
    assert (Hb : list_sum (map (assign_count x) l) = 0%nat) by lia.
    split; [apply Hs; exact Ha | apply IH; exact Hb].
Qed.

Lemma assigns_count x s : assigns x s = false <-> assign_count x s = 0%nat.
Proof.
  induction s as [s Hs | n a at_ nl sub body IH | body IH] using stmt_deep_ind.
  - destruct s; try destruct Hs; cbn [assigns assign_count];
      try (destruct (String.eqb _ _)); split; intro H; try reflexivity; try discriminate.
  - cbn [assigns assign_count]. apply existsb_count_list. exact IH.
  - cbn [assigns assign_count]. apply existsb_count_list. exact IH.
Qed.

Lemma existsb_count x l : existsb (assigns x) l = false <-> count_assigns x l = 0%nat.
Proof. apply existsb_count_list. apply Forall_forall. intros s _. apply assigns_count. Qed.

Lemma count_app x a b : count_assigns x (a ++ b) = (count_assigns x a + count_assigns x b)%nat.
Proof. unfold count_assigns. rewrite map_app, list_sum_app. reflexivity. Qed.

Lemma count_cons x s l : count_assigns x (s :: l) = (assign_count x s + count_assigns x l)%nat.
Proof. reflexivity. Qed.

Lemma count_in_ge x l s : In s l -> assigns x s = true -> (1 <= count_assigns x l)%nat.
Proof.
  induction l as [|y r IH]; intros Hin Hs; [contradiction|]. rewrite count_cons. destruct Hin as [E|Hin].
  - subst y. destruct (assign_count x s) eqn:Ec; [|lia].
    apply assigns_count in Ec. rewrite Ec in Hs. discriminate.
  - specialize (IH Hin Hs). lia.
Qed.

Lemma count_opt_fill x seg : count_assigns x (opt_fill seg) = 0%nat.
Proof. unfold opt_fill. destruct (fill_value seg); reflexivity. Qed.

(* ---------- the symbols of a section group ---------- *)

Definition sec_syms3 (sty : style) (name sec : string) : list string :=
  [segment_section_start sty name sec; segment_section_end sty name sec; segment_section_size sty name sec].

Lemma group_head_assigned rt sty cfg seg sec files x :
  section_syms cfg = true -> In x (sec_syms3 sty (sg_name seg) sec) ->
  (1 <= count_assigns x (section_symbol_start rt sty cfg seg sec ++ files ++ section_symbol_end sty cfg seg sec))%nat.
Proof.
  intros Hc Hx. unfold section_symbol_start, section_symbol_end, sym_end_size. rewrite Hc.
  destruct Hx as [Ex|[Ex|[Ex|[]]]]; subst x.
  - apply count_in_ge with (s := linker_symbol (segment_section_start sty (sg_name seg) sec) EDot);
      [in_solve | apply String.eqb_refl].
  - apply count_in_ge with (s := linker_symbol (segment_section_end sty (sg_name seg) sec) EDot);
      [in_solve | apply String.eqb_refl].
  - apply count_in_ge
      with (s := linker_symbol (segment_section_size sty (sg_name seg) sec)
                               (EAbsSub (segment_section_end sty (sg_name seg) sec)
                                        (segment_section_start sty (sg_name seg) sec)));
      [in_solve | apply String.eqb_refl].
Qed.

Lemma group_syms_assigned rt stg cfg seg sections rest : forall ws body ws',
  part_groups rt stg cfg seg sections rest ws = Ok (body, ws') -> section_syms cfg = true ->
  forall sec, In sec rest -> forall x, In x (sec_syms3 (linker_symbols_style stg) (sg_name seg) sec) ->
  (1 <= count_assigns x body)%nat.
Proof.
  induction rest as [|sec0 rest IH]; intros ws body ws' H Hc sec Hin x Hx; [contradiction|].
  apply part_groups_cons in H. destruct H as [s1 [ws1 [s2 [E1 [E2 E]]]]]. subst body.
  destruct Hin as [Es|Hin].
  - subst sec0. pose proof (group_head_assigned rt (linker_symbols_style stg) cfg seg sec s1 x Hc Hx) as Hge.
    rewrite !count_app in *. lia.
  - pose proof (IH _ _ _ E2 Hc sec Hin x Hx) as Hge. rewrite !count_app. lia.
Qed.

Lemma GroupChain_frame sty syms placed syms' placed' name outsec secs : forall lo hi,
  (forall sec x, In sec secs -> In x (sec_syms3 sty name sec) -> lookup x syms' = lookup x syms) ->
  (exists a b, placed' = (a ++ placed ++ b)%list) ->
  GroupChain sty syms placed name outsec lo secs hi -> GroupChain sty syms' placed' name outsec lo secs hi.
Proof.
  induction secs as [|sec rest IH]; intros lo hi Hs [a0 [b0 Hp]] H; [exact H|]. cbn [GroupChain] in *.
  destruct H as (S & E & pre & new & post & L1 & L2 & L3 & B1 & B2 & P & F & Hrest).
  exists S, E, (a0 ++ pre)%list, new, (post ++ b0)%list.
  split; [rewrite (Hs sec _ (or_introl eq_refl) (or_introl eq_refl)); exact L1|].
  split; [rewrite (Hs sec _ (or_introl eq_refl) (or_intror (or_introl eq_refl))); exact L2|].
  split; [rewrite (Hs sec _ (or_introl eq_refl) (or_intror (or_intror (or_introl eq_refl)))); exact L3|].
  split; [exact B1|]. split; [exact B2|].
  split; [rewrite Hp, P; repeat rewrite <- app_assoc; reflexivity|].
  split; [exact F|].
  apply IH; [intros s0 x Hin Hx; apply (Hs s0 x); [right; exact Hin | exact Hx] | exists a0, b0; exact Hp | exact Hrest].
Qed.

Section DocGroups.
  Variables (env : list (string * Z)) (senv : list osec) (ext : list (string * Z)) (final : bool).
  Notation top := (exec_top_stmt env senv ext final).
  Notation runl := (run env senv ext final).
  Notation secs vma sub name := (exec_sec_stmt env senv ext final vma sub name).

  (* ---------- the placements only grow ---------- *)

  Lemma sec_stmt_placed vma sub name ss s :
    exists new, l_placed (s_st (secs vma sub name ss s)) = (l_placed (s_st ss) ++ new)%list.
  Proof.
    destruct (sec_stmt_cases env senv ext final vma sub name ss s)
      as [[p [h [r [sym [e [Es E]]]]]] | [[k [path [member [sect [wild [off' [pls [c [Es [Ep E]]]]]]]]]] | [E _]]];
      rewrite E.
    - exists []. cbn [s_st]. rewrite Proofs.C04.assign_placed, app_nil_r. reflexivity.
    - exists pls. reflexivity.
    - exists []. rewrite app_nil_r. reflexivity.
  Qed.

  Lemma sec_fold_placed vma sub name body : forall ss,
    exists new, l_placed (s_st (fold_left (secs vma sub name) body ss)) = (l_placed (s_st ss) ++ new)%list.
  Proof.
    induction body as [|s body IH]; intro ss; [exists []; rewrite app_nil_r; reflexivity|]. cbn [fold_left].
    destruct (IH (secs vma sub name ss s)) as [n1 E1]. destruct (sec_stmt_placed vma sub name ss s) as [n2 E2].
    exists (n2 ++ n1)%list. rewrite E1, E2, app_assoc. reflexivity.
  Qed.

  Lemma top_placed st s : exists new, l_placed (top st s) = (l_placed st ++ new)%list.
  Proof.
    assert (Hsame : l_placed (top st s) = l_placed st -> exists new, l_placed (top st s) = (l_placed st ++ new)%list).
    { intro E. exists []. rewrite app_nil_r. exact E. }
    destruct s; try (apply Hsame; reflexivity); cbn [exec_top_stmt].
    - apply Hsame. cbn [exec_top_stmt]. destruct (String.eqb sym ".").
      + destruct (eval_expr env senv ext st (l_dot st) e); reflexivity.
      + apply Proofs.C04.assign_placed.
    - apply Hsame. cbn [exec_top_stmt]. destruct (String.eqb sym "."); [reflexivity|].
      destruct (sym_lookup sym st env ext); reflexivity.
    - apply Hsame. cbn [exec_top_stmt].
      destruct (sym_lookup sym st env ext); [destruct (sym_lookup other st env ext)|];
        try (destruct final; reflexivity).
    - apply Hsame. cbn [exec_top_stmt].
      destruct (sym_lookup "__romPos" st env ext); [destruct (sec_lookup sec st senv)|];
        try (destruct final; reflexivity).
    - destruct (outsec_vma env senv ext addr sub body st) as [vma|e] eqn:E.
      + destruct (exec_outsec_ok env senv ext final name addr at_ noload sub body st vma E)
          as [_ [_ [_ [_ [Hp _]]]]]. rewrite Hp. unfold outsec_body.
        apply (sec_fold_placed vma (option_map Z.of_N sub) name body (SState 0 false st)).
      + rewrite (exec_outsec_err _ _ _ _ _ _ _ _ _ _ _ _ E). exists []. rewrite app_nil_r. reflexivity.
    - destruct (place 0 None sect _ 0 [] false) as [[off' pls] c]. exists pls. reflexivity.
    - apply Hsame. cbn [exec_top_stmt].
      destruct (eval_raw env ext st cond) as [v|e]; [destruct (v =? 0); reflexivity|].
      destruct e; destruct final; reflexivity.
  Qed.

  Lemma run_placed l : forall st, exists new, l_placed (runl l st) = (l_placed st ++ new)%list.
  Proof.
    induction l as [|s l IH]; intro st; [exists []; rewrite app_nil_r; reflexivity|].
    rewrite run_cons. destruct (IH (top st s)) as [n1 E1]. destruct (top_placed st s) as [n2 E2].
    exists (n2 ++ n1)%list. rewrite E1, E2, app_assoc. reflexivity.
  Qed.

  (* ---------- the groups of one output section, inside the section ---------- *)

  Lemma groups_fold vma sub outsec rt stg cfg seg sections rest : forall ws body ws' ss,
    section_syms cfg = true ->
    part_groups rt stg cfg seg sections rest ws = Ok (body, ws') ->
    (forall sec x, In sec rest -> In x (sec_syms3 (linker_symbols_style stg) (sg_name seg) sec) ->
                   count_assigns x body = 1%nat) ->
    nonneg_sizes (l_remaining (s_st ss)) ->
    let ss' := fold_left (secs vma sub outsec) body ss in
    GroupChain (linker_symbols_style stg) (l_syms (s_st ss')) (l_placed (s_st ss')) (sg_name seg) outsec
               (vma + s_off ss) rest (vma + s_off ss') /\
    (exists new, l_placed (s_st ss') = (l_placed (s_st ss) ++ new)%list) /\
    nonneg_sizes (l_remaining (s_st ss')).
  Proof.
    induction rest as [|sec rest IH]; intros ws body ws' ss Hc H Hcnt Hn ss'.
    - apply ok_inj in H. inversion H; subst body ws'. subst ss'. cbn [fold_left GroupChain].
      split; [lia|]. split; [exists []; rewrite app_nil_r; reflexivity | exact Hn].
    - apply part_groups_cons in H. destruct H as [s1 [ws1 [s2 [E1 [E2 E]]]]].
      set (sty := linker_symbols_style stg) in *.
      set (G := (section_symbol_start rt sty cfg seg sec ++ s1 ++ section_symbol_end sty cfg seg sec)%list).
      set (bl := match rest with [] => [] | _ :: _ => [SBlank] end) in *.
      assert (Eb : body = (G ++ bl ++ s2)%list).
      { rewrite E. unfold G. repeat rewrite <- app_assoc. reflexivity. }
      pose proof (group_bracket env senv ext final vma sub outsec rt sty cfg seg sections (base_path stg) sec
                                ws s1 ws1 ss Hc E1 Hn) as HB.
      cbv zeta in HB. fold G in HB.
      set (ss1 := fold_left (secs vma sub outsec) G ss) in *.
      destruct HB as (S & E' & new & news & restsyms & L1 & L2 & L3 & B1 & B2 & B3 & P1 & P2 & _ & _ & _ & N1).
      assert (Ebl : fold_left (secs vma sub outsec) bl ss1 = ss1) by (unfold bl; destruct rest; reflexivity).
      subst ss'. rewrite Eb, !fold_left_app. fold ss1. rewrite Ebl.
      assert (HT0 : forall x, In x (sec_syms3 sty (sg_name seg) sec) -> existsb (assigns x) s2 = false).
      { intros x Hx. apply existsb_count. pose proof (Hcnt sec x (or_introl eq_refl) Hx) as Hc1.
        rewrite Eb, !count_app in Hc1.
        pose proof (group_head_assigned rt sty cfg seg sec s1 x Hc Hx) as HG. fold G in HG. lia. }
      assert (Hs2cnt : forall sec' x, In sec' rest -> In x (sec_syms3 sty (sg_name seg) sec') ->
                                      count_assigns x s2 = 1%nat).
      { intros sec' x Hin Hx. pose proof (Hcnt sec' x (or_intror Hin) Hx) as Hc1.
        rewrite Eb, !count_app in Hc1.
        pose proof (group_syms_assigned _ _ _ _ _ _ _ _ _ E2 Hc sec' Hin x Hx) as Hge. lia. }
      destruct (IH ws1 s2 ws' ss1 Hc E2 Hs2cnt N1) as [Hchain [[new2 Hp2] Hn2]]. cbv zeta in Hchain, Hp2, Hn2.
      set (ss2 := fold_left (secs vma sub outsec) s2 ss1) in *.
      split; [|split; [exists (new ++ new2)%list; rewrite Hp2, P1, app_assoc; reflexivity | exact Hn2]].
      cbn [GroupChain]. exists S, E', (l_placed (s_st ss)), new, new2.
      split.
      { unfold ss2. rewrite sec_fold_syms; [exact L1 | apply HT0; left; reflexivity]. }
      split.
      { unfold ss2. rewrite sec_fold_syms; [exact L2 | apply HT0; right; left; reflexivity]. }
      split.
      { unfold ss2. rewrite sec_fold_syms; [exact L3 | apply HT0; right; right; left; reflexivity]. }
      split; [exact B1|]. split; [exact B2|].
      split; [rewrite Hp2, P1, <- app_assoc; reflexivity|].
      split; [exact P2|]. rewrite B3. exact Hchain.
  Qed.

  (* ---------- one output section in the middle of a statement list ---------- *)

  Lemma outsec_groups rt stg cfg seg sections ws gbody ws' name addr at_ noload A B st0 :
    let sty := linker_symbols_style stg in
    let O := SOutSec name addr at_ noload (subalign seg) (opt_fill seg ++ gbody) in
    let L := (A ++ O :: B)%list in
    section_syms cfg = true ->
    part_groups rt stg cfg seg sections sections ws = Ok (gbody, ws') ->
    (forall sec x, In sec sections -> In x (sec_syms3 sty (sg_name seg) sec) -> count_assigns x L = 1%nat) ->
    sizes_ok st0 ->
    (forall e, outsec_vma env senv ext addr (subalign seg) (opt_fill seg ++ gbody) (runl A st0) <> Err e) ->
    find_sec name (l_secs (runl A st0)) = None ->
    let st' := runl L st0 in
    exists o, find_sec name (l_secs st') = Some o /\ os_noload o = noload /\
      GroupChain sty (l_syms st') (l_placed st') (sg_name seg) name (os_vma o) sections (os_vma o + os_size o).
  Proof.
    intros sty O L Hc Hg Hcnt Hsz Hvma Hfresh st'.
    set (stA := runl A st0) in *.
    assert (HszA : sizes_ok stA) by (apply run_remaining_Forall; exact Hsz).
    destruct (outsec_vma env senv ext addr (subalign seg) (opt_fill seg ++ gbody) stA) as [vma|e] eqn:Ev;
      [|exfalso; eapply Hvma; reflexivity].
    pose proof (exec_outsec_ok env senv ext final name addr at_ noload (subalign seg) (opt_fill seg ++ gbody)
                               stA vma Ev) as HO.
    cbv zeta in HO. destruct HO as [_ [Hsyms [_ [Hsecs [Hplaced _]]]]].
    set (ss := outsec_body env senv ext final name (subalign seg) (opt_fill seg ++ gbody) vma stA) in *.
    set (stO := exec_outsec env senv ext final name addr at_ noload (subalign seg) (opt_fill seg ++ gbody) stA) in *.
    assert (Ess : ss = fold_left (secs vma (option_map Z.of_N (subalign seg)) name) gbody (SState 0 false stA)).
    { unfold ss, outsec_body. rewrite fold_left_app. unfold opt_fill. destruct (fill_value seg); reflexivity. }
    assert (HcntO : forall sec x, In sec sections -> In x (sec_syms3 sty (sg_name seg) sec) ->
                                  count_assigns x gbody = 1%nat /\ count_assigns x B = 0%nat).
    { intros sec x Hin Hx. pose proof (Hcnt sec x Hin Hx) as H1. unfold L in H1.
      rewrite count_app, count_cons in H1. unfold O in H1. cbn [assign_count] in H1.
      change (list_sum (map (assign_count x) (opt_fill seg ++ gbody))) with (count_assigns x (opt_fill seg ++ gbody)) in H1.
      rewrite count_app, count_opt_fill in H1.
      pose proof (group_syms_assigned _ _ _ _ _ _ _ _ _ Hg Hc sec Hin x Hx) as Hge. fold sty in Hge. lia. }
    destruct (groups_fold vma (option_map Z.of_N (subalign seg)) name rt stg cfg seg sections sections ws gbody ws'
                          (SState 0 false stA) Hc Hg (fun sec x Hin Hx => proj1 (HcntO sec x Hin Hx)) HszA)
      as [Hchain _].
    cbv zeta in Hchain. rewrite <- Ess in Hchain. cbn [s_off s_st] in Hchain. rewrite Z.add_0_r in Hchain.
    assert (Est' : st' = runl B stO).
    { unfold st', L. rewrite run_app, run_cons. reflexivity. }
    destruct (run_secs env senv ext final B stO) as [newsec [En _]].
    destruct (run_placed B stO) as [newp Enp].
    eexists. split.
    { rewrite Est', En, Hsecs. apply find_sec_app. rewrite find_sec_app_none by exact Hfresh.
      unfold find_sec. cbn [find os_name]. rewrite String.eqb_refl. reflexivity. }
    cbn [os_noload os_vma os_size]. split; [reflexivity|].
    rewrite Est'. eapply GroupChain_frame; [| |exact Hchain].
    - intros sec x Hin Hx. rewrite run_syms; [rewrite Hsyms; reflexivity|].
      apply existsb_count. apply (HcntO sec x Hin Hx).
    - exists [], newp. rewrite Enp, Hplaced. reflexivity.
  Qed.

  (* ---------- finding a segment in the fold ---------- *)

  Lemma fold_segment_split rt stg cfg classes segs : forall ws body ws' seg,
    fold_out (add_segment rt stg cfg classes) segs ws = Ok (body, ws') -> In seg (included rt segs) ->
    NoDup (out_names (included rt segs)) ->
    exists b1 wsa s1 wsb b2,
      add_segment rt stg cfg classes seg wsa = Ok (s1, wsb) /\ body = (b1 ++ s1 ++ b2)%list /\
      ~ In (alloc_name seg) (flat_map makes_sec b1) /\ ~ In (noload_name seg) (flat_map makes_sec b1).
  Proof.
    induction segs as [|x r IH]; intros ws body ws' seg H Hin Hnd; [contradiction|].
    apply fold_out_cons in H. destruct H as [s1 [ws1 [s2 [E1 [E2 E]]]]]. subst body.
    unfold included in Hin, Hnd. cbn [filter] in Hin, Hnd.
    pose proof (makes_sec_add_segment _ _ _ _ _ _ _ _ E1) as Hms.
    destruct (should_emit rt (sg_conds x)) eqn:Hc.
    - destruct Hin as [Ex|Hin].
      + subst x. exists [], ws, s1, ws1, s2. split; [exact E1|]. split; [reflexivity|]. split; intros [].
      + cbn [out_names flat_map app] in Hnd. inversion Hnd as [|a l Hn1 Hnd1]; subst a l.
        inversion Hnd1 as [|a l Hn2 Hnd2]; subst a l.
        destruct (IH _ _ _ seg E2 Hin Hnd2) as (b1 & wsa & s0 & wsb & b2 & Ea & Eb & F1 & F2).
        assert (Ha : In (alloc_name seg) (out_names (filter (fun s => should_emit rt (sg_conds s)) r))).
        { unfold out_names. apply in_flat_map. exists seg. split; [exact Hin | left; reflexivity]. }
        assert (Hb : In (noload_name seg) (out_names (filter (fun s => should_emit rt (sg_conds s)) r))).
        { unfold out_names. apply in_flat_map. exists seg. split; [exact Hin | right; left; reflexivity]. }
        exists (s1 ++ b1)%list, wsa, s0, wsb, b2. split; [exact Ea|].
        split; [rewrite Eb, <- app_assoc; reflexivity|].
        rewrite flat_map_app, Hms. split; intro Hbad; apply in_app_or in Hbad; destruct Hbad as [Hbad|Hbad].
        * destruct Hbad as [Eq|[Eq|[]]].
          -- apply Hn1. right. rewrite Eq. exact Ha.
          -- apply Hn2. rewrite Eq. exact Ha.
        * exact (F1 Hbad).
        * destruct Hbad as [Eq|[Eq|[]]].
          -- apply Hn1. right. rewrite Eq. exact Hb.
          -- apply Hn2. rewrite Eq. exact Hb.
        * exact (F2 Hbad).
    - destruct (IH _ _ _ seg E2 Hin Hnd) as (b1 & wsa & s0 & wsb & b2 & Ea & Eb & F1 & F2).
      exists (s1 ++ b1)%list, wsa, s0, wsb, b2. split; [exact Ea|].
      split; [rewrite Eb, <- app_assoc; reflexivity|].
      rewrite flat_map_app, Hms. cbn [app]. split; assumption.
  Qed.

  Lemma makes_sec_begin stg : flat_map makes_sec (begin_sections_body stg) = [].
  Proof.
    rewrite begin_sections_rom. unfold hardcoded_gp_stmts. destruct (hardcoded_gp_value stg); reflexivity.
  Qed.

  Lemma alloc_noload_neq seg : alloc_name seg <> noload_name seg.
  Proof.
    unfold alloc_name, noload_name. intro E. apply (f_equal String.length) in E.
    rewrite !str_length_app in E. cbn [String.length] in E. lia.
  Qed.

  (* ---------- C05_document_groups ---------- *)

  Theorem document_groups d rt w u seg :
    gen_normal d rt = Ok w -> doc_link_wf d rt = true ->
    Forall (fun x => 0 <= u_size x) u ->
    In seg (included rt (doc_segments d)) ->
    let sty := linker_symbols_style (doc_settings d) in
    let st' := exec_script env senv ext final (wo_script w) (init_state u) in
    ~ In (LForwardRef (alloc_name seg)) (l_errors st') ->
    SegmentGroups sty st' seg.
  Proof.
    intros Hg Hwf Hu Hin sty st' Herr.
    destruct (doc_exec d rt w Hg Hwf) as (body & ws' & E & Hnd & Hseg & _ & _ & Hexec).
    set (stg := doc_settings d) in *. set (classes := doc_vram_classes d) in *.
    set (fin := (end_sections_body stg classes ws' ++ tail_stmts rt d)%list) in *.
    unfold st' in *. rewrite Hexec in *. clear Hexec st'.
    destruct (seg_wf_parts _ _ _ (Hseg seg Hin)) as [_ [_ [_ Hsecs]]].
    destruct (fold_segment_split _ _ _ _ _ _ _ _ _ E Hin Hnd) as (b1 & wsa & s1 & wsb & b2 & Ea & Eb & Fr1 & Fr2).
    apply filter_In in Hin. destruct Hin as [_ Hc].
    apply add_segment_inv in Ea.
    destruct Ea as [[Hc' _] | [_ [cls [ws1 [s1a [ws2 [s2a [Ec [E1 [E2 Es1]]]]]]]]]]; [congruence|].
    apply write_segment_inv in E1. destruct E1 as [body1 [Hg1 E1]]. rewrite alloc_name_outsec in E1.
    apply write_segment_inv in E2. destruct E2 as [body2 [Hg2 E2]]. rewrite noload_name_outsec in E2.
    fold sty in E1, E2.
    set (ks := sections_kind_start sty cfg_normal seg false) in *.
    set (ke := sections_kind_end sty cfg_normal seg false) in *.
    set (ks2 := sections_kind_start sty cfg_normal seg true) in *.
    set (ke2 := sections_kind_end sty cfg_normal seg true) in *.
    set (O1 := SOutSec (alloc_name seg) (segment_addr sty seg) (Some (segment_rom_start sty (sg_name seg))) false
                       (subalign seg) (opt_fill seg ++ body1)) in *.
    set (O2 := SOutSec (noload_name seg) None None true (subalign seg) (opt_fill seg ++ body2)) in *.
    set (all := (begin_sections_body stg ++ body ++ fin)%list) in *.
    set (A1 := (begin_sections_body stg ++ b1 ++ cls ++ seg_head stg seg ++ ks)%list).
    set (B1 := (ke ++ [SBlank] ++ s2a ++ [SBlank] ++ seg_foot stg seg ++ b2 ++ fin)%list).
    set (A2 := (begin_sections_body stg ++ b1 ++ cls ++ seg_head stg seg ++ s1a ++ [SBlank] ++ ks2)%list).
    set (B2 := (ke2 ++ [SBlank] ++ seg_foot stg seg ++ b2 ++ fin)%list).
    assert (EL1 : all = (A1 ++ O1 :: B1)%list).
    { unfold all, A1, B1. rewrite Eb, Es1, E1. repeat (rewrite <- app_assoc; cbn [app]). reflexivity. }
    assert (EL2 : all = (A2 ++ O2 :: B2)%list).
    { unfold all, A2, B2. rewrite Eb, Es1, E2. repeat (rewrite <- app_assoc; cbn [app]). reflexivity. }
    assert (Hcnt : forall sec x, In sec (seg_sections seg) -> In x (sec_syms3 sty (sg_name seg) sec) ->
                                 count_assigns x all = 1%nat).
    { intros sec x Hs Hx. specialize (Hsecs sec Hs). unfold section_names_once, assigned_once_deep in Hsecs.
      apply andb_true_iff in Hsecs. destruct Hsecs as [Hsecs H3]. apply andb_true_iff in Hsecs.
      destruct Hsecs as [H1 H2]. apply Nat.eqb_eq in H1. apply Nat.eqb_eq in H2. apply Nat.eqb_eq in H3.
      destruct Hx as [Ex|[Ex|[Ex|[]]]]; subst x; assumption. }
    split.
    - rewrite EL1 in Herr, Hcnt |- *.
      apply (outsec_groups rt stg cfg_normal seg (alloc_sections seg) ws1 body1 ws2 (alloc_name seg)
                           (segment_addr sty seg) (Some (segment_rom_start sty (sg_name seg))) false A1 B1
                           (init_state u) eq_refl Hg1).
      + intros sec x Hs Hx. apply (Hcnt sec x); [apply in_or_app; left; exact Hs | exact Hx].
      + exact Hu.
      + intros e Ev. apply Herr. rewrite run_app, run_cons. apply run_errors_in.
        unfold O1. cbn [exec_top_stmt]. rewrite (exec_outsec_err _ _ _ _ _ _ _ _ _ _ _ _ Ev).
        cbn [add_err l_errors]. apply in_or_app. right. left. reflexivity.
      + apply run_find_sec_none; [reflexivity|]. unfold A1.
        rewrite !flat_map_app, makes_sec_begin, (makes_sec_plain cls (pl_class_part _ _ _ _ _ _ Ec)),
          (makes_sec_plain _ (pl_seg_head _ _)), (makes_sec_plain ks (pl_kind_start _ _ _ _)).
        cbn [app]. rewrite ?app_nil_r. exact Fr1.
    - rewrite EL2 in Hcnt |- *.
      apply (outsec_groups rt stg cfg_normal seg (noload_sections seg) ws2 body2 wsb (noload_name seg)
                           None None true A2 B2 (init_state u) eq_refl Hg2).
      + intros sec x Hs Hx. apply (Hcnt sec x); [apply in_or_app; right; exact Hs | exact Hx].
      + exact Hu.
      + intros e Ev. cbn [outsec_vma] in Ev. discriminate Ev.
      + apply run_find_sec_none; [reflexivity|]. unfold A2.
        rewrite !flat_map_app, makes_sec_begin, (makes_sec_plain cls (pl_class_part _ _ _ _ _ _ Ec)),
          (makes_sec_plain _ (pl_seg_head _ _)), (makes_sec_plain ks2 (pl_kind_start _ _ _ _)).
        rewrite E1, !flat_map_app, (makes_sec_plain ks (pl_kind_start _ _ _ _)),
          (makes_sec_plain ke (pl_kind_end _ _ _ _)).
        cbn [app flat_map makes_sec O1]. rewrite ?app_nil_r. intro Hbad. apply in_app_or in Hbad.
        destruct Hbad as [Hbad|[Eq|[]]]; [exact (Fr2 Hbad) | exact (alloc_noload_neq seg Eq)].
  Qed.
End DocGroups.

Theorem document_groups_layout d rt w u ext0 seg :
  gen_normal d rt = Ok w -> doc_link_wf d rt = true ->
  Forall (fun x => 0 <= u_size x) u ->
  In seg (included rt (doc_segments d)) ->
  let sty := linker_symbols_style (doc_settings d) in
  let st' := layout (wo_script w) u ext0 in
  ~ In (LForwardRef (alloc_name seg)) (l_errors st') ->
  SegmentGroups sty st' seg.
Proof.
  intros Hg Hwf Hu Hin sty st' Herr. unfold st', layout in *.
  apply (document_groups _ _ _ _ d rt w u seg Hg Hwf Hu Hin). exact Herr.
Qed.
