(* DocLevel: the per-segment link theorems of C03, C04, C05 and C10 composed over a whole generated
   document (multi-segment mode).  The work is the induction over the list of segments, with the
   frame facts (what later statements leave alone) that the per-segment theorems do not state. *)
From Slinky Require Import Model.Types Model.Generated Model.Runtime Model.Style Model.Script Model.Writer Model.LdSem.
From Slinky Require Import Spec.C17 Spec.C04 Spec.C03 Spec.C05 Spec.C10 Spec.DocLevel.
From Slinky Require Import Proofs.C06 Proofs.C18 Proofs.C17 Proofs.LdLemmas Proofs.C04 Proofs.C03 Proofs.C10.
From Coq Require Import Lia ZArith.
Local Open Scope Z_scope.

(* ====================================================================== *)
(* 1. the shape of the script and what exec_script does with it            *)
(* ====================================================================== *)

Lemma seg_chain_of_fold rt stg classes segs : forall ws body ws',
  fold_out (add_segment rt stg cfg_normal classes) segs ws = Ok (body, ws') ->
  exists parts, seg_chain rt stg classes (included rt segs) ws parts ws' /\ body = List.concat parts.
Proof.
  induction segs as [|seg r IH]; intros ws body ws' H.
  - apply fold_out_nil in H. destruct H; subst. exists []. split; reflexivity.
  - apply fold_out_cons in H. destruct H as [s1 [ws1 [s2 [E1 [E2 E]]]]]. subst body.
    destruct (IH _ _ _ E2) as [parts [Hc Eb]]. unfold included. cbn [filter].
    destruct (should_emit rt (sg_conds seg)) eqn:Hc0.
    + exists (s1 :: parts). split.
      * cbn [seg_chain]. exists ws1. split; assumption.
      * cbn [List.concat]. rewrite Eb. reflexivity.
    + rewrite (add_segment_excluded _ _ _ _ _ _ Hc0) in E1. apply ok_inj in E1. inversion E1; subst s1 ws1.
      exists parts. split; [exact Hc | exact Eb].
Qed.

Lemma exec_script_cons env senv ext final s r st :
  exec_script env senv ext final (s :: r) st =
  exec_script env senv ext final r
    (match s with
     | SSections body => run env senv ext final body st
     | _ => exec_top_stmt env senv ext final st s
     end).
Proof. reflexivity. Qed.

Lemma exec_script_flat env senv ext final script : forall st,
  exec_script env senv ext final script st = run env senv ext final (flat_stmts script) st.
Proof.
  induction script as [|s r IH]; intro st; [reflexivity|].
  rewrite exec_script_cons, IH.
  change (flat_stmts (s :: r)) with ((match s with SSections b => b | _ => [s] end) ++ flat_stmts r)%list.
  rewrite run_app. destruct s; reflexivity.
Qed.

Definition plain_top (s : stmt) : Prop := match s with SSections _ => False | _ => True end.

Lemma flat_plain l : Forall plain_top l -> flat_stmts l = l.
Proof.
  induction 1 as [|s l Hs Hl IH]; [reflexivity|].
  change (flat_stmts (s :: l)) with ((match s with SSections b => b | _ => [s] end) ++ flat_stmts l)%list.
  rewrite IH. destruct s; try reflexivity. destruct Hs.
Qed.

Lemma flat_app a b : flat_stmts (a ++ b) = (flat_stmts a ++ flat_stmts b)%list.
Proof. apply flat_map_app. Qed.

Lemma plain_tail rt d : Forall plain_top (tail_stmts rt d).
Proof.
  unfold tail_stmts, entry_stmts, assignment_stmts, required_stmts, assert_stmts.
  fa.
  - destruct (doc_entry d); repeat constructor.
  - destruct (doc_symbol_assignments d); [constructor|]. constructor; [exact I|].
    apply Forall_flat_map_intro. intro x0. destruct (should_emit rt (sa_conds x0)); repeat constructor.
  - destruct (doc_required_symbols d); [constructor|]. constructor; [exact I|].
    apply Forall_flat_map_intro. intro x0. destruct (should_emit rt (rq_conds x0)); repeat constructor.
  - destruct (doc_asserts d); [constructor|]. constructor; [exact I|].
    apply Forall_flat_map_intro. intro x0. destruct (should_emit rt (ae_conds x0)); repeat constructor.
Qed.

Lemma plain_version rt : Forall plain_top (version_stmts rt).
Proof. unfold version_stmts. destruct (rt_emit_version_comment rt); repeat constructor. Qed.

Lemma run_version env senv ext final rt st : run env senv ext final (version_stmts rt) st = st.
Proof. unfold version_stmts. destruct (rt_emit_version_comment rt); reflexivity. Qed.

(* the statements LdSem executes for a script "version; SECTIONS { B }; tail" *)
Lemma exec_sections_script env senv ext final rt d B st :
  exec_script env senv ext final (version_stmts rt ++ [SSections B] ++ tail_stmts rt d) st =
  run env senv ext final (tail_stmts rt d) (run env senv ext final B st).
Proof.
  rewrite exec_script_flat, !flat_app, (flat_plain _ (plain_version rt)), (flat_plain _ (plain_tail rt d)).
  change (flat_stmts [SSections B]) with (B ++ [])%list. rewrite app_nil_r, !run_app, run_version. reflexivity.
Qed.

Theorem script_shape d rt w :
  gen_normal d rt = Ok w -> single_segment_mode (doc_settings d) = false ->
  let stg := doc_settings d in
  let classes := doc_vram_classes d in
  exists parts ws',
    seg_chain rt stg classes (included rt (doc_segments d)) ws0 parts ws' /\
    fold_out (add_segment rt stg cfg_normal classes) (doc_segments d) ws0 = Ok (List.concat parts, ws') /\
    wo_script w = (version_stmts rt ++
                   [SSections (begin_sections_body stg ++ List.concat parts ++ end_sections_body stg classes ws')] ++
                   tail_stmts rt d)%list /\
    forall env senv ext final st,
      exec_script env senv ext final (wo_script w) st =
      run env senv ext final (tail_stmts rt d)
          (run env senv ext final
               (begin_sections_body stg ++ List.concat parts ++ end_sections_body stg classes ws') st).
Proof.
  intros H Hm stg classes. apply gen_normal_inv in H. destruct H as [s [ws' [E Hw]]].
  apply add_all_segments_inv in E. destruct E as [[Hs _] | [_ [body [E Es]]]]; [unfold stg in *; congruence|].
  destruct (seg_chain_of_fold _ _ _ _ _ _ _ E) as [parts [Hc Eb]]. subst body s w.
  exists parts, ws'. split; [exact Hc|]. split; [exact E|]. split; [reflexivity|].
  intros env senv ext final st. cbn [wo_script]. apply exec_sections_script.
Qed.

(* ====================================================================== *)
(* well-formedness: from the boolean to the facts the proofs use           *)
(* ====================================================================== *)

Lemma mem_str_in x l : mem_str x l = true <-> In x l.
Proof.
  induction l as [|y r IH]; cbn [mem_str In]; [split; [discriminate | intros []]|].
  destruct (String.eqb x y) eqn:E.
  - apply String.eqb_eq in E. subst. split; auto.
  - apply String.eqb_neq in E. rewrite IH. split; [auto | intros [H|H]; [congruence | exact H]].
Qed.

Lemma nodup_str_NoDup l : nodup_str l = true -> NoDup l.
Proof.
  induction l as [|x r IH]; cbn [nodup_str]; intro H; [constructor|].
  apply andb_true_iff in H. destruct H as [H1 H2]. constructor; [|auto].
  intro Hin. apply mem_str_in in Hin. rewrite Hin in H1. discriminate.
Qed.

Section WfFacts.
  Variables (d : document) (rt : runtime).
  Let stg := doc_settings d.
  Let sty := linker_symbols_style stg.
  Let classes := doc_vram_classes d.
  Let segs := included rt (doc_segments d).

  Lemma doc_link_wf_inv :
    doc_link_wf d rt = true ->
    exists body ws',
      fold_out (add_segment rt stg cfg_normal classes) (doc_segments d) ws0 = Ok (body, ws') /\
      single_segment_mode stg = false /\
      NoDup (out_names segs) /\
      (forall seg, In seg segs ->
         seg_link_wf sty (begin_sections_body stg ++ body ++
                          end_sections_body stg classes ws' ++ tail_stmts rt d) seg = true) /\
      (forall cn, In cn (used_classes rt (doc_segments d)) ->
         class_link_wf sty body (end_sections_body stg classes ws' ++ tail_stmts rt d) cn = true) /\
      no_assign "__romPos" (tail_stmts rt d) = true.
  Proof.
    unfold doc_link_wf. fold stg sty classes segs.
    destruct (fold_out (add_segment rt stg cfg_normal classes) (doc_segments d) ws0) as [[body ws']|e];
      [|discriminate].
    intro H. repeat (apply andb_true_iff in H; destruct H as [H ?H]).
    exists body, ws'. split; [reflexivity|].
    split; [apply negb_true_iff; assumption|].
    split; [apply nodup_str_NoDup; assumption|].
    split; [apply forallb_forall; assumption|].
    split; [apply forallb_forall; assumption|assumption].
  Qed.

  (* the script of a well-formed document, and what exec_script does with it *)
  Lemma doc_exec w :
    gen_normal d rt = Ok w -> doc_link_wf d rt = true ->
    exists body ws',
      fold_out (add_segment rt stg cfg_normal classes) (doc_segments d) ws0 = Ok (body, ws') /\
      NoDup (out_names segs) /\
      (forall seg, In seg segs ->
         seg_link_wf sty (begin_sections_body stg ++ body ++
                          end_sections_body stg classes ws' ++ tail_stmts rt d) seg = true) /\
      (forall cn, In cn (used_classes rt (doc_segments d)) ->
         class_link_wf sty body (end_sections_body stg classes ws' ++ tail_stmts rt d) cn = true) /\
      no_assign "__romPos" (tail_stmts rt d) = true /\
      forall env senv ext final st,
        exec_script env senv ext final (wo_script w) st =
        run env senv ext final
            (begin_sections_body stg ++ body ++ end_sections_body stg classes ws' ++ tail_stmts rt d) st.
  Proof.
    intros Hg Hwf. destruct (doc_link_wf_inv Hwf) as (body & ws' & E & Hm & Hnd & Hseg & Hcls & Hrom).
    exists body, ws'. repeat (split; [assumption|]).
    intros env senv ext final st.
    apply gen_normal_inv in Hg. destruct Hg as [s [ws2 [E2 Hw]]].
    apply add_all_segments_inv in E2. destruct E2 as [[Hs _] | [_ [body2 [E2 Es]]]]; [unfold stg in *; congruence|].
    fold stg classes in E2. rewrite E in E2. apply ok_inj in E2. inversion E2; subst body2 ws2. subst s w.
    cbn [wo_script]. rewrite exec_sections_script.
    rewrite <- run_app. repeat rewrite <- app_assoc. reflexivity.
  Qed.
End WfFacts.

(* ====================================================================== *)
(* which symbols an included segment assigns                               *)
(* ====================================================================== *)

Ltac in_solve :=
  match goal with
  | |- In _ (_ ++ _) => apply in_or_app; ((left; in_solve) || (right; in_solve))
  | |- In _ (_ :: _) => (left; reflexivity) || (right; in_solve)
  end.

Definition vram_assigned (sty : style) (name : string) (l : list stmt) : Prop :=
  existsb (assigns (segment_vram_start sty name)) l = true /\
  existsb (assigns (segment_vram_end sty name)) l = true /\
  existsb (assigns (segment_vram_size sty name)) l = true.

Definition vram_untouched (sty : style) (name : string) (l : list stmt) : Prop :=
  existsb (assigns (segment_vram_start sty name)) l = false /\
  existsb (assigns (segment_vram_end sty name)) l = false /\
  existsb (assigns (segment_vram_size sty name)) l = false.

Lemma vnd_app_l sty name a b :
  vram_names_distinct sty name (a ++ b) = true -> vram_assigned sty name a ->
  vram_names_distinct sty name a = true /\ vram_untouched sty name b.
Proof.
  unfold vram_names_distinct. intros H [A1 [A2 A3]].
  apply andb_true_iff in H. destruct H as [H H3]. apply andb_true_iff in H. destruct H as [H1 H2].
  destruct (defined_once_app_l _ _ _ H1 A1) as [D1 U1]. destruct (defined_once_app_l _ _ _ H2 A2) as [D2 U2].
  destruct (defined_once_app_l _ _ _ H3 A3) as [D3 U3]. rewrite D1, D2, D3. repeat split; assumption.
Qed.

Lemma vnd_app_r sty name a b :
  vram_names_distinct sty name (a ++ b) = true -> vram_assigned sty name b ->
  vram_names_distinct sty name b = true /\ vram_untouched sty name a.
Proof.
  unfold vram_names_distinct. intros H [A1 [A2 A3]].
  apply andb_true_iff in H. destruct H as [H H3]. apply andb_true_iff in H. destruct H as [H1 H2].
  destruct (defined_once_app_r _ _ _ H1 A1) as [D1 U1]. destruct (defined_once_app_r _ _ _ H2 A2) as [D2 U2].
  destruct (defined_once_app_r _ _ _ H3 A3) as [D3 U3]. rewrite D1, D2, D3. repeat split; assumption.
Qed.

Lemma vram_assigned_add_segment rt stg cfg classes seg ws s ws' :
  add_segment rt stg cfg classes seg ws = Ok (s, ws') -> should_emit rt (sg_conds seg) = true ->
  vram_assigned (linker_symbols_style stg) (sg_name seg) s.
Proof.
  intros H Hc. apply add_segment_inv in H.
  destruct H as [[Hc' _] | [_ [cls [ws1 [s1 [ws2 [s2 [Ec [E1 [E2 E]]]]]]]]]]; [congruence|]. subst s.
  assert (Hself : forall x e, assigns x (linker_symbol x e) = true) by (intros; apply String.eqb_refl).
  unfold seg_head, seg_foot, sym_end_size. cbv zeta. repeat split.
  - eapply existsb_in_true; [|apply (Hself _ (EAddr ("." ++ sg_name seg)%string))]. in_solve.
  - eapply existsb_in_true; [|apply (Hself _ EDot)]. in_solve.
  - eapply existsb_in_true; [|apply Hself]. in_solve.
Qed.

Lemma vram_assigned_app_l sty name a b : vram_assigned sty name a -> vram_assigned sty name (a ++ b).
Proof. intros [A1 [A2 A3]]. unfold vram_assigned. rewrite !existsb_app, A1, A2, A3. auto. Qed.

Lemma vram_assigned_app_r sty name a b : vram_assigned sty name b -> vram_assigned sty name (a ++ b).
Proof. intros [A1 [A2 A3]]. unfold vram_assigned. rewrite !existsb_app, A1, A2, A3, !orb_true_r. auto. Qed.

Lemma vram_assigned_fold rt stg cfg classes segs : forall ws body ws' seg,
  fold_out (add_segment rt stg cfg classes) segs ws = Ok (body, ws') ->
  In seg (included rt segs) -> vram_assigned (linker_symbols_style stg) (sg_name seg) body.
Proof.
  induction segs as [|x r IH]; intros ws body ws' seg H Hin; [contradiction|].
  apply fold_out_cons in H. destruct H as [s1 [ws1 [s2 [E1 [E2 E]]]]]. subst body.
  unfold included in Hin. cbn [filter] in Hin. destruct (should_emit rt (sg_conds x)) eqn:Hc.
  - destruct Hin as [Hin|Hin].
    + subst x. apply vram_assigned_app_l. eapply vram_assigned_add_segment; eassumption.
    + apply vram_assigned_app_r. eapply IH; eassumption.
  - apply vram_assigned_app_r. eapply IH; eassumption.
Qed.

(* ====================================================================== *)
(* 2 / 3. the chains over the list of segments                             *)
(* ====================================================================== *)

Section DocChains.
  Variables (env : list (string * Z)) (senv : list osec) (ext : list (string * Z)) (final : bool).
  Notation runl := (run env senv ext final).

  (* ---------- ROM: C04_chain with the error hypothesis restricted to the sections it concerns ---------- *)

  Lemma rom_chain_fold' rt stg cfg classes segs : forall ws body ws' st0 r,
    fold_out (add_segment rt stg cfg classes) segs ws = Ok (body, ws') ->
    let sty := linker_symbols_style stg in
    val st0 "__romPos" = Some r ->
    (forall seg, In seg (included rt segs) -> find_sec (alloc_name seg) (l_secs st0) = None) ->
    NoDup (out_names (included rt segs)) ->
    (forall seg, In seg (included rt segs) -> rom_names_distinct sty (sg_name seg) body = true) ->
    (forall seg, In seg (included rt segs) ->
                 ~ In (LForwardRef (alloc_name seg)) (l_errors (runl body st0))) ->
    sizes_ok st0 ->
    RomChain sty (runl body st0) r (included rt segs).
  Proof.
    induction segs as [|seg rest IH]; intros ws body ws' st0 r H sty Hr Hfresh Hnd Hdist Herr Hsz.
    - apply fold_out_nil in H. destruct H; subst. exact Hr.
    - apply fold_out_cons in H. destruct H as [s1 [ws1 [body_r [E1 [E2 E]]]]]. subst body.
      unfold included in *. cbn [filter] in *. destruct (should_emit rt (sg_conds seg)) eqn:Hc.
      + pose proof (rom_assigned_add_segment _ _ _ _ _ _ _ _ E1 Hc) as Hass.
        destruct (rnd_app_l _ _ _ _ (Hdist seg (or_introl eq_refl)) Hass) as [Hd1 [U1 [U2 U3]]].
        rewrite run_app in *.
        set (st1 := runl s1 st0) in *.
        destruct (segment_rom env senv ext final rt stg cfg classes seg ws s1 ws1 st0 r E1 Hc Hr
                    (Hfresh seg (or_introl eq_refl)) Hd1) as [o [Ho [Hl [Hn [Hz Hv]]]]].
        { fold st1. intro Hin. apply (Herr seg (or_introl eq_refl)). apply run_errors_in. exact Hin. }
        { exact Hsz. }
        cbv zeta in Hv. destruct Hv as [V0 [V1 [V2 V3]]].
        fold st1 sty in Ho, V0, V1, V2, V3.
        cbn [RomChain]. exists o. split; [apply run_find_sec; exact Ho|].
        split; [exact Hl|]. split; [exact Hn|]. split; [exact Hz|].
        split; [unfold val; rewrite run_syms; assumption|].
        split; [unfold val; rewrite run_syms; assumption|].
        split; [unfold val; rewrite run_syms; assumption|].
        cbn [out_names flat_map app] in Hnd. inversion Hnd as [|x l Hn1 Hnd1]; subst x l.
        inversion Hnd1 as [|x l Hn2 Hnd2]; subst x l.
        apply (IH ws1 body_r ws' st1); try assumption.
        * intros seg' Hin. apply run_find_sec_none; [apply Hfresh; right; assumption|].
          rewrite (makes_sec_add_segment _ _ _ _ _ _ _ _ E1), Hc.
          assert (Hin' : In (alloc_name seg') (out_names (filter (fun s => should_emit rt (sg_conds s)) rest))).
          { unfold out_names. apply in_flat_map. exists seg'. split; [assumption|left; reflexivity]. }
          intros [Ea|[Ea|[]]].
          -- apply Hn1. right. rewrite Ea. exact Hin'.
          -- apply Hn2. rewrite Ea. exact Hin'.
        * intros seg' Hin.
          apply (rnd_app_r _ _ s1 body_r (Hdist seg' (or_intror Hin))).
          eapply rom_assigned_fold; eassumption.
        * intros seg' Hin. apply Herr. right. exact Hin.
        * unfold st1. apply run_remaining_Forall. exact Hsz.
      + rewrite (add_segment_excluded _ _ _ _ _ _ Hc) in E1. apply ok_inj in E1. inversion E1; subst s1 ws1.
        cbn [app] in *. eapply IH; eassumption.
  Qed.

  (* ---------- VRAM ---------- *)

  Lemma VramChain_frame sty tail segs : forall st dt,
    (forall seg, In seg segs -> vram_untouched sty (sg_name seg) tail) ->
    VramChain sty senv st dt segs -> VramChain sty senv (runl tail st) dt segs.
  Proof.
    induction segs as [|seg rest IH]; intros st dt Hun H; [exact I|].
    cbn [VramChain] in *. cbv zeta in *.
    destruct H as (o1 & o2 & A2 & F1 & F2 & N1 & Z1 & N2 & C2 & Z2 & V2 & L2 & VE & VZ & VS & DS & Hrest).
    destruct (Hun seg (or_introl eq_refl)) as [U1 [U2 U3]].
    exists o1, o2, A2.
    split; [apply run_find_sec; exact F1|]. split; [apply run_find_sec; exact F2|].
    split; [exact N1|]. split; [exact Z1|]. split; [exact N2|]. split; [exact C2|]. split; [exact Z2|].
    split; [exact V2|]. split; [exact L2|].
    split; [unfold val; rewrite run_syms; assumption|].
    split.
    { intros v Hv. unfold val in *. rewrite run_syms in Hv by assumption. rewrite run_syms by assumption.
      apply VZ. exact Hv. }
    split.
    { intros o Ho. unfold val. rewrite run_syms by assumption. apply VS. exact Ho. }
    split; [exact DS|].
    apply IH; [intros s Hs; apply Hun; right; exact Hs | exact Hrest].
  Qed.

  Lemma find_sec_two name o1 o2 :
    find_sec name [o1; o2] =
    if String.eqb (os_name o1) name then Some o1 else if String.eqb (os_name o2) name then Some o2 else None.
  Proof. reflexivity. Qed.

  Lemma vram_chain_fold rt stg cfg classes segs : forall ws body ws' st0,
    fold_out (add_segment rt stg cfg classes) segs ws = Ok (body, ws') ->
    let sty := linker_symbols_style stg in
    (forall n, In n (out_names (included rt segs)) -> find_sec n (l_secs st0) = None) ->
    NoDup (out_names (included rt segs)) ->
    (forall seg, In seg (included rt segs) -> vram_names_distinct sty (sg_name seg) body = true) ->
    (forall seg, In seg (included rt segs) ->
                 ~ In (LForwardRef (alloc_name seg)) (l_errors (runl body st0))) ->
    sizes_ok st0 ->
    exists secs,
      l_secs (runl body st0) = (l_secs st0 ++ secs)%list /\
      map os_name secs = out_names (included rt segs) /\
      VramChain sty senv (runl body st0) (l_dot st0) (included rt segs) /\
      sizes_ok (runl body st0).
  Proof.
    induction segs as [|seg rest IH]; intros ws body ws' st0 H sty Hfresh Hnd Hdist Herr Hsz.
    - apply fold_out_nil in H. destruct H; subst. exists []. rewrite app_nil_r. cbn. auto.
    - apply fold_out_cons in H. destruct H as [s1 [ws1 [body_r [E1 [E2 E]]]]]. subst body.
      unfold included in *. cbn [filter] in *. destruct (should_emit rt (sg_conds seg)) eqn:Hc.
      + pose proof (vram_assigned_add_segment _ _ _ _ _ _ _ _ E1 Hc) as Hass.
        destruct (vnd_app_l _ _ _ _ (Hdist seg (or_introl eq_refl)) Hass) as [Hd1 [U1 [U2 U3]]].
        rewrite run_app in *.
        set (st1 := runl s1 st0) in *.
        destruct (segment_vram env senv ext final rt stg cfg classes seg ws s1 ws1 st0 E1 Hc Hd1)
          as (cls & wsx & body1 & o1 & o2 & A2 & Ec & Hrest).
        { fold st1. intro Hin. apply (Herr seg (or_introl eq_refl)). apply run_errors_in. exact Hin. }
        { exact Hsz. }
        cbv zeta in Hrest.
        destruct Hrest as (Hdot & Hvma & Hsecs & N1 & L1 & Z1 & N2 & L2 & C2 & Z2 & V2 & LE2 & Hd' & VE & VZ & VS).
        fold st1 sty in Hsecs, Hd', VE, VZ, VS.
        cbn [out_names flat_map app] in Hnd, Hfresh. inversion Hnd as [|x l Hn1 Hnd1]; subst x l.
        inversion Hnd1 as [|x l Hn2 Hnd2]; subst x l.
        assert (Hsz1 : sizes_ok st1) by (unfold st1; apply run_remaining_Forall; exact Hsz).
        assert (Hne : String.eqb (alloc_name seg) (noload_name seg) = false).
        { apply String.eqb_neq. intro Ea. apply Hn1. left. symmetry. exact Ea. }
        destruct (IH ws1 body_r ws' st1 E2) as [secs_r [Hs_r [Hn_r [Hchain Hsz']]]].
        * intros n Hin. rewrite Hsecs, find_sec_app_none by (apply Hfresh; right; right; exact Hin).
          rewrite find_sec_two, N1, N2.
          destruct (String.eqb (alloc_name seg) n) eqn:Ea.
          { apply String.eqb_eq in Ea. exfalso. apply Hn1. right. rewrite Ea. exact Hin. }
          destruct (String.eqb (noload_name seg) n) eqn:Eb; [|reflexivity].
          apply String.eqb_eq in Eb. exfalso. apply Hn2. rewrite Eb. exact Hin.
        * exact Hnd2.
        * intros seg' Hin.
          apply (vnd_app_r _ _ s1 body_r (Hdist seg' (or_intror Hin))).
          eapply vram_assigned_fold; eassumption.
        * intros seg' Hin. apply Herr. right. exact Hin.
        * exact Hsz1.
        * exists (o1 :: o2 :: secs_r).
          split; [rewrite Hs_r, Hsecs, <- app_assoc; reflexivity|].
          split; [cbn [map]; rewrite N1, N2, Hn_r; reflexivity|].
          split; [|exact Hsz'].
          cbn [VramChain]. cbv zeta. exists o1, o2, A2.
          assert (Hf0 : find_sec (alloc_name seg) (l_secs st0) = None) by (apply Hfresh; left; reflexivity).
          assert (Hf0' : find_sec (noload_name seg) (l_secs st0) = None)
            by (apply Hfresh; right; left; reflexivity).
          split.
          { apply run_find_sec. rewrite Hsecs, find_sec_app_none by exact Hf0.
            rewrite find_sec_two, N1, String.eqb_refl. reflexivity. }
          split.
          { apply run_find_sec. rewrite Hsecs, find_sec_app_none by exact Hf0'.
            rewrite find_sec_two, N1, N2, Hne, String.eqb_refl. reflexivity. }
          split; [exact L1|]. split; [exact Z1|]. split; [exact L2|]. split; [exact C2|]. split; [exact Z2|].
          split; [exact V2|]. split; [exact LE2|].
          split; [unfold val; rewrite run_syms; assumption|].
          split.
          { intros v Hv. unfold val in *. rewrite run_syms in Hv by assumption. rewrite run_syms by assumption.
            apply VZ. exact Hv. }
          split.
          { intros o Ho. unfold val. rewrite run_syms by assumption. apply VS.
            unfold sec_lookup. rewrite Hf0. exact Ho. }
          split.
          { intros F1 F2 F3 F4. unfold segment_addr in Hvma. rewrite F1, F2, F3, F4 in Hvma.
            cbn [outsec_vma] in Hvma. apply ok_inj in Hvma. rewrite Hdot in Hvma.
            eexists. symmetry. exact Hvma. }
          rewrite <- Hd'. exact Hchain.
      + rewrite (add_segment_excluded _ _ _ _ _ _ Hc) in E1. apply ok_inj in E1. inversion E1; subst s1 ws1.
        cbn [app] in *. eapply IH; eassumption.
  Qed.

  Lemma VramChain_noload sty st segs : forall dt,
    VramChain sty senv st dt segs -> NoloadSections st segs.
  Proof.
    induction segs as [|seg rest IH]; intros dt H; [constructor|].
    cbn [VramChain] in H. cbv zeta in H.
    destruct H as (o1 & o2 & A2 & F1 & F2 & N1 & Z1 & N2 & C2 & Z2 & V2 & L2 & VE & VZ & VS & DS & Hrest).
    constructor; [exists o2; auto | eapply IH; exact Hrest].
  Qed.

  (* ---------- the whole script of a well-formed document ---------- *)

  Lemma seg_wf_parts sty l seg :
    seg_link_wf sty l seg = true ->
    rom_names_distinct sty (sg_name seg) l = true /\ vram_names_distinct sty (sg_name seg) l = true /\
    NoDup (seg_sections seg) /\
    (forall sec, In sec (seg_sections seg) -> section_names_once sty (sg_name seg) l sec = true).
  Proof.
    unfold seg_link_wf. intro H.
    apply andb_true_iff in H. destruct H as [H H4]. apply andb_true_iff in H. destruct H as [H H3].
    apply andb_true_iff in H. destruct H as [H1 H2].
    split; [exact H1|]. split; [exact H2|]. split; [apply nodup_str_NoDup; exact H3|].
    apply forallb_forall. exact H4.
  Qed.

  Lemma sizes_ok_init u : Forall (fun x => 0 <= u_size x) u -> sizes_ok (init_state u).
  Proof. intro H. exact H. Qed.

  Theorem document_chains d rt w u :
    gen_normal d rt = Ok w -> doc_link_wf d rt = true ->
    Forall (fun x => 0 <= u_size x) u ->
    let sty := linker_symbols_style (doc_settings d) in
    let segs := included rt (doc_segments d) in
    let st' := exec_script env senv ext final (wo_script w) (init_state u) in
    (forall seg, In seg segs -> ~ In (LForwardRef (alloc_name seg)) (l_errors st')) ->
    RomChain sty st' 0 segs /\
    VramChain sty senv st' 0 segs /\
    exists secs rest, l_secs st' = (secs ++ rest)%list /\ map os_name secs = out_names segs.
  Proof.
    intros Hg Hwf Hu sty segs st' Herr.
    destruct (doc_exec d rt w Hg Hwf) as (body & ws' & E & Hnd & Hseg & _ & Hrom & Hexec).
    set (stg := doc_settings d) in *. set (classes := doc_vram_classes d) in *.
    set (fin := (end_sections_body stg classes ws' ++ tail_stmts rt d)%list) in *.
    unfold st' in *. rewrite Hexec in *. clear Hexec st'.
    rewrite !run_app in *.
    destruct (run_begin env senv ext final stg (init_state u)) as [B1 [B2 [B3 [B4 B5]]]].
    set (stb := runl (begin_sections_body stg) (init_state u)) in *.
    (* the symbols of each segment: once in the body, never afterwards *)
    assert (Hrom2 : forall seg, In seg segs ->
                      rom_names_distinct sty (sg_name seg) body = true /\ rom_untouched sty (sg_name seg) fin).
    { intros seg Hin. destruct (seg_wf_parts _ _ _ (Hseg seg Hin)) as [D _].
      pose proof (rom_assigned_fold _ _ _ _ _ _ _ _ _ E Hin) as Hass.
      destruct (rnd_app_r _ _ _ _ D (rom_assigned_app_l _ _ _ _ Hass)) as [D' _].
      apply (rnd_app_l _ _ _ _ D' Hass). }
    assert (Hvram2 : forall seg, In seg segs ->
                      vram_names_distinct sty (sg_name seg) body = true /\ vram_untouched sty (sg_name seg) fin).
    { intros seg Hin. destruct (seg_wf_parts _ _ _ (Hseg seg Hin)) as [_ [D _]].
      pose proof (vram_assigned_fold _ _ _ _ _ _ _ _ _ E Hin) as Hass.
      destruct (vnd_app_r _ _ _ _ D (vram_assigned_app_l _ _ _ _ Hass)) as [D' _].
      apply (vnd_app_l _ _ _ _ D' Hass). }
    assert (Herr' : forall seg, In seg segs -> ~ In (LForwardRef (alloc_name seg)) (l_errors (runl body stb))).
    { intros seg Hin Hbad. apply (Herr seg Hin). apply run_errors_in. exact Hbad. }
    assert (Hszb : sizes_ok stb) by (unfold sizes_ok; rewrite B3; exact Hu).
    assert (Hfin_rom : existsb (assigns "__romPos") fin = false).
    { unfold fin. rewrite existsb_app. apply orb_false_iff. split.
      - apply existsb_false_Forall. apply nf_end_sections; solve [reflexivity | discriminate].
      - apply negb_true_iff. exact Hrom. }
    split; [|split].
    - apply RomChain_frame; [exact Hfin_rom | intros seg Hin; apply (Hrom2 seg Hin) |].
      eapply rom_chain_fold'; try eassumption.
      + intros seg Hin. rewrite B2. reflexivity.
      + intros seg Hin. apply (Hrom2 seg Hin).
    - destruct (vram_chain_fold rt stg cfg_normal classes (doc_segments d) ws0 body ws' stb E)
        as [secs [_ [_ [Hchain _]]]]; try assumption.
      + intros n Hin. rewrite B2. reflexivity.
      + intros seg Hin. apply (Hvram2 seg Hin).
      + rewrite B5 in Hchain. apply VramChain_frame; [intros seg Hin; apply (Hvram2 seg Hin) | exact Hchain].
    - destruct (vram_chain_fold rt stg cfg_normal classes (doc_segments d) ws0 body ws' stb E)
        as [secs [Hsecs [Hnames _]]]; try assumption.
      + intros n Hin. rewrite B2. reflexivity.
      + intros seg Hin. apply (Hvram2 seg Hin).
      + destruct (run_secs env senv ext final fin (runl body stb)) as [new [En _]].
        exists secs, new. rewrite En, Hsecs, B2. split; [reflexivity | exact Hnames].
  Qed.
End DocChains.

(* C04_document_rom_chain *)
Theorem document_rom_chain env senv ext final d rt w u :
  gen_normal d rt = Ok w -> doc_link_wf d rt = true ->
  Forall (fun x => 0 <= u_size x) u ->
  let sty := linker_symbols_style (doc_settings d) in
  let segs := included rt (doc_segments d) in
  let st' := exec_script env senv ext final (wo_script w) (init_state u) in
  (forall seg, In seg segs -> ~ In (LForwardRef (alloc_name seg)) (l_errors st')) ->
  RomChain sty st' 0 segs /\ NoloadSections st' segs.
Proof.
  intros Hg Hwf Hu sty segs st' Herr.
  destruct (document_chains env senv ext final d rt w u Hg Hwf Hu Herr) as [R [V _]].
  split; [exact R | eapply VramChain_noload; exact V].
Qed.

Theorem document_rom_chain_layout d rt w u ext0 :
  gen_normal d rt = Ok w -> doc_link_wf d rt = true ->
  Forall (fun x => 0 <= u_size x) u ->
  let sty := linker_symbols_style (doc_settings d) in
  let segs := included rt (doc_segments d) in
  let st' := layout (wo_script w) u ext0 in
  (forall seg, In seg segs -> ~ In (LForwardRef (alloc_name seg)) (l_errors st')) ->
  RomChain sty st' 0 segs /\ NoloadSections st' segs.
Proof. intros Hg Hwf Hu sty segs st'. unfold st', layout. apply document_rom_chain; assumption. Qed.

(* C03_document_vram *)
Theorem document_vram env senv ext final d rt w u :
  gen_normal d rt = Ok w -> doc_link_wf d rt = true ->
  Forall (fun x => 0 <= u_size x) u ->
  let sty := linker_symbols_style (doc_settings d) in
  let segs := included rt (doc_segments d) in
  let st' := exec_script env senv ext final (wo_script w) (init_state u) in
  (forall seg, In seg segs -> ~ In (LForwardRef (alloc_name seg)) (l_errors st')) ->
  VramChain sty senv st' 0 segs /\
  exists secs rest, l_secs st' = (secs ++ rest)%list /\ map os_name secs = out_names segs.
Proof.
  intros Hg Hwf Hu sty segs st' Herr.
  destruct (document_chains env senv ext final d rt w u Hg Hwf Hu Herr) as [_ [V S]]. split; assumption.
Qed.

Theorem document_vram_layout d rt w u ext0 :
  gen_normal d rt = Ok w -> doc_link_wf d rt = true ->
  Forall (fun x => 0 <= u_size x) u ->
  let sty := linker_symbols_style (doc_settings d) in
  let segs := included rt (doc_segments d) in
  let p1 := exec_script [] [] ext0 false (wo_script w) (init_state u) in
  let p2 := exec_script (l_syms p1) (l_secs p1) (ext0 ++ markers_of p1)%list false (wo_script w) (init_state u) in
  let st' := layout (wo_script w) u ext0 in
  (forall seg, In seg segs -> ~ In (LForwardRef (alloc_name seg)) (l_errors st')) ->
  VramChain sty (l_secs p2) st' 0 segs /\
  exists secs rest, l_secs st' = (secs ++ rest)%list /\ map os_name secs = out_names segs.
Proof. intros Hg Hwf Hu sty segs p1 p2 st'. unfold st', layout. apply document_vram; assumption. Qed.

(* ====================================================================== *)
(* 5. vram classes over the whole document                                 *)
(* ====================================================================== *)

Lemma in_keep_first x l : In x l -> In x (keep_first String.eqb l).
Proof.
  induction l as [|y r IH]; intro H; [contradiction|]. cbn [keep_first].
  destruct (String.eqb y x) eqn:E.
  - apply String.eqb_eq in E. left. exact E.
  - right. apply filter_In. split.
    + apply IH. destruct H as [H|H]; [apply String.eqb_neq in E; congruence | exact H].
    + rewrite E. reflexivity.
Qed.

Lemma class_get_in classes cn c : class_get classes cn = Some c -> In cn (map vc_name classes).
Proof.
  unfold class_get. intro H. apply find_some in H. destruct H as [Hin E]. apply String.eqb_eq in E.
  subst cn. apply in_map. apply in_rev. exact Hin.
Qed.

Lemma fold_class_declared rt stg cfg classes segs : forall ws body ws' seg cn,
  fold_out (add_segment rt stg cfg classes) segs ws = Ok (body, ws') ->
  In seg (included rt segs) -> sg_vram_class seg = Some cn -> exists c, class_get classes cn = Some c.
Proof.
  induction segs as [|x r IH]; intros ws body ws' seg cn H Hin Hcn; [contradiction|].
  apply fold_out_cons in H. destruct H as [s1 [ws1 [s2 [E1 [E2 E]]]]].
  unfold included in Hin. cbn [filter] in Hin. destruct (should_emit rt (sg_conds x)) eqn:Hc.
  - destruct Hin as [Hin|Hin].
    + subst x. destruct (segment_class _ _ _ _ _ _ _ _ E1 Hc) as [_ [_ [_ Hget]]]. apply Hget. exact Hcn.
    + eapply IH; eassumption.
  - eapply IH; eassumption.
Qed.

Lemma used_classes_in rt segs cn :
  In cn (used_classes rt segs) <-> exists seg, In seg (included rt segs) /\ sg_vram_class seg = Some cn.
Proof.
  unfold used_classes. rewrite in_flat_map. split; intros [seg [Hin H]]; exists seg; split; try assumption.
  - destruct (sg_vram_class seg) as [c|]; [|contradiction]. destruct H as [H|[]]. subst. reflexivity.
  - rewrite H. left. reflexivity.
Qed.

Lemma used_names_class rt segs cn : In cn (used_classes rt segs) -> names_class rt cn segs = true.
Proof.
  intro H. apply used_classes_in in H. destruct H as [seg [Hin Hcn]].
  apply filter_In in Hin. destruct Hin as [Hin Hc]. unfold names_class. apply existsb_exists.
  exists seg. split; [exact Hin|]. rewrite Hc, Hcn. cbn [opt_eqb_str andb]. apply String.eqb_refl.
Qed.

Lemma Forall2_impl_in {A B} (P Q : A -> B -> Prop) l1 : forall l2,
  (forall a b, In a l1 -> P a b -> Q a b) -> Forall2 P l1 l2 -> Forall2 Q l1 l2.
Proof.
  induction l1 as [|a l1 IH]; intros l2 H F; inversion F; subst; constructor.
  - apply H; [left; reflexivity | assumption].
  - apply IH; [|assumption]. intros a' b' Hin. apply H. right. exact Hin.
Qed.

Section DocClasses.
  Variables (env : list (string * Z)) (senv : list osec) (ext : list (string * Z)) (final : bool).
  Notation top := (exec_top_stmt env senv ext final).
  Notation runl := (run env senv ext final).

  Lemma top_sub_lookup st x a b va vb :
    x <> "."%string -> sym_lookup a st env ext = Some va -> sym_lookup b st env ext = Some vb ->
    top st (linker_symbol x (ESub a b)) = set_sym x (va - vb) false st.
  Proof.
    intros Hd Ha Hb. unfold linker_symbol. cbn [exec_top_stmt]. apply String.eqb_neq in Hd. rewrite Hd.
    cbn [eval_expr]. rewrite Ha, Hb. reflexivity.
  Qed.

  Theorem document_classes d rt w st cn :
    gen_normal d rt = Ok w -> doc_link_wf d rt = true ->
    In cn (used_classes rt (doc_segments d)) ->
    let sty := linker_symbols_style (doc_settings d) in
    let st' := exec_script env senv ext final (wo_script w) st in
    ClassSummary sty env ext st' rt (doc_segments d) cn.
  Proof.
    intros Hg Hwf Hcn sty st'.
    destruct (doc_exec d rt w Hg Hwf) as (body & ws' & E & Hnd & Hseg & Hcls & Hrom & Hexec).
    set (stg := doc_settings d) in *. set (classes := doc_vram_classes d) in *.
    set (endb := end_sections_body stg classes ws') in *. set (tl := tail_stmts rt d) in *.
    set (START := vram_class_start sty cn). set (END := vram_class_end sty cn).
    set (SIZE := vram_class_size sty cn).
    unfold st'. rewrite Hexec. clear Hexec st'. rewrite !run_app.
    set (stb := runl (begin_sections_body stg) st).
    specialize (Hcls cn Hcn). unfold class_link_wf in Hcls. fold sty START END SIZE in Hcls.
    apply andb_true_iff in Hcls. destruct Hcls as [Hcls Hsize].
    apply andb_true_iff in Hcls. destruct Hcls as [Hcls HnoS].
    apply andb_true_iff in Hcls. destruct Hcls as [Hclean HnoE].
    apply negb_true_iff in HnoS. apply negb_true_iff in HnoE.
    (* the VRAM end of each member: once in the body, never afterwards *)
    assert (Hmem : forall seg, In seg (members rt cn (doc_segments d)) ->
                     defined_once (segment_vram_end sty (sg_name seg)) body = true /\
                     existsb (assigns (segment_vram_end sty (sg_name seg))) (endb ++ tl) = false).
    { intros seg Hin. apply filter_In in Hin. destruct Hin as [Hin Hm]. unfold is_member in Hm.
      apply andb_true_iff in Hm. destruct Hm as [Hc _].
      assert (Hinc : In seg (included rt (doc_segments d))) by (apply filter_In; split; assumption).
      destruct (seg_wf_parts _ _ _ (Hseg seg Hinc)) as [_ [D _]].
      pose proof (vram_assigned_fold _ _ _ _ _ _ _ _ _ E Hinc) as Hass.
      destruct (vnd_app_r _ _ _ _ D (vram_assigned_app_l _ _ _ _ Hass)) as [D' _].
      destruct (vnd_app_l _ _ _ _ D' Hass) as [D'' [_ [U2 _]]].
      unfold vram_names_distinct in D''. apply andb_true_iff in D''. destruct D'' as [D'' _].
      apply andb_true_iff in D''. destruct D'' as [_ D'']. split; assumption. }
    destruct (class_end_is_max env senv ext final rt stg cfg_normal classes cn (doc_segments d) ws0 body ws' stb 0 E Hclean)
      as [vs [Hvs Hend]].
    { intros seg Hin. apply (Hmem seg Hin). }
    { intro Hm. discriminate Hm. }
    { intros _. reflexivity. }
    assert (Hem : mem_str cn (ws_emitted ws') = true).
    { rewrite (emitted_fold _ _ _ _ cn _ _ _ _ E). rewrite (used_names_class _ _ _ Hcn). apply orb_true_r. }
    specialize (Hend Hem). fold sty END in Hend, Hvs.
    set (stB := runl body stb) in *.
    rewrite <- run_app.
    assert (Eend : val (runl (endb ++ tl) stB) END = Some (fold_left Z.max vs 0)).
    { unfold val. rewrite run_syms by exact HnoE. exact Hend. }
    exists vs. split; [|split; [exact Eend|]].
    - eapply Forall2_impl_in; [|exact Hvs]. intros seg v Hin Hv. cbv beta in *.
      unfold val. rewrite run_syms; [exact Hv | apply (Hmem seg Hin)].
    - (* the size statement is in the tail of SECTIONS *)
      intros s0 Hs0.
      assert (Hin : In (class_size_stmt sty cn) endb).
      { unfold endb. rewrite end_sections_layout. 
        assert (Hsz : In (class_size_stmt sty cn) (tail_sizes stg classes ws')).
        { unfold tail_sizes. fold sty. apply in_map. unfold emitted_classes. apply filter_In. split; [|exact Hem].
          apply in_keep_first. apply used_classes_in in Hcn. destruct Hcn as [seg [Hinc Hc]].
          destruct (fold_class_declared _ _ _ _ _ _ _ _ _ cn E Hinc Hc) as [c Hget].
          eapply class_get_in. exact Hget. }
        cbn [sep_concat]. destruct (tail_sizes stg classes ws') as [|x0 r0]; [contradiction|].
        apply in_or_app. left. exact Hsz. }
      apply in_split in Hin. destruct Hin as [p1 [p2 Ep]].
      assert (Efin : (endb ++ tl = p1 ++ class_size_stmt sty cn :: (p2 ++ tl))%list).
      { rewrite Ep. rewrite <- app_assoc. reflexivity. }
      rewrite Efin in Hsize, HnoE, HnoS, Hs0 |- *.
      apply defined_once_split in Hsize; [|apply String.eqb_refl]. destruct Hsize as [Z1 Z2].
      rewrite existsb_app in HnoE, HnoS. apply orb_false_iff in HnoE. apply orb_false_iff in HnoS.
      destruct HnoE as [E1 E2]. destruct HnoS as [S1 S2].
      rewrite run_app, run_cons in Hs0 |- *.
      set (stS := runl p1 stB) in *.
      assert (HE : sym_lookup END stS env ext = Some (fold_left Z.max vs 0)).
      { apply sym_lookup_defined. unfold stS. rewrite run_syms by exact E1. exact Hend. }
      assert (HS : sym_lookup START stS env ext = Some s0).
      { rewrite <- Hs0. symmetry.
        change (runl (p2 ++ tl) (top stS (class_size_stmt sty cn)))
          with (runl (class_size_stmt sty cn :: p2 ++ tl) stS).
        apply sym_lookup_frame. exact S2. }
      unfold class_size_stmt. fold START END SIZE.
      rewrite (top_sub_lookup stS SIZE END START _ _ (class_size_not_dot sty cn) HE HS).
      unfold val. rewrite run_syms by exact Z2. apply lookup_set_sym_same.
  Qed.
End DocClasses.

Theorem document_classes_layout d rt w u ext0 cn :
  gen_normal d rt = Ok w -> doc_link_wf d rt = true ->
  In cn (used_classes rt (doc_segments d)) ->
  let sty := linker_symbols_style (doc_settings d) in
  let p1 := exec_script [] [] ext0 false (wo_script w) (init_state u) in
  let p2 := exec_script (l_syms p1) (l_secs p1) (ext0 ++ markers_of p1)%list false (wo_script w) (init_state u) in
  ClassSummary sty (l_syms p2) (ext0 ++ markers_of p2)%list (layout (wo_script w) u ext0) rt (doc_segments d) cn.
Proof. intros Hg Hwf Hcn sty p1 p2. unfold layout. apply document_classes; assumption. Qed.
