(* Translator obligations for the format! templates used by C01: tools/rs2v.py regenerates the named templates
   t_sb_<fn>_<k> (script_buffer.rs) and t_lw_<fn>_<k> (linker_writer.rs) from the Rust source on every run - named after
   the enclosing function and the ordinal of the template inside it, so that an edit elsewhere in the file leaves them
   alone; the lemmas below tie the rendering of the script AST (Model/Script.v) to those templates and pin their format
   specs.  A change of one of these format strings in the Rust breaks the lemma the next time a check runs. *)
From Slinky Require Import Model.Types Model.Generated Model.Style Model.Script.
Local Open Scope string_scope.

Lemma str_app_nil_r (s : string) : s ++ "" = s.
Proof. induction s as [|c s IH]; simpl; [reflexivity | rewrite IH; reflexivity]. Qed.

Lemma str_app_assoc (x y z : string) : (x ++ y) ++ z = x ++ y ++ z.
Proof. induction x as [|c x IH]; simpl; [reflexivity | rewrite IH; reflexivity]. Qed.

Lemma lw_input_object keep path sect wild :
  render_input keep path None sect wild =
  fmt t_lw_emit_file_0 [if keep then "KEEP(" else ""; path; sect; if wild then "*" else ""; if keep then ")" else ""].
Proof. destruct keep, wild; reflexivity. Qed.

Lemma lw_input_archive keep path sub sect wild :
  render_input keep path (Some sub) sect wild =
  fmt t_lw_emit_file_1 [if keep then "KEEP(" else ""; path; sub; sect; if wild then "*" else ""; if keep then ")" else ""].
Proof. destruct keep, wild; reflexivity. Qed.

Lemma lw_pad ind n : render_stmt ind (SDotAdd n) = [indent_str ind ++ fmt t_lw_emit_file_2 [hex_of_N n]].
Proof. reflexivity. Qed.

(* the format specs of the templates used above ({} = Display, {:X} = upper-case hex, {:08X} = eight digits) *)
Lemma specs_C01 :
  t_lw_emit_file_0_spec = [""; ""; ""; ""; ""] /\
  t_lw_emit_file_1_spec = [""; ""; ""; ""; ""; ""] /\
  t_lw_emit_file_2_spec = [":X"].
Proof. repeat split; reflexivity. Qed.
