(* C18Link: what LdSem does with the allow-list entries and the /DISCARD/ block; every input section
   ends up in exactly one of placed / discarded / still unplaced. *)
From Slinky Require Import Model.Types Model.Generated Model.Runtime Model.Style Model.Script Model.Writer Model.LdSem.
From Slinky Require Import Spec.C17 Spec.C04 Proofs.C06 Proofs.C18 Proofs.C17 Proofs.LdLemmas Proofs.C04.
From Coq Require Import Lia ZArith Permutation.
Local Open Scope Z_scope.

(* ---------- placing ---------- *)

Lemma place_markers vma sub outsec l : forall off acc c off' acc' c',
  place vma sub outsec l off acc c = (off', acc', c') ->
  exists new, acc' = (acc ++ new)%list /\ map pl_marker new = map u_marker l /\
              Forall (fun p => pl_outsec p = outsec) new.
Proof.
  induction l as [|u r IH]; intros off acc c off' acc' c' H; simpl in H.
  - inversion H; subst. exists []. rewrite app_nil_r. repeat split; constructor.
  - apply IH in H. destruct H as [new [E [M F]]]. eexists (_ :: new). rewrite E, <- app_assoc. cbn [app].
    split; [reflexivity|]. split; [cbn [map pl_marker]; rewrite M; reflexivity|]. constructor; [reflexivity|assumption].
Qed.

Lemma filter_partition_perm {A} (f : A -> bool) l :
  Permutation l (filter f l ++ filter (fun x => negb (f x)) l).
Proof.
  induction l as [|a l IH]; [constructor|]. cbn [filter]. destruct (f a); cbn [negb app].
  - constructor. exact IH.
  - apply Permutation_cons_app. exact IH.
Qed.

(* the markers of all the input sections, wherever they are now *)
Definition accounted (st : lstate) : list string :=
  (map pl_marker (l_placed st) ++ l_discarded st ++ map u_marker (l_remaining st))%list.

Lemma accounted_place placed disc rem pls (f : usec -> bool) :
  map pl_marker pls = map u_marker (filter f rem) ->
  Permutation (map pl_marker (placed ++ pls) ++ disc ++ map u_marker (filter (fun u => negb (f u)) rem))
              (map pl_marker placed ++ disc ++ map u_marker rem).
Proof.
  intro M. rewrite map_app, M, <- app_assoc. apply Permutation_app_head.
  rewrite (Permutation_app_comm (map u_marker (filter f rem))), <- app_assoc. apply Permutation_app_head.
  rewrite <- map_app. apply Permutation_map. symmetry.
  eapply Permutation_trans; [apply (filter_partition_perm f)|]. apply Permutation_app_comm.
Qed.

Lemma accounted_discard placed disc rem (f : usec -> bool) :
  Permutation (map pl_marker placed ++ (disc ++ map u_marker (filter f rem)) ++
               map u_marker (filter (fun u => negb (f u)) rem))
              (map pl_marker placed ++ disc ++ map u_marker rem).
Proof.
  apply Permutation_app_head. rewrite <- app_assoc. apply Permutation_app_head.
  rewrite <- map_app. apply Permutation_map. symmetry. apply filter_partition_perm.
Qed.

Lemma nodup_app_disjoint {A} (a b : list A) : NoDup (a ++ b) -> forall x, In x a -> ~ In x b.
Proof.
  induction a as [|y a IH]; intros H x Hx; [contradiction|]. cbn [app] in H. inversion H as [|? ? Hy Hr]; subst.
  destruct Hx as [E|Hx]; [subst; intro Hb; apply Hy; apply in_or_app; right; exact Hb | apply IH; assumption].
Qed.

Section Link.
  Variables (env : list (string * Z)) (senv : list osec) (ext : list (string * Z)) (final : bool).

  Notation top := (exec_top_stmt env senv ext final).
  Notation runl := (run env senv ext final).
  Notation secs vma sub name := (exec_sec_stmt env senv ext final vma sub name).

  Definition named (sect : string) (u : usec) : bool := String.eqb sect (u_name u).

  Lemma sel_any sect u : sel true "" None sect false u = named sect u.
  Proof. reflexivity. Qed.

  (* C18_allow_placed *)
  Theorem allow_placed st sect :
    let st' := top st (SSingleEntry sect) in
    let chosen := filter (named sect) (l_remaining st) in
    l_remaining st' = filter (fun u => negb (named sect u)) (l_remaining st) /\
    (exists pls, l_placed st' = (l_placed st ++ pls)%list /\ map pl_marker pls = map u_marker chosen /\
                 Forall (fun p => pl_outsec p = sect) pls) /\
    (exists o, l_secs st' = (l_secs st ++ [o])%list /\ os_name o = sect /\ os_vma o = 0 /\ os_noload o = false) /\
    l_discarded st' = l_discarded st /\ l_syms st' = l_syms st /\ l_errors st' = l_errors st.
  Proof.
    cbv zeta. cbn [exec_top_stmt].
    destruct (place 0 None sect (filter (sel true "" None sect false) (l_remaining st)) 0 [] false)
      as [[off' pls] c] eqn:E.
    apply place_markers in E. destruct E as [new [E [M F]]]. cbn [app] in E. subst pls.
    cbn [l_remaining l_placed l_secs l_discarded l_syms l_errors]. repeat split.
    - exists new. auto.
    - eexists. repeat split.
  Qed.

  Definition hit (pats : list string) (wild : bool) (u : usec) : bool :=
    existsb (fun p => String.eqb p (u_name u)) pats || wild.

  (* C18_discard *)
  Theorem discard st pats wild :
    let st' := top st (SDiscard pats wild) in
    l_discarded st' = (l_discarded st ++ map u_marker (filter (hit pats wild) (l_remaining st)))%list /\
    l_remaining st' = filter (fun u => negb (hit pats wild u)) (l_remaining st) /\
    l_placed st' = l_placed st /\ l_secs st' = l_secs st /\ l_syms st' = l_syms st /\
    (wild = true -> l_remaining st' = []).
  Proof.
    cbv zeta. cbn [exec_top_stmt l_discarded l_remaining l_placed l_secs l_syms]. repeat split.
    intro Hw. subst wild. induction (l_remaining st) as [|u r IH]; [reflexivity|]. cbn [filter].
    unfold name_matches. rewrite orb_true_r. cbn [negb]. exact IH.
  Qed.

  (* ---------- every input section is in exactly one place ---------- *)

  Lemma sec_stmt_accounted vma sub name ss s :
    Permutation (accounted (s_st (secs vma sub name ss s))) (accounted (s_st ss)) /\
    (exists new, l_placed (s_st (secs vma sub name ss s)) = (l_placed (s_st ss) ++ new)%list) /\
    l_discarded (s_st (secs vma sub name ss s)) = l_discarded (s_st ss).
  Proof.
    destruct (sec_stmt_cases env senv ext final vma sub name ss s)
      as [[p [h [r [sym [e [Es E]]]]]] | [[k [path [member [sect [wild [off' [pls [c [Es [Ep E]]]]]]]]]] | [E _]]];
      rewrite E.
    - cbn [s_st]. unfold accounted. rewrite assign_placed, assign_discarded, assign_remaining.
      split; [reflexivity|]. split; [exists []; rewrite app_nil_r; reflexivity | reflexivity].
    - cbn [s_st]. apply place_markers in Ep. destruct Ep as [new [En [M F]]]. cbn [app] in En. subst pls.
      unfold accounted. cbn [l_placed l_discarded l_remaining]. split; [|split; [eauto|reflexivity]].
      apply accounted_place. exact M.
    - split; [reflexivity|]. split; [exists []; rewrite app_nil_r; reflexivity | reflexivity].
  Qed.

  Lemma sec_fold_accounted vma sub name body : forall ss,
    Permutation (accounted (s_st (fold_left (secs vma sub name) body ss))) (accounted (s_st ss)) /\
    (exists new, l_placed (s_st (fold_left (secs vma sub name) body ss)) = (l_placed (s_st ss) ++ new)%list) /\
    l_discarded (s_st (fold_left (secs vma sub name) body ss)) = l_discarded (s_st ss).
  Proof.
    induction body as [|s body IH]; intro ss.
    - split; [reflexivity|]. split; [exists []; rewrite app_nil_r; reflexivity | reflexivity].
    - cbn [fold_left]. destruct (IH (secs vma sub name ss s)) as [P1 [[n1 E1] D1]].
      destruct (sec_stmt_accounted vma sub name ss s) as [P2 [[n2 E2] D2]].
      split; [eapply Permutation_trans; eassumption|]. split; [|congruence].
      exists (n2 ++ n1)%list. rewrite E1, E2, app_assoc. reflexivity.
  Qed.

  (* what one statement does to the three lists: nothing leaves l_placed, l_discarded only grows, and
     only by markers of sections that were still unplaced; the markers are merely moved around *)
  Theorem top_accounted st s :
    Permutation (accounted (top st s)) (accounted st) /\
    (exists new, l_placed (top st s) = (l_placed st ++ new)%list) /\
    (exists f, l_discarded (top st s) = (l_discarded st ++ map u_marker (filter f (l_remaining st)))%list).
  Proof.
    assert (Hnone : forall l : list usec, filter (fun _ : usec => false) l = []) by (induction l; auto).
    assert (Hsame : l_placed (top st s) = l_placed st -> l_discarded (top st s) = l_discarded st ->
                    l_remaining (top st s) = l_remaining st ->
                    Permutation (accounted (top st s)) (accounted st) /\
                    (exists new, l_placed (top st s) = (l_placed st ++ new)%list) /\
                    (exists f, l_discarded (top st s) = (l_discarded st ++ map u_marker (filter f (l_remaining st)))%list)).
    { intros E1 E2 E3. unfold accounted. rewrite E1, E2, E3. split; [reflexivity|].
      split; [exists []; rewrite app_nil_r; reflexivity|]. exists (fun _ => false).
      rewrite Hnone, app_nil_r. reflexivity. }
    destruct s; try (apply Hsame; reflexivity).
    - apply Hsame; cbn [exec_top_stmt]; destruct (String.eqb sym ".");
        try (destruct (eval_expr env senv ext st (l_dot st) e); reflexivity);
        [apply assign_placed | apply assign_discarded | apply assign_remaining].
    - apply Hsame; cbn [exec_top_stmt]; destruct (String.eqb sym "."); try reflexivity;
        destruct (sym_lookup sym st env ext); reflexivity.
    - apply Hsame; cbn [exec_top_stmt];
        (destruct (sym_lookup sym st env ext); [destruct (sym_lookup other st env ext)|]);
        try (destruct final; reflexivity).
    - apply Hsame; cbn [exec_top_stmt];
        (destruct (sym_lookup "__romPos" st env ext); [destruct (sec_lookup sec st senv)|]);
        try (destruct final; reflexivity).
    - cbn [exec_top_stmt]. destruct (outsec_vma env senv ext addr sub body st) as [vma|e] eqn:E.
      + destruct (exec_outsec_ok env senv ext final name addr at_ noload sub body st vma E)
          as [_ [_ [_ [_ [Hp [Hr [Hd _]]]]]]].
        destruct (sec_fold_accounted vma (option_map Z.of_N sub) name body (SState 0 false st)) as [P [[new En] D]].
        fold (outsec_body env senv ext final name sub body vma st) in P, En, D. cbn [s_st] in P, En, D.
        unfold accounted in *. rewrite Hp, Hr, Hd. split; [exact P|]. split; [exists new; exact En|].
        exists (fun _ => false). rewrite D, Hnone, app_nil_r. reflexivity.
      + rewrite (exec_outsec_err _ _ _ _ _ _ _ _ _ _ _ _ E). unfold accounted. cbn [add_err l_placed l_discarded l_remaining].
        split; [reflexivity|]. split; [exists []; rewrite app_nil_r; reflexivity|].
        exists (fun _ => false). rewrite Hnone, app_nil_r. reflexivity.
    - destruct (allow_placed st sect) as [Hr [[pls [Hp [M F]]] [_ [Hd _]]]].
      unfold accounted. rewrite Hr, Hp, Hd. split; [apply accounted_place; exact M|].
      split; [eauto|]. exists (fun _ => false). rewrite Hnone, app_nil_r. reflexivity.
    - destruct (discard st pats wild) as [Hd [Hr [Hp _]]].
      unfold accounted. rewrite Hr, Hp, Hd. split; [apply accounted_discard|].
      split; [exists []; rewrite app_nil_r; reflexivity|]. exists (hit pats wild). reflexivity.
    - apply Hsame; cbn [exec_top_stmt];
        (destruct (eval_raw env ext st cond) as [v|e]; [destruct (v =? 0); reflexivity|]);
        destruct e; destruct final; reflexivity.
  Qed.

  Lemma top_accounted' st s :
    Permutation (accounted (top st s)) (accounted st) /\
    (exists new, l_placed (top st s) = (l_placed st ++ new)%list) /\
    (exists new, l_discarded (top st s) = (l_discarded st ++ new)%list).
  Proof.
    destruct (top_accounted st s) as [P [Hp [f Hd]]]. split; [exact P|]. split; [exact Hp|]. eexists. exact Hd.
  Qed.

  Lemma run_accounted l : forall st,
    Permutation (accounted (runl l st)) (accounted st) /\
    (exists new, l_placed (runl l st) = (l_placed st ++ new)%list) /\
    (exists new, l_discarded (runl l st) = (l_discarded st ++ new)%list).
  Proof.
    induction l as [|s l IH]; intro st.
    - split; [reflexivity|]. split; exists []; rewrite app_nil_r; reflexivity.
    - rewrite run_cons. destruct (IH (top st s)) as [P1 [[n1 E1] [d1 D1]]].
      destruct (top_accounted st s) as [P2 [[n2 E2] [f D2]]].
      split; [eapply Permutation_trans; eassumption|]. split.
      + exists (n2 ++ n1)%list. rewrite E1, E2, app_assoc. reflexivity.
      + eexists. rewrite D1, D2, <- app_assoc. reflexivity.
  Qed.

  Theorem script_accounted script : forall st,
    Permutation (accounted (exec_script env senv ext final script st)) (accounted st) /\
    (exists new, l_placed (exec_script env senv ext final script st) = (l_placed st ++ new)%list) /\
    (exists new, l_discarded (exec_script env senv ext final script st) = (l_discarded st ++ new)%list).
  Proof.
    unfold exec_script. induction script as [|s script IH]; intro st.
    - split; [reflexivity|]. split; exists []; rewrite app_nil_r; reflexivity.
    - cbn [fold_left].
      set (st1 := match s with
                  | SSections body => fold_left (exec_top_stmt env senv ext final) body st
                  | _ => exec_top_stmt env senv ext final st s
                  end).
      assert (H1 : Permutation (accounted st1) (accounted st) /\
                   (exists new, l_placed st1 = (l_placed st ++ new)%list) /\
                   (exists new, l_discarded st1 = (l_discarded st ++ new)%list)).
      { unfold st1. destruct s; try apply top_accounted'. apply run_accounted. }
      destruct H1 as [P2 [[n2 E2] [d2 D2]]]. destruct (IH st1) as [P1 [[n1 E1] [d1 D1]]].
      split; [eapply Permutation_trans; eassumption|]. split.
      + exists (n2 ++ n1)%list. rewrite E1, E2, app_assoc. reflexivity.
      + exists (d2 ++ d1)%list. rewrite D1, D2, app_assoc. reflexivity.
  Qed.

  (* what is still unplaced only shrinks *)
  Theorem script_remaining script : forall st,
    exists f, l_remaining (exec_script env senv ext final script st) = filter f (l_remaining st).
  Proof.
    unfold exec_script. induction script as [|s script IH]; intro st.
    - exists (fun _ => true). rewrite filter_true. reflexivity.
    - cbn [fold_left].
      set (st1 := match s with
                  | SSections body => fold_left (exec_top_stmt env senv ext final) body st
                  | _ => exec_top_stmt env senv ext final st s
                  end).
      assert (H1 : exists f, l_remaining st1 = filter f (l_remaining st)).
      { unfold st1. destruct s; try apply top_remaining. apply run_remaining. }
      destruct H1 as [f1 E1]. destruct (IH st1) as [f2 E2]. rewrite E2, E1, filter_filter. eexists. reflexivity.
  Qed.

  (* C18_placed_never_discarded: with distinct markers, no input section is both placed and discarded,
     and none is lost *)
  Theorem placed_never_discarded script u :
    NoDup (map u_marker u) ->
    let st' := exec_script env senv ext final script (init_state u) in
    Permutation (accounted st') (map u_marker u) /\
    (forall m, In m (map pl_marker (l_placed st')) -> ~ In m (l_discarded st')) /\
    (forall m, In m (map pl_marker (l_placed st')) -> ~ In m (map u_marker (l_remaining st'))).
  Proof.
    intros Hnd st'. destruct (script_accounted script (init_state u)) as [P _]. fold st' in P.
    assert (Ei : accounted (init_state u) = map u_marker u) by reflexivity. rewrite Ei in P.
    split; [exact P|].
    assert (Hn : NoDup (accounted st')) by (eapply Permutation_NoDup; [symmetry; exact P | exact Hnd]).
    unfold accounted in Hn. split; intros m Hm Hin;
      apply (nodup_app_disjoint _ _ Hn m Hm); apply in_or_app; [left|right]; exact Hin.
  Qed.
End Link.
