(* DocSingleWf: a condition on the document implies doc_single_wf (single-segment mode).
   Plan, as in Proofs/DocWf.v: "how many statements assign x" (count_assigns) = the definitions
   "x = value" ([defs]) + the updates ([upds]); follow add_single_segment to show that the definitions
   of the generated statements are the document's [doc_symbols_single] and that the updates only
   concern "."; derive each conjunct of single_stmts_wf from the absence of repetition. *)
From Slinky Require Import Model.Types Model.Generated Model.Runtime Model.Style Model.Script Model.Writer Model.LdSem.
From Slinky Require Import Spec.C18 Spec.C04 Spec.C03 Spec.C10 Spec.C13 Spec.C09 Spec.C05 Spec.DocLevel Spec.C01Doc Spec.DocWf Spec.DocSingle
                           Spec.C13Doc Spec.DocSingleWf.
From Slinky Require Import Proofs.C06 Proofs.C18 Proofs.C10 Proofs.DocLevel Proofs.DocWf Proofs.C13Doc Proofs.DocSingle.
From Coq Require Import Lia ZArith.
Local Open Scope string_scope.
Local Open Scope list_scope.

(* ====================================================================== *)
(* 1. the two halves of the segment                                        *)
(* ====================================================================== *)

Lemma defs_outsec x n a at_ nl sub body l :
  defs x (SOutSec n a at_ nl sub body :: l) = defs x body + defs x l.
Proof. reflexivity. Qed.

Lemma upds_outsec n a at_ nl sub body l :
  upds (SOutSec n a at_ nl sub body :: l) = upds body ++ upds l.
Proof. reflexivity. Qed.

Lemma defs_sections x body l : defs x (SSections body :: l) = defs x body + defs x l.
Proof. reflexivity. Qed.

Lemma upds_sections body l : upds (SSections body :: l) = upds body ++ upds l.
Proof. reflexivity. Qed.

Section SingleSegment.
  Variables (rt : runtime) (st : settings) (seg : segment).
  Let sty := linker_symbols_style st.

  Lemma single_groups_defs sections noload rest : forall ws s ws',
    single_groups rt st cfg_normal seg sections noload rest ws = Ok (s, ws') ->
    (forall x, defs x s = cnt x (flat_map (gp_symbols rt seg) rest) +
                          cnt x (flat_map (section_symbols rt sty seg sections) rest)) /\
    incl (upds s) ["."].
  Proof.
    induction rest as [|section rest IH]; intros ws s ws' H.
    - apply ok_inj in H. inversion H; subst. split; [intro; reflexivity | apply incl_nil_any].
    - apply single_groups_cons in H. destruct H as [s1 [ws1 [s2 [E1 [E2 E]]]]]. subst s.
      destruct (IH _ _ _ E2) as [D2 U2]. fold sty in E1 |- *.
      destruct (emit_section_Sy rt sty cfg_normal seg sections eq_refl _ _ _ _ _ E1) as [D1 U1].
      split.
      + intro x. cbn [flat_map]. unfold section_symbols at 1.
        rewrite !defs_app, !cnt_app, (section_start_defs rt st seg), (section_end_defs st seg), D2, defs_sep.
        rewrite defs_outsec, defs_nil, defs_app, defs_opt_fill, D1. fold sty. cbn [cnt]. lia.
      + rewrite !upds_app, upds_sep, upds_outsec, upds_app, upds_opt_fill, U1. cbn [app upds flat_map].
        repeat apply incl_app; try apply (section_start_upds rt st seg); try apply (section_end_upds st seg);
          try exact U2; apply incl_nil_any.
  Qed.

  Lemma write_single_defs noload ws s ws' :
    write_single_segment rt st cfg_normal seg (part_sections seg noload) noload ws = Ok (s, ws') ->
    (forall x, defs x s = cnt x (flat_map (gp_symbols rt seg) (part_sections seg noload)) +
                          cnt x (part_symbols rt sty seg noload)) /\
    incl (upds s) ["."].
  Proof.
    intro H. apply write_single_segment_inv in H. destruct H as [body [E Es]]. subst s.
    destruct (single_groups_defs _ _ _ _ _ _ E) as [D U]. fold sty. split.
    - intro x. unfold sections_kind_start, sections_kind_end, sym_end_size, part_symbols.
      cbn [kind_syms cfg_normal]. fold (part_sections seg noload).
      rewrite !defs_app, !cnt_app, defs_linker_symbol, defs_blank, defs_nil.
      rewrite defs_blank, !defs_linker_symbol, defs_nil, D. cbn [cnt]. lia.
    - unfold sections_kind_start, sections_kind_end, sym_end_size. cbn [kind_syms cfg_normal].
      rewrite !upds_app. repeat apply incl_app; try exact U; cbn; apply incl_nil_any.
  Qed.

  Lemma single_head_defs x :
    defs x (single_head st cfg_normal seg) = cnt x (hardcoded_gp_symbols st) + cnt x (single_dot_symbols seg).
  Proof.
    unfold single_head, hardcoded_gp_stmts, hardcoded_gp_symbols, single_dot_symbols.
    cbn [section_syms cfg_normal]. rewrite defs_app.
    destruct (hardcoded_gp_value st), (sg_fixed_vram seg); cbn [app]; rewrite ?defs_cons, ?defs_nil;
      cbn [def_count cnt]; lia.
  Qed.

  Lemma single_head_upds : upds (single_head st cfg_normal seg) = [].
  Proof.
    unfold single_head, hardcoded_gp_stmts. cbn [section_syms cfg_normal].
    destruct (hardcoded_gp_value st), (sg_fixed_vram seg); reflexivity.
  Qed.

  Variable classes : list vram_class.

  (* the body of SECTIONS *)
  Lemma add_single_defs ws s ws' :
    add_single_segment rt st cfg_normal classes seg ws = Ok (s, ws') -> ws_emitted ws = [] ->
    exists body,
      s = [SSections body] /\
      (forall x, defs x body =
                 cnt x (single_gp_symbols rt st seg) + cnt x (single_dot_symbols seg) +
                 cnt x (part_symbols rt sty seg false ++ part_symbols rt sty seg true)) /\
      incl (upds body) ["."].
  Proof.
    intros H Hem. apply add_single_segment_inv in H. destruct H as [s1 [ws1 [s2 [E1 [E2 E]]]]].
    eexists. split; [exact E|].
    assert (Hm : forall cn, mem_str cn (ws_emitted ws') = mem_str cn []).
    { intro cn. rewrite (write_single_segment_emitted _ _ _ _ _ _ _ _ _ E2),
        (write_single_segment_emitted _ _ _ _ _ _ _ _ _ E1), Hem. reflexivity. }
    change (alloc_sections seg) with (part_sections seg false) in E1.
    change (noload_sections seg) with (part_sections seg true) in E2.
    destruct (write_single_defs _ _ _ _ E1) as [D1 U1].
    destruct (write_single_defs _ _ _ _ E2) as [D2 U2].
    split.
    - intro x. rewrite !defs_app, single_head_defs, D1, D2,
        (end_sections_defs x st classes ws' [] Hm), class_size_symbols_none.
      change (defs x [SBlank]) with 0.
      unfold single_gp_symbols, seg_gp_symbols, seg_sections. rewrite flat_map_app, !cnt_app.
      cbn [part_sections cnt]. lia.
    - rewrite !upds_app, single_head_upds, end_sections_upds. cbn [app upds flat_map upd_syms].
      rewrite app_nil_r. apply incl_app; assumption.
  Qed.
End SingleSegment.

(* ====================================================================== *)
(* 2. the whole document                                                   *)
(* ====================================================================== *)

Section Main.
  Variables (d : document) (rt : runtime) (seg : segment).
  Let stg := doc_settings d.
  Let sty := linker_symbols_style stg.
  Let G := doc_gp_symbols_single d rt.
  Let D := doc_dot_symbols_single d.
  Let N := doc_named_symbols_single d rt.

  Hypothesis Es : doc_segments d = [seg].
  Variables (s : list stmt) (ws' : wstate).
  Hypothesis E : add_single_segment rt stg cfg_normal (doc_vram_classes d) seg ws0 = Ok (s, ws').
  Let all := s ++ tail_stmts rt d.

  Lemma G_eq : G = single_gp_symbols rt stg seg.
  Proof. unfold G, doc_gp_symbols_single. rewrite Es. reflexivity. Qed.

  Lemma D_eq : D = single_dot_symbols seg.
  Proof. unfold D, doc_dot_symbols_single. rewrite Es. reflexivity. Qed.

  Lemma N_eq : N = part_symbols rt sty seg false ++ part_symbols rt sty seg true ++
                   user_symbols rt (doc_symbol_assignments d).
  Proof.
    unfold N, doc_named_symbols_single, doc_header_symbols_single. rewrite Es, <- app_assoc. reflexivity.
  Qed.

  (* the definitions of the statements are the document's symbols *)
  Lemma single_all_defs x : defs x all = cnt x G + cnt x D + cnt x N.
  Proof.
    destruct (add_single_defs rt stg seg (doc_vram_classes d) _ _ _ E eq_refl) as [body [Eb [Db _]]].
    unfold all. rewrite defs_app, tail_defs, Eb, defs_sections, defs_nil, Db, G_eq, D_eq, N_eq.
    fold sty. rewrite !cnt_app. lia.
  Qed.

  (* the updates concern the location counter only *)
  Lemma single_all_upds : incl (upds all) ["."].
  Proof.
    destruct (add_single_defs rt stg seg (doc_vram_classes d) _ _ _ E eq_refl) as [body [Eb [_ Ub]]].
    unfold all. rewrite upds_app, tail_upds, Eb, upds_sections. cbn [upds flat_map]. rewrite !app_nil_r.
    exact Ub.
  Qed.

  Lemma single_gp_all y : In y G -> y = "_gp".
  Proof.
    rewrite G_eq. unfold single_gp_symbols. intro H. apply in_app_or in H. destruct H as [H|H].
    - unfold hardcoded_gp_symbols in H. destruct (hardcoded_gp_value stg); [|contradiction].
      destruct H as [H|[]]. symmetry. exact H.
    - unfold seg_gp_symbols in H.
      apply in_flat_map in H. destruct H as [sec [_ H]]. unfold gp_symbols in H.
      destruct (sg_gp_info seg) as [g|]; [|contradiction].
      destruct (should_emit rt (gp_conds g) && String.eqb (gp_section g) sec)%bool; [|contradiction].
      destruct H as [H|[]]. symmetry. exact H.
  Qed.

  Lemma single_dot_all y : In y D -> y = ".".
  Proof.
    rewrite D_eq. unfold single_dot_symbols. destruct (sg_fixed_vram seg); [|contradiction].
    intros [H|[]]. symmetry. exact H.
  Qed.

  Hypothesis Hnd : nodup_str N = true.
  Hypothesis Hgp : gp_separate_single d rt = true.
  Hypothesis Hdot : mem_str "." N = false.

  (* a named symbol is assigned by exactly one statement *)
  Lemma single_named_once x : In x N -> count_assigns x all = 1.
  Proof.
    intro Hin. rewrite count_split, single_all_defs.
    assert (Hx : x <> ".").
    { intro Hx. subst x. apply mem_str_in in Hin. congruence. }
    assert (H1 : cnt x N = 1) by (pose proof (nodup_cnt _ Hnd x); apply cnt_in in Hin; lia).
    assert (H2 : cnt x G = 0).
    { apply cnt_notin. intro HG. pose proof (single_gp_all x HG) as Hy. subst x.
      unfold gp_separate_single in Hgp. fold G N in Hgp. destruct G as [|g0 gr]; [contradiction|].
      apply mem_str_in in Hin. rewrite Hin in Hgp. discriminate. }
    assert (H3 : cnt x D = 0).
    { apply cnt_notin. intro HD. apply Hx. apply single_dot_all. exact HD. }
    assert (H4 : cnt x (upds all) = 0).
    { apply cnt_notin. intro Hu. apply single_all_upds in Hu. destruct Hu as [Hu|[]]. apply Hx. symmetry. exact Hu. }
    lia.
  Qed.

  Lemma single_section_names_in sec x :
    In sec (seg_sections seg) -> In x (sec_syms3 sty (sg_name seg) sec) -> In x N.
  Proof.
    intros H Hx. rewrite N_eq.
    assert (Hp : forall (noload : bool),
               In sec (if noload then noload_sections seg else alloc_sections seg) ->
               In x (part_symbols rt sty seg noload)).
    { intros noload Hin. unfold part_symbols. cbv zeta. apply in_or_app. right. apply in_or_app. left.
      apply in_flat_map. exists sec. split; [exact Hin|]. unfold section_symbols. cbn [app].
      destruct Hx as [Hx|[Hx|[Hx|[]]]]; subst x.
      - left. reflexivity.
      - right. apply in_or_app. right. left. reflexivity.
      - right. apply in_or_app. right. right. left. reflexivity. }
    unfold seg_sections in H. apply in_app_or in H. destruct H as [H|H].
    - apply in_or_app. left. apply (Hp false). exact H.
    - apply in_or_app. right. apply in_or_app. left. apply (Hp true). exact H.
  Qed.

  Lemma single_names_once sec :
    In sec (seg_sections seg) -> section_names_once sty (sg_name seg) all sec = true.
  Proof.
    intro Hin. unfold section_names_once, assigned_once_deep.
    rewrite !single_named_once; [reflexivity | | |];
      apply (single_section_names_in sec); try exact Hin; unfold sec_syms3; cbn [In]; tauto.
  Qed.
End Main.

Lemma docsinglewf_sufficient d rt w :
  gen_normal d rt = Ok w -> doc_single_names_distinct d rt = true -> doc_single_wf d rt = true.
Proof.
  intros Hg Hd. unfold doc_single_names_distinct in Hd.
  apply andb_true_iff in Hd. destruct Hd as [Hm Hd].
  apply gen_normal_inv in Hg. destruct Hg as [s [ws' [E _]]].
  apply add_all_segments_inv in E.
  destruct E as [[_ [seg [Es E]]] | [Hs _]]; [|rewrite Hs in Hm; discriminate].
  rewrite Es in Hd.
  repeat (apply andb_true_iff in Hd; destruct Hd as [Hd ?H]).
  rename H into Haux, H0 into Hsecs, H1 into Hdot, H2 into Hgp.
  apply negb_true_iff in Hdot.
  unfold doc_single_wf. rewrite Es, E.
  apply andb_true_iff. split; [exact Hm|].
  unfold single_stmts_wf. repeat (apply andb_true_iff; split).
  - exact Hsecs.
  - exact Haux.
  - apply forallb_forall. intros sec Hsec. eapply single_names_once; eassumption.
Qed.

(* the condition gives the mode and the segment *)
Lemma docsinglewf_mode d rt :
  doc_single_names_distinct d rt = true ->
  single_segment_mode (doc_settings d) = true /\ exists seg, doc_segments d = [seg].
Proof.
  unfold doc_single_names_distinct. intro H. apply andb_true_iff in H. destruct H as [Hm H].
  split; [exact Hm|]. destruct (doc_segments d) as [|seg [|s2 r]]; try discriminate H. exists seg. reflexivity.
Qed.

(* ====================================================================== *)
(* 3. the characterisation itself, on the script of gen_normal             *)
(* ====================================================================== *)

Lemma script_symbols_single d rt w :
  gen_normal d rt = Ok w -> single_segment_mode (doc_settings d) = true ->
  (forall x, defs x (wo_script w) = count_occ string_dec (doc_symbols_single d rt) x) /\
  incl (upds (wo_script w)) ["."].
Proof.
  intros Hg Hm. apply gen_normal_inv in Hg. destruct Hg as [s [ws' [E Hw]]].
  apply add_all_segments_inv in E. destruct E as [[_ [seg [Es E]]] | [Hs _]]; [|congruence]. subst w.
  cbn [wo_script]. split.
  - intro x. rewrite <- cnt_count_occ. unfold doc_symbols_single. rewrite !cnt_app.
    rewrite defs_app, defs_version, (single_all_defs d rt seg Es s ws' E). lia.
  - rewrite upds_app, upds_version. cbn [app]. exact (single_all_upds d rt seg s ws' E).
Qed.

(* the named symbols are the recorded names of the script followed by the user's assignments *)
Lemma named_single_recorded d rt w :
  gen_normal d rt = Ok w -> single_segment_mode (doc_settings d) = true ->
  doc_named_symbols_single d rt =
  recorded_syms (wo_script w) ++ user_symbols rt (doc_symbol_assignments d).
Proof. intros Hg Hm. unfold doc_named_symbols_single. rewrite (single_recorded d rt w Hg Hm). reflexivity. Qed.

(* ====================================================================== *)
(* 4. the link theorems under the document-side condition                  *)
(* ====================================================================== *)

Local Open Scope Z_scope.

Lemma single_symbols_layout_distinct d rt w u ext0 seg sec :
  gen_normal d rt = Ok w -> doc_single_names_distinct d rt = true -> doc_segments d = [seg] ->
  Forall (fun x => 0 <= u_size x) u -> In sec (seg_sections seg) ->
  let sty := linker_symbols_style (doc_settings d) in
  SectionSymbols sty seg u (layout (wo_script w) u ext0) sec.
Proof.
  intros Hg Hd. exact (single_document_symbols_layout d rt w u ext0 seg sec Hg (docsinglewf_sufficient d rt w Hg Hd)).
Qed.

Lemma single_alignment_layout_distinct d rt w u ext0 seg sec :
  gen_normal d rt = Ok w -> doc_single_names_distinct d rt = true -> doc_segments d = [seg] ->
  Forall (fun x => 0 <= u_size x) u -> In sec (seg_sections seg) ->
  let sty := linker_symbols_style (doc_settings d) in
  let st' := layout (wo_script w) u ext0 in
  exists S E,
    val st' (segment_section_start sty (sg_name seg) sec) = Some S /\
    val st' (segment_section_end sty (sg_name seg) sec) = Some E /\
    aligned_to (section_start_align seg) (lookup sec (sections_start_alignment seg)) S /\
    aligned_to (section_end_align seg) (lookup sec (sections_end_alignment seg)) E.
Proof.
  intros Hg Hd. exact (single_document_alignment_layout d rt w u ext0 seg sec Hg (docsinglewf_sufficient d rt w Hg Hd)).
Qed.

(* C03 needs the mode and the segment only, which the condition contains *)
Lemma single_sections_layout_distinct d rt w u ext0 seg :
  gen_normal d rt = Ok w -> doc_single_names_distinct d rt = true -> doc_segments d = [seg] ->
  Forall (fun x => 0 <= u_size x) u ->
  let st' := layout (wo_script w) u ext0 in
  exists osecs rest, l_secs st' = (osecs ++ rest)%list /\ SingleSections cfg_normal seg osecs.
Proof.
  intros Hg Hd. exact (single_document_sections_layout d rt w u ext0 seg Hg (proj1 (docsinglewf_mode d rt Hd))).
Qed.

(* the chain with the symbols *)
Lemma single_chain_layout_distinct d rt w u ext0 seg :
  gen_normal d rt = Ok w -> doc_single_names_distinct d rt = true -> doc_segments d = [seg] ->
  Forall (fun x => 0 <= u_size x) u ->
  let sty := linker_symbols_style (doc_settings d) in
  let st' := layout (wo_script w) u ext0 in
  exists osecs rest hi,
    l_secs st' = (osecs ++ rest)%list /\
    SingleChain true sty cfg_normal seg (l_syms st') (single_dot0 seg) (single_secs seg) osecs hi.
Proof.
  intros Hg Hd. exact (single_document_chain_wf_layout d rt w u ext0 seg Hg (docsinglewf_sufficient d rt w Hg Hd)).
Qed.
