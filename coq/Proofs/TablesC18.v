(* Translator obligations for the format! templates used by C18: tools/rs2v.py regenerates the named templates
   t_sb_<fn>_<k> (script_buffer.rs) and t_lw_<fn>_<k> (linker_writer.rs) from the Rust source on every run - named after
   the enclosing function and the ordinal of the template inside it, so that an edit elsewhere in the file leaves them
   alone; the lemmas below tie the rendering of the script AST (Model/Script.v) to those templates and pin their format
   specs.  A change of one of these format strings in the Rust breaks the lemma the next time a check runs. *)
From Slinky Require Import Model.Types Model.Generated Model.Style Model.Script.
Local Open Scope string_scope.

Lemma str_app_nil_r (s : string) : s ++ "" = s.
Proof. induction s as [|c s IH]; simpl; [reflexivity | rewrite IH; reflexivity]. Qed.

Lemma str_app_assoc (x y z : string) : (x ++ y) ++ z = x ++ y ++ z.
Proof. induction x as [|c x IH]; simpl; [reflexivity | rewrite IH; reflexivity]. Qed.

Lemma sb_single_entry ind s :
  render_stmt ind (SSingleEntry s) = [indent_str ind ++ fmt t_sb_write_single_entry_section_0 [s; "0"; s]].
Proof. reflexivity. Qed.

(* the format specs of the templates used above ({} = Display, {:X} = upper-case hex, {:08X} = eight digits) *)
Lemma specs_C18 :
  t_sb_write_single_entry_section_0_spec = [""; ""; ""].
Proof. repeat split; reflexivity. Qed.
