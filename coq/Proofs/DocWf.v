(* DocWf: a condition on the document implies doc_link_wf.
   Plan: split "how many statements assign x" (Spec.DocLevel.assign_count) into the definitions
   "x = value" (SAssign, counted by [def_count]) and the updates of a symbol (SAlign, SMaxSelf, SRomAdd,
   listed by [upd_syms]); follow add_segment / emit_sff to show that the definitions of the generated
   statements are the document's [doc_symbols] and that the updates only concern ".", "__romPos" and
   the class symbols; derive each conjunct of doc_link_wf from the absence of repetition. *)
From Slinky Require Import Model.Types Model.Generated Model.Runtime Model.Style Model.Script Model.Writer Model.LdSem.
From Slinky Require Import Spec.C18 Spec.C04 Spec.C03 Spec.C10 Spec.DocLevel Spec.DocWf.
From Slinky Require Import Proofs.C06 Proofs.C18 Proofs.C10 Proofs.DocLevel.
From Coq Require Import Lia.
Local Open Scope string_scope.
Local Open Scope list_scope.

(* ====================================================================== *)
(* 1. counting                                                             *)
(* ====================================================================== *)

(* occurrences of [x] in a list of names *)
Fixpoint cnt (x : string) (l : list string) : nat :=
  match l with
  | [] => 0
  | y :: r => (if String.eqb y x then 1 else 0) + cnt x r
  end.

Lemma cnt_app x a b : cnt x (a ++ b) = cnt x a + cnt x b.
Proof. induction a as [|y r IH]; [reflexivity|]. cbn [app cnt]. rewrite IH. lia. Qed.

Lemma cnt_cons x y l : cnt x (y :: l) = (if String.eqb y x then 1 else 0) + cnt x l.
Proof. reflexivity. Qed.

Lemma cnt_in x l : In x l <-> 0 < cnt x l.
Proof.
  induction l as [|y r IH]; cbn [In cnt]; [split; [intros [] | lia]|].
  destruct (String.eqb y x) eqn:E.
  - apply String.eqb_eq in E. split; [lia | auto].
  - apply String.eqb_neq in E. rewrite IH. split; [intros [H|H]; [congruence | lia] | intro H; right; lia].
Qed.

Lemma cnt_notin x l : ~ In x l -> cnt x l = 0.
Proof. intro H. destruct (cnt x l) eqn:E; [reflexivity|]. exfalso. apply H. apply cnt_in. lia. Qed.

Lemma nodup_cnt l : nodup_str l = true -> forall x, cnt x l <= 1.
Proof.
  induction l as [|y r IH]; intros H x; [cbn; lia|]. cbn [nodup_str] in H.
  apply andb_true_iff in H. destruct H as [H1 H2]. cbn [cnt]. specialize (IH H2 x).
  destruct (String.eqb y x) eqn:E; [|lia]. apply String.eqb_eq in E. subst y.
  rewrite cnt_notin; [lia|]. intro Hin. apply mem_str_in in Hin. rewrite Hin in H1. discriminate.
Qed.

Lemma cnt_flat_map_zero {A} x (f : A -> list string) l :
  (forall a, In a l -> cnt x (f a) = 0) -> cnt x (flat_map f l) = 0.
Proof.
  induction l as [|a r IH]; intro H; [reflexivity|]. cbn [flat_map]. rewrite cnt_app, IH.
  - rewrite H; [reflexivity | left; reflexivity].
  - intros b Hb. apply H. right. exact Hb.
Qed.

Lemma cnt_flat_map_in {A} x (f : A -> list string) l a :
  In a l -> cnt x (f a) <= cnt x (flat_map f l).
Proof.
  induction l as [|b r IH]; intro H; [contradiction|]. cbn [flat_map]. rewrite cnt_app.
  destruct H as [H|H]; [subst b; lia | specialize (IH H); lia].
Qed.

Lemma cnt_flat_map_add {A} x (f g h : A -> list string) l :
  (forall a, cnt x (f a) = cnt x (g a) + cnt x (h a)) ->
  cnt x (flat_map f l) = cnt x (flat_map g l) + cnt x (flat_map h l).
Proof.
  intro H. induction l as [|a r IH]; [reflexivity|]. cbn [flat_map]. rewrite !cnt_app, IH, H. lia.
Qed.

Lemma defs_app x a b : defs x (a ++ b) = defs x a + defs x b.
Proof. unfold defs. rewrite map_app, list_sum_app. reflexivity. Qed.

Lemma defs_cons x s l : defs x (s :: l) = def_count x s + defs x l.
Proof. reflexivity. Qed.

Lemma defs_nil x : defs x [] = 0.
Proof. reflexivity. Qed.

Lemma upds_app a b : upds (a ++ b) = upds a ++ upds b.
Proof. apply flat_map_app. Qed.

Lemma upds_cons s l : upds (s :: l) = upd_syms s ++ upds l.
Proof. reflexivity. Qed.

Lemma count_split_list x body :
  Forall (fun s => assign_count x s = def_count x s + cnt x (upd_syms s)) body ->
  list_sum (map (assign_count x) body) = list_sum (map (def_count x) body) + cnt x (flat_map upd_syms body).
Proof.
  induction 1 as [|s l Hs Hl IH]; [reflexivity|]. cbn [map flat_map].
  change (list_sum (assign_count x s :: map (assign_count x) l))
    with (assign_count x s + list_sum (map (assign_count x) l)).
  change (list_sum (def_count x s :: map (def_count x) l))
    with (def_count x s + list_sum (map (def_count x) l)).
  rewrite cnt_app, Hs, IH. lia.
Qed.

Lemma assign_count_split x s : assign_count x s = def_count x s + cnt x (upd_syms s).
Proof.
  induction s as [s Hs | n a at_ nl sub body IH | body IH] using stmt_deep_ind.
  - destruct s; try destruct Hs; cbn [assign_count def_count upd_syms cnt]; lia.
  - cbn [assign_count def_count upd_syms]. apply count_split_list. exact IH.
  - cbn [assign_count def_count upd_syms]. apply count_split_list. exact IH.
Qed.

Lemma count_split x l : count_assigns x l = defs x l + cnt x (upds l).
Proof. apply count_split_list. apply Forall_forall. intros s _. apply assign_count_split. Qed.

Lemma defs_in_le x s l : In s l -> def_count x s <= defs x l.
Proof.
  induction l as [|y r IH]; intro H; [contradiction|]. rewrite defs_cons.
  destruct H as [H|H]; [subst y; lia | specialize (IH H); lia].
Qed.

Lemma upds_in_incl s l : In s l -> incl (upd_syms s) (upds l).
Proof.
  intros H y Hy. unfold upds. apply in_flat_map. exists s. split; assumption.
Qed.

(* from the count to the predicates of doc_link_wf *)
Lemma filter_assigns_nil x l : count_assigns x l = 0 -> filter (assigns x) l = [].
Proof.
  intro H. apply existsb_count in H. induction l as [|s r IH]; [reflexivity|].
  cbn [existsb] in H. apply orb_false_iff in H. destruct H as [H1 H2]. cbn [filter]. rewrite H1. apply IH. exact H2.
Qed.

Lemma count_one_defined_once x l : count_assigns x l = 1 -> defined_once x l = true.
Proof.
  unfold defined_once. induction l as [|s r IH]; intro H; [discriminate|].
  rewrite count_cons in H. cbn [filter]. destruct (assigns x s) eqn:Ea.
  - assert (Hs : assign_count x s <> 0) by (intro Hz; apply assigns_count in Hz; congruence).
    rewrite filter_assigns_nil by lia. reflexivity.
  - apply assigns_count in Ea. apply IH. lia.
Qed.

Lemma count_zero_no_assign x l : count_assigns x l = 0 -> no_assign x l = true.
Proof. intro H. unfold no_assign. apply existsb_count in H. rewrite H. reflexivity. Qed.

(* ====================================================================== *)
(* 2. the files: emit_sff defines the linker offsets of sff_offsets        *)
(* ====================================================================== *)

(* the statements [s] define exactly the names [names] (with multiplicity) and update nothing *)
Definition Sy (s : list stmt) (names : list string) : Prop :=
  (forall x, defs x s = cnt x names) /\ upds s = [].

Lemma Sy_nil : Sy [] [].
Proof. split; reflexivity. Qed.

Lemma Sy_app s1 n1 s2 n2 : Sy s1 n1 -> Sy s2 n2 -> Sy (s1 ++ s2) (n1 ++ n2).
Proof.
  intros [D1 U1] [D2 U2]. split.
  - intro x. rewrite defs_app, cnt_app, D1, D2. reflexivity.
  - rewrite upds_app, U1, U2. reflexivity.
Qed.

Ltac sy_triv := split; [intro; reflexivity | reflexivity].

Lemma fold_out_Sy {A} (f : A -> wstate -> res out) (g : A -> list string) l :
  (forall a ws s ws', In a l -> f a ws = Ok (s, ws') -> Sy s (g a)) ->
  forall ws s ws', fold_out f l ws = Ok (s, ws') -> Sy s (flat_map g l).
Proof.
  induction l as [|a r IH]; intros Hf ws s ws' H.
  - apply fold_out_nil in H. destruct H; subst. apply Sy_nil.
  - apply fold_out_cons in H. destruct H as [s1 [ws1 [s2 [E1 [E2 E]]]]]. subst s. cbn [flat_map].
    apply Sy_app.
    + eapply Hf; [left; reflexivity | exact E1].
    + eapply IH; [|exact E2]. intros b w t w' Hb. apply Hf. right. exact Hb.
Qed.

(* what one visit of the entry [f] at the section [k] defines *)
Definition file_offsets rt sty seg sections (f : file_info) (k : string) : list string :=
  if negb (should_emit rt (fi_conds f)) then [] else
  match fi_kind f with
  | KLinkerOffset =>
      if String.eqb (fi_section f) k then [linker_offset sty (fi_linker_offset_name f)] else []
  | KGroup => flat_map (fun c => sff_offsets rt sty seg sections c (chain_fuel seg) [] k) (fi_files f)
  | _ => []
  end.

Lemma sff_offsets_O rt sty seg sections f stack section :
  sff_offsets rt sty seg sections f O stack section = [].
Proof. destruct f. reflexivity. Qed.

Lemma sff_offsets_S rt sty seg sections f n stack section :
  sff_offsets rt sty seg sections f (S n) stack section =
  if mem_str section stack then [] else
  flat_map (fun k =>
              file_offsets rt sty seg sections f k ++
              match lookup k (subgroups_for seg f) with
              | Some others => flat_map (sff_offsets rt sty seg sections f n (section :: stack)) others
              | None => []
              end) (sections_here f section sections).
Proof. destruct f. reflexivity. Qed.

Section Files.
  Variables (rt : runtime) (sty : style) (cfg : wcfg) (seg : segment) (sections : list string).
  Hypothesis Hrp : reference_partial cfg = false.

  Lemma emit_file_of_Sy f k base ws s ws' :
    Forall (fun c => forall n stack section base ws s ws',
                emit_sff rt sty cfg seg sections c n stack section base ws = Ok (s, ws') ->
                Sy s (sff_offsets rt sty seg sections c n stack section)) (fi_files f) ->
    emit_file_of rt sty cfg seg sections f k base ws = Ok (s, ws') ->
    Sy s (file_offsets rt sty seg sections f k).
  Proof.
    intros IH H. unfold emit_file_of, emit_file_gen in H. unfold file_offsets.
    destruct (negb (should_emit rt (fi_conds f))).
    { apply ok_inj in H. inversion H; subst. apply Sy_nil. }
    destruct (fi_kind f).
    - apply bind_ok in H. destruct H as [p [_ H]]. apply ok_inj in H. inversion H; subst. sy_triv.
    - apply bind_ok in H. destruct H as [p [_ H]]. apply ok_inj in H. inversion H; subst. sy_triv.
    - apply ok_inj in H. inversion H; subst. destruct (String.eqb (fi_section f) k); sy_triv.
    - apply ok_inj in H. inversion H; subst. destruct (String.eqb (fi_section f) k); sy_triv.
    - apply bind_ok in H. destruct H as [dd [_ H]]. unfold group_fold in H.
      eapply (fold_out_Sy _ (fun c => sff_offsets rt sty seg sections c (chain_fuel seg) [] k)); [|exact H].
      intros c w t w' Hc Hcall. rewrite Forall_forall in IH. exact (IH c Hc _ _ _ _ _ _ _ Hcall).
  Qed.

  Lemma emit_sff_Sy f : forall n stack section base ws s ws',
    emit_sff rt sty cfg seg sections f n stack section base ws = Ok (s, ws') ->
    Sy s (sff_offsets rt sty seg sections f n stack section).
  Proof.
    induction f as [p k sf pa sec lon so files dd c kp IHfiles] using file_info_ind'.
    set (f := FileInfo p k sf pa sec lon so files dd c kp) in *.
    induction n as [|n IHn]; intros stack section base ws s ws' H.
    - rewrite emit_sff_O in H. discriminate.
    - rewrite emit_sff_S in H. rewrite sff_offsets_S.
      destruct (mem_str section stack); [discriminate|].
      unfold chain_step in H.
      eapply (fold_out_Sy _ (fun k0 =>
                file_offsets rt sty seg sections f k0 ++
                match lookup k0 (subgroups_for seg f) with
                | Some others => flat_map (sff_offsets rt sty seg sections f n (section :: stack)) others
                | None => []
                end)); [|exact H].
      intros k0 w t w' _ Hstep.
      apply bind_ok_out in Hstep. destruct Hstep as [s1 [w1 [E1 Hstep]]]. cbn [fst snd] in Hstep.
      apply bind_ok_out in Hstep. destruct Hstep as [s2 [w2 [E2 Hstep]]]. cbn [fst snd] in Hstep.
      apply ok_inj in Hstep. inversion Hstep; subst t w'. clear Hstep.
      apply Sy_app.
      + eapply emit_file_of_Sy; [exact IHfiles | exact E1].
      + rewrite Hrp in E2. destruct (lookup k0 (subgroups_for seg f)) as [others|].
        * eapply (fold_out_Sy _ (sff_offsets rt sty seg sections f n (section :: stack))); [|exact E2].
          intros other w3 t3 w3' _ Hcall. eapply IHn. exact Hcall.
        * apply ok_inj in E2. inversion E2; subst. apply Sy_nil.
  Qed.

  Lemma emit_section_Sy base section ws s ws' :
    emit_section rt sty cfg seg sections base section ws = Ok (s, ws') ->
    Sy s (section_offsets rt sty seg sections section).
  Proof.
    unfold emit_section. intro H. apply bind_ok in H. destruct H as [b0 [_ H]].
    apply bind_ok in H. destruct H as [b [_ H]]. unfold section_offsets.
    eapply (fold_out_Sy _ (fun f => sff_offsets rt sty seg sections f (chain_fuel seg) [] section)); [|exact H].
    intros f w t w' _ Hcall. eapply emit_sff_Sy. exact Hcall.
  Qed.
End Files.

(* ====================================================================== *)
(* 3. one segment                                                          *)
(* ====================================================================== *)

Lemma incl_nil_any {A} (l : list A) : incl [] l.
Proof. intros y []. Qed.

Lemma defs_opt_align x a : defs x (opt_align a) = 0.
Proof. destruct a; reflexivity. Qed.

Lemma upds_opt_align a : incl (upds (opt_align a)) ["."].
Proof. destruct a; cbn; [apply incl_refl | apply incl_nil_any]. Qed.

Lemma defs_opt_fill x seg : defs x (opt_fill seg) = 0.
Proof. unfold opt_fill. destruct (fill_value seg); reflexivity. Qed.

Lemma upds_opt_fill seg : upds (opt_fill seg) = [].
Proof. unfold opt_fill. destruct (fill_value seg); reflexivity. Qed.

Lemma defs_gp_stmt x rt seg section : defs x (gp_stmt rt seg section) = cnt x (gp_symbols rt seg section).
Proof.
  unfold gp_stmt, gp_symbols. destruct (sg_gp_info seg) as [g|]; [|reflexivity].
  destruct (should_emit rt (gp_conds g) && String.eqb (gp_section g) section)%bool; reflexivity.
Qed.

Lemma upds_gp_stmt rt seg section : upds (gp_stmt rt seg section) = [].
Proof.
  unfold gp_stmt. destruct (sg_gp_info seg) as [g|]; [|reflexivity].
  destruct (should_emit rt (gp_conds g) && String.eqb (gp_section g) section)%bool; reflexivity.
Qed.

Lemma defs_linker_symbol x sym e l : defs x (linker_symbol sym e :: l) = (if String.eqb sym x then 1 else 0) + defs x l.
Proof. reflexivity. Qed.

Lemma defs_blank x l : defs x (SBlank :: l) = defs x l.
Proof. reflexivity. Qed.

Lemma defs_sep x (rest : list string) : defs x (match rest with [] => [] | _ => [SBlank] end) = 0.
Proof. destruct rest; reflexivity. Qed.

Lemma upds_sep (rest : list string) : upds (match rest with [] => [] | _ => [SBlank] end) = [].
Proof. destruct rest; reflexivity. Qed.

Ltac forall_list := repeat (first [apply Forall_nil | apply Forall_cons]).

Section OneSegment.
  Variables (rt : runtime) (st : settings) (seg : segment).
  Let sty := linker_symbols_style st.

  Lemma section_start_defs x section :
    defs x (section_symbol_start rt sty cfg_normal seg section) =
    cnt x (gp_symbols rt seg section) + cnt x [segment_section_start sty (sg_name seg) section].
  Proof.
    unfold section_symbol_start. cbn [section_syms cfg_normal].
    rewrite !defs_app, !defs_opt_align, defs_gp_stmt, defs_linker_symbol, defs_nil. cbn [cnt]. lia.
  Qed.

  Lemma section_start_upds section : incl (upds (section_symbol_start rt sty cfg_normal seg section)) ["."].
  Proof.
    unfold section_symbol_start. cbn [section_syms cfg_normal].
    rewrite !upds_app, upds_gp_stmt. repeat apply incl_app; try apply upds_opt_align; apply incl_nil_any.
  Qed.

  Lemma section_end_defs x section :
    defs x (section_symbol_end sty cfg_normal seg section) =
    cnt x [segment_section_end sty (sg_name seg) section; segment_section_size sty (sg_name seg) section].
  Proof.
    unfold section_symbol_end, sym_end_size. cbn [section_syms cfg_normal].
    rewrite !defs_app, !defs_opt_align, !defs_linker_symbol, defs_nil. cbn [cnt]. lia.
  Qed.

  Lemma section_end_upds section : incl (upds (section_symbol_end sty cfg_normal seg section)) ["."].
  Proof.
    unfold section_symbol_end, sym_end_size. cbn [section_syms cfg_normal].
    rewrite !upds_app. repeat apply incl_app; try apply upds_opt_align; apply incl_nil_any.
  Qed.

  Lemma part_groups_defs sections rest : forall ws s ws',
    part_groups rt st cfg_normal seg sections rest ws = Ok (s, ws') ->
    (forall x, defs x s = cnt x (flat_map (gp_symbols rt seg) rest) +
                          cnt x (flat_map (section_symbols rt sty seg sections) rest)) /\
    incl (upds s) ["."].
  Proof.
    induction rest as [|section rest IH]; intros ws s ws' H.
    - apply ok_inj in H. inversion H; subst. split; [intro; reflexivity | apply incl_nil_any].
    - apply part_groups_cons in H. destruct H as [s1 [ws1 [s2 [E1 [E2 E]]]]]. subst s.
      destruct (IH _ _ _ E2) as [D2 U2]. fold sty in E1 |- *.
      destruct (emit_section_Sy rt sty cfg_normal seg sections eq_refl _ _ _ _ _ E1) as [D1 U1].
      split.
      + intro x. cbn [flat_map]. unfold section_symbols at 1.
        rewrite !defs_app, !cnt_app, section_start_defs, section_end_defs, D1, D2, defs_sep. lia.
      + rewrite !upds_app, U1, upds_sep. cbn [app].
        repeat apply incl_app; try apply section_start_upds; try apply section_end_upds; exact U2.
  Qed.

  Definition part_sections (noload : bool) : list string :=
    if noload then noload_sections seg else alloc_sections seg.

  Lemma write_segment_defs noload ws s ws' :
    write_segment rt st cfg_normal seg (part_sections noload) noload ws = Ok (s, ws') ->
    (forall x, defs x s = cnt x (flat_map (gp_symbols rt seg) (part_sections noload)) +
                          cnt x (part_symbols rt sty seg noload)) /\
    Forall (fun t => incl (upd_syms t) ["."]) s.
  Proof.
    intro H. apply write_segment_inv in H. destruct H as [body [E Es]]. subst s.
    destruct (part_groups_defs _ _ _ _ _ E) as [D U]. fold sty. split.
    - intro x. unfold sections_kind_start, sections_kind_end, sym_end_size, part_symbols.
      cbn [kind_syms cfg_normal]. fold (part_sections noload).
      rewrite !defs_app, !cnt_app, defs_linker_symbol, defs_blank, defs_nil.
      rewrite defs_blank, !defs_linker_symbol, defs_nil.
      unfold outsec_of. rewrite defs_cons, defs_nil. cbn [def_count].
      change (list_sum (map (def_count x) (opt_fill seg ++ body))) with (defs x (opt_fill seg ++ body)).
      rewrite defs_app, defs_opt_fill, D. cbn [cnt]. lia.
    - unfold sections_kind_start, sections_kind_end, sym_end_size. cbn [kind_syms cfg_normal].
      repeat (apply Forall_app; split); forall_list; try (cbn [upd_syms]; apply incl_nil_any).
      unfold outsec_of. cbn [upd_syms]. change (flat_map upd_syms (opt_fill seg ++ body)) with (upds (opt_fill seg ++ body)).
      rewrite upds_app, upds_opt_fill. exact U.
  Qed.
End OneSegment.

Definition class_pair (sty : style) (cn : string) : list string :=
  [vram_class_start sty cn; vram_class_end sty cn].

Definition seg_ends (sty : style) (seg : segment) : list string :=
  match sg_vram_class seg with Some cn => [vram_class_end sty cn] | None => [] end.

(* a top-level statement: either "t = MAX(t, o)" for one of the symbols [ends], or it only updates the
   two counters *)
Definition top_ok (ends : list string) (s : stmt) : Prop :=
  (exists t o, s = SMaxSelf t o /\ In t ends) \/ incl (upd_syms s) ["."; "__romPos"].

Lemma top_ok_counters ends s : incl (upd_syms s) ["."; "__romPos"] -> top_ok ends s.
Proof. intro H. right. exact H. Qed.

Lemma top_ok_mono ends ends' s : incl ends ends' -> top_ok ends s -> top_ok ends' s.
Proof.
  intros Hi [[t [o [E Hin]]]|H]; [left; exists t, o; split; [exact E | apply Hi; exact Hin] | right; exact H].
Qed.

Lemma top_ok_upds ends l : Forall (top_ok ends) l -> incl (upds l) ("." :: "__romPos" :: ends).
Proof.
  induction 1 as [|s r Hs Hr IH]; [apply incl_nil_any|]. rewrite upds_cons. apply incl_app; [|exact IH].
  destruct Hs as [[t [o [E Hin]]]|H].
  - subst s. cbn [upd_syms]. intros y [Hy|[]]. subst y. right. right. exact Hin.
  - intros y Hy. specialize (H y Hy). destruct H as [H|[H|[]]]; [left | right; left]; exact H.
Qed.

Ltac counters_leaf :=
  apply top_ok_counters; cbn [upd_syms]; intros y Hy; cbn [In] in *; tauto.

Section OneSegment2.
  Variables (rt : runtime) (st : settings) (classes : list vram_class) (seg : segment).
  Let sty := linker_symbols_style st.

  Lemma seg_head_defs x :
    defs x (seg_head st seg) =
    cnt x [segment_rom_start sty (sg_name seg); segment_vram_start sty (sg_name seg)].
  Proof.
    unfold seg_head. rewrite defs_app, !defs_linker_symbol, defs_nil. fold sty.
    destruct (segment_start_align seg); cbn [cnt]; change (defs x []) with 0;
      [change (defs x [SAlign "__romPos" n; SAlign "." n]) with 0|]; lia.
  Qed.

  Lemma seg_head_top ends : Forall (top_ok ends) (seg_head st seg).
  Proof.
    unfold seg_head. apply Forall_app. split.
    - destruct (segment_start_align seg); forall_list; counters_leaf.
    - forall_list; counters_leaf.
  Qed.

  Lemma seg_foot_defs x :
    defs x (seg_foot st seg) =
    cnt x [segment_vram_end sty (sg_name seg); segment_vram_size sty (sg_name seg);
           segment_rom_end sty (sg_name seg); segment_rom_size sty (sg_name seg)].
  Proof.
    unfold seg_foot, sym_end_size. cbv zeta. fold sty. rewrite !defs_app.
    assert (A : defs x (match segment_end_align seg with
                        | Some a => [SAlign "__romPos" a; SAlign "." a] | None => [] end) = 0)
      by (destruct (segment_end_align seg); reflexivity).
    assert (B : defs x (match sg_vram_class seg with
                        | Some cn => [SBlank; SMaxSelf (vram_class_end sty cn) (segment_vram_end sty (sg_name seg))]
                        | None => [] end) = 0)
      by (destruct (sg_vram_class seg); reflexivity).
    rewrite A, B, !defs_linker_symbol, defs_nil.
    change (defs x [SRomAdd ("." ++ sg_name seg)%string]) with 0. change (defs x [SBlank]) with 0.
    cbn [cnt]. lia.
  Qed.

  Lemma seg_foot_top : Forall (top_ok (seg_ends sty seg)) (seg_foot st seg).
  Proof.
    unfold seg_foot, sym_end_size, seg_ends. cbv zeta. fold sty.
    repeat (apply Forall_app; split).
    - forall_list; counters_leaf.
    - destruct (segment_end_align seg); forall_list; counters_leaf.
    - forall_list; counters_leaf.
    - forall_list; counters_leaf.
    - destruct (sg_vram_class seg) as [cn|]; forall_list; [counters_leaf|].
      left. eexists _, _. split; [reflexivity | left; reflexivity].
    - forall_list; counters_leaf.
  Qed.

  Lemma add_segment_rest ws s ws' :
    add_segment rt st cfg_normal classes seg ws = Ok (s, ws') -> should_emit rt (sg_conds seg) = true ->
    exists cls ws1 rest,
      class_part st classes seg ws = Ok (cls, ws1) /\ s = cls ++ rest /\ ws_emitted ws' = ws_emitted ws1 /\
      (forall x, defs x rest = cnt x (seg_gp_symbols rt seg) + cnt x (seg_symbols rt sty seg)) /\
      Forall (top_ok (seg_ends sty seg)) rest.
  Proof.
    intros H Hc. apply add_segment_inv in H.
    destruct H as [[Hc' _] | [_ [cls [ws1 [s1 [ws2 [s2 [Ec [E1 [E2 E]]]]]]]]]]; [congruence|].
    exists cls, ws1, (seg_head st seg ++ s1 ++ [SBlank] ++ s2 ++ [SBlank] ++ seg_foot st seg).
    split; [exact Ec|]. split; [exact E|].
    split.
    { rewrite (write_segment_emitted _ _ _ _ _ _ _ _ _ E2), (write_segment_emitted _ _ _ _ _ _ _ _ _ E1).
      reflexivity. }
    change (alloc_sections seg) with (part_sections seg false) in E1.
    change (noload_sections seg) with (part_sections seg true) in E2.
    destruct (write_segment_defs _ _ _ _ _ _ _ E1) as [D1 U1].
    destruct (write_segment_defs _ _ _ _ _ _ _ E2) as [D2 U2]. fold sty in D1, D2.
    split.
    - intro x. rewrite !defs_app, seg_head_defs, seg_foot_defs, D1, D2.
      change (defs x [SBlank]) with 0.
      unfold seg_gp_symbols, seg_sections, seg_symbols. rewrite flat_map_app, !cnt_app.
      cbn [part_sections cnt]. lia.
    - assert (Hw : forall l, Forall (fun t => incl (upd_syms t) ["."]) l -> Forall (top_ok (seg_ends sty seg)) l).
      { intros l Hl. eapply Forall_impl; [|exact Hl]. intros t Ht. right.
        intros y Hy. specialize (Ht y Hy). destruct Ht as [Ht|[]]. left. exact Ht. }
      apply Forall_app; split; [apply seg_head_top|].
      apply Forall_app; split; [apply Hw; exact U1|].
      apply Forall_app; split; [forall_list; counters_leaf|].
      apply Forall_app; split; [apply Hw; exact U2|].
      apply Forall_app; split; [forall_list; counters_leaf|].
      apply seg_foot_top.
  Qed.
End OneSegment2.

(* ====================================================================== *)
(* 4. the classes and the fold over the segments                           *)
(* ====================================================================== *)

Lemma class_part_cases st classes seg ws cls ws1 :
  class_part st classes seg ws = Ok (cls, ws1) ->
  match sg_vram_class seg with
  | None => cls = [] /\ ws1 = ws
  | Some cn =>
      exists c, class_get classes cn = Some c /\
                if mem_str cn (ws_emitted ws) then cls = [] /\ ws1 = ws
                else cls = class_start_stmts st c cn /\ ws1 = mark_emitted cn ws
  end.
Proof.
  unfold class_part. destruct (sg_vram_class seg) as [cn|].
  - destruct (class_get classes cn) as [c|]; [|discriminate]. intro H. exists c. split; [reflexivity|].
    destruct (mem_str cn (ws_emitted ws)); apply ok_inj in H; inversion H; subst; auto.
  - intro H. apply ok_inj in H. inversion H; subst; auto.
Qed.

Lemma class_start_defs x st c cn :
  defs x (class_start_stmts st c cn) = cnt x (class_pair (linker_symbols_style st) cn).
Proof.
  unfold class_start_stmts, class_pair. rewrite defs_app, defs_linker_symbol.
  change (defs x [SBlank]) with 0. cbn [cnt].
  destruct (vc_fixed_vram c) as [v|]; [rewrite defs_linker_symbol, defs_nil; lia|].
  destruct (vc_fixed_symbol c) as [s|]; [rewrite defs_linker_symbol, defs_nil; lia|].
  rewrite defs_linker_symbol.
  assert (Hm : forall l, defs x (map (fun o => SMaxSelf (vram_class_start (linker_symbols_style st) cn)
                                                   (vram_class_end (linker_symbols_style st) o)) l) = 0).
  { induction l as [|o r IH]; [reflexivity|]. cbn [map]. rewrite defs_cons, IH. reflexivity. }
  rewrite Hm. lia.
Qed.

Lemma class_start_top st c cn :
  Forall (top_ok [vram_class_start (linker_symbols_style st) cn]) (class_start_stmts st c cn).
Proof.
  unfold class_start_stmts. apply Forall_app. split; [|forall_list; counters_leaf].
  destruct (vc_fixed_vram c) as [v|]; [forall_list; counters_leaf|].
  destruct (vc_fixed_symbol c) as [s|]; [forall_list; counters_leaf|].
  apply Forall_cons; [counters_leaf|]. apply Forall_forall. intros t Ht. apply in_map_iff in Ht.
  destruct Ht as [o [E _]]. subst t. left. eexists _, _. split; [reflexivity | left; reflexivity].
Qed.

Lemma used_classes_cons rt seg r :
  used_classes rt (seg :: r) =
  (if should_emit rt (sg_conds seg)
   then match sg_vram_class seg with Some c => [c] | None => [] end else []) ++ used_classes rt r.
Proof. unfold used_classes, included. cbn [filter]. destruct (should_emit rt (sg_conds seg)); reflexivity. Qed.

Lemma included_cons rt seg r :
  included rt (seg :: r) = if should_emit rt (sg_conds seg) then seg :: included rt r else included rt r.
Proof. reflexivity. Qed.

Lemma mem_str_cons x y l : mem_str x (y :: l) = (String.eqb x y || mem_str x l)%bool.
Proof. cbn [mem_str]. destruct (String.eqb x y); reflexivity. Qed.

Section Fold.
  Variables (rt : runtime) (st : settings) (classes : list vram_class).
  Let sty := linker_symbols_style st.

  Lemma fold_defs segs : forall ws body ws',
    fold_out (add_segment rt st cfg_normal classes) segs ws = Ok (body, ws') ->
    (forall x, defs x body =
       cnt x (flat_map (class_pair sty) (first_uses (used_classes rt segs) (ws_emitted ws))) +
       cnt x (flat_map (seg_gp_symbols rt) (included rt segs)) +
       cnt x (flat_map (seg_symbols rt sty) (included rt segs))) /\
    (forall cn, mem_str cn (ws_emitted ws') =
                (mem_str cn (used_classes rt segs) || mem_str cn (ws_emitted ws))%bool) /\
    Forall (top_ok (flat_map (class_pair sty) (used_classes rt segs))) body.
  Proof.
    induction segs as [|seg r IH]; intros ws body ws' H.
    - apply fold_out_nil in H. destruct H; subst. repeat split; constructor.
    - apply fold_out_cons in H. destruct H as [s1 [ws1 [s2 [E1 [E2 E]]]]]. subst body.
      destruct (IH _ _ _ E2) as [D2 [M2 T2]]. clear IH.
      rewrite used_classes_cons, included_cons.
      destruct (should_emit rt (sg_conds seg)) eqn:Hc.
      + destruct (add_segment_rest rt st classes seg _ _ _ E1 Hc) as (cls & wsA & rest & Ec & Es & Eem & Dr & Tr).
        fold sty in Dr, Tr. subst s1. apply class_part_cases in Ec. unfold seg_ends in Tr.
        destruct (sg_vram_class seg) as [cn|].
        * destruct Ec as [c [Eg Ec]]. cbn [app first_uses flat_map].
          destruct (mem_str cn (ws_emitted ws)) eqn:Em; destruct Ec as [Ecls EwA]; subst cls wsA.
          -- rewrite Eem in D2, M2. split; [|split].
             ++ intro x. cbn [app]. rewrite defs_app, Dr, D2, !cnt_app. lia.
             ++ intro cn'. rewrite M2, mem_str_cons. destruct (String.eqb cn' cn) eqn:Ee; [|reflexivity].
                apply String.eqb_eq in Ee. subst cn'. rewrite Em, orb_true_r. reflexivity.
             ++ cbn [app]. apply Forall_app. split.
                ** eapply Forall_impl; [|exact Tr]. intros t Ht. eapply top_ok_mono; [|exact Ht].
                   intros y [Hy|[]]. subst y. cbn [class_pair]. right. left. reflexivity.
                ** eapply Forall_impl; [|exact T2]. intros t Ht. eapply top_ok_mono; [|exact Ht].
                   apply incl_appr. apply incl_refl.
          -- rewrite Eem in D2, M2. cbn [mark_emitted ws_emitted] in D2, M2. split; [|split].
             ++ intro x. rewrite !defs_app, class_start_defs, Dr, D2, !cnt_app. fold sty. cbn [flat_map]. rewrite !cnt_app. lia.
             ++ intro cn'. rewrite M2, !mem_str_cons.
                destruct (String.eqb cn' cn), (mem_str cn' (used_classes rt r)); reflexivity.
             ++ apply Forall_app. split; [apply Forall_app; split|].
                ** eapply Forall_impl; [|apply class_start_top]. intros t Ht. eapply top_ok_mono; [|exact Ht].
                   fold sty. intros y [Hy|[]]. subst y. left. reflexivity.
                ** eapply Forall_impl; [|exact Tr]. intros t Ht. eapply top_ok_mono; [|exact Ht].
                   intros y [Hy|[]]. subst y. cbn [class_pair]. right. left. reflexivity.
                ** eapply Forall_impl; [|exact T2]. intros t Ht. eapply top_ok_mono; [|exact Ht].
                   apply incl_appr. apply incl_refl.
        * destruct Ec as [Ecls EwA]. subst cls wsA. rewrite Eem in D2, M2. cbn [app flat_map]. split; [|split].
          -- intro x. rewrite defs_app, Dr, D2, !cnt_app. lia.
          -- exact M2.
          -- apply Forall_app. split; [|exact T2].
             eapply Forall_impl; [|exact Tr]. intros t Ht. eapply top_ok_mono; [|exact Ht]. intros y [].
      + rewrite (add_segment_excluded _ _ _ _ _ _ Hc) in E1. apply ok_inj in E1. inversion E1; subst s1 ws1.
        cbn [app]. split; [exact D2 | split; [exact M2 | exact T2]].
  Qed.
End Fold.

(* ====================================================================== *)
(* 5. the statements that assign a class end symbol                        *)
(* ====================================================================== *)

Definition end_ok (x : string) (s : stmt) : Prop := assigns x s = true -> end_shape x s = true.

Lemma end_clean_of x l : Forall (end_ok x) l -> end_clean x l = true.
Proof.
  intro H. unfold end_clean. apply forallb_forall. intros s Hs. rewrite Forall_forall in H.
  specialize (H s Hs). unfold end_ok in H. destruct (assigns x s); [rewrite H; reflexivity | reflexivity].
Qed.

Lemma end_ok_top ends x l :
  Forall (top_ok ends) l -> defs x l = 0 -> x <> "." -> x <> "__romPos" -> Forall (end_ok x) l.
Proof.
  intros Ht Hd H1 H2. apply Forall_forall. intros s Hs. rewrite Forall_forall in Ht.
  destruct (Ht s Hs) as [[t [o [E _]]]|Hi].
  - subst s. intro Ha. exact Ha.
  - intro Ha. exfalso.
    assert (Hn : assign_count x s <> 0) by (intro Hz; apply assigns_count in Hz; congruence).
    rewrite assign_count_split in Hn. pose proof (defs_in_le x s l Hs) as Hle.
    rewrite cnt_notin in Hn; [lia|]. intro Hin. specialize (Hi x Hin).
    destruct Hi as [Hi|[Hi|[]]]; [apply H1 | apply H2]; symmetry; exact Hi.
Qed.

Lemma end_ok_class_start st c cn x :
  vram_class_start (linker_symbols_style st) cn <> x -> Forall (end_ok x) (class_start_stmts st c cn).
Proof.
  intro Hne. apply String.eqb_neq in Hne.
  assert (Hs : forall e, end_ok x (linker_symbol (vram_class_start (linker_symbols_style st) cn) e)).
  { intros e Ha. cbn [linker_symbol assigns] in Ha. congruence. }
  unfold class_start_stmts. apply Forall_app. split.
  - destruct (vc_fixed_vram c) as [v|]; [forall_list; apply Hs|].
    destruct (vc_fixed_symbol c) as [s|]; [forall_list; apply Hs|].
    apply Forall_cons; [apply Hs|]. apply Forall_forall. intros t Ht. apply in_map_iff in Ht.
    destruct Ht as [o [E _]]. subst t. intro Ha. exact Ha.
  - forall_list.
    + intro Ha. exact Ha.
    + intro Ha. discriminate.
Qed.

Section FoldEnd.
  Variables (rt : runtime) (st : settings) (classes : list vram_class) (x : string).
  Let sty := linker_symbols_style st.
  Hypothesis Hx1 : x <> ".".
  Hypothesis Hx2 : x <> "__romPos".

  Lemma fold_end_ok segs : forall ws body ws',
    fold_out (add_segment rt st cfg_normal classes) segs ws = Ok (body, ws') ->
    (forall seg, In seg (included rt segs) ->
                 cnt x (seg_gp_symbols rt seg) + cnt x (seg_symbols rt sty seg) = 0) ->
    (forall cn, In cn (used_classes rt segs) -> vram_class_start sty cn <> x) ->
    Forall (end_ok x) body.
  Proof.
    induction segs as [|seg r IH]; intros ws body ws' H Hseg Hst.
    - apply fold_out_nil in H. destruct H; subst. constructor.
    - apply fold_out_cons in H. destruct H as [s1 [ws1 [s2 [E1 [E2 E]]]]]. subst body.
      rewrite used_classes_cons in Hst. rewrite included_cons in Hseg.
      destruct (should_emit rt (sg_conds seg)) eqn:Hc.
      + apply Forall_app. split.
        * destruct (add_segment_rest rt st classes seg _ _ _ E1 Hc) as (cls & wsA & rest & Ec & Es & _ & Dr & Tr).
          subst s1. apply Forall_app. split.
          -- apply class_part_cases in Ec. destruct (sg_vram_class seg) as [cn|].
             ++ destruct Ec as [c [_ Ec]]. destruct (mem_str cn (ws_emitted ws)); destruct Ec as [Ecls _]; subst cls.
                ** constructor.
                ** apply end_ok_class_start. apply Hst. left. reflexivity.
             ++ destruct Ec as [Ecls _]. subst cls. constructor.
          -- eapply end_ok_top; [exact Tr | | exact Hx1 | exact Hx2].
             rewrite Dr. apply Hseg. left. reflexivity.
        * eapply IH; [exact E2 | |].
          -- intros seg' Hin. apply Hseg. right. exact Hin.
          -- intros cn Hin. apply Hst. apply in_or_app. right. exact Hin.
      + rewrite (add_segment_excluded _ _ _ _ _ _ Hc) in E1. apply ok_inj in E1. inversion E1; subst s1 ws1.
        cbn [app] in *. eapply IH; eassumption.
  Qed.
End FoldEnd.

(* ====================================================================== *)
(* 6. the statements around the segments                                   *)
(* ====================================================================== *)

Lemma defs_flat_map_zero {A} x (f : A -> list stmt) l :
  (forall a, defs x (f a) = 0) -> defs x (flat_map f l) = 0.
Proof. intro H. induction l as [|a r IH]; [reflexivity|]. cbn [flat_map]. rewrite defs_app, H, IH. reflexivity. Qed.

Lemma upds_flat_map_nil {A} (f : A -> list stmt) l :
  (forall a, upds (f a) = []) -> upds (flat_map f l) = [].
Proof. intro H. induction l as [|a r IH]; [reflexivity|]. cbn [flat_map]. rewrite upds_app, H, IH. reflexivity. Qed.

Lemma defs_map_zero {A} x (f : A -> stmt) l : (forall a, def_count x (f a) = 0) -> defs x (map f l) = 0.
Proof. intro H. induction l as [|a r IH]; [reflexivity|]. cbn [map]. rewrite defs_cons, H, IH. reflexivity. Qed.

Lemma upds_map_nil {A} (f : A -> stmt) l : (forall a, upd_syms (f a) = []) -> upds (map f l) = [].
Proof. intro H. induction l as [|a r IH]; [reflexivity|]. cbn [map]. rewrite upds_cons, H, IH. reflexivity. Qed.

Lemma begin_defs x stg :
  defs x (begin_sections_body stg) = cnt x ["__romPos"] + cnt x (hardcoded_gp_symbols stg).
Proof.
  unfold begin_sections_body, hardcoded_gp_stmts, hardcoded_gp_symbols.
  destruct (hardcoded_gp_value stg); cbn [app]; rewrite !defs_cons, defs_nil; cbn [def_count cnt]; lia.
Qed.

Lemma begin_upds stg : upds (begin_sections_body stg) = [].
Proof. unfold begin_sections_body, hardcoded_gp_stmts. destruct (hardcoded_gp_value stg); reflexivity. Qed.

Lemma defs_blank_if x b : defs x (blank_if b) = 0.
Proof. destruct b; reflexivity. Qed.

Lemma upds_blank_if b : upds (blank_if b) = [].
Proof. destruct b; reflexivity. Qed.

Lemma end_sections_defs x stg classes ws used :
  (forall cn, mem_str cn (ws_emitted ws) = mem_str cn used) ->
  defs x (end_sections_body stg classes ws) =
  cnt x (class_size_symbols (linker_symbols_style stg) classes used).
Proof.
  intro Hm. unfold end_sections_body, class_size_symbols. cbv zeta. rewrite !defs_app.
  assert (A : forall (b l : bool), defs x (if b then blank_if l ++ map SSingleEntry (sections_allowlist stg) else []) = 0).
  { intros b l. destruct b; [|reflexivity]. rewrite defs_app, defs_blank_if, defs_map_zero; reflexivity. }
  assert (B : forall (b l : bool), defs x (if b then blank_if l ++ map SSingleEntry (sections_allowlist_extra stg) else []) = 0).
  { intros b l. destruct b; [|reflexivity]. rewrite defs_app, defs_blank_if, defs_map_zero; reflexivity. }
  assert (C : forall (b l : bool), defs x (if b then blank_if l ++ [SDiscard (sections_denylist stg) (discard_wildcard_section stg)]
                                  else []) = 0).
  { intros b l. destruct b; [|reflexivity]. rewrite defs_app, defs_blank_if. reflexivity. }
  rewrite A, B, C. clear A B C.
  induction (class_names classes []) as [|cn r IH]; [reflexivity|].
  cbn [flat_map filter]. rewrite defs_app, Hm. destruct (mem_str cn used).
  - cbn [map cnt]. rewrite defs_linker_symbol, defs_nil. lia.
  - rewrite defs_nil. lia.
Qed.

Lemma end_sections_upds stg classes ws : upds (end_sections_body stg classes ws) = [].
Proof.
  unfold end_sections_body. cbv zeta. rewrite !upds_app.
  assert (A : forall (b l : bool), upds (if b then blank_if l ++ map SSingleEntry (sections_allowlist stg) else []) = []).
  { intros b l. destruct b; [|reflexivity]. rewrite upds_app, upds_blank_if, upds_map_nil; reflexivity. }
  assert (B : forall (b l : bool), upds (if b then blank_if l ++ map SSingleEntry (sections_allowlist_extra stg) else []) = []).
  { intros b l. destruct b; [|reflexivity]. rewrite upds_app, upds_blank_if, upds_map_nil; reflexivity. }
  assert (C : forall (b l : bool), upds (if b then blank_if l ++ [SDiscard (sections_denylist stg) (discard_wildcard_section stg)]
                                  else []) = []).
  { intros b l. destruct b; [|reflexivity]. rewrite upds_app, upds_blank_if. reflexivity. }
  rewrite A, B, C. cbn [app]. rewrite app_nil_r.
  apply upds_flat_map_nil. intro cn. destruct (mem_str cn (ws_emitted ws)); reflexivity.
Qed.

Lemma tail_defs x rt d : defs x (tail_stmts rt d) = cnt x (user_symbols rt (doc_symbol_assignments d)).
Proof.
  unfold tail_stmts, entry_stmts, assignment_stmts, required_stmts, assert_stmts, user_symbols.
  rewrite !defs_app.
  assert (A : defs x (match doc_entry d with Some s => [SBlank; SEntry s] | None => [] end) = 0)
    by (destruct (doc_entry d); reflexivity).
  assert (B : defs x (match doc_required_symbols d with
                      | [] => []
                      | _ => SBlank :: flat_map (fun r => if should_emit rt (rq_conds r)
                                then [SExtern (rq_name r);
                                      SAssert ("DEFINED(" ++ rq_name r ++ ")") (required_msg (rq_name r))]
                                else []) (doc_required_symbols d) end) = 0).
  { destruct (doc_required_symbols d) as [|r0 rr]; [reflexivity|]. rewrite defs_blank.
    apply defs_flat_map_zero. intro a. destruct (should_emit rt (rq_conds a)); reflexivity. }
  assert (C : defs x (match doc_asserts d with
                      | [] => []
                      | _ => SBlank :: flat_map (fun a => if should_emit rt (ae_conds a)
                                then [SAssert (ae_check a) (ae_error_message a)] else []) (doc_asserts d) end) = 0).
  { destruct (doc_asserts d) as [|r0 rr]; [reflexivity|]. rewrite defs_blank.
    apply defs_flat_map_zero. intro a. destruct (should_emit rt (ae_conds a)); reflexivity. }
  rewrite A, B, C. clear A B C.
  assert (D : forall l, defs x (flat_map (fun a => if should_emit rt (sa_conds a)
                             then [SAssign (sa_provide a) (sa_hidden a) false (sa_name a) (ERaw (sa_value a))]
                             else []) l) = cnt x (map sa_name (filter (fun a => should_emit rt (sa_conds a)) l))).
  { induction l as [|a r IH]; [reflexivity|]. cbn [flat_map filter]. rewrite defs_app, IH.
    destruct (should_emit rt (sa_conds a)); [cbn [map cnt]; rewrite defs_cons, defs_nil; cbn [def_count]; lia | reflexivity]. }
  destruct (doc_symbol_assignments d) as [|a0 r0] eqn:El; [reflexivity|].
  rewrite defs_blank, D. lia.
Qed.

Lemma tail_upds rt d : upds (tail_stmts rt d) = [].
Proof.
  unfold tail_stmts, entry_stmts, assignment_stmts, required_stmts, assert_stmts. rewrite !upds_app.
  assert (A : upds (match doc_entry d with Some s => [SBlank; SEntry s] | None => [] end) = [])
    by (destruct (doc_entry d); reflexivity).
  rewrite A. cbn [app].
  assert (B : forall {T} (l : list T) (f : T -> list stmt), (forall a, upds (f a) = []) ->
                upds (match l with [] => [] | _ => SBlank :: flat_map f l end) = []).
  { intros T l f Hf. destruct l as [|a0 r0]; [reflexivity|]. rewrite upds_cons. cbn [upd_syms app].
    apply upds_flat_map_nil. exact Hf. }
  rewrite !B; [reflexivity | | |].
  - intro a. destruct (should_emit rt (ae_conds a)); reflexivity.
  - intro a. destruct (should_emit rt (rq_conds a)); reflexivity.
  - intro a. destruct (should_emit rt (sa_conds a)); reflexivity.
Qed.

(* ====================================================================== *)
(* 7. the whole document                                                   *)
(* ====================================================================== *)

Lemma first_uses_in cn l : forall seen, In cn l -> In cn (first_uses l seen) \/ In cn seen.
Proof.
  induction l as [|c r IH]; intros seen H; [contradiction|]. cbn [first_uses].
  destruct (mem_str c seen) eqn:Em.
  - destruct H as [H|H]; [subst c; right; apply mem_str_in; exact Em | apply IH; exact H].
  - destruct H as [H|H]; [subst c; left; left; reflexivity|].
    destruct (IH (c :: seen) H) as [H1|[H1|H1]]; [left; right; exact H1 | left; left; exact H1 | right; exact H1].
Qed.

Lemma pair_clash sty L cn cn' x :
  In cn L -> In cn' L -> vram_class_start sty cn = x -> vram_class_end sty cn' = x ->
  2 <= cnt x (flat_map (class_pair sty) L).
Proof.
  intros H1 H2 Es Ee. induction L as [|a r IH]; [contradiction|].
  cbn [flat_map]. rewrite cnt_app. unfold class_pair at 1. cbn [cnt].
  assert (Hs : In cn r -> 1 <= cnt x (flat_map (class_pair sty) r)).
  { intro Hin. pose proof (cnt_flat_map_in x (class_pair sty) r cn Hin) as Hle.
    unfold class_pair at 1 in Hle. cbn [cnt] in Hle. rewrite Es, String.eqb_refl in Hle. lia. }
  assert (He : In cn' r -> 1 <= cnt x (flat_map (class_pair sty) r)).
  { intro Hin. pose proof (cnt_flat_map_in x (class_pair sty) r cn' Hin) as Hle.
    unfold class_pair at 1 in Hle. cbn [cnt] in Hle. rewrite Ee, String.eqb_refl in Hle. lia. }
  destruct H1 as [H1|H1], H2 as [H2|H2].
  - subst a. rewrite <- H2 in Ee. rewrite Es, Ee, String.eqb_refl. lia.
  - subst a. rewrite Es, String.eqb_refl. specialize (He H2). lia.
  - subst a. rewrite Ee, String.eqb_refl. specialize (Hs H1). lia.
  - specialize (IH H1 H2). lia.
Qed.

Lemma section_names_in rt sty seg sec :
  In sec (seg_sections seg) ->
  In (segment_section_start sty (sg_name seg) sec) (seg_symbols rt sty seg) /\
  In (segment_section_end sty (sg_name seg) sec) (seg_symbols rt sty seg) /\
  In (segment_section_size sty (sg_name seg) sec) (seg_symbols rt sty seg).
Proof.
  intro H.
  assert (Hp : forall (noload : bool) x,
             In sec (if noload then noload_sections seg else alloc_sections seg) ->
             In x [segment_section_start sty (sg_name seg) sec; segment_section_end sty (sg_name seg) sec;
                   segment_section_size sty (sg_name seg) sec] ->
             In x (part_symbols rt sty seg noload)).
  { intros noload x Hin Hx. unfold part_symbols. cbv zeta. apply in_or_app. right. apply in_or_app. left.
    apply in_flat_map. exists sec. split; [exact Hin|]. unfold section_symbols. cbn [app].
    destruct Hx as [Hx|[Hx|[Hx|[]]]]; subst x.
    - left. reflexivity.
    - right. apply in_or_app. right. left. reflexivity.
    - right. apply in_or_app. right. right. left. reflexivity. }
  assert (Hs : forall x,
             In x [segment_section_start sty (sg_name seg) sec; segment_section_end sty (sg_name seg) sec;
                   segment_section_size sty (sg_name seg) sec] -> In x (seg_symbols rt sty seg)).
  { intros x Hx. unfold seg_symbols. apply in_or_app. right. unfold seg_sections in H. apply in_app_or in H.
    destruct H as [H|H].
    - apply in_or_app. left. apply (Hp false); assumption.
    - apply in_or_app. right. apply in_or_app. left. apply (Hp true); assumption. }
  repeat split; apply Hs; cbn [In]; auto.
Qed.

Section Main.
  Variables (d : document) (rt : runtime).
  Let stg := doc_settings d.
  Let sty := linker_symbols_style stg.
  Let classes := doc_vram_classes d.
  Let segs := doc_segments d.
  Let used := used_classes rt segs.
  Let CS := class_symbols sty used.
  Let SS := flat_map (seg_symbols rt sty) (included rt segs).
  Let SZ := class_size_symbols sty classes used.
  Let US := user_symbols rt (doc_symbol_assignments d).
  Let N := doc_named_symbols d rt.
  Let G := doc_gp_symbols d rt.

  Variables (body : list stmt) (ws' : wstate).
  Hypothesis E : fold_out (add_segment rt stg cfg_normal classes) segs ws0 = Ok (body, ws').
  Let fin := end_sections_body stg classes ws' ++ tail_stmts rt d.
  Let all := begin_sections_body stg ++ body ++ fin.

  Lemma N_cnt x :
    cnt x N = (if String.eqb "__romPos" x then 1 else 0) + cnt x CS + cnt x SS + cnt x SZ + cnt x US.
  Proof.
    unfold N, doc_named_symbols. cbv zeta. fold stg sty segs used classes.
    rewrite cnt_cons, !cnt_app. fold CS SS SZ US. lia.
  Qed.

  Lemma emitted_used cn : mem_str cn (ws_emitted ws') = mem_str cn used.
  Proof.
    destruct (fold_defs rt stg classes segs _ _ _ E) as [_ [M _]]. rewrite M. cbn [ws0 ws_emitted mem_str].
    apply orb_false_r.
  Qed.

  Lemma fin_defs x : defs x fin = cnt x SZ + cnt x US.
  Proof.
    unfold fin. rewrite defs_app, (end_sections_defs x stg classes ws' used emitted_used), tail_defs. reflexivity.
  Qed.

  Lemma fin_upds : upds fin = [].
  Proof. unfold fin. rewrite upds_app, end_sections_upds, tail_upds. reflexivity. Qed.

  (* the definitions of the statements are the document's symbols *)
  Lemma all_defs x : defs x all = cnt x G + cnt x N.
  Proof.
    unfold all. destruct (fold_defs rt stg classes segs _ _ _ E) as [D _].
    rewrite !defs_app, begin_defs, D, fin_defs, N_cnt. cbn [ws0 ws_emitted].
    unfold G, doc_gp_symbols. rewrite cnt_app. fold stg sty segs used CS SS. unfold CS, class_symbols.
    cbn [cnt].
    change (flat_map (fun cn => [vram_class_start sty cn; vram_class_end sty cn]) (first_uses used []))
      with (flat_map (class_pair sty) (first_uses used [])). lia.
  Qed.

  (* the updates concern the two counters and the classes in use *)
  Lemma all_upds : incl (upds all) ("." :: "__romPos" :: flat_map (class_pair sty) used).
  Proof.
    unfold all. rewrite !upds_app, begin_upds, fin_upds, app_nil_r. cbn [app].
    destruct (fold_defs rt stg classes segs _ _ _ E) as [_ [_ T]]. apply top_ok_upds. exact T.
  Qed.

  Lemma class_pair_in cn : In cn used -> incl (class_pair sty cn) CS.
  Proof.
    intros Hin y Hy. unfold CS, class_symbols. apply in_flat_map. exists cn. split; [|exact Hy].
    destruct (first_uses_in cn used [] Hin) as [H|[]]. exact H.
  Qed.

  Lemma used_in_first cn : In cn used -> In cn (first_uses used []).
  Proof. intro Hin. destruct (first_uses_in cn used [] Hin) as [H|[]]. exact H. Qed.

  Hypothesis Hnd : nodup_str N = true.
  Hypothesis Hgp : gp_separate d rt = true.
  Hypothesis Hdot : mem_str "." N = false.

  Lemma N_le x : cnt x N <= 1.
  Proof. apply nodup_cnt. exact Hnd. Qed.

  Lemma gp_all y : In y G -> y = "_gp".
  Proof.
    unfold G, doc_gp_symbols. intro H. apply in_app_or in H. destruct H as [H|H].
    - unfold hardcoded_gp_symbols in H. destruct (hardcoded_gp_value (doc_settings d)); [|contradiction].
      destruct H as [H|[]]. symmetry. exact H.
    - apply in_flat_map in H. destruct H as [seg [_ H]]. unfold seg_gp_symbols in H.
      apply in_flat_map in H. destruct H as [sec [_ H]]. unfold gp_symbols in H.
      destruct (sg_gp_info seg) as [g|]; [|contradiction].
      destruct (should_emit rt (gp_conds g) && String.eqb (gp_section g) sec)%bool; [|contradiction].
      destruct H as [H|[]]. symmetry. exact H.
  Qed.

  Lemma named_not_gp x : In x N -> cnt x G = 0.
  Proof.
    intro Hin. apply cnt_notin. intro HG. pose proof (gp_all x HG) as Hx. subst x.
    unfold gp_separate in Hgp. fold G N in Hgp. destruct G as [|g0 gr]; [contradiction|].
    apply mem_str_in in Hin. rewrite Hin in Hgp. discriminate.
  Qed.

  (* a named symbol that is neither __romPos nor a class symbol is assigned by exactly one statement *)
  Lemma named_once x : In x N -> x <> "__romPos" -> ~ In x CS -> count_assigns x all = 1.
  Proof.
    intros Hin Hr Hc. rewrite count_split, all_defs, (named_not_gp x Hin).
    assert (H1 : cnt x N = 1) by (pose proof (N_le x); apply cnt_in in Hin; lia).
    rewrite H1, cnt_notin; [reflexivity|]. intro Hu. apply all_upds in Hu.
    destruct Hu as [Hu|[Hu|Hu]].
    - subst x. apply mem_str_in in Hin. congruence.
    - apply Hr. symmetry. exact Hu.
    - apply in_flat_map in Hu. destruct Hu as [cn [Hcn Hy]]. apply Hc. exact (class_pair_in cn Hcn x Hy).
  Qed.

  Lemma SS_in seg x : In seg (included rt segs) -> In x (seg_symbols rt sty seg) -> 1 <= cnt x SS.
  Proof.
    intros Hs Hx. pose proof (cnt_flat_map_in x (seg_symbols rt sty) (included rt segs) seg Hs) as Hle.
    apply cnt_in in Hx. fold SS in Hle. lia.
  Qed.

  Lemma in_N_of_cnt x : 1 <= cnt x N -> In x N.
  Proof. intro H. apply cnt_in. lia. Qed.

  Lemma seg_sym_once seg x :
    In seg (included rt segs) -> In x (seg_symbols rt sty seg) -> count_assigns x all = 1.
  Proof.
    intros Hs Hx. pose proof (SS_in seg x Hs Hx) as H1. pose proof (N_le x) as H2. rewrite N_cnt in H2.
    apply named_once.
    - apply in_N_of_cnt. rewrite N_cnt. lia.
    - intro Hr. subst x. rewrite String.eqb_refl in H2. lia.
    - intro Hc. apply cnt_in in Hc. lia.
  Qed.

  Lemma seg_wf seg :
    In seg (included rt segs) -> nodup_str (seg_sections seg) = true -> seg_link_wf sty all seg = true.
  Proof.
    intros Hs Hsec. unfold seg_link_wf, rom_names_distinct, vram_names_distinct.
    assert (Hin : forall x, In x (seg_symbols rt sty seg) -> defined_once x all = true).
    { intros x Hx. apply count_one_defined_once. apply (seg_sym_once seg x Hs Hx). }
    rewrite Hsec.
    rewrite !Hin; try (unfold seg_symbols; cbn [app In]; tauto).
    - cbn [andb]. apply forallb_forall. intros sec Hsec'.
      destruct (section_names_in rt sty seg sec Hsec') as [I1 [I2 I3]].
      unfold section_names_once, assigned_once_deep.
      rewrite (seg_sym_once seg _ Hs I1), (seg_sym_once seg _ Hs I2), (seg_sym_once seg _ Hs I3). reflexivity.
    - unfold seg_symbols. apply in_or_app. right. apply in_or_app. right. apply in_or_app. right.
      cbn [In]. tauto.
    - unfold seg_symbols. apply in_or_app. right. apply in_or_app. right. apply in_or_app. right.
      cbn [In]. tauto.
    - unfold seg_symbols. apply in_or_app. right. apply in_or_app. right. apply in_or_app. right.
      cbn [In]. tauto.
    - unfold seg_symbols. apply in_or_app. right. apply in_or_app. right. apply in_or_app. right.
      cbn [In]. tauto.
  Qed.

  Lemma class_sym_facts x :
    In x CS -> In x N /\ x <> "." /\ x <> "__romPos" /\ cnt x SS = 0 /\ cnt x SZ = 0 /\ cnt x US = 0.
  Proof.
    intro Hc. apply cnt_in in Hc. pose proof (N_le x) as H2. rewrite N_cnt in H2.
    assert (Hin : In x N) by (apply in_N_of_cnt; rewrite N_cnt; lia).
    split; [exact Hin|]. split; [|split; [|lia]].
    - intro Hx. subst x. apply mem_str_in in Hin. congruence.
    - intro Hx. subst x. rewrite String.eqb_refl in H2. lia.
  Qed.

  Lemma seg_gp_le seg x : In seg (included rt segs) -> cnt x (seg_gp_symbols rt seg) <= cnt x G.
  Proof.
    intro Hs. unfold G, doc_gp_symbols. rewrite cnt_app.
    pose proof (cnt_flat_map_in x (seg_gp_symbols rt) (included rt segs) seg Hs) as Hle. fold segs. lia.
  Qed.

  Lemma class_wf cn : In cn used -> class_link_wf sty body fin cn = true.
  Proof.
    intro Hcn.
    assert (Hs : In (vram_class_start sty cn) CS) by (apply (class_pair_in cn Hcn); left; reflexivity).
    assert (He : In (vram_class_end sty cn) CS) by (apply (class_pair_in cn Hcn); right; left; reflexivity).
    destruct (class_sym_facts _ Hs) as (Sn & Sd & Sr & S1 & S2 & S3).
    destruct (class_sym_facts _ He) as (En & Ed & Er & E1 & E2 & E3).
    unfold class_link_wf. repeat (apply andb_true_iff; split).
    - apply end_clean_of. eapply (fold_end_ok rt stg classes _ Ed Er); [exact E| |].
      + intros seg Hseg. pose proof (seg_gp_le seg (vram_class_end sty cn) Hseg) as Hg.
        rewrite (named_not_gp _ En) in Hg.
        pose proof (cnt_flat_map_in (vram_class_end sty cn) (seg_symbols rt sty) (included rt segs) seg Hseg) as Hle.
        fold SS in Hle. fold sty. lia.
      + intros cn' Hcn' Heq. fold sty in Heq.
        pose proof (pair_clash sty (first_uses used []) cn' cn _ (used_in_first cn' Hcn') (used_in_first cn Hcn)
                               Heq eq_refl) as H2.
        pose proof (N_le (vram_class_end sty cn)) as H1. rewrite N_cnt in H1.
        unfold CS, class_symbols in H1.
        change (flat_map (fun c => [vram_class_start sty c; vram_class_end sty c]) (first_uses used []))
          with (flat_map (class_pair sty) (first_uses used [])) in H1. lia.
    - apply count_zero_no_assign. rewrite count_split, fin_defs, fin_upds. cbn [cnt]. lia.
    - apply count_zero_no_assign. rewrite count_split, fin_defs, fin_upds. cbn [cnt]. lia.
    - apply count_one_defined_once. rewrite count_split, fin_defs, fin_upds. cbn [cnt].
      assert (Hz : In (vram_class_size sty cn) SZ).
      { unfold SZ, class_size_symbols. apply in_map. apply filter_In. split; [|apply mem_str_in; exact Hcn].
        rewrite class_names_nil. apply in_keep_first.
        apply used_classes_in in Hcn. destruct Hcn as [seg [Hseg Hcls]].
        destruct (fold_class_declared _ _ _ _ _ _ _ _ _ _ E Hseg Hcls) as [c Hg].
        eapply class_get_in. exact Hg. }
      apply cnt_in in Hz. pose proof (N_le (vram_class_size sty cn)) as H1. rewrite N_cnt in H1. lia.
  Qed.

  Lemma tail_rom : no_assign "__romPos" (tail_stmts rt d) = true.
  Proof.
    apply count_zero_no_assign. rewrite count_split, tail_defs, tail_upds. cbn [cnt].
    pose proof (N_le "__romPos") as H1. rewrite N_cnt, String.eqb_refl in H1. fold US. lia.
  Qed.
End Main.

Lemma docwf_sufficient d rt w :
  gen_normal d rt = Ok w -> doc_names_distinct d rt = true -> doc_link_wf d rt = true.
Proof.
  intros Hg Hd. unfold doc_names_distinct in Hd.
  repeat (apply andb_true_iff in Hd; destruct Hd as [Hd ?H]).
  rename H into Hsecs, H0 into Hout, H1 into Hdot, H2 into Hgp, H3 into Hnd.
  apply negb_true_iff in Hdot.
  apply gen_normal_inv in Hg. destruct Hg as [s [ws' [E _]]].
  apply add_all_segments_inv in E.
  destruct E as [[Hs _] | [_ [body [E _]]]]; [rewrite Hs in Hd; discriminate|].
  unfold doc_link_wf. rewrite E.
  repeat (apply andb_true_iff; split).
  - exact Hd.
  - exact Hout.
  - apply forallb_forall. intros seg Hseg. eapply seg_wf; try eassumption.
    rewrite forallb_forall in Hsecs. apply Hsecs. exact Hseg.
  - apply forallb_forall. intros cn Hcn. eapply class_wf; eassumption.
  - eapply tail_rom; eassumption.
Qed.

(* ====================================================================== *)
(* 8. the characterisation itself, on the script of gen_normal             *)
(* ====================================================================== *)

Lemma cnt_count_occ x l : cnt x l = count_occ string_dec l x.
Proof.
  induction l as [|y r IH]; [reflexivity|]. cbn [cnt count_occ]. rewrite IH.
  destruct (string_dec y x) as [e|ne].
  - apply String.eqb_eq in e. rewrite e. reflexivity.
  - apply String.eqb_neq in ne. rewrite ne. reflexivity.
Qed.

Lemma defs_version x rt : defs x (version_stmts rt) = 0.
Proof. unfold version_stmts. destruct (rt_emit_version_comment rt); reflexivity. Qed.

Lemma upds_version rt : upds (version_stmts rt) = [].
Proof. unfold version_stmts. destruct (rt_emit_version_comment rt); reflexivity. Qed.

Lemma script_symbols d rt w :
  gen_normal d rt = Ok w -> single_segment_mode (doc_settings d) = false ->
  (forall x, defs x (wo_script w) = count_occ string_dec (doc_symbols d rt) x) /\
  incl (upds (wo_script w))
       ("." :: "__romPos" :: class_symbols (linker_symbols_style (doc_settings d)) (used_classes rt (doc_segments d))).
Proof.
  intros Hg Hm. apply gen_normal_inv in Hg. destruct Hg as [s [ws' [E Hw]]].
  apply add_all_segments_inv in E. destruct E as [[Hs _] | [_ [body [E Es]]]]; [congruence|]. subst s w.
  cbn [wo_script]. split.
  - intro x. rewrite <- cnt_count_occ. unfold doc_symbols. rewrite cnt_app, <- (all_defs d rt body ws' E).
    rewrite !defs_app, defs_version, defs_cons, defs_nil. cbn [def_count].
    change (list_sum (map (def_count x) (begin_sections_body (doc_settings d) ++ body ++
                                         end_sections_body (doc_settings d) (doc_vram_classes d) ws')))
      with (defs x (begin_sections_body (doc_settings d) ++ body ++
                    end_sections_body (doc_settings d) (doc_vram_classes d) ws')).
    rewrite !defs_app. lia.
  - rewrite !upds_app, upds_version, upds_cons. cbn [app upd_syms].
    change (flat_map upd_syms (begin_sections_body (doc_settings d) ++ body ++
                               end_sections_body (doc_settings d) (doc_vram_classes d) ws'))
      with (upds (begin_sections_body (doc_settings d) ++ body ++
                  end_sections_body (doc_settings d) (doc_vram_classes d) ws')).
    change (upds []) with (@nil string). rewrite app_nil_r.
    pose proof (all_upds d rt body ws' E) as Hu. rewrite !upds_app in Hu. rewrite !upds_app, <- !app_assoc.
    intros y Hy. specialize (Hu y Hy). destruct Hu as [Hu|[Hu|Hu]]; [left; exact Hu | right; left; exact Hu|].
    right. right. apply in_flat_map in Hu. destruct Hu as [cn [Hcn Hy']].
    exact (class_pair_in d rt cn Hcn y Hy').
Qed.
