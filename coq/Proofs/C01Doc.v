(* C01Doc / C02Doc: the link-level halves of C01 and C02 over a whole generated document.
   Part 1: ROM positions (a corollary of RomChain).  Part 2: the placements of one output section
   in the middle of a statement list (what it places is a block of l_placed; what the rest places
   goes elsewhere).  Part 3: the two output sections of an included segment inside the generated
   script, and the VRAM facts that relate them.  Part 4: conservation and /DISCARD/. *)
From Slinky Require Import Model.Types Model.Generated Model.Runtime Model.Style Model.Script Model.Writer Model.LdSem.
From Slinky Require Import Spec.C17 Spec.C18 Spec.C04 Spec.C03 Spec.C09 Spec.C01 Spec.C05 Spec.C10 Spec.DocLevel Spec.C01Doc.
From Slinky Require Import Proofs.C06 Proofs.C18 Proofs.C17 Proofs.LdLemmas Proofs.C09 Proofs.C01 Proofs.C05 Proofs.C04
                           Proofs.C03 Proofs.C10 Proofs.DocLevel.
From Coq Require Import Lia ZArith Permutation.
Local Open Scope Z_scope.

(* ====================================================================== *)
(* 1. ROM positions never decrease in segment order                        *)
(* ====================================================================== *)

Lemma RomChain_monotone sty st segs : forall r,
  RomChain sty st r segs -> RomMonotone sty st r segs.
Proof.
  induction segs as [|seg rest IH]; intros r H; [exact H|].
  cbn [RomChain] in H. cbv zeta in H. destruct H as [o [_ [_ [_ [Hz [V1 [V2 [V3 Hrest]]]]]]]].
  cbn [RomMonotone]. eexists _, _. split; [exact V1|]. split; [exact V2|]. split; [exact V3|].
  pose proof (align_up_le r (align_z (segment_start_align seg))) as H1.
  pose proof (align_up_le (align_up r (align_z (segment_start_align seg)) + os_size o)
                          (align_z (segment_end_align seg))) as H2.
  split; [exact H1|]. split; [lia|]. apply IH. exact Hrest.
Qed.

(* C02_document_rom_monotone *)
Theorem document_rom_monotone env senv ext final d rt w u :
  gen_normal d rt = Ok w -> doc_link_wf d rt = true ->
  Forall (fun x => 0 <= u_size x) u ->
  let sty := linker_symbols_style (doc_settings d) in
  let segs := included rt (doc_segments d) in
  let st' := exec_script env senv ext final (wo_script w) (init_state u) in
  (forall seg, In seg segs -> ~ In (LForwardRef (alloc_name seg)) (l_errors st')) ->
  RomMonotone sty st' 0 segs.
Proof.
  intros Hg Hwf Hu sty segs st' Herr. apply RomChain_monotone.
  apply (document_rom_chain env senv ext final d rt w u Hg Hwf Hu Herr).
Qed.

Theorem document_rom_monotone_layout d rt w u ext0 :
  gen_normal d rt = Ok w -> doc_link_wf d rt = true ->
  Forall (fun x => 0 <= u_size x) u ->
  let sty := linker_symbols_style (doc_settings d) in
  let segs := included rt (doc_segments d) in
  let st' := layout (wo_script w) u ext0 in
  (forall seg, In seg segs -> ~ In (LForwardRef (alloc_name seg)) (l_errors st')) ->
  RomMonotone sty st' 0 segs.
Proof. intros Hg Hwf Hu sty segs st'. unfold st', layout. apply document_rom_monotone; assumption. Qed.

(* any two included segments, the first before the second in document order *)
Theorem document_rom_pairwise env senv ext final d rt w u l1 a l2 b l3 :
  gen_normal d rt = Ok w -> doc_link_wf d rt = true ->
  Forall (fun x => 0 <= u_size x) u ->
  let sty := linker_symbols_style (doc_settings d) in
  let st' := exec_script env senv ext final (wo_script w) (init_state u) in
  included rt (doc_segments d) = (l1 ++ a :: l2 ++ b :: l3)%list ->
  (forall seg, In seg (included rt (doc_segments d)) -> ~ In (LForwardRef (alloc_name seg)) (l_errors st')) ->
  exists sa ea sb,
    val st' (segment_rom_start sty (sg_name a)) = Some sa /\
    val st' (segment_rom_end sty (sg_name a)) = Some ea /\
    val st' (segment_rom_start sty (sg_name b)) = Some sb /\
    0 <= sa /\ sa <= ea /\ ea <= sb.
Proof.
  intros Hg Hwf Hu sty st' Es Herr.
  destruct (document_rom_chain env senv ext final d rt w u Hg Hwf Hu Herr) as [R _].
  rewrite Es in R. exact (rom_monotone _ _ _ _ _ _ _ _ R).
Qed.

(* ====================================================================== *)
(* 2. the placements of one output section                                 *)
(* ====================================================================== *)

(* a placement made for an input section of [R], in output section [outsec], with its whole range
   inside [lo, hi] *)
Definition in_range (R : list usec) (lo hi : Z) (outsec : string) (p : placement) : Prop :=
  pl_outsec p = outsec /\ placement_within R lo hi p.

Lemma in_range_weaken R R' lo lo' hi hi' outsec p :
  incl R R' -> lo' <= lo -> hi <= hi' -> in_range R lo hi outsec p -> in_range R' lo' hi' outsec p.
Proof.
  intros HR Hlo Hhi [Ho [x [Hx [Hm [H1 H2]]]]]. split; [exact Ho|]. exists x.
  split; [apply HR; exact Hx|]. split; [exact Hm|]. lia.
Qed.

Lemma incl_filter_l {A} (f : A -> bool) l : incl (filter f l) l.
Proof. intros x Hx. apply filter_In in Hx. tauto. Qed.

(* ---------- filtering the placements by output section ---------- *)

Definition in_sec (n : string) (p : placement) : bool := String.eqb (pl_outsec p) n.

Lemma filter_other n l : Forall (fun p => pl_outsec p <> n) l -> filter (in_sec n) l = [].
Proof.
  induction 1 as [|p l Hp Hl IH]; [reflexivity|]. cbn [filter]. unfold in_sec at 1.
  apply String.eqb_neq in Hp. rewrite Hp. exact IH.
Qed.

Lemma filter_same n l : Forall (fun p => pl_outsec p = n) l -> filter (in_sec n) l = l.
Proof.
  induction 1 as [|p l Hp Hl IH]; [reflexivity|]. cbn [filter]. unfold in_sec at 1.
  apply String.eqb_eq in Hp. rewrite Hp, IH. reflexivity.
Qed.

Section Blocks.
  Variables (env : list (string * Z)) (senv : list osec) (ext : list (string * Z)) (final : bool).
  Notation top := (exec_top_stmt env senv ext final).
  Notation runl := (run env senv ext final).
  Notation secs vma sub name := (exec_sec_stmt env senv ext final vma sub name).

  (* ---------- place: one placement per selected section, its whole range between the offsets ---------- *)

  Lemma place_range vma sub outsec l : forall off acc c off' acc' c',
    nonneg_sizes l ->
    place vma sub outsec l off acc c = (off', acc', c') ->
    exists new, acc' = (acc ++ new)%list /\
      Forall2 (fun x p => pl_marker p = u_marker x /\ pl_outsec p = outsec /\
                          vma + off <= pl_addr p /\ pl_addr p + u_size x <= vma + off') l new.
  Proof.
    induction l as [|x r IH]; intros off acc c off' acc' c' Hs H; cbn [place] in H.
    - inversion H; subst. exists []. rewrite app_nil_r. split; [reflexivity | constructor].
    - inversion Hs as [|? ? Hx Hr]; subst.
      set (a := match sub with Some s => s | None => u_align x end) in *.
      set (addr := align_up (vma + off) a) in *.
      assert (Ha : vma + off <= addr) by apply align_up_le.
      destruct (place_spec _ _ _ _ _ _ _ _ _ _ Hr H) as [Hle _].
      destruct (IH _ _ _ _ _ _ Hr H) as [new [Hacc Hall]].
      exists (Placement (u_marker x) addr outsec :: new). rewrite Hacc, <- app_assoc.
      split; [reflexivity|]. constructor.
      + cbn [pl_marker pl_outsec pl_addr]. repeat split; lia.
      + eapply Forall2_impl_in; [|exact Hall]. intros y p _ [H1 [H2 [H3 H4]]]. repeat split; try assumption; lia.
  Qed.

  Lemma Forall2_in_r {A B} (P : A -> B -> Prop) l1 l2 :
    Forall2 P l1 l2 -> Forall (fun b => exists a, In a l1 /\ P a b) l2.
  Proof.
    induction 1 as [|a b l1 l2 Hab Hl IH]; constructor.
    - exists a. split; [left; reflexivity | exact Hab].
    - eapply Forall_impl; [|exact IH]. intros b0 [a0 [Hin Hp]]. exists a0. split; [right; exact Hin | exact Hp].
  Qed.

  (* ---------- one statement of an output section ---------- *)

  Lemma sec_stmt_range vma sub name ss s :
    sizes_ok (s_st ss) ->
    exists new,
      l_placed (s_st (secs vma sub name ss s)) = (l_placed (s_st ss) ++ new)%list /\
      Forall (in_range (l_remaining (s_st ss)) (vma + s_off ss) (vma + s_off (secs vma sub name ss s)) name) new.
  Proof.
    intro Hn.
    destruct (sec_stmt_cases env senv ext final vma sub name ss s)
      as [[p [h [r [sym [e [Es E]]]]]] | [[k [path [member [sect [wild [off' [pls [c [Es [Ep E]]]]]]]]]] | [E _]]].
    - exists []. rewrite E. cbn [s_st]. rewrite Proofs.C04.assign_placed, app_nil_r. split; [reflexivity|constructor].
    - exists pls. rewrite E. cbn [s_st s_off l_placed]. split; [reflexivity|].
      apply place_range in Ep; [|apply Forall_filter; exact Hn].
      destruct Ep as [new [Enew F]]. cbn [app] in Enew. subst pls.
      apply Forall2_in_r in F. eapply Forall_impl; [|exact F].
      intros p [x [Hx [H1 [H2 [H3 H4]]]]]. split; [exact H2|]. exists x.
      split; [eapply incl_filter_l; exact Hx|]. split; [symmetry; exact H1|]. lia.
    - exists []. rewrite E, app_nil_r. split; [reflexivity|constructor].
  Qed.

  Lemma sec_fold_range vma sub name body : forall ss,
    sizes_ok (s_st ss) ->
    exists new,
      l_placed (s_st (fold_left (secs vma sub name) body ss)) = (l_placed (s_st ss) ++ new)%list /\
      Forall (in_range (l_remaining (s_st ss)) (vma + s_off ss)
                       (vma + s_off (fold_left (secs vma sub name) body ss)) name) new.
  Proof.
    induction body as [|s body IH]; intros ss Hn.
    - exists []. cbn [fold_left]. rewrite app_nil_r. split; [reflexivity|constructor].
    - cbn [fold_left].
      destruct (sec_stmt_off env senv ext final vma sub name ss s Hn) as [Ho1 Hn1].
      destruct (sec_stmt_range vma sub name ss s Hn) as [n1 [E1 F1]].
      destruct (IH _ Hn1) as [n2 [E2 F2]].
      pose proof (sec_fold_off env senv ext final vma sub name body _ Hn1) as Ho2.
      destruct (sec_stmt_remaining env senv ext final vma sub name ss s) as [f Ef].
      exists (n1 ++ n2)%list. rewrite E2, E1, app_assoc. split; [reflexivity|].
      apply Forall_app; split; (eapply Forall_impl; [|eassumption]); intros p Hp.
      + apply (in_range_weaken _ _ _ _ _ _ _ _ (incl_refl _)) with (3 := Hp); lia.
      + assert (Hincl : incl (l_remaining (s_st (secs vma sub name ss s))) (l_remaining (s_st ss)))
          by (rewrite Ef; apply incl_filter_l).
        apply (in_range_weaken _ _ _ _ _ _ _ _ Hincl) with (3 := Hp); lia.
  Qed.

  (* ---------- one output section ---------- *)

  Lemma outsec_range name addr at_ noload sub body st vma :
    sizes_ok st ->
    outsec_vma env senv ext addr sub body st = Ok vma ->
    let st' := exec_outsec env senv ext final name addr at_ noload sub body st in
    exists size new lma c,
      0 <= size /\
      l_secs st' = (l_secs st ++ [OSec name vma size lma noload c])%list /\
      l_placed st' = (l_placed st ++ new)%list /\
      Forall (in_range (l_remaining st) vma (vma + size) name) new /\
      nondecreasing (map pl_addr new).
  Proof.
    intros Hn Hv st'.
    destruct (outsec_post env senv ext final name addr at_ noload sub body st vma Hn Hv)
      as (size & new & lma & c & Hz & _ & Hs & Hp & _ & Hmono & _).
    fold st' in Hs, Hp.
    destruct (exec_outsec_ok env senv ext final name addr at_ noload sub body st vma Hv)
      as [_ [_ [_ [Hs' [Hp' _]]]]]. fold st' in Hs', Hp'.
    destruct (sec_fold_range vma (option_map Z.of_N sub) name body (SState 0 false st) Hn) as [new' [En F]].
    cbn [s_st s_off] in En, F. rewrite Z.add_0_r in F.
    change (fold_left (secs vma (option_map Z.of_N sub) name) body (SState 0 false st))
      with (outsec_body env senv ext final name sub body vma st) in En, F.
    rewrite Hp' in Hp. rewrite En in Hp. apply app_inv_head in Hp. subst new'.
    rewrite Hs' in Hs. apply app_inv_head in Hs. inversion Hs as [[Hsize Hlma Hcont]].
    rewrite Hsize in F.
    exists size, new, lma, c. split; [exact Hz|].
    split; [rewrite Hs', Hsize, Hlma, Hcont; reflexivity|].
    split; [rewrite Hp'; exact En|]. split; assumption.
  Qed.

  (* ---------- what the other statements place goes elsewhere ---------- *)

  Lemma top_placed_elsewhere n st s :
    sizes_ok st -> ~ In n (makes_sec s) ->
    exists new, l_placed (top st s) = (l_placed st ++ new)%list /\ Forall (fun p => pl_outsec p <> n) new.
  Proof.
    intros Hn Hs.
    assert (Hsame : l_placed (top st s) = l_placed st ->
                    exists new, l_placed (top st s) = (l_placed st ++ new)%list /\
                                Forall (fun p => pl_outsec p <> n) new).
    { intro E. exists []. rewrite app_nil_r. split; [exact E | constructor]. }
    destruct s; try (apply Hsame; reflexivity); cbn [exec_top_stmt].
    - apply Hsame. cbn [exec_top_stmt]. destruct (String.eqb sym ".").
      + destruct (eval_expr env senv ext st (l_dot st) e); reflexivity.
      + apply Proofs.C04.assign_placed.
    - apply Hsame. cbn [exec_top_stmt]. destruct (String.eqb sym "."); [reflexivity|].
      destruct (sym_lookup sym st env ext); reflexivity.
    - apply Hsame. cbn [exec_top_stmt].
      destruct (sym_lookup sym st env ext); [destruct (sym_lookup other st env ext)|];
        try (destruct final; reflexivity).
    - apply Hsame. cbn [exec_top_stmt].
      destruct (sym_lookup "__romPos" st env ext); [destruct (sec_lookup sec st senv)|];
        try (destruct final; reflexivity).
    - destruct (outsec_vma env senv ext addr sub body st) as [vma|e] eqn:E.
      + destruct (outsec_range name addr at_ noload sub body st vma Hn E)
          as (size & new & lma & c & _ & _ & Hp & F & _).
        exists new. split; [exact Hp|]. eapply Forall_impl; [|exact F].
        intros p [Ho _] Hbad. apply Hs. left. congruence.
      + rewrite (exec_outsec_err _ _ _ _ _ _ _ _ _ _ _ _ E). exists []. rewrite app_nil_r.
        split; [reflexivity | constructor].
    - destruct (place 0 None sect (filter (sel true "" None sect false) (l_remaining st)) 0 [] false)
        as [[off' pls] c] eqn:E.
      exists pls. split; [reflexivity|].
      apply place_spec in E; [|apply Forall_filter; exact Hn].
      destruct E as [_ [new [Enew [_ F]]]]. cbn [app] in Enew. subst pls.
      eapply Forall_impl; [|exact F]. intros p [_ [_ Ho]] Hbad. apply Hs. left. congruence.
    - apply Hsame. cbn [exec_top_stmt].
      destruct (eval_raw env ext st cond) as [v|e]; [destruct (v =? 0); reflexivity|].
      destruct e; destruct final; reflexivity.
  Qed.

  Lemma run_placed_elsewhere n l : forall st,
    sizes_ok st -> ~ In n (flat_map makes_sec l) ->
    exists new, l_placed (runl l st) = (l_placed st ++ new)%list /\ Forall (fun p => pl_outsec p <> n) new.
  Proof.
    induction l as [|s l IH]; intros st Hn Hs.
    - exists []. rewrite app_nil_r. split; [reflexivity | constructor].
    - rewrite run_cons. cbn [flat_map] in Hs.
      destruct (top_placed_elsewhere n st s Hn) as [n1 [E1 F1]].
      { intro Hin. apply Hs. apply in_or_app. left. exact Hin. }
      destruct (IH (top st s)) as [n2 [E2 F2]].
      { change (top st s) with (runl [s] st). apply run_remaining_Forall. exact Hn. }
      { intro Hin. apply Hs. apply in_or_app. right. exact Hin. }
      exists (n1 ++ n2)%list. rewrite E2, E1, app_assoc. split; [reflexivity|].
      apply Forall_app. split; assumption.
  Qed.

  (* ---------- one output section in the middle of a statement list ---------- *)

  Lemma outsec_block name addr at_ noload sub body A B st0 :
    let O := SOutSec name addr at_ noload sub body in
    let L := (A ++ O :: B)%list in
    sizes_ok st0 ->
    Forall (fun p => pl_outsec p <> name) (l_placed st0) ->
    find_sec name (l_secs st0) = None ->
    ~ In name (flat_map makes_sec A) -> ~ In name (flat_map makes_sec B) ->
    (forall e, outsec_vma env senv ext addr sub body (runl A st0) <> Err e) ->
    let st' := runl L st0 in
    exists o, find_sec name (l_secs st') = Some o /\ os_noload o = noload /\ 0 <= os_size o /\
      Forall (in_range (l_remaining st0) (os_vma o) (os_vma o + os_size o) name) (placed_in name st') /\
      nondecreasing (map pl_addr (placed_in name st')).
  Proof.
    intros O L Hn Hp0 Hf0 HA HB Hvma st'.
    set (stA := runl A st0) in *.
    assert (HnA : sizes_ok stA) by (apply run_remaining_Forall; exact Hn).
    destruct (outsec_vma env senv ext addr sub body stA) as [vma|e] eqn:Ev; [|exfalso; eapply Hvma; reflexivity].
    destruct (run_placed_elsewhere name A st0 Hn HA) as [nA [EA FA]]. fold stA in EA.
    destruct (outsec_range name addr at_ noload sub body stA vma HnA Ev)
      as (size & new & lma & c & Hz & Hs & Hp & F & Hmono).
    set (stO := exec_outsec env senv ext final name addr at_ noload sub body stA) in *.
    assert (HnO : sizes_ok stO).
    { change stO with (runl [O] stA). apply run_remaining_Forall. exact HnA. }
    destruct (run_placed_elsewhere name B stO HnO HB) as [nB [EB FB]].
    assert (Est' : st' = runl B stO) by (unfold st', L; rewrite run_app, run_cons; reflexivity).
    destruct (run_secs env senv ext final B stO) as [newsec [En _]].
    assert (HfA : find_sec name (l_secs stA) = None) by (apply run_find_sec_none; assumption).
    assert (Hpl : placed_in name st' = new).
    { unfold placed_in. change (fun p => String.eqb (pl_outsec p) name) with (in_sec name).
      rewrite Est', EB, Hp, EA, !filter_app, (filter_other _ _ Hp0), (filter_other _ _ FA), (filter_other _ _ FB).
      cbn [app]. rewrite app_nil_r. apply filter_same.
      eapply Forall_impl; [|exact F]. intros p [Ho _]. exact Ho. }
    exists (OSec name vma size lma noload c). cbn [os_noload os_vma os_size].
    split.
    { rewrite Est', En, Hs. apply find_sec_app. rewrite find_sec_app_none by exact HfA.
      unfold find_sec. cbn [find os_name]. rewrite String.eqb_refl. reflexivity. }
    split; [reflexivity|]. split; [exact Hz|]. rewrite Hpl. split; [|exact Hmono].
    eapply Forall_impl; [|exact F]. intros p Hp1.
    eapply in_range_weaken; [| | |exact Hp1]; try lia.
    destruct (run_remaining env senv ext final A st0) as [f Ef]. fold stA in Ef. rewrite Ef. apply incl_filter_l.
  Qed.
End Blocks.

(* ====================================================================== *)
(* 3. the two output sections of an included segment                       *)
(* ====================================================================== *)

(* ---------- which output sections the generated statements create ---------- *)

Lemma makes_sec_fold rt stg cfg classes segs : forall ws body ws',
  fold_out (add_segment rt stg cfg classes) segs ws = Ok (body, ws') ->
  flat_map makes_sec body = out_names (included rt segs).
Proof.
  induction segs as [|seg r IH]; intros ws body ws' H.
  - apply fold_out_nil in H. destruct H; subst. reflexivity.
  - apply fold_out_cons in H. destruct H as [s1 [ws1 [s2 [E1 [E2 E]]]]]. subst body.
    rewrite flat_map_app, (makes_sec_add_segment _ _ _ _ _ _ _ _ E1), (IH _ _ _ E2).
    unfold included. cbn [filter]. destruct (should_emit rt (sg_conds seg)); reflexivity.
Qed.

Lemma makes_sec_sep_concat parts :
  flat_map makes_sec (sep_concat parts) = flat_map makes_sec (List.concat parts).
Proof.
  induction parts as [|p r IH]; [reflexivity|]. cbn [sep_concat List.concat]. rewrite flat_map_app.
  destruct p as [|x p]; [exact IH|]. rewrite flat_map_app. f_equal. rewrite <- IH.
  destruct (sep_concat r); reflexivity.
Qed.

Lemma makes_sec_single l : flat_map makes_sec (map SSingleEntry l) = l.
Proof. induction l as [|x l IH]; [reflexivity|]. cbn [map flat_map makes_sec app]. rewrite IH. reflexivity. Qed.

Lemma makes_sec_end_sections stg classes ws :
  flat_map makes_sec (end_sections_body stg classes ws) = aux_section_names stg.
Proof.
  rewrite end_sections_layout, makes_sec_sep_concat. cbn [List.concat]. rewrite !flat_map_app.
  unfold tail_allow, tail_extra. rewrite !makes_sec_single.
  assert (H1 : flat_map makes_sec (tail_sizes stg classes ws) = []).
  { unfold tail_sizes. induction (emitted_classes classes ws) as [|c l IH]; [reflexivity|]. exact IH. }
  assert (H2 : flat_map makes_sec (tail_discard stg) = []).
  { unfold tail_discard. destruct (orb _ _); reflexivity. }
  rewrite H1, H2. cbn [app flat_map]. rewrite app_nil_r. reflexivity.
Qed.

Lemma flat_map_nil_Forall {A B} (f : A -> list B) l : Forall (fun x => f x = []) l -> flat_map f l = [].
Proof. induction 1 as [|x l Hx Hl IH]; [reflexivity|]. cbn [flat_map]. rewrite Hx, IH. reflexivity. Qed.

Lemma makes_sec_tail rt d : flat_map makes_sec (tail_stmts rt d) = [].
Proof.
  unfold tail_stmts, entry_stmts, assignment_stmts, required_stmts, assert_stmts.
  rewrite !flat_map_app.
  assert (H1 : flat_map makes_sec (match doc_entry d with Some s => [SBlank; SEntry s] | None => [] end) = [])
    by (destruct (doc_entry d); reflexivity).
  rewrite H1. clear H1. cbn [app].
  assert (H2 : forall {A} (l : list A) (f : A -> list stmt),
             (forall a, flat_map makes_sec (f a) = []) ->
             flat_map makes_sec (match l with [] => [] | _ :: _ => SBlank :: flat_map f l end) = []).
  { intros A l f Hf. destruct l as [|a0 l0]; [reflexivity|].
    change (flat_map makes_sec (SBlank :: flat_map f (a0 :: l0)))
      with (flat_map makes_sec (flat_map f (a0 :: l0))).
    generalize (a0 :: l0). intro l. induction l as [|a l IH]; [reflexivity|].
    cbn [flat_map]. rewrite flat_map_app, Hf, IH. reflexivity. }
  rewrite !H2; [reflexivity | | |]; intro a.
  - destruct (should_emit rt (ae_conds a)); reflexivity.
  - destruct (should_emit rt (rq_conds a)); reflexivity.
  - destruct (should_emit rt (sa_conds a)); reflexivity.
Qed.

(* ---------- a name that occurs once ---------- *)

Lemma once_split (a : string) l1 l2 X Y :
  NoDup l1 -> In a l1 -> ~ In a l2 -> (l1 ++ l2 = X ++ a :: Y)%list -> ~ In a X /\ ~ In a Y.
Proof.
  intros Hnd Hin Hout E.
  assert (Hc : count_occ string_dec (l1 ++ l2) a = 1%nat).
  { rewrite count_occ_app. rewrite (proj1 (count_occ_not_In string_dec l2 a) Hout).
    pose proof (proj1 (NoDup_count_occ string_dec l1) Hnd a) as Hle.
    pose proof (proj1 (count_occ_In string_dec l1 a) Hin) as Hge. lia. }
  rewrite E, count_occ_app in Hc. cbn [count_occ] in Hc. destruct (string_dec a a) as [_|Hne]; [|congruence].
  split; apply (count_occ_not_In string_dec); lia.
Qed.

Lemma fresh_names d rt n :
  doc_outsecs_fresh d rt = true -> In n (out_names (included rt (doc_segments d))) ->
  ~ In n (aux_section_names (doc_settings d)).
Proof.
  unfold doc_outsecs_fresh. intros H Hin Hbad. rewrite forallb_forall in H. specialize (H n Hin).
  apply negb_true_iff in H. apply mem_str_in in Hbad. congruence.
Qed.

(* ---------- the VRAM facts of one segment of the chain ---------- *)

Lemma VramChain_in sty senv st seg segs : forall dt,
  VramChain sty senv st dt segs -> In seg segs ->
  exists o1 o2 ve,
    find_sec (alloc_name seg) (l_secs st) = Some o1 /\
    find_sec (noload_name seg) (l_secs st) = Some o2 /\
    val st (segment_vram_end sty (sg_name seg)) = Some ve /\
    0 <= os_size o1 /\ 0 <= os_size o2 /\
    os_vma o1 + os_size o1 <= os_vma o2 /\ os_vma o2 + os_size o2 <= ve.
Proof.
  induction segs as [|x rest IH]; intros dt H Hin; [contradiction|].
  cbn [VramChain] in H. cbv zeta in H.
  destruct H as (o1 & o2 & A2 & F1 & F2 & N1 & Z1 & N2 & C2 & Z2 & V2 & L2 & VE & VZ & VS & DS & Hrest).
  destruct Hin as [Ex|Hin].
  - subst x. exists o1, o2. eexists. split; [exact F1|]. split; [exact F2|]. split; [exact VE|].
    split; [exact Z1|]. split; [exact Z2|]. split; [exact L2|]. apply align_up_le.
  - eapply IH; eassumption.
Qed.

Section DocBlocks.
  Variables (env : list (string * Z)) (senv : list osec) (ext : list (string * Z)) (final : bool).
  Notation runl := (run env senv ext final).

  (* the placements of both output sections of an included segment; error condition: no LForwardRef
     for the allocatable section of THIS segment *)
  Theorem document_blocks d rt w u seg :
    gen_normal d rt = Ok w -> doc_link_wf d rt = true -> doc_outsecs_fresh d rt = true ->
    Forall (fun x => 0 <= u_size x) u ->
    In seg (included rt (doc_segments d)) ->
    let st' := exec_script env senv ext final (wo_script w) (init_state u) in
    ~ In (LForwardRef (alloc_name seg)) (l_errors st') ->
    (exists o, find_sec (alloc_name seg) (l_secs st') = Some o /\ os_noload o = false /\ 0 <= os_size o /\
       Forall (in_range u (os_vma o) (os_vma o + os_size o) (alloc_name seg)) (placed_in (alloc_name seg) st') /\
       nondecreasing (map pl_addr (placed_in (alloc_name seg) st'))) /\
    (exists o, find_sec (noload_name seg) (l_secs st') = Some o /\ os_noload o = true /\ 0 <= os_size o /\
       Forall (in_range u (os_vma o) (os_vma o + os_size o) (noload_name seg)) (placed_in (noload_name seg) st') /\
       nondecreasing (map pl_addr (placed_in (noload_name seg) st'))).
  Proof.
    intros Hg Hwf Hfresh Hu Hin st' Herr.
    destruct (doc_exec d rt w Hg Hwf) as (body & ws' & E & Hnd & _ & _ & _ & Hexec).
    set (stg := doc_settings d) in *. set (classes := doc_vram_classes d) in *.
    set (sty := linker_symbols_style stg) in *.
    set (fin := (end_sections_body stg classes ws' ++ tail_stmts rt d)%list) in *.
    unfold st' in *. rewrite Hexec in *. clear Hexec st'.
    destruct (fold_segment_split _ _ _ _ _ _ _ _ _ E Hin Hnd) as (b1 & wsa & s1 & wsb & b2 & Ea & Eb & _ & _).
    assert (Hina : In (alloc_name seg) (out_names (included rt (doc_segments d)))).
    { unfold out_names. apply in_flat_map. exists seg. split; [exact Hin | left; reflexivity]. }
    assert (Hinb : In (noload_name seg) (out_names (included rt (doc_segments d)))).
    { unfold out_names. apply in_flat_map. exists seg. split; [exact Hin | right; left; reflexivity]. }
    apply filter_In in Hin. destruct Hin as [_ Hc].
    apply add_segment_inv in Ea.
    destruct Ea as [[Hc' _] | [_ [cls [ws1 [s1a [ws2 [s2a [Ec [E1 [E2 Es1]]]]]]]]]]; [congruence|].
    apply write_segment_inv in E1. destruct E1 as [body1 [Hg1 E1]]. rewrite alloc_name_outsec in E1.
    apply write_segment_inv in E2. destruct E2 as [body2 [Hg2 E2]]. rewrite noload_name_outsec in E2.
    fold sty in E1, E2.
    set (ks := sections_kind_start sty cfg_normal seg false) in *.
    set (ke := sections_kind_end sty cfg_normal seg false) in *.
    set (ks2 := sections_kind_start sty cfg_normal seg true) in *.
    set (ke2 := sections_kind_end sty cfg_normal seg true) in *.
    set (O1 := SOutSec (alloc_name seg) (segment_addr sty seg) (Some (segment_rom_start sty (sg_name seg))) false
                       (subalign seg) (opt_fill seg ++ body1)) in *.
    set (O2 := SOutSec (noload_name seg) None None true (subalign seg) (opt_fill seg ++ body2)) in *.
    set (all := (begin_sections_body stg ++ body ++ fin)%list) in *.
    set (A1 := (begin_sections_body stg ++ b1 ++ cls ++ seg_head stg seg ++ ks)%list).
    set (B1 := (ke ++ [SBlank] ++ s2a ++ [SBlank] ++ seg_foot stg seg ++ b2 ++ fin)%list).
    set (A2 := (begin_sections_body stg ++ b1 ++ cls ++ seg_head stg seg ++ s1a ++ [SBlank] ++ ks2)%list).
    set (B2 := (ke2 ++ [SBlank] ++ seg_foot stg seg ++ b2 ++ fin)%list).
    assert (EL1 : all = (A1 ++ O1 :: B1)%list).
    { unfold all, A1, B1. rewrite Eb, Es1, E1. repeat (rewrite <- app_assoc; cbn [app]). reflexivity. }
    assert (EL2 : all = (A2 ++ O2 :: B2)%list).
    { unfold all, A2, B2. rewrite Eb, Es1, E2. repeat (rewrite <- app_assoc; cbn [app]). reflexivity. }
    (* the output sections the whole list creates: those of the included segments, then the auxiliary ones *)
    assert (Hmk : flat_map makes_sec all =
                  (out_names (included rt (doc_segments d)) ++ aux_section_names stg)%list).
    { unfold all, fin. rewrite !flat_map_app, makes_sec_begin, (makes_sec_fold _ _ _ _ _ _ _ _ E),
        makes_sec_end_sections, makes_sec_tail, app_nil_r. reflexivity. }
    assert (Hs1 : ~ In (alloc_name seg) (flat_map makes_sec A1) /\ ~ In (alloc_name seg) (flat_map makes_sec B1)).
    { apply (once_split (alloc_name seg) (out_names (included rt (doc_segments d))) (aux_section_names stg));
        [exact Hnd | exact Hina | apply (fresh_names d rt _ Hfresh Hina) |].
      rewrite <- Hmk, EL1, flat_map_app. reflexivity. }
    assert (Hs2 : ~ In (noload_name seg) (flat_map makes_sec A2) /\ ~ In (noload_name seg) (flat_map makes_sec B2)).
    { apply (once_split (noload_name seg) (out_names (included rt (doc_segments d))) (aux_section_names stg));
        [exact Hnd | exact Hinb | apply (fresh_names d rt _ Hfresh Hinb) |].
      rewrite <- Hmk, EL2, flat_map_app. reflexivity. }
    split.
    - rewrite EL1 in Herr |- *.
      apply (outsec_block env senv ext final (alloc_name seg) (segment_addr sty seg)
                          (Some (segment_rom_start sty (sg_name seg))) false (subalign seg) (opt_fill seg ++ body1)
                          A1 B1 (init_state u)).
      + exact Hu.
      + constructor.
      + reflexivity.
      + apply Hs1.
      + apply Hs1.
      + intros e Ev. apply Herr. rewrite run_app, run_cons. apply run_errors_in.
        unfold O1. cbn [exec_top_stmt]. rewrite (exec_outsec_err _ _ _ _ _ _ _ _ _ _ _ _ Ev).
        cbn [add_err l_errors]. apply in_or_app. right. left. reflexivity.
    - rewrite EL2.
      apply (outsec_block env senv ext final (noload_name seg) None None true (subalign seg) (opt_fill seg ++ body2)
                          A2 B2 (init_state u)).
      + exact Hu.
      + constructor.
      + reflexivity.
      + apply Hs2.
      + apply Hs2.
      + intros e Ev. cbn [outsec_vma] in Ev. discriminate Ev.
  Qed.

  Lemma in_range_within R lo hi n l :
    Forall (in_range R lo hi n) l -> Forall (placement_within R lo hi) l.
  Proof. intro H. eapply Forall_impl; [|exact H]. intros p [_ Hp]. exact Hp. Qed.

  Lemma within_weaken R lo lo' hi hi' l :
    lo' <= lo -> hi <= hi' -> Forall (placement_within R lo hi) l -> Forall (placement_within R lo' hi') l.
  Proof.
    intros H1 H2 H. eapply Forall_impl; [|exact H]. intros p [x [Hx [Hm [A B]]]]. exists x.
    split; [exact Hx|]. split; [exact Hm|]. lia.
  Qed.

  (* C01_document_in_segment_range *)
  Theorem document_in_segment_range d rt w u seg :
    gen_normal d rt = Ok w -> doc_link_wf d rt = true -> doc_outsecs_fresh d rt = true ->
    Forall (fun x => 0 <= u_size x) u ->
    In seg (included rt (doc_segments d)) ->
    let sty := linker_symbols_style (doc_settings d) in
    let st' := exec_script env senv ext final (wo_script w) (init_state u) in
    (forall s, In s (included rt (doc_segments d)) -> ~ In (LForwardRef (alloc_name s)) (l_errors st')) ->
    InSegmentRange sty u st' seg.
  Proof.
    intros Hg Hwf Hfresh Hu Hin sty st' Herr.
    destruct (document_vram env senv ext final d rt w u Hg Hwf Hu Herr) as [V _].
    destruct (VramChain_in _ _ _ seg _ _ V Hin) as (o1 & o2 & ve & F1 & F2 & VE & Z1 & Z2 & L1 & L2).
    destruct (document_blocks d rt w u seg Hg Hwf Hfresh Hu Hin (Herr seg Hin))
      as [(o1' & F1' & _ & _ & R1 & _) (o2' & F2' & _ & _ & R2 & _)].
    fold st' in F1', F2', R1, R2. fold st' sty in F1, F2, VE.
    rewrite F1 in F1'. inversion F1'; subst o1'. rewrite F2 in F2'. inversion F2'; subst o2'.
    apply in_range_within in R1. apply in_range_within in R2.
    exists o1, o2, ve. repeat (split; [assumption|]).
    apply Forall_app. split.
    - eapply within_weaken; [| |exact R1]; lia.
    - eapply within_weaken; [| |exact R2]; lia.
  Qed.

  (* C02_document_vram_order_within_segment *)
  Theorem document_vram_order d rt w u seg :
    gen_normal d rt = Ok w -> doc_link_wf d rt = true -> doc_outsecs_fresh d rt = true ->
    Forall (fun x => 0 <= u_size x) u ->
    In seg (included rt (doc_segments d)) ->
    let st' := exec_script env senv ext final (wo_script w) (init_state u) in
    (forall s, In s (included rt (doc_segments d)) -> ~ In (LForwardRef (alloc_name s)) (l_errors st')) ->
    VramOrderWithin st' seg.
  Proof.
    intros Hg Hwf Hfresh Hu Hin st' Herr.
    destruct (document_in_segment_range d rt w u seg Hg Hwf Hfresh Hu Hin Herr)
      as (o1 & o2 & ve & F1 & F2 & VE & Z1 & Z2 & L1 & L2 & R1 & R2 & _).
    fold st' in F1, F2, R1, R2.
    destruct (document_blocks d rt w u seg Hg Hwf Hfresh Hu Hin (Herr seg Hin))
      as [(o1' & _ & _ & _ & _ & M1) (o2' & _ & _ & _ & _ & M2)].
    split; [exact M1|]. split; [exact M2|].
    intros p q Hp Hq. rewrite Forall_forall in R1, R2.
    destruct (R1 p Hp) as [x [Hx [_ [A1 B1]]]]. destruct (R2 q Hq) as [y [_ [_ [A2 _]]]].
    rewrite Forall_forall in Hu. specialize (Hu x Hx). cbv beta in Hu. lia.
  Qed.

  (* the monotone part alone needs the error condition for this segment only *)
  Theorem document_vram_order_sections d rt w u seg :
    gen_normal d rt = Ok w -> doc_link_wf d rt = true -> doc_outsecs_fresh d rt = true ->
    Forall (fun x => 0 <= u_size x) u ->
    In seg (included rt (doc_segments d)) ->
    let st' := exec_script env senv ext final (wo_script w) (init_state u) in
    ~ In (LForwardRef (alloc_name seg)) (l_errors st') ->
    nondecreasing (map pl_addr (placed_in (alloc_name seg) st')) /\
    nondecreasing (map pl_addr (placed_in (noload_name seg) st')).
  Proof.
    intros Hg Hwf Hfresh Hu Hin st' Herr.
    destruct (document_blocks d rt w u seg Hg Hwf Hfresh Hu Hin Herr)
      as [(o1' & _ & _ & _ & _ & M1) (o2' & _ & _ & _ & _ & M2)].
    split; assumption.
  Qed.
End DocBlocks.

Theorem document_in_segment_range_layout d rt w u ext0 seg :
  gen_normal d rt = Ok w -> doc_link_wf d rt = true -> doc_outsecs_fresh d rt = true ->
  Forall (fun x => 0 <= u_size x) u ->
  In seg (included rt (doc_segments d)) ->
  let sty := linker_symbols_style (doc_settings d) in
  let st' := layout (wo_script w) u ext0 in
  (forall s, In s (included rt (doc_segments d)) -> ~ In (LForwardRef (alloc_name s)) (l_errors st')) ->
  InSegmentRange sty u st' seg.
Proof.
  intros Hg Hwf Hfresh Hu Hin sty st'. unfold st', layout. apply document_in_segment_range; assumption.
Qed.

Theorem document_vram_order_layout d rt w u ext0 seg :
  gen_normal d rt = Ok w -> doc_link_wf d rt = true -> doc_outsecs_fresh d rt = true ->
  Forall (fun x => 0 <= u_size x) u ->
  In seg (included rt (doc_segments d)) ->
  let st' := layout (wo_script w) u ext0 in
  (forall s, In s (included rt (doc_segments d)) -> ~ In (LForwardRef (alloc_name s)) (l_errors st')) ->
  VramOrderWithin st' seg.
Proof.
  intros Hg Hwf Hfresh Hu Hin st'. unfold st', layout. apply document_vram_order; assumption.
Qed.

(* ====================================================================== *)
(* 4. conservation; nothing is left as an orphan                           *)
(* ====================================================================== *)

Lemma all_markers_init u : all_markers (init_state u) = map u_marker u.
Proof. reflexivity. Qed.

(* for ANY script: the markers of the final state are those of the universe *)
Theorem layout_conservation script u ext0 :
  Permutation (all_markers (layout script u ext0)) (map u_marker u).
Proof. unfold layout. rewrite <- all_markers_init. apply script_conserves. Qed.

Lemma NoDup_app_l {A} (l1 l2 : list A) : NoDup (l1 ++ l2) -> NoDup l1.
Proof.
  induction l1 as [|a l1 IH]; intro H; [constructor|]. inversion H as [|? ? Hn Hr]; subst.
  constructor; [intro Hin; apply Hn; apply in_or_app; left; exact Hin | apply IH; exact Hr].
Qed.

Lemma NoDup_app_disjoint {A} (l1 l2 : list A) x : NoDup (l1 ++ l2) -> In x l1 -> ~ In x l2.
Proof.
  induction l1 as [|a l1 IH]; intros H Hin; [contradiction|]. inversion H as [|? ? Hn Hr]; subst.
  destruct Hin as [Ex|Hin]; [subst a; intro Hbad; apply Hn; apply in_or_app; right; exact Hbad | apply IH; assumption].
Qed.

(* markers pairwise different: every input section is in exactly one of the three places *)
Theorem layout_exactly_one script u ext0 x :
  NoDup (map u_marker u) -> In x u ->
  let st' := layout script u ext0 in
  ExactlyOne (is_placed st' (u_marker x)) (is_discarded st' (u_marker x)) (is_orphan st' (u_marker x)).
Proof.
  intros Hnd Hx st'.
  pose proof (layout_conservation script u ext0) as HP. fold st' in HP.
  assert (N : NoDup (all_markers st')).
  { eapply Permutation_NoDup; [apply Permutation_sym; exact HP | exact Hnd]. }
  assert (Hin : In (u_marker x) (all_markers st')).
  { eapply Permutation_in; [apply Permutation_sym; exact HP | apply in_map; exact Hx]. }
  unfold all_markers in N, Hin. unfold ExactlyOne, is_placed, is_discarded, is_orphan.
  set (m := u_marker x) in *. set (P := map pl_marker (l_placed st')) in *.
  set (D := l_discarded st') in *. set (R := map u_marker (l_remaining st')) in *.
  assert (N2 : NoDup (D ++ R)).
  { clear - N. induction P as [|a P IH]; [exact N|]. inversion N; subst. apply IH. assumption. }
  assert (HPn : In m P -> ~ In m (D ++ R)) by (apply NoDup_app_disjoint; exact N).
  assert (HDn : In m D -> ~ In m R) by (apply NoDup_app_disjoint; exact N2).
  apply in_app_or in Hin. destruct Hin as [Hin|Hin].
  - left. specialize (HPn Hin). split; [exact Hin|]. split; intro Hbad; apply HPn; apply in_or_app; auto.
  - assert (HnP : ~ In m P).
    { intro Hbad. apply (HPn Hbad). exact Hin. }
    apply in_app_or in Hin. destruct Hin as [Hin|Hin].
    + right; left. split; [exact HnP|]. split; [exact Hin | apply HDn; exact Hin].
    + right; right. split; [exact HnP|]. split; [|exact Hin]. intro Hbad. apply (HDn Hbad). exact Hin.
Qed.

(* ---------- the wildcard of the DISCARD block leaves nothing waiting ---------- *)

Lemma end_sections_discard stg classes ws :
  discard_wildcard_section stg = true ->
  exists pre, end_sections_body stg classes ws = (pre ++ [SDiscard (sections_denylist stg) true])%list.
Proof.
  intro H. unfold end_sections_body. cbv zeta. rewrite H. cbn [orb].
  eexists. rewrite !app_assoc. reflexivity.
Qed.

Lemma filter_false_nil {A} (l : list A) : filter (fun _ => false) l = [].
Proof. induction l as [|a l IH]; [reflexivity | exact IH]. Qed.

Section Discard.
  Variables (env : list (string * Z)) (senv : list osec) (ext : list (string * Z)) (final : bool).
  Notation runl := (run env senv ext final).

  Lemma run_remaining_nil l st : l_remaining st = [] -> l_remaining (runl l st) = [].
  Proof. intro H. destruct (run_remaining env senv ext final l st) as [f E]. rewrite E, H. reflexivity. Qed.

  Lemma discard_all_remaining pats st :
    l_remaining (exec_top_stmt env senv ext final st (SDiscard pats true)) = [].
  Proof.
    cbn [exec_top_stmt l_remaining].
    rewrite (filter_ext _ (fun _ => false)); [apply filter_false_nil|].
    intro a. rewrite orb_true_r. reflexivity.
  Qed.

  (* both modes of the generator *)
  Theorem document_no_orphan d rt w st :
    gen_normal d rt = Ok w -> discard_wildcard_section (doc_settings d) = true ->
    l_remaining (exec_script env senv ext final (wo_script w) st) = [].
  Proof.
    intros Hg Hd. apply gen_normal_inv in Hg. destruct Hg as [s [ws' [E Hw]]]. subst w. cbn [wo_script].
    assert (Hs : exists X, s = [SSections (X ++ [SDiscard (sections_denylist (doc_settings d)) true])]).
    { apply add_all_segments_inv in E. destruct E as [[_ [seg [_ E]]] | [_ [body [_ E]]]].
      - apply add_single_segment_inv in E. destruct E as [s1 [ws1 [s2 [_ [_ E]]]]]. subst s.
        destruct (end_sections_discard (doc_settings d) (doc_vram_classes d) ws' Hd) as [pre Ep]. rewrite Ep.
        eexists. rewrite !app_assoc. reflexivity.
      - subst s. destruct (end_sections_discard (doc_settings d) (doc_vram_classes d) ws' Hd) as [pre Ep].
        rewrite Ep. eexists. rewrite !app_assoc. reflexivity. }
    destruct Hs as [X Es]. subst s.
    rewrite exec_sections_script, run_app. apply run_remaining_nil.
    change (runl [SDiscard (sections_denylist (doc_settings d)) true] (runl X st))
      with (exec_top_stmt env senv ext final (runl X st) (SDiscard (sections_denylist (doc_settings d)) true)).
    apply discard_all_remaining.
  Qed.
End Discard.

Theorem document_no_orphan_layout d rt w u ext0 :
  gen_normal d rt = Ok w -> discard_wildcard_section (doc_settings d) = true ->
  l_remaining (layout (wo_script w) u ext0) = [].
Proof. intros Hg Hd. unfold layout. apply (document_no_orphan _ _ _ _ d rt w _ Hg Hd). Qed.

(* hence every input section of the universe is placed or discarded *)
Theorem document_placed_or_discarded d rt w u ext0 x :
  gen_normal d rt = Ok w -> discard_wildcard_section (doc_settings d) = true -> In x u ->
  let st' := layout (wo_script w) u ext0 in
  is_placed st' (u_marker x) \/ is_discarded st' (u_marker x).
Proof.
  intros Hg Hd Hx st'.
  pose proof (layout_conservation (wo_script w) u ext0) as HP. fold st' in HP.
  assert (Hin : In (u_marker x) (all_markers st')).
  { eapply Permutation_in; [apply Permutation_sym; exact HP | apply in_map; exact Hx]. }
  unfold all_markers in Hin. unfold st' in Hin. rewrite (document_no_orphan_layout d rt w u ext0 Hg Hd) in Hin.
  cbn [map] in Hin. rewrite app_nil_r in Hin. apply in_app_or in Hin. exact Hin.
Qed.

(* ====================================================================== *)
(* 5. the side condition doc_outsecs_fresh is needed                       *)
(* ====================================================================== *)

Local Open Scope string_scope.

Lemma refuted_allowlist_name :
  doc_link_wf clash_doc ex_rt = true /\ doc_outsecs_fresh clash_doc ex_rt = false /\
  exists w, gen_normal clash_doc ex_rt = Ok w /\
    let st := layout (wo_script w) clash_universe [] in
    l_errors st = [] /\
    map (fun p => (pl_marker p, pl_addr p)) (placed_in ".mdebug" st) =
      [("a_text", 2148532224); ("z_mdebug", 0)] /\
    map (fun o => (os_name o, os_vma o, os_size o)) (firstn 3 (l_secs st)) =
      [(".mdebug", 2148532224, 24); (".mdebug.noload", 2148532248, 0); (".mdebug", 0, 8)].
Proof.
  split; [vm_compute; reflexivity|]. split; [vm_compute; reflexivity|].
  eexists. split; [vm_compute; reflexivity|]. vm_compute. repeat split; reflexivity.
Qed.

Lemma refuted_allowlist_name_range :
  doc_link_wf clash_doc ex_rt = true /\ doc_outsecs_fresh clash_doc ex_rt = false /\
  exists w, gen_normal clash_doc ex_rt = Ok w /\
    let st := layout (wo_script w) clash_universe [] in
    l_errors st = [] /\
    option_map (fun o => (os_vma o, os_size o)) (find_sec ".mdebug" (l_secs st)) = Some (2148532224, 24) /\
    map (fun p => (pl_marker p, pl_addr p)) (placed_in ".mdebug" st) =
      [("a_text", 2148532224); ("z_mdebug", 0)].
Proof.
  split; [vm_compute; reflexivity|]. split; [vm_compute; reflexivity|].
  eexists. split; [vm_compute; reflexivity|]. vm_compute. repeat split; reflexivity.
Qed.
